package main

// Enumeration of the array-method cases and their expected outcomes.

import (
	"fmt"
	"strconv"
	"strings"
)

// atoms is the concretisation chosen by the seed: it only renames the values of the pools.
type atoms struct {
	I1 int    `json:"i1"`
	I2 int    `json:"i2"`
	S  string `json:"s"`
	Lo string `json:"lo"` // lower-case ASCII letter of the string alphabet
	Up string `json:"up"` // upper-case ASCII letter (a different letter)
	MB string `json:"mb"` // multi-byte character
}

func atomsFor(seed int64) atoms {
	k := int(((seed % 4) + 4) % 4)
	mb := []string{"é", "ü", "я", "中"}[k]
	return atoms{I1: 1 + 2*k, I2: 2 + 2*k, S: string(rune('a' + k)), Lo: string(rune('a' + k)), Up: string(rune('B' + k)), MB: mb}
}

type Arg struct {
	K  string `json:"k"` // "v" value | "cb" callback
	V  any    `json:"v,omitempty"`
	CB string `json:"cb,omitempty"`
}

type Case struct {
	Fam   string   `json:"fam"` // "arr" | "str"
	M     string   `json:"m"`   // method; "length" is the property, "length()" the string method
	Recv  any      `json:"recv"`
	Args  []Arg    `json:"args"`  // supplied arguments (omitted optionals are simply absent at the end)
	Shape []string `json:"shape"` // fine argument classes (below, negative, zero, inside, =length, beyond, ...)
	Cell  string   `json:"cell"`  // method name used for the finding key
	// two-step family ("arr2"): Recv0 is the literal, Pre the first (capacity-changing) call applied
	// to it; Recv is then the receiver the model expects before the second call
	Pre   string `json:"pre,omitempty"`
	Recv0 any    `json:"recv0,omitempty"`
	// three-step families ("arr3", "str3"): an earlier call M0(Args0) on the literal, then Pre, then the call
	M0    string `json:"m0,omitempty"`
	Args0 []Arg  `json:"args0,omitempty"`
	// "afterwards" family ("aft"): the write performed after the call, and its tag
	Write string `json:"write,omitempty"`
	Tag   string `json:"tag,omitempty"`
	// "nested" family ("nest"): M is the outer method, Cell the inner method; ids of the inner call and
	// of the history call (innerSpecs), and where the inner call runs ("element" | "array")
	Route string `json:"route,omitempty"`
	Inner string `json:"inner,omitempty"`
	Hist  string `json:"hist,omitempty"`
}

func (c *Case) String() string {
	if c.Fam == "aft" {
		return aftString(c)
	}
	if c.Fam == "nest" {
		return nestString(c)
	}
	if c.Pre != "" {
		first := ""
		if c.M0 != "" {
			first = "$r" + strings.TrimPrefix(callSrc(c.firstCall(), atoms{}, true), lit(c.Recv0)) + "; "
		}
		return "$r = " + lit(c.Recv0) + "; " + first + preSrc(c.Pre) + " $r" + strings.TrimPrefix(callSrc(c, atoms{}, true), lit(c.Recv))
	}
	return callSrc(c, atoms{}, true)
}

// firstCall is the earlier call of a three-step case, as a one-step case on the literal.
func (c *Case) firstCall() *Case {
	fam := "arr"
	if c.Fam == "str3" {
		fam = "str"
	}
	return &Case{Fam: fam, M: c.M0, Cell: c.M0, Recv: c.Recv0, Args: c.Args0}
}

func vArg(v V) Arg       { return Arg{K: "v", V: v} }
func cArg(id string) Arg { return Arg{K: "cb", CB: id} }

var arrMethods = []string{"push", "pop", "shift", "unshift", "slice", "splice", "concat", "join", "reverse", "sort",
	"indexOf", "includes", "find", "findIndex", "forEach", "map", "filter", "reduce", "every", "some", "flat", "flatMap", "length"}

func lists(vals []any, minLen, maxLen int) [][]any {
	var out [][]any
	var rec func(cur []any, n int)
	rec = func(cur []any, n int) {
		if len(cur) == n {
			out = append(out, cp(cur))
			return
		}
		for _, v := range vals {
			rec(append(cur, v), n)
		}
	}
	for n := minLen; n <= maxLen; n++ {
		rec(nil, n)
	}
	return out
}

// receivers returns the receiver pool of a method, in a fixed order.
func arrReceivers(m string, quick bool, at atoms) [][]any {
	base := []any{at.I1, at.I2, at.S, []any{at.I1}}
	var r [][]any
	if quick {
		r = lists(base, 0, 3)
	} else {
		r = lists(base, 0, 4)
		r = append(r, lists([]any{at.I1, at.S, []any{at.I1}}, 5, 5)...)
	}
	switch m {
	case "sort":
		// values whose string order differs from their numeric order; no two distinct values share a key
		pool := []any{at.I1, at.I2, at.I1 * 10, at.S, strings.ToUpper(at.S)}
		if quick {
			r = append(r, lists(pool, 2, 3)...)
		} else {
			r = append(r, lists(pool, 2, 4)...)
		}
	case "flat", "flatMap":
		pool := []any{at.I1, []any{at.I2, at.S}, []any{[]any{at.I1}, at.I2}, []any{[]any{[]any{at.S}}}}
		r = append(r, lists(pool, 1, 3)...)
	}
	return r
}

func idxPool(n int) []int {
	var r []int
	for i := -(n + 1); i <= n+1; i++ {
		r = append(r, i)
	}
	return r
}

// idxClass abstracts an index argument relative to the receiver length.
func idxClass(i, n int) string {
	switch {
	case i < -n:
		return "below"
	case i < 0:
		return "negative"
	case i == 0:
		return "zero"
	case i < n:
		return "inside"
	case i == n:
		return "=length"
	}
	return "beyond"
}

// coarse maps a fine class to the class used in finding keys: the sign of an index / count is kept,
// its position relative to the length is not (one defect usually spans several fine classes, and
// some fine cells pass by coincidence, e.g. slice(beyond) is [] whatever `end` is taken to be).
func coarse(cls string) string {
	switch cls {
	case "below", "negative":
		return "negative"
	case "zero", "inside", "=length", "beyond":
		return "non-negative"
	}
	return cls
}

func coarseShape(shape []string) []string {
	r := make([]string, len(shape))
	for i, s := range shape {
		r[i] = coarse(s)
	}
	return r
}

func countPool(n int) []int {
	r := []int{-1, 0, 1, 2, 5}
	if n > 2 && n != 5 {
		r = append(r, n)
	}
	return r
}

// cntClass abstracts a count / depth argument relative to the receiver length.
func cntClass(d, n int) string {
	switch {
	case d < 0:
		return "negative"
	case d == 0:
		return "zero"
	case d < n:
		return "inside"
	case d == n:
		return "=length"
	}
	return "beyond"
}

func itemsClass(n int) string {
	switch n {
	case 0:
		return "items=0"
	case 1:
		return "items=1"
	}
	return "items=2+"
}

func itemTuples(pool []any, max int) [][]any { return lists(pool, 0, max) }

func itemArgs(items []any) []Arg {
	r := make([]Arg, len(items))
	for i, it := range items {
		r[i] = vArg(it)
	}
	return r
}

// pools are the variadic item pools of one family.
type pools struct {
	push, concat []any
	search       []srch // indexOf / includes needles; nil = the default pool of the one-step family
	spliceItems  int    // max items of a splice call (0 = 3)
	inits        []any  // reduce initial values; nil = {0, "s", []}
}

type srch struct {
	v   V
	cls string
}

var fullPools = pools{push: []any{9, "x", []any{8}}, concat: []any{9, []any{8}, []any{[]any{7}, 8}, []any{}}}

// the two-step family uses smaller item pools (still every tuple of 0-3 items over them)
var reducedPools = pools{push: []any{"x", []any{8}}, concat: []any{9, []any{8}, []any{}}}

// genArr enumerates every argument tuple of method m for one receiver.
func genArr(m string, recv []any, at atoms, pl pools, emit func(*Case)) {
	n := len(recv)
	mkc := func(shape []string, args ...Arg) {
		emit(&Case{Fam: "arr", M: m, Cell: m, Recv: recv, Args: args, Shape: shape})
	}
	switch m {
	case "pop", "shift", "reverse", "sort", "length":
		mkc([]string{})
	case "push", "unshift":
		for _, items := range itemTuples(pl.push, 3) {
			mkc([]string{itemsClass(len(items))}, itemArgs(items)...)
		}
	case "concat":
		for _, items := range itemTuples(pl.concat, 3) {
			mkc([]string{itemsClass(len(items))}, itemArgs(items)...)
		}
	case "slice":
		mkc([]string{"omitted", "omitted"})
		for _, s := range idxPool(n) {
			mkc([]string{idxClass(s, n), "omitted"}, vArg(s))
			for _, e := range idxPool(n) {
				mkc([]string{idxClass(s, n), idxClass(e, n)}, vArg(s), vArg(e))
			}
		}
	case "splice":
		mkc([]string{"omitted", "omitted", "items=0"})
		maxItems := 3
		if pl.spliceItems > 0 {
			maxItems = pl.spliceItems
		}
		tuples := itemTuples(pl.push, maxItems)
		for _, s := range idxPool(n) {
			mkc([]string{idxClass(s, n), "omitted", "items=0"}, vArg(s))
			for _, d := range countPool(n) {
				for _, items := range tuples {
					args := append([]Arg{vArg(s), vArg(d)}, itemArgs(items)...)
					mkc([]string{idxClass(s, n), cntClass(d, n), itemsClass(len(items))}, args...)
				}
			}
		}
	case "join":
		mkc([]string{"omitted"})
		for _, sep := range []string{"-", "", ", "} {
			mkc([]string{"given"}, vArg(sep))
		}
	case "indexOf", "includes":
		mkc([]string{"omitted", "omitted"})
		searches := []srch{{at.I1, "scalar"}, {at.I2, "scalar"}, {at.S, "scalar"}, {"zz", "scalar"}, {strconv.Itoa(at.I1), "scalar"}, {[]any{at.I1}, "array"}}
		if pl.search != nil {
			searches = pl.search
		}
		for _, s := range searches {
			mkc([]string{s.cls, "omitted"}, vArg(s.v))
			for _, f := range idxPool(n) {
				mkc([]string{s.cls, idxClass(f, n)}, vArg(s.v), vArg(f))
			}
		}
	case "find", "findIndex", "filter", "every", "some":
		mkc([]string{"omitted"})
		for _, cb := range cbOfKind("pred") {
			mkc([]string{cb.Arity}, cArg(cb.ID))
		}
		if m == "find" {
			emit(&Case{Fam: "arr", M: m, Cell: "callback", Recv: recv, Args: []Arg{cArg(cbThisFind.ID)}, Shape: []string{"$this"}})
		}
	case "map", "flatMap":
		mkc([]string{"omitted"})
		for _, cb := range cbOfKind("map") {
			mkc([]string{cb.Arity}, cArg(cb.ID))
		}
		if m == "map" {
			emit(&Case{Fam: "arr", M: m, Cell: "callback", Recv: recv, Args: []Arg{cArg(cbThisMap.ID)}, Shape: []string{"$this"}})
		}
	case "forEach":
		mkc([]string{"omitted"})
		for _, cb := range cbOfKind("each") {
			mkc([]string{cb.Arity}, cArg(cb.ID))
		}
	case "reduce":
		mkc([]string{"omitted", "omitted"})
		for _, cb := range cbOfKind("red") {
			mkc([]string{cb.Arity, "omitted"}, cArg(cb.ID))
			for _, init := range []any{0, "s", []any{}} {
				mkc([]string{cb.Arity, "given"}, cArg(cb.ID), vArg(init))
			}
		}
	case "flat":
		mkc([]string{"omitted"})
		for _, d := range []int{-1, 0, 1, 2, 5} {
			cls := "inside"
			switch {
			case d < 0:
				cls = "negative"
			case d == 0:
				cls = "zero"
			case d >= 5:
				cls = "beyond"
			}
			mkc([]string{cls}, vArg(d))
		}
	default:
		panic("genArr: " + m)
	}
}

// ---- expected outcomes -------------------------------------------------------------------

type Out struct {
	Res   V
	After V
}

type Exp struct {
	Alts     []Out
	Any      bool // the docs do not define this call: every non-crashing outcome is accepted
	Throw    bool // a catchable error that leaves the receiver alone is acceptable too
	NoResult bool // the docs give the call no result: only receiver / trace are compared
	Check    func(res, after V) bool
	HasTrace bool
	Trace    []string // expected callback invocations, in order
	TraceMin int      // -1: exact; otherwise any prefix of Trace with at least TraceMin entries
	Note     string
	AltArgs  []map[int]V // "afterwards" family: per alternative, the array arguments (by position) after the later write
	Base     *Out        // "afterwards" family: result / receiver right after the call, before the later write
	HasHist  bool        // "nested" family: the kept result of the earlier call
	Hist     V
}

func same(recv []any, res ...V) Exp {
	e := Exp{}
	for _, r := range res {
		e.Alts = append(e.Alts, Out{Res: r, After: cp(recv)})
	}
	return e
}

func dedupe(vs []V) []V {
	var r []V
	seen := map[string]bool{}
	for _, v := range vs {
		k := fmt.Sprintf("%T:%s", v, canon(v))
		if !seen[k] {
			seen[k] = true
			r = append(r, v)
		}
	}
	return r
}

func asList(v any) []any {
	switch x := v.(type) {
	case []any:
		return x
	case nil:
		return []any{}
	}
	panic(fmt.Sprintf("asList %T", v))
}

func intArg(args []Arg, i int) *int {
	if i >= len(args) {
		return nil
	}
	n := args[i].V.(int)
	return &n
}

func argVals(args []Arg) []any {
	r := make([]any, len(args))
	for i, a := range args {
		r[i] = a.V
	}
	return r
}

func expectArr(c *Case, at atoms) Exp {
	recv := asList(c.Recv)
	n := len(recv)
	switch c.M {
	case "length":
		return same(recv, n)
	case "pop":
		if n == 0 {
			return same(recv, nil)
		}
		return Exp{Alts: []Out{{recv[n-1], cp(recv[:n-1])}}}
	case "shift":
		if n == 0 {
			return same(recv, nil)
		}
		return Exp{Alts: []Out{{recv[0], cp(recv[1:])}}}
	case "push":
		items := argVals(c.Args)
		after := append(cp(recv), items...)
		return Exp{Alts: []Out{{len(after), after}}, Throw: len(items) == 0}
	case "unshift":
		items := argVals(c.Args)
		after := append(cp(items), recv...)
		return Exp{Alts: []Out{{len(after), after}}, Throw: len(items) == 0}
	case "reverse":
		r := jsReverse(recv)
		return Exp{Alts: []Out{{r, r}}}
	case "sort":
		// "sorted by string comparison"; an element that is not a string has several defensible
		// string forms (see strForm); the order of equal keys is open.
		return Exp{Check: func(res, after V) bool {
			r, ok := res.([]any)
			if !ok || !sameMultiset(r, recv) || canon(after) != canon(res) {
				return false
			}
			for _, f := range strForms(true) {
				if sortedBy(r, f.str) {
					return true
				}
			}
			return false
		}, Alts: []Out{{jsSortStable(recv, strJS), jsSortStable(recv, strJS)}}}
	case "slice":
		return same(recv, jsSlice(recv, intArg(c.Args, 0), intArg(c.Args, 1)))
	case "splice":
		if len(c.Args) == 0 {
			return Exp{Any: true, Note: "start is a required parameter"}
		}
		del, after := jsSplice(recv, c.Args[0].V.(int), intArg(c.Args, 1), argVals(c.Args[min(2, len(c.Args)):]))
		return Exp{Alts: []Out{{del, after}}}
	case "concat":
		return same(recv, jsConcat(recv, argVals(c.Args)))
	case "join":
		sep := ","
		if len(c.Args) > 0 {
			sep = c.Args[0].V.(string)
		}
		var res []V
		for _, f := range strForms(false) {
			res = append(res, jsJoin(recv, sep, f.str))
		}
		return same(recv, dedupe(res)...)
	case "indexOf", "includes":
		if len(c.Args) == 0 {
			return Exp{Any: true, Note: "searchElement is a required parameter"}
		}
		// "equal": every equality model of model.go is accepted
		var res []V
		for _, eq := range eqModels {
			k := jsIndexOf(recv, c.Args[0].V, intArg(c.Args, 1), eq)
			if c.M == "includes" {
				res = append(res, k >= 0)
			} else {
				res = append(res, k)
			}
		}
		return same(recv, dedupe(res)...)
	case "flat":
		d := 1
		if p := intArg(c.Args, 0); p != nil {
			d = *p
		}
		return same(recv, jsFlat(recv, d))
	case "find", "findIndex", "filter", "every", "some", "map", "flatMap", "forEach", "reduce":
		return expectCallback(c, recv, at)
	}
	panic("expectArr: " + c.M)
}

func expectCallback(c *Case, recv []any, at atoms) Exp {
	n := len(recv)
	if len(c.Args) == 0 {
		return Exp{Any: true, Note: "callback is a required parameter"}
	}
	cb := cbByID(c.Args[0].CB)
	if cb == cbThisMap {
		r := make([]any, n)
		for i := range r {
			r[i] = n
		}
		return same(recv, r)
	}
	if cb == cbThisFind {
		if n == 0 {
			return same(recv, nil)
		}
		return same(recv, recv[0])
	}
	e := Exp{HasTrace: true, TraceMin: -1}
	call := func(args ...V) V {
		e.Trace = append(e.Trace, traceEntry(cb, args))
		return cb.Fn(at, args)
	}
	var res V
	switch c.M {
	case "forEach":
		for i, x := range recv {
			call(x, i, recv)
		}
		e.NoResult = true
	case "map":
		r := []any{}
		for i, x := range recv {
			r = append(r, call(x, i, recv))
		}
		res = r
	case "flatMap":
		r := []any{}
		for i, x := range recv {
			v := call(x, i, recv)
			if arr, ok := v.([]any); ok {
				r = append(r, arr...)
			} else {
				r = append(r, v)
			}
		}
		res = r
	case "filter":
		r := []any{}
		for i, x := range recv {
			if truthy(call(x, i, recv)) {
				r = append(r, x)
			}
		}
		res = r
	case "find", "findIndex", "some", "every":
		// whether the callback keeps being called after the answer is decided is not documented:
		// any prefix of the full trace that reaches the deciding element is accepted
		hit := -1
		for i, x := range recv {
			t := truthy(call(x, i, recv))
			if hit < 0 && (t != (c.M == "every")) {
				hit = i
			}
		}
		e.TraceMin = n
		if hit >= 0 {
			e.TraceMin = hit + 1
		}
		switch c.M {
		case "find":
			if hit >= 0 {
				res = recv[hit]
			}
		case "findIndex":
			res = hit
		case "some":
			res = hit >= 0
		case "every":
			res = hit < 0
		}
	case "reduce":
		start := 0
		var acc V
		if len(c.Args) > 1 {
			acc = c.Args[1].V
		} else {
			if n == 0 {
				return Exp{Any: true, Note: "reduce of an empty array without an initial value (TypeError in JavaScript, not documented here)"}
			}
			acc = recv[0]
			start = 1
		}
		for i := start; i < n; i++ {
			acc = call(acc, recv[i], i, recv)
		}
		res = acc
	}
	e.Alts = []Out{{res, cp(recv)}}
	return e
}

// callSrc prints the call expression (without receiver variable when pretty).
func callSrc(c *Case, at atoms, pretty bool) string {
	r := "$r"
	if pretty {
		r = lit(c.Recv)
	}
	if c.M == "length" {
		return r + "->length"
	}
	m := strings.TrimSuffix(c.M, "()")
	p := make([]string, len(c.Args))
	for i, a := range c.Args {
		if a.K == "cb" {
			if pretty {
				p[i] = "<" + a.CB + ">"
			} else {
				p[i] = cbByID(a.CB).Src(at)
			}
		} else {
			p[i] = lit(a.V)
		}
	}
	return r + "->" + m + "(" + strings.Join(p, ", ") + ")"
}

// ---- two-step family: one capacity-changing call, then every method x argument tuple ------------

// preAtoms: the atoms the string steps are printed with (set once from the seed, before any case is built)
var preAtoms = atomsFor(0)

var preSteps = []string{"push1", "push2", "pop", "shift", "unshift1", "splice-shrink", "slice-copy", "reverse", "sort"}

func preSrc(pre string) string {
	for _, st := range strSteps {
		if st == pre {
			return strStepSrc(pre, preAtoms)
		}
	}
	switch pre {
	case "push1":
		return "$r->push(9);"
	case "push2":
		return `$r->push(9, "x");`
	case "pop":
		return "$r->pop();"
	case "shift":
		return "$r->shift();"
	case "unshift1":
		return `$r->unshift("x");`
	case "splice-shrink":
		return "$r->splice(0, 1);"
	case "slice-copy":
		return "$r = $r->slice(0);"
	case "reverse":
		return "$r->reverse();"
	case "sort":
		return "$r->sort();"
	}
	panic("preSrc: " + pre)
}

// applyPre is the model of the first step; ok=false when the step is not applied to this receiver
// (sort of a receiver with a nested array: its order has two accepted answers, see expectArr).
func applyPre(pre string, recv []any) ([]any, bool) {
	n := len(recv)
	switch pre {
	case "push1":
		return append(cp(recv), 9), true
	case "push2":
		return append(cp(recv), 9, "x"), true
	case "pop":
		if n == 0 {
			return cp(recv), true
		}
		return cp(recv[:n-1]), true
	case "shift":
		if n == 0 {
			return cp(recv), true
		}
		return cp(recv[1:]), true
	case "unshift1":
		return append([]any{"x"}, recv...), true
	case "splice-shrink":
		one := 1
		_, after := jsSplice(recv, 0, &one, nil)
		return after, true
	case "slice-copy":
		return cp(recv), true
	case "reverse":
		return jsReverse(recv), true
	case "sort":
		if hasNested(recv) {
			return nil, false
		}
		return jsSortStable(recv, strJS), true
	}
	panic("applyPre: " + pre)
}

// arr2Receivers: all lists of length 0-3 (thorough 0-4) over {I1, S} plus three receivers with nested arrays.
func arr2Receivers(quick bool, at atoms) [][]any {
	maxLen := 3
	if !quick {
		maxLen = 4
	}
	r := lists([]any{at.I1, at.S}, 0, maxLen)
	nested := []any{at.I1}
	r = append(r, []any{nested}, []any{at.I1, nested}, []any{nested, at.S, nested})
	return r
}

func genArr2(m string, recv0 []any, at atoms, emit func(*Case)) {
	for _, pre := range preSteps {
		r1, ok := applyPre(pre, recv0)
		if !ok {
			continue
		}
		genArr(m, r1, at, reducedPools, func(c *Case) {
			if c.Cell == "callback" {
				return // the $this closure is covered (and keyed) once, in the one-step family
			}
			c.Fam = "arr2"
			c.Pre = pre
			c.Recv0 = recv0
			emit(c)
		})
	}
}
