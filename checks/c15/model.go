package main

// Reference model for the array methods: an independent Go implementation of what
// docs/array_methods.md specifies ("Node.js naming and signature style"), i.e. the JavaScript
// Array semantics for every documented method. Values are nil, bool, int, string, []any.

import (
	"bytes"
	"encoding/json"
	"fmt"
	"sort"
	"strconv"
	"strings"
)

type V = any

// canon is the canonical JSON text of a value (what both sides are compared on).
func canon(v V) string {
	var sb strings.Builder
	canonTo(&sb, v)
	return sb.String()
}

func canonTo(sb *strings.Builder, v V) {
	switch x := v.(type) {
	case nil:
		sb.WriteString("null")
	case bool:
		if x {
			sb.WriteString("true")
		} else {
			sb.WriteString("false")
		}
	case int:
		sb.WriteString(strconv.Itoa(x))
	case json.Number:
		sb.WriteString(x.String())
	case float64:
		sb.WriteString(strconv.FormatFloat(x, 'g', -1, 64) + "f")
	case string:
		var b bytes.Buffer
		e := json.NewEncoder(&b)
		e.SetEscapeHTML(false)
		e.Encode(x)
		sb.WriteString(strings.TrimRight(b.String(), "\n"))
	case []any:
		sb.WriteByte('[')
		for i, e := range x {
			if i > 0 {
				sb.WriteByte(',')
			}
			canonTo(sb, e)
		}
		sb.WriteByte(']')
	case map[string]any:
		keys := make([]string, 0, len(x))
		for k := range x {
			keys = append(keys, k)
		}
		sort.Strings(keys)
		sb.WriteByte('{')
		for i, k := range keys {
			if i > 0 {
				sb.WriteByte(',')
			}
			canonTo(sb, k)
			sb.WriteByte(':')
			canonTo(sb, x[k])
		}
		sb.WriteByte('}')
	default:
		fmt.Fprintf(sb, "?%T", v)
	}
}

// norm converts decoded JSON (UseNumber) into model values: integral numbers become int.
func norm(v any) V {
	switch x := v.(type) {
	case json.Number:
		if n, err := strconv.Atoi(x.String()); err == nil {
			return n
		}
		return x
	case float64:
		if x == float64(int(x)) {
			return int(x)
		}
		return x
	case []any:
		r := make([]any, len(x))
		for i, e := range x {
			r[i] = norm(e)
		}
		return r
	case map[string]any:
		for k, e := range x {
			x[k] = norm(e)
		}
		return x
	}
	return v
}

func parseJSON(s string) (V, error) {
	d := json.NewDecoder(strings.NewReader(s))
	d.UseNumber()
	var v any
	if err := d.Decode(&v); err != nil {
		return nil, err
	}
	if d.More() {
		return nil, fmt.Errorf("trailing data")
	}
	return norm(v), nil
}

// lit prints a value as an origami literal.
func lit(v V) string {
	switch x := v.(type) {
	case nil:
		return "null"
	case bool:
		if x {
			return "true"
		}
		return "false"
	case int:
		return strconv.Itoa(x)
	case string:
		// the alphabets contain no quote, backslash, dollar, brace or at-sign
		return `"` + x + `"`
	case []any:
		p := make([]string, len(x))
		for i, e := range x {
			p[i] = lit(e)
		}
		return "[" + strings.Join(p, ", ") + "]"
	}
	panic(fmt.Sprintf("lit: %T", v))
}

func cp(a []any) []any { return append([]any{}, a...) }

// relIdx is JavaScript's relative-index clamp: negative counts from the end, result in [0,n].
func relIdx(i, n int) int {
	if i < 0 {
		i += n
		if i < 0 {
			i = 0
		}
		return i
	}
	if i > n {
		return n
	}
	return i
}

func jsSlice(a []any, start, end *int) []any {
	n := len(a)
	s, e := 0, n
	if start != nil {
		s = relIdx(*start, n)
	}
	if end != nil {
		e = relIdx(*end, n)
	}
	if s >= e {
		return []any{}
	}
	return cp(a[s:e])
}

// jsSplice returns (deleted, receiver afterwards). start must be given.
func jsSplice(a []any, start int, dc *int, items []any) ([]any, []any) {
	n := len(a)
	s := relIdx(start, n)
	d := n - s
	if dc != nil {
		d = *dc
		if d < 0 {
			d = 0
		}
		if d > n-s {
			d = n - s
		}
	}
	del := cp(a[s : s+d])
	after := cp(a[:s])
	after = append(after, items...)
	after = append(after, a[s+d:]...)
	return del, after
}

func jsConcat(a []any, items []any) []any {
	r := cp(a)
	for _, it := range items {
		if arr, ok := it.([]any); ok {
			r = append(r, arr...)
		} else {
			r = append(r, it)
		}
	}
	return r
}

func jsFlat(a []any, depth int) []any {
	r := []any{}
	for _, e := range a {
		if arr, ok := e.([]any); ok && depth > 0 {
			r = append(r, jsFlat(arr, depth-1)...)
		} else {
			r = append(r, e)
		}
	}
	return r
}

func jsReverse(a []any) []any {
	r := make([]any, len(a))
	for i, e := range a {
		r[len(a)-1-i] = e
	}
	return r
}

// strJS is JavaScript's ToString of an element; strEcho is the form the docs show for
// `echo $arr` ("[1, 2, 3]"). Both are accepted where an array has to become a string.
func strJS(v V) string {
	switch x := v.(type) {
	case nil:
		return ""
	case bool:
		if x {
			return "true"
		}
		return "false"
	case int:
		return strconv.Itoa(x)
	case string:
		return x
	case []any:
		p := make([]string, len(x))
		for i, e := range x {
			p[i] = strJS(e)
		}
		return strings.Join(p, ",")
	}
	return "?"
}

func strEcho(v V) string {
	if x, ok := v.([]any); ok {
		p := make([]string, len(x))
		for i, e := range x {
			p[i] = strEcho(e)
		}
		return "[" + strings.Join(p, ", ") + "]"
	}
	return strJS(v)
}

func hasNested(a []any) bool {
	for _, e := range a {
		if _, ok := e.([]any); ok {
			return true
		}
	}
	return false
}

func jsJoin(a []any, sep string, str func(V) string) string {
	p := make([]string, len(a))
	for i, e := range a {
		p[i] = str(e)
	}
	return strings.Join(p, sep)
}

// strictEq is ===; looseEq additionally equates an int with its decimal string and arrays by value.
func strictEq(a, b V) bool {
	if _, ok := a.([]any); ok {
		return false // distinct array objects are never identical in JavaScript
	}
	return canon(a) == canon(b)
}

func looseEq(a, b V) bool {
	if canon(a) == canon(b) {
		return true
	}
	ai, aok := a.(int)
	bs, bok := b.(string)
	if aok && bok && strconv.Itoa(ai) == bs {
		return true
	}
	bi, bok2 := b.(int)
	as, aok2 := a.(string)
	if aok2 && bok2 && strconv.Itoa(bi) == as {
		return true
	}
	return false
}

func jsIndexOf(a []any, search V, from *int, eq func(a, b V) bool) int {
	n := len(a)
	k := 0
	if from != nil {
		k = *from
		if k >= n {
			return -1
		}
		if k < 0 {
			k += n
			if k < 0 {
				k = 0
			}
		}
	}
	for ; k < n; k++ {
		if eq(a[k], search) {
			return k
		}
	}
	return -1
}

// sortedBy reports whether r is ordered non-decreasingly by key.
func sortedBy(r []any, key func(V) string) bool {
	for i := 1; i < len(r); i++ {
		if key(r[i-1]) > key(r[i]) {
			return false
		}
	}
	return true
}

func sameMultiset(a, b []any) bool {
	if len(a) != len(b) {
		return false
	}
	m := map[string]int{}
	for _, e := range a {
		m[canon(e)]++
	}
	for _, e := range b {
		m[canon(e)]--
	}
	for _, c := range m {
		if c != 0 {
			return false
		}
	}
	return true
}

func jsSortStable(a []any, key func(V) string) []any {
	r := cp(a)
	sort.SliceStable(r, func(i, j int) bool { return key(r[i]) < key(r[j]) })
	return r
}

func truthy(v V) bool {
	switch x := v.(type) {
	case nil:
		return false
	case bool:
		return x
	case int:
		return x != 0
	case string:
		return x != "" && x != "0"
	case []any:
		return len(x) > 0
	}
	return true
}
