package main

// Reference model for the array methods: an independent Go implementation of what
// docs/array_methods.md specifies ("Node.js naming and signature style"), i.e. the JavaScript
// Array semantics for every documented method. Values are nil, bool, int, string, []any.

import (
	"bytes"
	"encoding/json"
	"fmt"
	"math"
	"sort"
	"strconv"
	"strings"
)

type V = any

// Flt is a float element / argument (ints are Go ints). It has its own JSON form so that a recorded
// case keeps the kind: 2.0 stays a float literal on replay. Observation cannot tell 2.0 from 2
// (json_encode prints both as 2, which is C14's business), so canon prints an integral Flt like an int.
type Flt float64

func fltText(f Flt, dot bool) string {
	x := float64(f)
	if x == math.Trunc(x) && math.Abs(x) < 1e15 {
		if dot {
			return strconv.FormatInt(int64(x), 10) + ".0"
		}
		return strconv.FormatInt(int64(x), 10)
	}
	return strconv.FormatFloat(x, 'f', -1, 64)
}

func (f Flt) MarshalJSON() ([]byte, error) { return []byte(`{"$f":"` + fltText(f, true) + `"}`), nil }

// canon is the canonical JSON text of a value (what both sides are compared on).
func canon(v V) string {
	var sb strings.Builder
	canonTo(&sb, v)
	return sb.String()
}

func canonTo(sb *strings.Builder, v V) {
	switch x := v.(type) {
	case nil:
		sb.WriteString("null")
	case bool:
		if x {
			sb.WriteString("true")
		} else {
			sb.WriteString("false")
		}
	case int:
		sb.WriteString(strconv.Itoa(x))
	case json.Number:
		sb.WriteString(x.String())
	case Flt:
		sb.WriteString(fltText(x, false))
	case float64:
		sb.WriteString(fltText(Flt(x), false))
	case string:
		var b bytes.Buffer
		e := json.NewEncoder(&b)
		e.SetEscapeHTML(false)
		e.Encode(x)
		sb.WriteString(strings.TrimRight(b.String(), "\n"))
	case []any:
		sb.WriteByte('[')
		for i, e := range x {
			if i > 0 {
				sb.WriteByte(',')
			}
			canonTo(sb, e)
		}
		sb.WriteByte(']')
	case map[string]any:
		keys := make([]string, 0, len(x))
		for k := range x {
			keys = append(keys, k)
		}
		sort.Strings(keys)
		sb.WriteByte('{')
		for i, k := range keys {
			if i > 0 {
				sb.WriteByte(',')
			}
			canonTo(sb, k)
			sb.WriteByte(':')
			canonTo(sb, x[k])
		}
		sb.WriteByte('}')
	default:
		fmt.Fprintf(sb, "?%T", v)
	}
}

// norm converts decoded JSON (UseNumber) into model values: integral numbers become int.
func norm(v any) V {
	switch x := v.(type) {
	case json.Number:
		if n, err := strconv.Atoi(x.String()); err == nil {
			return n
		}
		if f, err := strconv.ParseFloat(x.String(), 64); err == nil {
			return Flt(f)
		}
		return x
	case float64:
		if x == float64(int(x)) {
			return int(x)
		}
		return x
	case []any:
		r := make([]any, len(x))
		for i, e := range x {
			r[i] = norm(e)
		}
		return r
	case map[string]any:
		if t, ok := x["$f"].(string); ok && len(x) == 1 {
			if f, err := strconv.ParseFloat(t, 64); err == nil {
				return Flt(f)
			}
		}
		for k, e := range x {
			x[k] = norm(e)
		}
		return x
	}
	return v
}

func parseJSON(s string) (V, error) {
	d := json.NewDecoder(strings.NewReader(s))
	d.UseNumber()
	var v any
	if err := d.Decode(&v); err != nil {
		return nil, err
	}
	if d.More() {
		return nil, fmt.Errorf("trailing data")
	}
	return norm(v), nil
}

// lit prints a value as an origami literal.
func lit(v V) string {
	switch x := v.(type) {
	case nil:
		return "null"
	case bool:
		if x {
			return "true"
		}
		return "false"
	case int:
		return strconv.Itoa(x)
	case Flt:
		return fltText(x, true)
	case string:
		// the alphabets contain no quote, backslash, dollar, brace or at-sign
		return `"` + x + `"`
	case []any:
		p := make([]string, len(x))
		for i, e := range x {
			p[i] = lit(e)
		}
		return "[" + strings.Join(p, ", ") + "]"
	}
	panic(fmt.Sprintf("lit: %T", v))
}

func cp(a []any) []any { return append([]any{}, a...) }

// relIdx is JavaScript's relative-index clamp: negative counts from the end, result in [0,n].
func relIdx(i, n int) int {
	if i < 0 {
		i += n
		if i < 0 {
			i = 0
		}
		return i
	}
	if i > n {
		return n
	}
	return i
}

func jsSlice(a []any, start, end *int) []any {
	n := len(a)
	s, e := 0, n
	if start != nil {
		s = relIdx(*start, n)
	}
	if end != nil {
		e = relIdx(*end, n)
	}
	if s >= e {
		return []any{}
	}
	return cp(a[s:e])
}

// jsSplice returns (deleted, receiver afterwards). start must be given.
func jsSplice(a []any, start int, dc *int, items []any) ([]any, []any) {
	n := len(a)
	s := relIdx(start, n)
	d := n - s
	if dc != nil {
		d = *dc
		if d < 0 {
			d = 0
		}
		if d > n-s {
			d = n - s
		}
	}
	del := cp(a[s : s+d])
	after := cp(a[:s])
	after = append(after, items...)
	after = append(after, a[s+d:]...)
	return del, after
}

func jsConcat(a []any, items []any) []any {
	r := cp(a)
	for _, it := range items {
		if arr, ok := it.([]any); ok {
			r = append(r, arr...)
		} else {
			r = append(r, it)
		}
	}
	return r
}

func jsFlat(a []any, depth int) []any {
	r := []any{}
	for _, e := range a {
		if arr, ok := e.([]any); ok && depth > 0 {
			r = append(r, jsFlat(arr, depth-1)...)
		} else {
			r = append(r, e)
		}
	}
	return r
}

func jsReverse(a []any) []any {
	r := make([]any, len(a))
	for i, e := range a {
		r[len(a)-1-i] = e
	}
	return r
}

// String forms of an element. Where an element has to become a string (join, sort, "comparison uses
// AsString()") the docs do not say which form a non-string takes, so every defensible one is a model:
// null -> "" (JavaScript join, PHP) or "null" (JavaScript String(), sort); bool -> "true"/"false"
// (JavaScript) or "1"/"" (PHP); a nested array -> "1,2" (JavaScript) or "[1, 2]" (the form the docs
// show for `echo $arr`). Numbers have one form: 2.0 -> "2", 2.5 -> "2.5".
type strForm struct {
	nullWord bool // null -> "null"
	phpBool  bool // true -> "1", false -> ""
	echoArr  bool // [1, 2] -> "[1, 2]"
}

func (f strForm) str(v V) string {
	switch x := v.(type) {
	case nil:
		if f.nullWord {
			return "null"
		}
		return ""
	case bool:
		if f.phpBool {
			if x {
				return "1"
			}
			return ""
		}
		if x {
			return "true"
		}
		return "false"
	case int:
		return strconv.Itoa(x)
	case Flt:
		return fltText(x, false)
	case string:
		return x
	case []any:
		p := make([]string, len(x))
		for i, e := range x {
			p[i] = f.str(e)
		}
		if f.echoArr {
			return "[" + strings.Join(p, ", ") + "]"
		}
		return strings.Join(p, ",")
	}
	return "?"
}

// strJS is JavaScript's ToString of an element as join uses it; strEcho differs for nested arrays only.
func strJS(v V) string   { return strForm{}.str(v) }
func strEcho(v V) string { return strForm{echoArr: true}.str(v) }

// strForms: all forms; withNullWord=false leaves out null -> "null" (join never prints it).
func strForms(withNullWord bool) []strForm {
	var r []strForm
	for _, nw := range []bool{false, true} {
		if nw && !withNullWord {
			continue
		}
		for _, pb := range []bool{false, true} {
			for _, ea := range []bool{false, true} {
				r = append(r, strForm{nw, pb, ea})
			}
		}
	}
	return r
}

func hasKind(a []any, pred func(V) bool) bool {
	for _, e := range a {
		if pred(e) {
			return true
		}
		if sub, ok := e.([]any); ok && hasKind(sub, pred) {
			return true
		}
	}
	return false
}

func hasNested(a []any) bool {
	for _, e := range a {
		if _, ok := e.([]any); ok {
			return true
		}
	}
	return false
}

func jsJoin(a []any, sep string, str func(V) string) string {
	p := make([]string, len(a))
	for i, e := range a {
		p[i] = str(e)
	}
	return strings.Join(p, sep)
}

// Equality models for indexOf / includes ("the first element equal to ..."; note 5: "comparison uses
// AsString()"). The docs do not pin one down, so a call conforms when it agrees with any of them:
//
//	strictEq  JavaScript ===: numbers by value (JavaScript has one number type, 2.0 === 2), other
//	          scalars by kind and value, distinct array objects never identical;
//	looseEq   PHP ==;
//	asStrEq   equal string forms (JavaScript or PHP form of bool; arrays in the echo form).
func strictEq(a, b V) bool {
	if _, ok := a.([]any); ok {
		return false // distinct array objects are never identical in JavaScript
	}
	return canon(a) == canon(b)
}

func numOf(v V) (float64, bool) {
	switch x := v.(type) {
	case int:
		return float64(x), true
	case Flt:
		return float64(x), true
	}
	return 0, false
}

func numericStr(s string) (float64, bool) {
	if s == "" || strings.TrimSpace(s) != s {
		return 0, false
	}
	for _, c := range s {
		if !(c >= '0' && c <= '9') && c != '.' && c != '-' {
			return 0, false // the pools contain plain decimal numerals only
		}
	}
	f, err := strconv.ParseFloat(s, 64)
	return f, err == nil
}

func looseEq(a, b V) bool {
	if a == nil && b == nil {
		return true
	}
	if _, ok := b.(bool); ok {
		a, b = b, a
	}
	if x, ok := a.(bool); ok {
		return x == truthy(b)
	}
	if b == nil {
		a, b = b, a
	}
	if a == nil {
		if s, ok := b.(string); ok {
			return s == ""
		}
		return !truthy(b)
	}
	an, aNum := numOf(a)
	bn, bNum := numOf(b)
	as, aStr := a.(string)
	bs, bStr := b.(string)
	switch {
	case aNum && bNum:
		return an == bn
	case aNum && bStr:
		if f, ok := numericStr(bs); ok {
			return an == f
		}
		return strJS(a) == bs
	case aStr && bNum:
		return looseEq(b, a)
	case aStr && bStr:
		fa, oka := numericStr(as)
		fb, okb := numericStr(bs)
		if oka && okb {
			return fa == fb
		}
		return as == bs
	}
	aa, aArr := a.([]any)
	ba, bArr := b.([]any)
	if aArr && bArr {
		if len(aa) != len(ba) {
			return false
		}
		for i := range aa {
			if !looseEq(aa[i], ba[i]) {
				return false
			}
		}
		return true
	}
	return false
}

func asStrEq(f strForm) func(a, b V) bool {
	return func(a, b V) bool { return f.str(a) == f.str(b) }
}

var eqModels = []func(a, b V) bool{strictEq, looseEq, asStrEq(strForm{echoArr: true}), asStrEq(strForm{echoArr: true, phpBool: true})}

func jsIndexOf(a []any, search V, from *int, eq func(a, b V) bool) int {
	n := len(a)
	k := 0
	if from != nil {
		k = *from
		if k >= n {
			return -1
		}
		if k < 0 {
			k += n
			if k < 0 {
				k = 0
			}
		}
	}
	for ; k < n; k++ {
		if eq(a[k], search) {
			return k
		}
	}
	return -1
}

// sortedBy reports whether r is ordered non-decreasingly by key.
func sortedBy(r []any, key func(V) string) bool {
	for i := 1; i < len(r); i++ {
		if key(r[i-1]) > key(r[i]) {
			return false
		}
	}
	return true
}

func sameMultiset(a, b []any) bool {
	if len(a) != len(b) {
		return false
	}
	m := map[string]int{}
	for _, e := range a {
		m[canon(e)]++
	}
	for _, e := range b {
		m[canon(e)]--
	}
	for _, c := range m {
		if c != 0 {
			return false
		}
	}
	return true
}

func jsSortStable(a []any, key func(V) string) []any {
	r := cp(a)
	sort.SliceStable(r, func(i, j int) bool { return key(r[i]) < key(r[j]) })
	return r
}

func truthy(v V) bool {
	switch x := v.(type) {
	case nil:
		return false
	case bool:
		return x
	case int:
		return x != 0
	case Flt:
		return x != 0
	case string:
		return x != "" && x != "0"
	case []any:
		return len(x) > 0
	}
	return true
}
