package main

// "Mixed element kinds" family ("arrk"): the one-step family's elements are ints, one-letter strings
// and nested arrays. Here every method is run on every list of length 0-2 (thorough 0-3) over one
// value of each scalar kind the language has - int, integral float, fractional float, numeric string,
// plain string, null, true, false - plus a nested array, with needles / items / initial values drawn
// from the same kinds. It is the dimension in which a per-kind shortcut inside a method (a type switch
// that forgets a kind, a numeric fast path) shows: the oracle only demands what every string form and
// every equality model of model.go agree on, e.g. that an int needle finds the integral float of the
// same value and the other way round, that null / true / false find themselves, that elements of every
// kind pass through slice / splice / concat / reverse / filter ... unchanged.

import "strconv"

func kindValues(at atoms) []any {
	return []any{at.I2, Flt(at.I2), Flt(at.I2) + 0.5, strconv.Itoa(at.I2), at.S, nil, true, false, []any{at.I2}}
}

func kindClass(v V) string {
	switch x := v.(type) {
	case nil:
		return "null"
	case bool:
		return "bool"
	case int:
		return "int"
	case Flt:
		return "float"
	case string:
		if _, ok := numericStr(x); ok {
			return "numeric-string"
		}
		return "string"
	case []any:
		return "array"
	}
	return "?"
}

func kindReceivers(quick bool, at atoms) [][]any {
	if quick {
		return lists(kindValues(at), 0, 2)
	}
	return lists(kindValues(at), 0, 3)
}

func kindPools(at atoms) pools {
	var s []srch
	for _, v := range kindValues(at) {
		s = append(s, srch{v, kindClass(v)})
	}
	s = append(s, srch{at.I2 + 1, "int"}, srch{Flt(at.I2 + 1), "float"}) // absent needles
	return pools{
		push:        []any{Flt(at.I2), nil},
		concat:      []any{Flt(at.I2) + 0.5, []any{nil, true}},
		search:      s,
		spliceItems: 2,
		inits:       []any{nil, Flt(0.5)},
	}
}

func genKinds(m string, recv []any, at atoms, emit func(*Case)) {
	genArr(m, recv, at, kindPools(at), func(c *Case) {
		if c.Cell == "callback" {
			return // the $this closure is covered (and keyed) once, in the one-step family
		}
		c.Fam = "arrk"
		emit(c)
	})
}
