package main

// "Afterwards" family: arrays are values. After a call that returns an array (or stores array
// arguments), a later write to the result must not show in the receiver or in an array argument,
// and a later write to the receiver / an argument must not show in the earlier result. The model
// applies the same steps to independent (deep) copies.
//
// Each case is tagged by the generator:
//   top-level : the write is an element store / push on the result, receiver or a concat argument
//               variable itself (their own slots);
//   interior  : the write goes through an element that is itself an array (`$x[i]->push("Z")`), or
//               hits an array argument that the method stores as an element (push, unshift, splice
//               items) - the shallow-copy route C06 already knows about.
// Key: afterwards:<method>:<tag>.

import (
	"fmt"
	"strings"
)

var aftMethods = []string{"concat", "slice", "splice", "map", "filter", "flat", "flatMap", "reverse", "sort", "push", "unshift"}

var aftPools = pools{push: []any{"x", []any{8}}, concat: []any{9, []any{8}, []any{[]any{7}, 8}}}

func deep(v V) V {
	if a, ok := v.([]any); ok {
		r := make([]any, len(a))
		for i, e := range a {
			r[i] = deep(e)
		}
		return r
	}
	return v
}

func firstNested(a []any, last bool) int {
	idx := -1
	for i, e := range a {
		if _, ok := e.([]any); ok {
			if !last {
				return i
			}
			idx = i
		}
	}
	return idx
}

// aftState is the model state: result, receiver, array arguments (by argument position).
type aftState struct {
	V    V
	R    []any
	Args map[int][]any
}

func (s aftState) clone() aftState {
	n := aftState{V: deep(s.V), R: deep(s.R).([]any), Args: map[int][]any{}}
	for k, a := range s.Args {
		n.Args[k] = deep(a).([]any)
	}
	return n
}

// baseState computes the state right after the call; ok=false if the call has no single documented outcome.
func baseState(c *Case, at atoms) (aftState, bool) {
	bc := *c
	bc.Fam = "arr"
	e := expectArr(&bc, at)
	if e.Any || len(e.Alts) == 0 || (e.Check == nil && len(e.Alts) != 1) {
		return aftState{}, false
	}
	if e.Check != nil && hasNested(asList(c.Recv)) {
		return aftState{}, false // sort with nested elements: two accepted orders
	}
	s := aftState{V: e.Alts[0].Res, R: asList(e.Alts[0].After), Args: map[int][]any{}}
	for k, a := range c.Args {
		if arr, ok := a.V.([]any); ok && a.K == "v" {
			s.Args[k] = arr
		}
	}
	return s.clone(), true
}

type aftWrite struct {
	ID  string // "v[0]=", "v.push", "v.in", "r[0]=", "r.push", "r.in", "r.inl", "a<k>[0]=", "a<k>.push", "a<k>.in"
	Tag string
}

func embeds(m string) bool { return m == "push" || m == "unshift" || m == "splice" }

func aftWrites(m string, s aftState) []aftWrite {
	var w []aftWrite
	if v, ok := s.V.([]any); ok {
		w = append(w, aftWrite{"v[0]=", "top-level"}, aftWrite{"v.push", "top-level"})
		if firstNested(v, false) >= 0 {
			w = append(w, aftWrite{"v.in", "interior"})
		}
	}
	w = append(w, aftWrite{"r[0]=", "top-level"}, aftWrite{"r.push", "top-level"})
	if i := firstNested(s.R, false); i >= 0 {
		w = append(w, aftWrite{"r.in", "interior"})
		if j := firstNested(s.R, true); j != i {
			w = append(w, aftWrite{"r.inl", "interior"})
		}
	}
	for k := 0; k < 8; k++ {
		a, ok := s.Args[k]
		if !ok {
			continue
		}
		tag := "top-level"
		if embeds(m) {
			tag = "interior"
		}
		w = append(w, aftWrite{fmt.Sprintf("a%d[0]=", k), tag}, aftWrite{fmt.Sprintf("a%d.push", k), tag})
		if firstNested(a, false) >= 0 {
			w = append(w, aftWrite{fmt.Sprintf("a%d.in", k), "interior"})
		}
	}
	return w
}

func writeTarget(id string) (name string, op string) {
	i := strings.IndexAny(id, "[.")
	return id[:i], id[i:]
}

func applyOp(a []any, op string) []any {
	switch op {
	case "[0]=":
		if len(a) == 0 {
			return []any{"Z"}
		}
		a[0] = "Z"
	case ".push":
		return append(a, "Z")
	case ".in", ".inl":
		i := firstNested(a, op == ".inl")
		a[i] = append(a[i].([]any), "Z")
	}
	return a
}

func opSrc(name, op string, a []any) string {
	switch op {
	case "[0]=":
		return "$" + name + `[0] = "Z";`
	case ".push":
		return "$" + name + `->push("Z");`
	}
	return fmt.Sprintf(`$%s[%d]->push("Z");`, name, firstNested(a, op == ".inl"))
}

func (s *aftState) target(name string) []any {
	switch name {
	case "v":
		return s.V.([]any)
	case "r":
		return s.R
	}
	var k int
	fmt.Sscanf(name, "a%d", &k)
	return s.Args[k]
}

func (s *aftState) set(name string, a []any) {
	switch name {
	case "v":
		s.V = a
	case "r":
		s.R = a
	default:
		var k int
		fmt.Sscanf(name, "a%d", &k)
		s.Args[k] = a
	}
}

func genAft(m string, recv []any, at atoms, emit func(*Case)) {
	if m == "sort" && hasNested(recv) {
		return
	}
	genArr(m, recv, at, aftPools, func(c *Case) {
		if c.Cell == "callback" {
			return
		}
		if m == "splice" {
			// reduced splice arguments: counts {0, 1, 5}, at most 2 items
			if len(c.Args) > 4 {
				return
			}
			if len(c.Args) > 1 {
				if d := c.Args[1].V.(int); d != 0 && d != 1 && d != 5 {
					return
				}
			}
		}
		s, ok := baseState(c, at)
		if !ok {
			return
		}
		if (m == "push" || m == "unshift") && len(s.Args) == 0 {
			return
		}
		for _, w := range aftWrites(m, s) {
			nc := *c
			nc.Fam = "aft"
			nc.Cell = m
			nc.Write = w.ID
			nc.Tag = w.Tag
			nc.Shape = []string{w.Tag}
			emit(&nc)
		}
	})
}

// expectAft: the state after the write, every variable an independent value. For reverse/sort
// (JavaScript returns the receiver itself; with array values the assignment copies it) "result
// and receiver are one array" is accepted as well.
func expectAft(c *Case, at atoms) Exp {
	s, ok := baseState(c, at)
	if !ok {
		return Exp{Any: true, Note: "no single documented outcome for the call"}
	}
	base := Out{Res: deep(s.V), After: deep(s.R)}
	name, op := writeTarget(c.Write)
	e := Exp{Base: &base}
	mk := func(st aftState) {
		args := map[int]V{}
		for k, a := range st.Args {
			args[k] = a
		}
		e.Alts = append(e.Alts, Out{Res: st.V, After: st.R})
		e.AltArgs = append(e.AltArgs, args)
	}
	ind := s.clone()
	ind.set(name, applyOp(ind.target(name), op))
	mk(ind)
	if (c.M == "reverse" || c.M == "sort") && (name == "v" || name == "r") {
		al := s.clone()
		al.set("v", applyOp(al.target("v"), op))
		al.set("r", applyOp(al.target("r"), op))
		mk(al)
	}
	return e
}

func aftArgName(k int) string { return fmt.Sprintf("a%d", k) }

func aftSrc(c *Case, at atoms, i int, bare bool) string {
	var sb strings.Builder
	fmt.Fprintf(&sb, "$r = %s;\n", lit(c.Recv))
	p := make([]string, len(c.Args))
	var argVars []int
	for k, a := range c.Args {
		switch {
		case a.K == "cb":
			p[k] = cbByID(a.CB).Src(at)
		default:
			if _, ok := a.V.([]any); ok {
				fmt.Fprintf(&sb, "$%s = %s;\n", aftArgName(k), lit(a.V))
				p[k] = "$" + aftArgName(k)
				argVars = append(argVars, k)
			} else {
				p[k] = lit(a.V)
			}
		}
	}
	fmt.Fprintf(&sb, "echo \"\\n@@B%d\\n\";\n", i)
	s, _ := baseState(c, at)
	name, op := writeTarget(c.Write)
	body := "$v = $r->" + c.M + "(" + strings.Join(p, ", ") + ");\n" +
		"echo \"\\n@@v\", json_encode($v), \"\\n@@a\", json_encode($r);\n" +
		opSrc(name, op, s.target(name)) + "\n" +
		"echo \"\\n@@V\", json_encode($v);\n"
	if bare {
		sb.WriteString(body)
	} else {
		sb.WriteString("try {\n" + body + "} catch (Throwable $x) { echo \"\\n@@T\", $x->getMessage(); }\n")
	}
	sb.WriteString("echo \"\\n@@A\", json_encode($r)")
	for _, k := range argVars {
		fmt.Fprintf(&sb, ", \"\\n@@G%d\", json_encode($%s)", k, aftArgName(k))
	}
	fmt.Fprintf(&sb, ", \"\\n@@E%d\\n\";\n", i)
	return sb.String()
}

func aftString(c *Case) string {
	p := make([]string, len(c.Args))
	pre := "$r = " + lit(c.Recv) + "; "
	for k, a := range c.Args {
		switch {
		case a.K == "cb":
			p[k] = "<" + a.CB + ">"
		default:
			if _, ok := a.V.([]any); ok {
				pre += "$" + aftArgName(k) + " = " + lit(a.V) + "; "
				p[k] = "$" + aftArgName(k)
			} else {
				p[k] = lit(a.V)
			}
		}
	}
	s, ok := baseState(c, atomsFor(0))
	w := c.Write
	if ok {
		name, op := writeTarget(c.Write)
		w = opSrc(name, op, s.target(name))
	}
	return pre + "$v = $r->" + c.M + "(" + strings.Join(p, ", ") + "); " + w
}

// compareAft returns the clause ("" = conforms or not applicable).
func compareAft(c *Case, e *Exp, o *Obs) string {
	switch o.Kind {
	case "crash":
		return "crash"
	case "broken":
		return "broken"
	}
	if e.Any {
		return ""
	}
	// the call itself must have behaved (otherwise the one-step family owns the failure)
	pv, ok1 := canonOf(o.Extra["v"])
	pa, ok2 := canonOf(o.Extra["a"])
	if !ok1 || !ok2 || pv != canon(e.Base.Res) || pa != canon(e.Base.After) {
		o.Kind = "base-mismatch"
		return ""
	}
	if o.Kind == "throw" {
		return "throw"
	}
	v, _ := canonOf(o.Res)
	r, _ := canonOf(o.After)
	for i, a := range e.Alts {
		if canon(a.Res) != v || canon(a.After) != r {
			continue
		}
		ok := true
		for k, av := range e.AltArgs[i] {
			g, _ := canonOf(o.Extra[fmt.Sprintf("G%d", k)])
			if g != canon(av) {
				ok = false
			}
		}
		if ok {
			return ""
		}
	}
	return "aliasing"
}
