package main

// String methods: enumeration and expected outcomes (docs/strings.md).
//
// The docs never say whether positions and lengths count bytes or characters (every example is
// ASCII). Both unit models are computed and either is accepted: UTF-8 bytes (PHP style) and code
// points (JavaScript style for BMP text). Other edges the docs leave open are listed where they
// are handled; each gets the explicit set of defensible answers, not "anything".

import (
	"strings"
	"unicode/utf8"
)

var strMethods = []string{"length", "length()", "indexOf", "substring", "replace", "split", "trim", "toUpperCase", "toLowerCase", "startsWith", "endsWith"}

func strAlphabet(at atoms) []string { return []string{at.Lo, at.Up, " ", at.MB} }

func strings_(alpha []string, minLen, maxLen int) []string {
	var out []string
	var rec func(cur string, k, n int)
	rec = func(cur string, k, n int) {
		if k == n {
			out = append(out, cur)
			return
		}
		for _, a := range alpha {
			rec(cur+a, k+1, n)
		}
	}
	for n := minLen; n <= maxLen; n++ {
		rec("", 0, n)
	}
	return out
}

func strReceivers(quick bool, at atoms) []string {
	if quick {
		return strings_(strAlphabet(at), 0, 3)
	}
	return strings_(strAlphabet(at), 0, 5)
}

func recvClass(s string) string {
	if len(s) != utf8.RuneCountInString(s) {
		return "recv=multibyte"
	}
	return "recv=ascii"
}

func strClass(s string) string {
	if s == "" {
		return "empty"
	}
	return "nonempty"
}

func genStr(m string, recv string, at atoms, quick bool, emit func(*Case)) {
	rc := recvClass(recv)
	mkc := func(shape []string, args ...Arg) {
		emit(&Case{Fam: "str", M: m, Cell: m, Recv: recv, Args: args, Shape: append([]string{rc}, shape...)})
	}
	searches := strings_(strAlphabet(at), 0, 2)
	switch m {
	case "length", "length()", "trim", "toUpperCase", "toLowerCase":
		mkc([]string{})
	case "indexOf", "startsWith", "endsWith":
		mkc([]string{"omitted"})
		for _, s := range searches {
			mkc([]string{strClass(s)}, vArg(s))
		}
	case "substring":
		mkc([]string{"omitted", "omitted"})
		r, b := utf8.RuneCountInString(recv), len(recv)
		for s := -(r + 1); s <= b+1; s++ {
			mkc([]string{idxClass(s, r), "omitted"}, vArg(s))
			for e := -(r + 1); e <= b+1; e++ {
				mkc([]string{idxClass(s, r), idxClass(e, r)}, vArg(s), vArg(e))
			}
		}
	case "replace":
		mkc([]string{"omitted", "omitted"})
		for _, s := range searches {
			mkc([]string{strClass(s), "omitted"}, vArg(s))
			for _, rp := range []string{"", "x", at.Lo + at.Lo} {
				mkc([]string{strClass(s), "given"}, vArg(s), vArg(rp))
			}
		}
	case "split":
		mkc([]string{"omitted"})
		for _, s := range searches {
			mkc([]string{strClass(s)}, vArg(s))
		}
	default:
		panic("genStr: " + m)
	}
}

func units(s string, model string) []string {
	var u []string
	if model == "byte" {
		for i := 0; i < len(s); i++ {
			u = append(u, s[i:i+1])
		}
		return u
	}
	for _, r := range s {
		u = append(u, string(r))
	}
	return u
}

func strList(p []string) []any {
	r := make([]any, len(p))
	for i, s := range p {
		r[i] = s
	}
	return r
}

type altSet struct {
	seen map[string]bool
	outs []Out
}

func (a *altSet) add(recv string, res V) {
	k := canon(res)
	if s, ok := res.(string); ok {
		k = "s:" + s
	}
	if a.seen == nil {
		a.seen = map[string]bool{}
	}
	if !a.seen[k] {
		a.seen[k] = true
		a.outs = append(a.outs, Out{Res: res, After: recv})
	}
}

func asciiMap(s string, up bool) string {
	b := []byte(s)
	for i, c := range b {
		if up && c >= 'a' && c <= 'z' {
			b[i] = c - 32
		}
		if !up && c >= 'A' && c <= 'Z' {
			b[i] = c + 32
		}
	}
	return string(b)
}

func expectStr(c *Case, at atoms) Exp {
	recv := c.Recv.(string)
	var alts altSet
	str := func(i int) string { return c.Args[i].V.(string) }
	switch c.M {
	case "length", "length()":
		alts.add(recv, len(recv))
		alts.add(recv, utf8.RuneCountInString(recv))
	case "trim":
		alts.add(recv, strings.Trim(recv, " "))
	case "toUpperCase":
		alts.add(recv, strings.ToUpper(recv))
		alts.add(recv, asciiMap(recv, true))
	case "toLowerCase":
		alts.add(recv, strings.ToLower(recv))
		alts.add(recv, asciiMap(recv, false))
	case "indexOf":
		if len(c.Args) == 0 {
			return Exp{Any: true, Note: "search is a required parameter"}
		}
		i := strings.Index(recv, str(0))
		alts.add(recv, i)
		if i > 0 {
			alts.add(recv, utf8.RuneCountInString(recv[:i]))
		}
	case "startsWith":
		if len(c.Args) == 0 {
			return Exp{Any: true, Note: "search is a required parameter"}
		}
		alts.add(recv, strings.HasPrefix(recv, str(0)))
	case "endsWith":
		if len(c.Args) == 0 {
			return Exp{Any: true, Note: "search is a required parameter"}
		}
		alts.add(recv, strings.HasSuffix(recv, str(0)))
	case "substring":
		if len(c.Args) == 0 {
			return Exp{Any: true, Note: "start is a required parameter"}
		}
		start := c.Args[0].V.(int)
		end := intArg(c.Args, 1)
		// JavaScript: negative -> 0, beyond -> length, start > end -> swapped. The docs are silent on
		// negative positions and on start > end, so "negative counts from the end" and "start > end
		// gives the empty string" are accepted as well.
		for _, model := range []string{"byte", "rune"} {
			u := units(recv, model)
			n := len(u)
			for _, fromEnd := range []bool{false, true} {
				conv := func(i int) int {
					if i < 0 {
						if fromEnd {
							i += n
						} else {
							i = 0
						}
						if i < 0 {
							i = 0
						}
					}
					if i > n {
						i = n
					}
					return i
				}
				s := conv(start)
				e := n
				if end != nil {
					e = conv(*end)
				}
				if s > e {
					alts.add(recv, strings.Join(u[e:s], ""))
					alts.add(recv, "")
				} else {
					alts.add(recv, strings.Join(u[s:e], ""))
				}
			}
		}
	case "replace":
		if len(c.Args) < 2 {
			return Exp{Any: true, Note: "search and replace are required parameters"}
		}
		// the documented example replaces every occurrence ("Hell0 W0rld")
		if str(0) == "" {
			// empty search string: unchanged (PHP) or inserted at every position (JavaScript replaceAll)
			alts.add(recv, recv)
			alts.add(recv, strings.ReplaceAll(recv, "", str(1)))
			alts.add(recv, str(1)+strings.Join(units(recv, "byte"), str(1))+str(1))
			if recv == "" {
				alts.add(recv, str(1))
			}
		} else {
			alts.add(recv, strings.ReplaceAll(recv, str(0), str(1)))
		}
	case "split":
		e := Exp{}
		switch {
		case len(c.Args) == 0:
			// "default split (by space)": split(" ") or whitespace fields
			alts.add(recv, strList(strings.Split(recv, " ")))
			alts.add(recv, strList(strings.Fields(recv)))
		case str(0) == "":
			// empty separator: characters (JavaScript), bytes, the whole string, or an error (PHP explode)
			alts.add(recv, strList(units(recv, "rune")))
			alts.add(recv, strList(units(recv, "byte")))
			alts.add(recv, []any{recv})
			e.Throw = true
		default:
			alts.add(recv, strList(strings.Split(recv, str(0))))
		}
		e.Alts = alts.outs
		return e
	default:
		panic("expectStr: " + c.M)
	}
	return Exp{Alts: alts.outs}
}
