// F5 "dispatch": which arm does a switch / match / if-elseif chain enter?
//
// The progen families F1..F4 only ever write `case <int literal>:` with `default:` last, so the
// part of the reference semantics that says "labels are evaluated in SOURCE ORDER, each at most
// once, up to and including the first one that equals the subject; the arm entered is that first
// one; `default` is entered only when no label matches, wherever it is written; labels after the
// hit are not evaluated" was exercised for one label form only. F5 enumerates the complete cross
// product of
//
//	dispatcher   switch | match | if/elseif[/else] chain
//	label form   literal | variable | call with a visible side effect | computed expression
//	             (ints 0..2), literal | variable | call (strings), `$x == v` | `$x < v` |
//	             call | variable on a `true` subject (bools)
//	label value  3 values per type, duplicates included (the first one in source order wins)
//	arms         1..K labels (switch, chain) / 1..C conditions split over arms in every way (match)
//	default      absent or at every position (switch), at every position (match), else yes/no
//	arm ending   break everywhere | fall through everywhere | alternating | stacked empty labels
//	subject      foreach value | in-place `for` counter | while counter | parameter of a function
//	             whose arms `return` | call with a side effect | `$x + 0` | literal
//
// Every dispatcher is executed for every subject value of the type plus one value that no label
// has (ints 0..3, strings a..d), and -- when a label reads a variable -- a second time after the
// label variables were rotated (a label value memoised at first execution shows).
//
// The programs are ordinary progen ASTs (Case.Val / Arm.Conds are expressions), so printer,
// refsem, reducer and replay are the ones every other family uses. The family lives in the check
// because engine/progen is shared; only the enumeration and two signature tokens are local.
package main

import (
	"fmt"
	"sort"
	"strings"

	. "verif/engine/progen"
)

// f5Bound fixes the finite space of F5.
type f5Bound struct {
	SwitchK int // labels per switch, int labels, foreach subject: full cross product
	SubK    int // labels per switch in the other subject forms, string and bool switches, swapped chains
	MatchC  int // conditions per match (split over arms in every way)
	ChainK  int // conditions per if/elseif chain
}

func f5Bounds(tier string) f5Bound {
	if tier == "thorough" {
		return f5Bound{SwitchK: 4, SubK: 3, MatchC: 3, ChainK: 4}
	}
	return f5Bound{SwitchK: 3, SubK: 2, MatchC: 2, ChainK: 3}
}

// f5Item is one program of the family, built on demand (shards skip most of them).
type f5Item struct {
	Cfg      f5cfg
	Template bool // also run in <?php mode (the small end of every sub-family)
}

// ---- label alphabets ------------------------------------------------------------------------------

type f5lab struct {
	kind string // lit var call expr | eq lt
	v    int    // 0..2
}

var f5strs = []string{"a", "b", "c", "d"}

// f5xvals: the typed literal values of the mixed-kind families (domain "x"); values of different
// kinds that convert into each other are the point. Index = f5lab.v.
var f5xvals = []func() *Expr{
	func() *Expr { return Int(0) }, func() *Expr { return Int(1) }, func() *Expr { return Int(2) },
	func() *Expr { return Float("0.0") }, func() *Expr { return Float("1.0") }, func() *Expr { return Float("1.5") }, func() *Expr { return Float("2.0") },
	func() *Expr { return Str("0") }, func() *Expr { return Str("1") }, func() *Expr { return Str("") }, func() *Expr { return Str("a") },
	func() *Expr { return Null() }, func() *Expr { return Bool(true) }, func() *Expr { return Bool(false) },
}

// f5xlabels: mixed-kind labels as literals and, when vars is set, also read from a variable.
func f5xlabels(vars bool, n int) []f5lab {
	var out []f5lab
	for v := 0; v < n; v++ {
		out = append(out, f5lab{"xlit", v})
	}
	if vars {
		for v := 0; v < n; v++ {
			out = append(out, f5lab{"xvar", v})
		}
	}
	return out
}

func f5labels(dom string) []f5lab {
	kinds := map[string][]string{
		"int":  {"lit", "var", "call", "expr"},
		"str":  {"lit", "var", "call"},
		"bool": {"eq", "lt", "call", "var"},
	}[dom]
	var out []f5lab
	for _, k := range kinds {
		for v := 0; v < 3; v++ {
			out = append(out, f5lab{k, v})
		}
	}
	return out
}

func (l f5lab) String() string { return fmt.Sprintf("%s%d", l.kind, l.v) }

// expr prints the label for domain dom (subject variable $x for the bool domain).
func (l f5lab) expr(dom string) *Expr {
	switch dom {
	case "int":
		switch l.kind {
		case "lit":
			return Int(l.v)
		case "var":
			return Var(fmt.Sprintf("l%d", l.v))
		case "call":
			return Call("lab", Int(l.v))
		case "expr":
			return Bin("+", Var("z"), Int(l.v))
		}
	case "str":
		switch l.kind {
		case "lit":
			return Str(f5strs[l.v])
		case "var":
			return Var(fmt.Sprintf("s%d", l.v))
		case "call":
			return Call("lab", Str(f5strs[l.v]))
		}
	case "x":
		if l.kind == "xvar" {
			return Var(fmt.Sprintf("m%d", l.v))
		}
		return f5xvals[l.v]()
	case "bool":
		switch l.kind {
		case "eq":
			return Eq(Var("x"), Int(l.v))
		case "lt":
			return Bin("<", Var("x"), Int(l.v))
		case "call":
			return Call("eq", Var("x"), Int(l.v))
		case "var":
			return Var(fmt.Sprintf("b%d", l.v))
		}
	}
	panic("f5: bad label " + dom + "/" + l.kind)
}

// f5setup returns the assignments the labels need before round r (0 or 1): label variables hold
// their nominal value in round 0 and the next value (mod 3) in round 1; $z is 0 then 1. off, when
// not empty, names the variable that holds the round number (the function form passes it as a parameter).
func f5setup(dom string, labs []f5lab, r int, off string) []*Stmt {
	var out []*Stmt
	seen := map[string]bool{}
	for _, l := range labs {
		key := l.String()
		if l.kind == "expr" {
			key = "z"
		}
		if seen[key] {
			continue
		}
		seen[key] = true
		switch {
		case dom == "int" && l.kind == "var":
			if off != "" {
				out = append(out, Assign(fmt.Sprintf("l%d", l.v), Bin("%", Bin("+", Int(l.v), Var(off)), Int(3))))
			} else {
				out = append(out, Assign(fmt.Sprintf("l%d", l.v), Int((l.v+r)%3)))
			}
		case dom == "int" && l.kind == "expr":
			if off != "" {
				out = append(out, Assign("z", Var(off)))
			} else {
				out = append(out, Assign("z", Int(r)))
			}
		case dom == "x" && l.kind == "xvar":
			out = append(out, Assign(fmt.Sprintf("m%d", l.v), f5xvals[l.v]()))
		case dom == "str" && l.kind == "var":
			if off != "" { // nominal value in round 0, the next one in round 1
				out = append(out, Assign(fmt.Sprintf("s%d", l.v), Str(f5strs[l.v])),
					If(Eq(Var(off), Int(1)), Assign(fmt.Sprintf("s%d", l.v), Str(f5strs[(l.v+1)%3]))))
			} else {
				out = append(out, Assign(fmt.Sprintf("s%d", l.v), Str(f5strs[(l.v+r)%3])))
			}
		}
	}
	return out
}

// f5pre returns the statements executed just before the dispatcher inside the loop (bool labels
// read from a variable are computed from the current subject).
func f5pre(dom string, labs []f5lab) []*Stmt {
	var out []*Stmt
	seen := map[int]bool{}
	for _, l := range labs {
		if dom == "bool" && l.kind == "var" && !seen[l.v] {
			seen[l.v] = true
			out = append(out, Assign(fmt.Sprintf("b%d", l.v), Eq(Var("x"), Int(l.v))))
		}
	}
	return out
}

// f5inRounds runs `once` (built by mk from the name of the round variable, "" = nominal values)
// one time, or -- when a label reads a variable -- inside `foreach ([0, 1] as $k)`, so that the
// SAME dispatcher node is executed again after the label variables moved on.
func f5inRounds(dom string, labs []f5lab, mk func(off string) []*Stmt) []*Stmt {
	if f5rounds(dom, labs) == 1 {
		return append(mk(""), EchoS("|"))
	}
	l := Loop(LForeach, "k", 2, append(mk("k"), EchoS("|"))...)
	l.Subj = Arr(Int(0), Int(1))
	return []*Stmt{l}
}

func f5rounds(dom string, labs []f5lab) int {
	for _, l := range labs {
		if dom != "bool" && (l.kind == "var" || l.kind == "expr") {
			return 2
		}
	}
	return 1
}

// f5funcs declares the helper functions the program calls.
func f5funcs(p *Program) {
	need := map[string]bool{}
	var ex func(e *Expr)
	ex = func(e *Expr) {
		if e == nil {
			return
		}
		if e.K == ECall {
			need[e.S] = true
		}
		for _, a := range e.A {
			ex(a)
		}
		for _, arm := range e.Arms {
			ex(arm.Val)
			for _, c := range arm.Conds {
				ex(c)
			}
		}
	}
	var st func(ss []*Stmt)
	st = func(ss []*Stmt) {
		for _, s := range ss {
			ex(s.E)
			for _, a := range s.Args {
				ex(a)
			}
			st(s.Then)
			st(s.Else)
			st(s.Body)
			for _, e := range s.Elifs {
				ex(e.Cond)
				st(e.Body)
			}
			for _, c := range s.Cases {
				ex(c.Val)
				st(c.Body)
			}
		}
	}
	st(p.Main)
	for _, f := range p.Funcs {
		st(f.Body)
	}
	var helpers []*Func
	if need["lab"] { // a label (or arm value) whose evaluation is visible
		helpers = append(helpers, &Func{Name: "lab", Params: []Param{{Name: "v"}},
			Body: []*Stmt{Echo(Str("("), Var("v"), Str(")")), Return(Var("v"))}})
	}
	if need["eq"] {
		helpers = append(helpers, &Func{Name: "eq", Params: []Param{{Name: "a"}, {Name: "b"}},
			Body: []*Stmt{Echo(Str("("), Var("b"), Str(")")), Return(Eq(Var("a"), Var("b")))}})
	}
	if need["sub"] { // a subject whose evaluation is visible
		helpers = append(helpers, &Func{Name: "sub", Params: []Param{{Name: "v"}},
			Body: []*Stmt{Echo(Str("<"), Var("v"), Str(">")), Return(Var("v"))}})
	}
	p.Funcs = append(helpers, p.Funcs...)
}

// ---- switch ---------------------------------------------------------------------------------------

var f5Endings = []string{"break", "fall", "alt", "stack"}

// f5switch builds the switch. defPos = -1: no default, else its position among the labels in
// source order. ret: the switch sits in a function and "break" arms return their marker.
func f5switch(dom string, subj *Expr, labs []f5lab, defPos int, ending string, ret bool) *Stmt {
	n := len(labs)
	if defPos >= 0 {
		n++
	}
	var cases []Case
	li := 0
	for j := 0; j < n; j++ {
		var c Case
		marker := "d"
		if j == defPos {
			// default
		} else {
			c.Val = labs[li].expr(dom)
			marker = string(rune('A' + li))
			li++
		}
		leave := func() []*Stmt {
			if ret {
				return []*Stmt{Return(Str(marker))}
			}
			return []*Stmt{EchoS(marker), Break(1)}
		}
		switch ending {
		case "break":
			c.Body = leave()
		case "fall":
			c.Body = []*Stmt{EchoS(marker)}
		case "alt":
			if j%2 == 0 {
				c.Body = leave()
			} else {
				c.Body = []*Stmt{EchoS(marker)}
			}
		case "stack": // `case a: case b: ...; break;`
			if j%2 == 0 && j != n-1 {
				c.Body = nil
			} else {
				c.Body = leave()
			}
		}
		cases = append(cases, c)
	}
	return Switch(subj, cases...)
}

var f5IntSubjects = []string{"for", "while", "param", "call", "expr", "lit"}

// f5subjectValues returns the foreach subject holding every value of the type plus one no label has.
func f5subjectValues(dom string) *Expr {
	if dom == "x" {
		e := &Expr{K: EArr}
		for _, mk := range f5xvals {
			e.A = append(e.A, mk())
		}
		return e
	}
	if dom == "str" {
		return Arr(Str("a"), Str("b"), Str("c"), Str("d"))
	}
	return Arr(Int(0), Int(1), Int(2), Int(3))
}

// f5switchProgram wraps the switch into the subject form.
func f5switchProgram(dom, form string, labs []f5lab, defPos int, ending string, subj int) *Program {
	p := &Program{}
	if dom == "x" { // one literal subject, literal labels of any kind
		p.Main = []*Stmt{EchoS("s:"), f5switch(dom, f5xvals[subj](), labs, defPos, ending, false), EchoS(";\n")}
		return p
	}
	subjExpr := func() *Expr {
		if dom == "bool" {
			return Bool(true)
		}
		switch form {
		case "call":
			return Call("sub", Var("x"))
		case "expr":
			return Bin("+", Var("x"), Int(0))
		}
		return Var("x")
	}
	p.Main = f5inRounds(dom, labs, func(off string) []*Stmt {
		var out []*Stmt
		switch form {
		case "param":
			body := f5setup(dom, labs, 0, "k")
			body = append(body, f5switch(dom, Var("x"), labs, defPos, ending, true), Return(Str("n")))
			p.Funcs = append(p.Funcs, &Func{Name: "cls", Params: []Param{{Name: "x"}, {Name: "k"}}, Body: body})
			var k *Expr = Int(0)
			if off != "" {
				k = Var(off)
			}
			l := Loop(LForeach, "x", 4, Assign("r", Call("cls", Var("x"), k)), Echo(Var("x"), Str(":"), Var("r"), Str(";")))
			l.Subj = f5subjectValues(dom)
			out = append(out, l)
		case "lit":
			out = append(out, f5setup(dom, labs, 0, off)...)
			for v := 0; v <= 3; v++ {
				out = append(out, Echo(Int(v), Str(":")), f5switch(dom, Int(v), labs, defPos, ending, false), EchoS(";"))
			}
		default:
			out = append(out, f5setup(dom, labs, 0, off)...)
			body := append(f5pre(dom, labs), Echo(Var("x"), Str(":")), f5switch(dom, subjExpr(), labs, defPos, ending, false), EchoS(";"))
			var l *Stmt
			switch form {
			case "for": // for ($x = 0; $x <= 3; $x++): the subject is the in-place incremented counter
				l = Loop(LFor, "x", 3, body...)
				l.Init = Int(0)
			case "while": // counter 1..3
				l = Loop(LWhile, "x", 3, body...)
			default:
				l = Loop(LForeach, "x", 4, body...)
				l.Subj = f5subjectValues(dom)
			}
			out = append(out, l)
		}
		return out
	})
	p.Main = append(p.Main, EchoS("\n"))
	f5funcs(p)
	return p
}

// ---- match ----------------------------------------------------------------------------------------

// f5compositions lists every way to split n conditions over arms (ordered), e.g. 3 -> [3] [2 1] [1 2] [1 1 1].
func f5compositions(n int) [][]int {
	if n == 0 {
		return [][]int{nil}
	}
	var out [][]int
	for first := n; first >= 1; first-- {
		for _, rest := range f5compositions(n - first) {
			out = append(out, append([]int{first}, rest...))
		}
	}
	return out
}

func f5matchProgram(dom string, labs []f5lab, comp []int, defPos int, valKind string) *Program {
	p := &Program{}
	mk := func() *Expr {
		var arms []Arm
		li := 0
		val := func(m string) *Expr {
			if valKind == "call" {
				return Call("lab", Str(m))
			}
			return Str(m)
		}
		for j := 0; j <= len(comp); j++ {
			if j == defPos {
				arms = append(arms, Arm{Val: val("d")})
			}
			if j < len(comp) {
				a := Arm{Val: val(string(rune('A' + j)))}
				for k := 0; k < comp[j]; k++ {
					a.Conds = append(a.Conds, labs[li].expr(dom))
					li++
				}
				arms = append(arms, a)
			}
		}
		subj := Var("x")
		if dom == "bool" {
			subj = Bool(true)
		}
		return Match(subj, arms...)
	}
	p.Main = f5inRounds(dom, labs, func(off string) []*Stmt {
		shown := "x"
		if dom == "x" { // subjects of every kind: print their position instead
			shown = "i"
		}
		body := append(f5pre(dom, labs), Assign("r", mk()), Echo(Var(shown), Str(":"), Var("r"), Str(";")))
		l := Loop(LForeach, "x", 4, body...)
		l.Subj = f5subjectValues(dom)
		if dom == "x" {
			l.Key = "i"
		}
		return append(f5setup(dom, labs, 0, off), l)
	})
	p.Main = append(p.Main, EchoS("\n"))
	f5funcs(p)
	return p
}

// ---- if / elseif chain ----------------------------------------------------------------------------

func f5chainProgram(labs []f5lab, hasElse, swapped bool) *Program {
	p := &Program{}
	mk := func() *Stmt {
		cond := func(l f5lab) *Expr {
			if swapped {
				return Eq(l.expr("int"), Var("x"))
			}
			return Eq(Var("x"), l.expr("int"))
		}
		s := If(cond(labs[0]), EchoS("A"))
		for i, l := range labs[1:] {
			s.Elifs = append(s.Elifs, Elif{Cond: cond(l), Body: []*Stmt{EchoS(string(rune('B' + i)))}})
		}
		if hasElse {
			s.HasElse, s.Else = true, []*Stmt{EchoS("d")}
		}
		return s
	}
	p.Main = f5inRounds("int", labs, func(off string) []*Stmt {
		l := Loop(LForeach, "x", 4, Echo(Var("x"), Str(":")), mk(), EchoS(";"))
		l.Subj = f5subjectValues("int")
		return append(f5setup("int", labs, 0, off), l)
	})
	p.Main = append(p.Main, EchoS("\n"))
	f5funcs(p)
	return p
}

// ---- configurations ---------------------------------------------------------------------------------

// f5cfg is one point of the family's parameter space.
type f5cfg struct {
	Disp    string  // "switch" | "match" | "chain"
	Dom     string  // label type: "int" | "str" | "bool"
	Form    string  // switch: subject form ("foreach" or one of f5IntSubjects)
	Labs    []f5lab // labels / conditions in source order
	DefPos  int     // switch: -1 none, else position among the labels; match: position among the arms
	Ending  string  // switch: one of f5Endings
	Comp    []int   // match: conditions per arm
	ValKind string  // match: arm values "lit" | "call"
	HasElse bool    // chain
	Swapped bool    // chain: `L == $x` instead of `$x == L`
	Subj    int     // switch over mixed kinds (Dom "x"): index of the literal subject in f5xvals
}

func (c f5cfg) Next() []cfgT {
	var out []cfgT
	for _, n := range c.Shrink() {
		out = append(out, n)
	}
	return out
}

func (c f5cfg) ID() string {
	switch c.Disp {
	case "switch":
		if c.Dom == "x" {
			return fmt.Sprintf("F5/switch-x/subj%d/%s/def@%d/%s", c.Subj, f5name(c.Labs), c.DefPos, c.Ending)
		}
		return fmt.Sprintf("F5/switch-%s/%s/%s/def@%d/%s", c.Dom, c.Form, f5name(c.Labs), c.DefPos, c.Ending)
	case "match":
		return fmt.Sprintf("F5/match-%s/%s/arms%v/def@%d/val-%s", c.Dom, f5name(c.Labs), c.Comp, c.DefPos, c.ValKind)
	}
	return fmt.Sprintf("F5/chain/%s/else-%v/swapped-%v", f5name(c.Labs), c.HasElse, c.Swapped)
}

func (c f5cfg) Build() *Program {
	switch c.Disp {
	case "switch":
		return f5switchProgram(c.Dom, c.Form, c.Labs, c.DefPos, c.Ending, c.Subj)
	case "match":
		return f5matchProgram(c.Dom, c.Labs, c.Comp, c.DefPos, c.ValKind)
	}
	return f5chainProgram(c.Labs, c.HasElse, c.Swapped)
}

// Shrink lists the neighbours of c that are simpler in one parameter (fewer labels, no / last
// default, `break` endings, foreach subject, a simpler label form, literal arm values ...), most
// drastic first. A failing program is first walked down these edges (one run per candidate) before
// the generic AST reducer sees it: the thousands of failing supersets of one defect meet in a few
// parameter-minimal programs, and only those are reduced statement by statement.
func (c f5cfg) Shrink() []f5cfg {
	var out []f5cfg
	with := func(f func(n *f5cfg)) {
		n := c
		n.Labs = append([]f5lab(nil), c.Labs...)
		n.Comp = append([]int(nil), c.Comp...)
		f(&n)
		out = append(out, n)
	}
	if len(c.Labs) > 1 {
		for i := range c.Labs {
			i := i
			with(func(n *f5cfg) {
				n.Labs = append(n.Labs[:i], n.Labs[i+1:]...)
				switch c.Disp {
				case "switch":
					if n.DefPos > i {
						n.DefPos--
					}
				case "match": // the condition leaves its arm; an arm left empty disappears
					at := 0
					for j := range n.Comp {
						if i < at+n.Comp[j] {
							n.Comp[j]--
							if n.Comp[j] == 0 {
								n.Comp = append(n.Comp[:j], n.Comp[j+1:]...)
								if n.DefPos > j {
									n.DefPos--
								}
							}
							break
						}
						at += n.Comp[j]
					}
				}
			})
		}
	}
	switch c.Disp {
	case "switch":
		if c.DefPos >= 0 {
			with(func(n *f5cfg) { n.DefPos = -1 })
			if c.DefPos != len(c.Labs) {
				with(func(n *f5cfg) { n.DefPos = len(c.Labs) })
			}
		}
		for _, e := range f5Endings {
			if e == c.Ending {
				break
			}
			e := e
			with(func(n *f5cfg) { n.Ending = e })
		}
		if c.Form != "foreach" && c.Dom != "x" {
			with(func(n *f5cfg) { n.Form = "foreach" })
		}
	case "match":
		if c.DefPos != len(c.Comp) {
			with(func(n *f5cfg) { n.DefPos = len(n.Comp) })
		}
		if c.ValKind != "lit" {
			with(func(n *f5cfg) { n.ValKind = "lit" })
		}
		for j := range c.Comp { // split a multi-condition arm
			if c.Comp[j] > 1 {
				j := j
				with(func(n *f5cfg) {
					rest := append([]int{1, n.Comp[j] - 1}, n.Comp[j+1:]...)
					n.Comp = append(n.Comp[:j], rest...)
					if n.DefPos > j {
						n.DefPos++
					}
				})
			}
		}
	case "chain":
		if c.HasElse {
			with(func(n *f5cfg) { n.HasElse = false })
		}
		if c.Swapped {
			with(func(n *f5cfg) { n.Swapped = false })
		}
	}
	// a simpler label form with the same value (alphabet order = simplest first)
	kinds := map[string][]string{"int": {"lit", "var", "expr", "call"}, "str": {"lit", "var", "call"}, "bool": {"eq", "lt", "var", "call"}, "x": {"xlit", "xvar"}}[c.Dom]
	for i, l := range c.Labs {
		for _, k := range kinds {
			if k == l.kind {
				break
			}
			i, k := i, k
			with(func(n *f5cfg) { n.Labs[i].kind = k })
		}
	}
	return out
}

// ---- enumeration ----------------------------------------------------------------------------------

// f5tuples calls f with every sequence of n labels of the alphabet (odometer order).
func f5tuples(alpha []f5lab, n int, f func([]f5lab) bool) bool {
	idx := make([]int, n)
	for {
		labs := make([]f5lab, n)
		for i, k := range idx {
			labs[i] = alpha[k]
		}
		if !f(labs) {
			return false
		}
		i := n - 1
		for i >= 0 {
			idx[i]++
			if idx[i] < len(alpha) {
				break
			}
			idx[i] = 0
			i--
		}
		if i < 0 {
			return true
		}
	}
}

func f5name(labs []f5lab) string {
	parts := make([]string, len(labs))
	for i, l := range labs {
		parts[i] = l.String()
	}
	return strings.Join(parts, ".")
}

// F5 streams the family in a fixed order; yield returns false to stop.
func F5(b f5Bound, yield func(f5Item) bool) {
	ok := true
	y := func(c f5cfg, tmpl bool) bool {
		if ok {
			ok = yield(f5Item{Cfg: c, Template: tmpl})
		}
		return ok
	}
	switches := func(dom, form string, maxK int, endings []string) {
		alpha := f5labels(dom)
		for k := 1; k <= maxK && ok; k++ {
			f5tuples(alpha, k, func(labs []f5lab) bool {
				for defPos := -1; defPos <= k; defPos++ {
					for _, ending := range endings {
						if !y(f5cfg{Disp: "switch", Dom: dom, Form: form, Labs: labs, DefPos: defPos, Ending: ending}, k <= 2 && form == "foreach") {
							return false
						}
					}
				}
				return true
			})
		}
	}
	// A: int labels, foreach subject, everything crossed
	switches("int", "foreach", b.SwitchK, f5Endings)
	// B: the other subject forms
	for _, form := range f5IntSubjects {
		switches("int", form, b.SubK, []string{"break", "fall"})
	}
	// C, D: string labels; `switch (true)` with bool labels
	switches("str", "foreach", b.SubK, f5Endings)
	switches("bool", "foreach", b.SubK, f5Endings)
	// E: match
	for _, dom := range []string{"int", "str", "bool"} {
		alpha := f5labels(dom)
		for c := 1; c <= b.MatchC && ok; c++ {
			for _, comp := range f5compositions(c) {
				f5tuples(alpha, c, func(labs []f5lab) bool {
					for defPos := 0; defPos <= len(comp); defPos++ {
						for _, vk := range []string{"lit", "call"} {
							if !y(f5cfg{Disp: "match", Dom: dom, Labs: labs, Comp: comp, DefPos: defPos, ValKind: vk}, c <= 1) {
								return false
							}
						}
					}
					return true
				})
			}
		}
	}
	// G: match over labels and subjects of every scalar kind (identity decides). Literal labels, and
	// for <= 2 conditions also labels read from a variable; all 14 values as subjects.
	for c := 1; c <= b.MatchC && ok; c++ {
		alpha := f5xlabels(c <= 2, len(f5xvals))
		for _, comp := range f5compositions(c) {
			f5tuples(alpha, c, func(labs []f5lab) bool {
				for defPos := 0; defPos <= len(comp); defPos++ {
					if !y(f5cfg{Disp: "match", Dom: "x", Labs: labs, Comp: comp, DefPos: defPos, ValKind: "lit"}, c <= 1) {
						return false
					}
				}
				return true
			})
		}
	}
	// H: switch with a literal subject and literal labels of other kinds, restricted to the pairs
	// whose loose comparison is settled (see model.go)
	for subj := range f5xvals {
		sv, _ := litOf(f5xvals[subj]())
		if sv.kind == "null" || sv.kind == "bool" {
			continue
		}
		var alpha []f5lab
		for v := range f5xvals {
			lv, _ := litOf(f5xvals[v]())
			if _, settled := looseLit(sv, lv); settled || lv.kind == sv.kind {
				alpha = append(alpha, f5lab{"xlit", v})
			}
		}
		for k := 1; k <= b.SubK && ok; k++ {
			f5tuples(alpha, k, func(labs []f5lab) bool {
				for defPos := -1; defPos <= k; defPos++ {
					for _, ending := range []string{"break", "fall"} {
						if !y(f5cfg{Disp: "switch", Dom: "x", Form: "xlit", Subj: subj, Labs: labs, DefPos: defPos, Ending: ending}, k <= 1) {
							return false
						}
					}
				}
				return true
			})
		}
	}
	// F: if / elseif chains
	alpha := f5labels("int")
	for k := 1; k <= b.ChainK && ok; k++ {
		f5tuples(alpha, k, func(labs []f5lab) bool {
			for _, hasElse := range []bool{false, true} {
				for _, swapped := range []bool{false, true} {
					if swapped && k > b.SubK {
						continue
					}
					if !y(f5cfg{Disp: "chain", Dom: "int", Labs: labs, HasElse: hasElse, Swapped: swapped}, k <= 1) {
						return false
					}
				}
			}
			return true
		})
	}
}

// F5Count is the number of programs in the bound.
func F5Count(b f5Bound) int {
	n := 0
	F5(b, func(f5Item) bool { n++; return true })
	return n
}

// ---- finding-key tokens ---------------------------------------------------------------------------

// dispatchTokens names the dispatch phenomena of a (reduced) program that progen.Signature does
// not know about:
//
//	label:computed      a case label / match condition that is not a literal (variable, call, expression)
//	default-not-last    a switch or match whose default is followed by another arm
func dispatchTokens(p *Program) []string {
	set := map[string]bool{}
	lit := func(e *Expr) bool { return e.K == EInt || e.K == EStr || e.K == EBool || e.K == ENull }
	var ex func(e *Expr)
	ex = func(e *Expr) {
		if e == nil {
			return
		}
		for i, arm := range e.Arms {
			if len(arm.Conds) == 0 && i < len(e.Arms)-1 {
				set["default-not-last"] = true
			}
			for _, c := range arm.Conds {
				if !lit(c) {
					set["label:computed"] = true
				}
				ex(c)
			}
			ex(arm.Val)
		}
		for _, a := range e.A {
			ex(a)
		}
	}
	var st func(ss []*Stmt)
	st = func(ss []*Stmt) {
		for _, s := range ss {
			ex(s.E)
			ex(s.Init)
			ex(s.Subj)
			for _, a := range s.Args {
				ex(a)
			}
			st(s.Then)
			st(s.Else)
			st(s.Body)
			for _, e := range s.Elifs {
				ex(e.Cond)
				st(e.Body)
			}
			for i, c := range s.Cases {
				if c.Val == nil && i < len(s.Cases)-1 {
					set["default-not-last"] = true
				}
				if c.Val != nil && !lit(c.Val) {
					set["label:computed"] = true
				}
				ex(c.Val)
				st(c.Body)
			}
		}
	}
	for _, f := range p.Funcs {
		for _, pa := range f.Params {
			ex(pa.Def)
		}
		st(f.Body)
	}
	st(p.Main)
	out := make([]string, 0, len(set))
	for k := range set {
		out = append(out, k)
	}
	sort.Strings(out)
	return out
}

// dispatchWithin: reducer candidates may not gain a dispatch phenomenon the original did not have.
func dispatchWithin(p *Program, allowed map[string]bool) bool {
	for _, t := range dispatchTokens(p) {
		if !allowed[t] {
			return false
		}
	}
	return true
}
