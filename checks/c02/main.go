// C02: control flow and function calls behave as the reference semantics prescribe.
//
// Form P (small-scope program enumeration): every program of the four progen families inside the
// tier's bound (F1 jump x nesting, F2 functions, F3 integer fast paths / value aliasing, F4
// statement lists) is printed as origami source, run through the real lexer -> parser ->
// interpreter (plain `.zy` mode and `<?php` template mode) and compared with `refsem`, the
// independent reference interpreter over the generator's own AST (engine/progen/refsem.go).
// The oracle: the run ends normally and stdout equals the reference output byte for byte (where
// a `continue` meets a `switch` both defensible readings are accepted).
//
// Failing programs are delta-reduced inside the AST space (engine/progen/reduce.go) under "the
// same clause still fails", alpha-normalised, and the resulting minimal program text is the
// finding key.
package main

import (
	"encoding/json"
	"fmt"
	"hash/fnv"
	"os"
	"sort"
	"strings"
	"time"

	"verif/engine/ev"
	"verif/engine/pool"
	"verif/engine/progen"
	"verif/engine/runner"
)

// ---- one comparison -----------------------------------------------------------------------------

type verdict struct {
	Clause   string   // "" = agrees
	Expected []string // reference outputs
	Got      runner.Result
}

func modeOf(template bool) runner.Mode {
	if template {
		return runner.Template
	}
	return runner.Plain
}

// clauseOf classifies one run against the expected outputs.
func clauseOf(exp []string, res runner.Result) string {
	switch res.Kind {
	case "ok":
		for _, e := range exp {
			if res.Out == e {
				return ""
			}
		}
		return "output"
	case "panic":
		return "uncaught:" + res.PanicKey
	case "fuel":
		return "uncaught:does-not-terminate"
	case "throw":
		return "uncaught:throw"
	default:
		return "uncaught:" + res.Kind
	}
}

func check(p *progen.Program, template bool) (verdict, error) {
	exp, err := expected(p)
	if err != nil {
		return verdict{}, err
	}
	res := runner.Run(source(p, template), runner.Opts{Mode: modeOf(template), Fuel: 2_000_000})
	return verdict{Clause: clauseOf(exp, res), Expected: exp, Got: res}, nil
}

// ---- reduction to a finding key -------------------------------------------------------------------

type reducer struct {
	cache map[string]string // program text|mode -> clause ("-" = not a case)
	tests int64
}

func (r *reducer) clause(p *progen.Program, template bool) string {
	k := p.Text()
	if template {
		k = "T|" + k
	}
	if c, ok := r.cache[k]; ok {
		return c
	}
	r.tests++
	v, err := check(p, template)
	c := v.Clause
	if err != nil {
		c = "-"
	}
	if len(r.cache) > 200000 {
		r.cache = map[string]string{}
	}
	r.cache[k] = c
	return c
}

// minimise reduces a failing program and returns the canonical minimal program.
func (r *reducer) minimise(p *progen.Program, template bool, clause string) *progen.Program {
	// candidates may not introduce a phenomenon the original did not have (no sliding into another defect)
	allowed := progen.Flags(p)
	for _, t := range localTokens(p) {
		allowed[t] = true
	}
	red, _ := progen.Reduce(p, func(q *progen.Program) bool {
		return progen.FlagsWithin(q, allowed) && localWithin(q, allowed) && r.clause(q, template) == clause
	}, 4000)
	can := progen.Canonical(red)
	if r.clause(can, template) == clause {
		return can
	}
	return red
}

// f5memo: parameter-minimal F5 configuration | mode | clause -> its statement-level minimal program
// (per worker process; workers serve many shards).
var f5memo = map[string]*progen.Program{}

// shrinkCfg walks a failing F5 configuration down the family's parameter space while the same
// clause still fails (first improving neighbour, deterministic order).
func (r *reducer) shrinkCfg(c cfgT, seed int64, template bool, clause string) cfgT {
	for steps := 0; steps < 500; steps++ {
		moved := false
		for _, n := range c.Next() {
			p := n.Build()
			progen.Concretise(p, seed)
			if r.clause(p, template) == clause {
				c, moved = n, true
				break
			}
		}
		if !moved {
			break
		}
	}
	return c
}

// keyOf: the violated clause plus the control-flow signature of the minimal program (see
// progen.Signature) -- coarse enough that the many 1-minimal programs of one defect share a key,
// fine enough that a defect in another construct gets another key. The minimal program itself
// (the smallest seen for the key) is kept in the replay file.
func keyOf(clause string, template bool, min *progen.Program) string {
	sig := append(progen.Signature(min), localTokens(min)...) // (programs without dispatch tokens keep their old keys)
	sort.Strings(sig)
	k := clause + " [" + strings.Join(sig, " ") + "]"
	if template {
		k = "template-only " + k
	}
	return k
}

// ---- worker ------------------------------------------------------------------------------------------

type shardArg struct {
	Tier string `json:"tier"`
	Seed int64  `json:"seed"`
	Kind string `json:"kind"` // "mod": items of F1..F3 with index % M == I ; "f4": F4 indices [From,To) ; "f5": items of F5 with index % M == I
	I    int    `json:"i"`
	M    int    `json:"m"`
	From int    `json:"from"`
	To   int    `json:"to"`
	// Deadline (unix seconds): programs reached after it are counted as skipped, not run
	Deadline int64 `json:"deadline"`
}

type failRec struct {
	Key      string          `json:"key"`
	Clause   string          `json:"clause"`
	Size     int             `json:"size"`
	Template bool            `json:"template"`
	Program  json.RawMessage `json:"program"`
	Source   string          `json:"source"`
	Text     string          `json:"text"`
	From     string          `json:"from"` // id of the first generated program that reduced to this key
	Detail   string          `json:"detail"`
	N        int64           `json:"n"`
}

type rec struct {
	Kind      string           `json:"kind"` // "count" | "fail" | "generr" | "sample"
	Cases     map[string]int64 `json:"cases,omitempty"`
	Runs      int64            `json:"runs,omitempty"`
	Agree     int64            `json:"agree,omitempty"`
	Ambiguous int64            `json:"ambiguous,omitempty"`
	RedTests  int64            `json:"red_tests,omitempty"`
	Skipped   int64            `json:"skipped,omitempty"`
	Hashes    []uint64         `json:"hashes,omitempty"`
	Fail      *failRec         `json:"fail,omitempty"`
	Msg       string           `json:"msg,omitempty"`
	Sample    any              `json:"sample,omitempty"`
}

func bounds(tier string, seed int64) progen.Bounds {
	b := progen.Quick()
	if tier == "thorough" {
		b = progen.Thorough()
	}
	b.Seed = seed
	return b
}

func detail(v verdict) string {
	got := fmt.Sprintf("%q", v.Got.Out)
	if v.Got.Kind != "ok" {
		got += fmt.Sprintf(" then %s %s %s %s", v.Got.Kind, v.Got.Class, v.Got.Msg, v.Got.PanicKey)
	}
	var exp []string
	for _, e := range v.Expected {
		exp = append(exp, fmt.Sprintf("%q", e))
	}
	return "expected " + strings.Join(exp, " or ") + "\nobserved " + got
}

func progWorker(w *pool.W, arg json.RawMessage) {
	var sh shardArg
	json.Unmarshal(arg, &sh)
	defer runner.Cleanup() // the template-mode scratch directory of this worker (re-created on demand)
	b := bounds(sh.Tier, sh.Seed)
	red := &reducer{cache: map[string]string{}}
	cases := map[string]int64{}
	var runs, agree, amb, skipped int64
	hashes := map[uint64]bool{}
	fails := map[string]*failRec{}
	sampled := false

	one := func(it progen.Item, modes []bool, cfg cfgT) {
		if sh.Deadline > 0 && skipped == 0 && cases[it.Family]%64 == 0 && time.Now().Unix() > sh.Deadline {
			skipped = 1
		} else if skipped > 0 {
			skipped++
		}
		if skipped > 0 {
			return
		}
		if !w.Item(it.ID) {
			return
		}
		cases[it.Family]++
		for _, tmpl := range modes {
			v, err := check(it.P, tmpl)
			if err != nil {
				w.Emit(rec{Kind: "generr", Msg: it.ID + ": " + err.Error()})
				return
			}
			runs++
			if !tmpl {
				h := fnv.New64a()
				h.Write([]byte(v.Expected[0]))
				hashes[h.Sum64()] = true
				if len(v.Expected) > 1 {
					amb++
				}
			}
			if v.Clause == "" {
				agree++
				if !sampled && sh.I%16 == 3 && it.Family != "F4" && len(v.Expected[0]) > 12 {
					sampled = true
					w.Emit(rec{Kind: "sample", Sample: map[string]any{"id": it.ID, "source": source(it.P, false), "reference_output": v.Expected[0], "origami_output": v.Got.Out}})
				}
				continue
			}
			var min *progen.Program
			if cfg != nil {
				// F5: walk down the family's own parameter space first; the statement-level reduction
				// of each parameter-minimal program is done once per worker process
				mc := red.shrinkCfg(cfg, b.Seed, tmpl, v.Clause)
				mk := fmt.Sprintf("%s|%v|%s", mc.ID(), tmpl, v.Clause)
				if min = f5memo[mk]; min == nil {
					mp := mc.Build()
					progen.Concretise(mp, b.Seed)
					min = red.minimise(mp, tmpl, v.Clause)
					f5memo[mk] = min
				}
			} else {
				min = red.minimise(it.P, tmpl, v.Clause)
			}
			// a template-mode failure whose minimal program also fails in plain mode is the same finding
			tonly := false
			if tmpl && red.clause(min, false) != v.Clause {
				tonly = true
			}
			key := keyOf(v.Clause, tonly, min)
			f := fails[key]
			if f == nil || min.Size() < f.Size || (min.Size() == f.Size && min.Text() < f.Text) {
				mv, _ := check(min, tmpl)
				nf := &failRec{Key: key, Clause: v.Clause, Size: min.Size(), Template: tmpl, Program: min.JSON(), Text: min.Text(),
					Source: source(min, tmpl), From: it.ID, Detail: detail(mv)}
				if f != nil {
					nf.N = f.N
				}
				fails[key], f = nf, nf
			}
			f.N++
			if tmpl {
				continue
			}
			// plain already failed: the template run of the same program adds nothing new
			return
		}
	}

	switch sh.Kind {
	case "mod":
		idx := 0
		progen.All(b, func(it progen.Item) bool {
			if it.Family == "F4" {
				return false
			}
			if idx%sh.M == sh.I {
				one(it, []bool{false, true}, nil)
			}
			idx++
			return true
		})
	case "f4":
		modes := []bool{false}
		if b.F4Len <= 2 {
			modes = []bool{false, true}
		}
		progen.F4Range(b, sh.From, sh.To, func(it progen.Item) bool {
			one(it, modes, nil)
			return true
		})
	case "f5":
		idx := 0
		F5(f5Bounds(sh.Tier), func(fi f5Item) bool {
			if idx%sh.M == sh.I {
				p := fi.Cfg.Build()
				progen.Concretise(p, b.Seed)
				modes := []bool{false}
				if fi.Template {
					modes = []bool{false, true}
				}
				one(progen.Item{ID: fi.Cfg.ID(), Family: "F5", P: p}, modes, fi.Cfg)
			}
			idx++
			return true
		})
		F6(func(c f6cfg) bool { // small: rides on the same shards
			if idx%sh.M == sh.I {
				p := c.Build()
				progen.Concretise(p, b.Seed)
				one(progen.Item{ID: c.ID(), Family: "F6", P: p}, []bool{false, true}, c)
			}
			idx++
			return true
		})
	}
	for _, f := range fails {
		w.Emit(rec{Kind: "fail", Fail: f})
	}
	var hs []uint64
	for h := range hashes {
		hs = append(hs, h)
	}
	w.Emit(rec{Kind: "count", Cases: cases, Runs: runs, Agree: agree, Ambiguous: amb, RedTests: red.tests, Hashes: hs, Skipped: skipped})
}

// ---- parent ------------------------------------------------------------------------------------------

// budget mirrors ev's --budget / tier default (ev keeps its deadline private); workers get the
// absolute deadline and stop starting new programs after it.
func budget(quick bool) time.Duration {
	for i, a := range os.Args {
		v := ""
		if strings.HasPrefix(a, "--budget=") || strings.HasPrefix(a, "-budget=") {
			v = a[strings.Index(a, "=")+1:]
		} else if (a == "--budget" || a == "-budget") && i+1 < len(os.Args) {
			v = os.Args[i+1]
		}
		if d, err := time.ParseDuration(v); err == nil && d > 0 {
			return d
		}
	}
	if quick {
		return 6 * time.Minute
	}
	return 45 * time.Minute
}

func main() {
	if pool.IsWorker() {
		pool.Serve(map[string]pool.Handler{"prog": progWorker})
	}
	c := ev.New("C02")
	defer runner.Cleanup()
	if c.Replay != "" {
		replay(c)
		return
	}
	c.SetBudget(6*time.Minute, 45*time.Minute)
	b := bounds(c.Tier, c.Seed)
	deadline := time.Now().Add(budget(c.Quick())).Unix()

	var shards []pool.Shard
	m := 96
	if !c.Quick() {
		m = 256
	}
	for i := 0; i < m; i++ {
		shards = append(shards, pool.Shard{Kind: "prog", Arg: shardArg{Tier: c.Tier, Seed: c.Seed, Kind: "mod", I: i, M: m, Deadline: deadline}})
	}
	m5 := 64
	if !c.Quick() {
		m5 = 512
	}
	for i := 0; i < m5; i++ {
		shards = append(shards, pool.Shard{Kind: "prog", Arg: shardArg{Tier: c.Tier, Seed: c.Seed, Kind: "f5", I: i, M: m5, Deadline: deadline}})
	}
	n4 := progen.F4Count(b)
	step := 400
	if !c.Quick() {
		step = 6000
	}
	for from := 0; from < n4; from += step {
		to := from + step
		if to > n4 {
			to = n4
		}
		shards = append(shards, pool.Shard{Kind: "prog", Arg: shardArg{Tier: c.Tier, Seed: c.Seed, Kind: "f4", From: from, To: to, Deadline: deadline}})
	}

	cases := map[string]int64{}
	var runs, agree, amb, redTests, skipped int64
	hashes := map[uint64]bool{}
	failN := map[string]int64{}
	pool.Run(shards, pool.Options{}, func(si int, rb json.RawMessage) {
		var r rec
		json.Unmarshal(rb, &r)
		switch r.Kind {
		case "count":
			for k, v := range r.Cases {
				cases[k] += v
			}
			runs += r.Runs
			agree += r.Agree
			amb += r.Ambiguous
			redTests += r.RedTests
			skipped += r.Skipped
			for _, h := range r.Hashes {
				hashes[h] = true
			}
		case "fail":
			f := r.Fail
			failN[f.Key] += f.N
			// size*1000 + text order: the representative is deterministic across shard arrival order
			c.Fail(f.Key, f.Clause, f.Size*1000+int(textOrder(f.Text)), map[string]any{"program": f.Program, "template": f.Template, "source": f.Source, "minimal": f.Text, "first_seen_in": f.From}, f.Detail)
		case "generr":
			c.HarnessError("generator produced a program outside the reference subset: %s", r.Msg)
		case "sample":
			c.Sample(r.Sample)
		}
	}, func(d pool.Death) {
		c.Fail("worker-death:"+runner.FatalFrame(d.Stderr), "no-crash", 0, map[string]any{"item": d.Item, "reason": d.Reason}, d.Stderr)
	})

	var total int64
	for _, v := range cases {
		total += v
	}
	for h := range hashes {
		c.Outcome(fmt.Sprintf("%016x", h))
	}
	var failing int64
	keys := make([]string, 0, len(failN))
	for k, n := range failN {
		failing += n
		keys = append(keys, k)
	}
	sort.Strings(keys)
	byKey := map[string]int64{}
	for _, k := range keys {
		byKey[k] = failN[k]
	}
	c.Set("programs_by_family", cases)
	c.Set("runs_agreeing", agree)
	c.Set("runs_failing", failing)
	c.Set("failing_runs_by_key", byKey)
	c.Set("programs_with_two_accepted_readings", amb)
	c.Set("reducer_candidate_runs", redTests)
	c.Set("bounds", b)
	c.Set("f1_links", progen.F1Links)
	c.Set("f1_payloads", progen.F1Payloads)
	c.Set("f5_bounds", map[string]int{"switch_labels_full_cross": f5Bounds(c.Tier).SwitchK, "switch_labels_other_forms": f5Bounds(c.Tier).SubK, "match_conditions": f5Bounds(c.Tier).MatchC, "chain_conditions": f5Bounds(c.Tier).ChainK})
	c.Set("f5_programs_in_bound", F5Count(f5Bounds(c.Tier)))
	c.Set("f6_programs_in_bound", F6Count())
	c.Assume("reference semantics = PHP on the subset where docs/control-structures.md, docs/functions.md and PHP agree: ints, strings, bools; + - * % and < <= > >= on two ints; == on equal types; conditions are bools; echo of ints and strings")
	c.Assume("a `continue` that meets a `switch` is accepted under both readings (PHP: switch counts as a loop level and `continue` on it acts like `break`; C-like: switch is transparent)")
	c.Assume("functions are declared before their first call (origami does not hoist declarations; hoisting is not part of the statement)")
	c.Assume("outside the bound: programs larger than the families, floats/null/mixed-type arithmetic in counters (C03 owns operator semantics), closures, generators, goto, references; switch labels of another kind than the subject except int~float, int~decimal string, null~0, null~\"\" (the other loose cross-kind comparisons are C03's); globals")
	if skipped > 0 {
		c.NotExhaustive(fmt.Sprintf("internal deadline reached: %d programs of the bound were not run (%d were)", skipped, total))
	}
	if total < 1000 || len(hashes) < 200 || agree == 0 {
		c.HarnessError("vacuous: %d programs, %d distinct reference outputs, %d agreeing runs", total, len(hashes), agree)
	}
	c.Finish(total, runs+redTests, runs,
		fmt.Sprintf("every program of families F1 (chains <= %d over 9 constructs x 8 payloads x variants), F2 (functions), F3 (fast paths/aliasing), F4 (all %d-statement lists over the alphabet), F5 (switch/match/elseif dispatch: every label form x value x default position x ending x subject form; labels of every scalar kind), F6 (callee shape x call position x caller shape), %d iterations per loop, run in plain and <?php mode and compared with the reference interpreter; distinct = distinct reference outputs",
			b.F1Depth, b.F4Len, b.Iter))
}

// textOrder maps a text to 0..999 monotonically in its first two bytes (tie-break only).
func textOrder(t string) int64 {
	var v int64
	for i := 0; i < 2; i++ {
		v *= 31
		if i < len(t) {
			v += int64(t[i]) % 31
		}
	}
	return v % 1000
}

func replay(c *ev.Check) {
	var cs struct {
		Program  json.RawMessage `json:"program"`
		Template bool            `json:"template"`
	}
	key, err := ev.LoadReplay(c.Replay, &cs)
	if err != nil {
		fmt.Println("replay:", err)
		c.HarnessError("replay: %v", err)
		c.Finish(1, 1, 1, "replay")
		return
	}
	p, err := progen.FromJSON(cs.Program)
	if err != nil {
		c.HarnessError("replay: %v", err)
		c.Finish(1, 1, 1, "replay")
		return
	}
	var whole map[string]any // keep every field of the artefact when it is written back
	ev.LoadReplay(c.Replay, &whole)
	fmt.Println(source(p, cs.Template))
	clause, det := "", ""
	for i := 0; i < 5; i++ { // determinism before belief
		v, err := check(p, cs.Template)
		if err != nil {
			c.HarnessError("replay: %v", err)
			break
		}
		if i == 0 {
			det = detail(v)
			fmt.Println(det)
			clause = v.Clause
		} else if v.Clause != clause {
			c.HarnessError("replay is not deterministic: %q then %q", clause, v.Clause)
		}
	}
	if clause != "" {
		c.Fail(key, clause, p.Size(), whole, det)
	}
	runner.Cleanup()
	c.Finish(1, 1, 1, "replay")
}
