// Float literals and labels of another scalar kind than the subject.
//
// progen's AST has int, string, bool and null literals. A float literal is carried as the string
// literal "\x00<spelling>" (one spelling per value): the printer's output is rewritten to the bare
// spelling, and refsem sees an opaque value of a kind of its own -- exactly what the identity
// comparison of `match` needs (a float arm is never === an int, string, bool or null subject, and
// === another float arm iff it is the same value). Floats are never printed or computed with.
//
// `switch` compares loosely. refsem refuses `==` across kinds, so model() rewrites -- for switches
// whose subject and label are both literals of different kinds -- the label into a literal of the
// subject's kind that is equal / unequal to it according to looseLit, the table of the pairs on
// which the reference semantics are not in dispute (PHP 7 = PHP 8 = origami's documented `==`):
// int ~ float numerically, int ~ canonical decimal string numerically, null ~ int 0, null ~ "".
// Every other pair (bools, non-numeric strings against numbers, float ~ string ...) is outside the
// reference subset: such a program is not a test case.
package main

import (
	"fmt"
	"regexp"
	"sort"
	"strconv"

	"verif/engine/progen"
)

const floatMark = "\x00"

// Float returns the AST stand-in of a float literal; spelling must be canonical ("1.5", "2.0").
func Float(spelling string) *progen.Expr { return progen.Str(floatMark + spelling) }

var floatLit = regexp.MustCompile("\"\x00(-?[0-9]+\\.[0-9]+)\"")

// source prints p as origami source (float stand-ins become float literals).
func source(p *progen.Program, template bool) string {
	return floatLit.ReplaceAllString(p.Source(template), "$1")
}

type litv struct {
	kind string // int float str bool null
	i    int
	f    float64
	s    string
	b    bool
}

func litOf(e *progen.Expr) (litv, bool) {
	if e == nil {
		return litv{}, false
	}
	switch e.K {
	case progen.EInt:
		return litv{kind: "int", i: e.I}, true
	case progen.EStr:
		if len(e.S) > 1 && e.S[:1] == floatMark {
			f, err := strconv.ParseFloat(e.S[1:], 64)
			if err != nil {
				return litv{}, false
			}
			return litv{kind: "float", f: f, s: e.S}, true
		}
		return litv{kind: "str", s: e.S}, true
	case progen.EBool:
		return litv{kind: "bool", b: e.B}, true
	case progen.ENull:
		return litv{kind: "null"}, true
	}
	return litv{}, false
}

// looseLit: is a == b for two literals of different kinds? ok=false: not settled, outside the subset.
func looseLit(a, b litv) (eq, ok bool) {
	if a.kind > b.kind {
		a, b = b, a
	}
	switch a.kind + "~" + b.kind {
	case "float~int":
		return a.f == float64(b.i), true
	case "int~str":
		if n, err := strconv.Atoi(b.s); err == nil && strconv.Itoa(n) == b.s {
			return n == a.i, true
		}
	case "int~null":
		return a.i == 0, true
	case "null~str":
		return b.s == "", true
	}
	return false, false
}

// model returns the program refsem is asked about (p itself when nothing needs rewriting).
func model(p *progen.Program) (*progen.Program, error) {
	need := false
	var scan func(ss []*progen.Stmt)
	scan = func(ss []*progen.Stmt) {
		for _, s := range ss {
			scan(s.Then)
			scan(s.Else)
			scan(s.Body)
			for _, e := range s.Elifs {
				scan(e.Body)
			}
			for _, c := range s.Cases {
				scan(c.Body)
			}
			if s.K != progen.SSwitch {
				continue
			}
			if sv, ok := litOf(s.E); ok {
				for _, c := range s.Cases {
					if lv, ok := litOf(c.Val); ok && lv.kind != sv.kind {
						need = true
					}
				}
			}
		}
	}
	scan(p.Main)
	for _, f := range p.Funcs {
		scan(f.Body)
	}
	if !need {
		return p, nil
	}
	q := p.Copy()
	var err error
	var fix func(ss []*progen.Stmt)
	fix = func(ss []*progen.Stmt) {
		for _, s := range ss {
			fix(s.Then)
			fix(s.Else)
			fix(s.Body)
			for _, e := range s.Elifs {
				fix(e.Body)
			}
			for i := range s.Cases {
				fix(s.Cases[i].Body)
			}
			if s.K != progen.SSwitch {
				continue
			}
			sv, ok := litOf(s.E)
			if !ok {
				continue
			}
			for i := range s.Cases {
				lv, ok := litOf(s.Cases[i].Val)
				if !ok || lv.kind == sv.kind {
					continue
				}
				eq, settled := looseLit(sv, lv)
				if !settled || sv.kind == "null" || sv.kind == "bool" {
					err = fmt.Errorf("%w: switch compares %s with %s", progen.ErrSubset, sv.kind, lv.kind)
					return
				}
				var repl *progen.Expr
				switch sv.kind {
				case "int":
					repl = progen.Int(sv.i)
					if !eq {
						repl = progen.Int(sv.i + 977)
					}
				case "str":
					repl = progen.Str(sv.s)
					if !eq {
						repl = progen.Str(sv.s + "~")
					}
				case "float":
					repl = progen.Str(sv.s)
					if !eq {
						repl = Float("-977.5")
					}
				}
				s.Cases[i].Val = repl
			}
		}
	}
	fix(q.Main)
	for _, f := range q.Funcs {
		fix(f.Body)
	}
	if err != nil {
		return nil, err
	}
	return q, nil
}

// expected = the outputs the reference semantics allow for p.
func expected(p *progen.Program) ([]string, error) {
	m, err := model(p)
	if err != nil {
		return nil, err
	}
	return progen.Expected(m)
}

// localTokens names the phenomena of a (reduced) program that progen.Signature does not know:
//
//	label:computed      a case label / match condition that is not a literal (variable, call, expression)
//	label:other-kind    literal labels (and literal subject) of one switch / match are of different scalar kinds
//	float               a float literal occurs
//	default-not-last    a switch or match whose default is followed by another arm
//	bare-callee         a called user function has no parameters and no variables of its own
func localTokens(p *progen.Program) []string {
	set := map[string]bool{}
	for _, t := range dispatchTokens(p) {
		set[t] = true
	}
	kinds := func(subj *progen.Expr, labels []*progen.Expr) {
		ks := map[string]bool{}
		if v, ok := litOf(subj); ok {
			ks[v.kind] = true
		}
		for _, l := range labels {
			if v, ok := litOf(l); ok {
				ks[v.kind] = true
			}
		}
		if len(ks) > 1 {
			set["label:other-kind"] = true
		}
	}
	called := map[string]bool{}
	var ex func(e *progen.Expr)
	ex = func(e *progen.Expr) {
		if e == nil {
			return
		}
		if e.K == progen.ECall {
			called[e.S] = true
		}
		if v, ok := litOf(e); ok && v.kind == "float" {
			set["float"] = true
		}
		if e.K == progen.EMatch {
			var ls []*progen.Expr
			for _, arm := range e.Arms {
				ls = append(ls, arm.Conds...)
			}
			kinds(e.A[0], ls)
		}
		for _, a := range e.A {
			ex(a)
		}
		for _, arm := range e.Arms {
			ex(arm.Val)
			for _, c := range arm.Conds {
				ex(c)
			}
		}
	}
	var hasVars func(ss []*progen.Stmt) bool
	var st func(ss []*progen.Stmt)
	st = func(ss []*progen.Stmt) {
		for _, s := range ss {
			ex(s.E)
			ex(s.Init)
			ex(s.Subj)
			for _, a := range s.Args {
				ex(a)
			}
			st(s.Then)
			st(s.Else)
			st(s.Body)
			for _, e := range s.Elifs {
				ex(e.Cond)
				st(e.Body)
			}
			var ls []*progen.Expr
			for _, c := range s.Cases {
				ex(c.Val)
				st(c.Body)
				ls = append(ls, c.Val)
			}
			if s.K == progen.SSwitch {
				kinds(s.E, ls)
			}
		}
	}
	hasVars = func(ss []*progen.Stmt) bool {
		for _, s := range ss {
			switch s.K {
			case progen.SAssign, progen.SOpAssign, progen.SIncDec, progen.SStatic, progen.SLoop:
				return true
			}
			if hasVars(s.Then) || hasVars(s.Else) {
				return true
			}
			for _, e := range s.Elifs {
				if hasVars(e.Body) {
					return true
				}
			}
			for _, c := range s.Cases {
				if hasVars(c.Body) {
					return true
				}
			}
		}
		return false
	}
	for _, f := range p.Funcs {
		st(f.Body)
	}
	st(p.Main)
	for _, f := range p.Funcs {
		if called[f.Name] && len(f.Params) == 0 && !hasVars(f.Body) {
			set["bare-callee"] = true
		}
	}
	out := make([]string, 0, len(set))
	for k := range set {
		out = append(out, k)
	}
	sort.Strings(out)
	return out
}

func localWithin(p *progen.Program, allowed map[string]bool) bool {
	for _, t := range localTokens(p) {
		if !allowed[t] {
			return false
		}
	}
	return true
}
