// F6 "frames": which frame does a call run on?
//
// Every call gets fresh locals and every function its own static cells -- whatever the callee looks
// like. F2 only calls functions that have parameters or locals, and always declares statics first.
// F6 enumerates the complete cross product of
//
//	callee shape   echo only | empty body | return only | only a static | only locals (named like the
//	               caller's) | one parameter (named like a caller local) | calls another bare function |
//	               recursive, guarded by its own static
//	call position  every subset of {before the caller's `static` declaration, between declaration and
//	               update, after the update, after the caller's local assignment}
//	caller         two functions with their own static counters (same / different static names), no local |
//	               local assigned before everything | local computed from the static; body plain | inside a
//	               `for` (declaration re-executed) | recursive (activations observe their locals after the
//	               inner call returned)
//	main           calls the callee itself between its own local assignments, or not
//
// and prints, after the calls f f g g f, the statics and locals of every caller activation and the
// locals of main (which are named like the callers' and the callee's).
package main

import (
	"fmt"

	. "verif/engine/progen"
)

// cfgT is a point in a family's parameter space that can be rebuilt and shrunk (see f5cfg.Shrink).
type cfgT interface {
	ID() string
	Build() *Program
	Next() []cfgT
}

var f6Helpers = []string{"echo", "empty", "ret", "static", "local", "param", "nested", "rec"}
var f6Locals = []string{"none", "pre", "post"}
var f6Wraps = []string{"plain", "loop", "rec"}

type f6cfg struct {
	Helper    string
	Calls     int // bit i: the callee is called at position i (0..3) of the caller body
	SameNames bool
	Local     string
	Wrap      string
	MainCall  bool
}

func (c f6cfg) ID() string {
	return fmt.Sprintf("F6/%s/calls%04b/same-%v/local-%s/%s/main-%v", c.Helper, c.Calls, c.SameNames, c.Local, c.Wrap, c.MainCall)
}

func (c f6cfg) helperFuncs() []*Func {
	bar := EchoS("|")
	switch c.Helper {
	case "echo":
		return []*Func{{Name: "h", Body: []*Stmt{bar}}}
	case "empty":
		return []*Func{{Name: "h"}}
	case "ret":
		return []*Func{{Name: "h", Body: []*Stmt{Return(Int(7))}}}
	case "static":
		return []*Func{{Name: "h", Body: []*Stmt{Static("n", Int(500)), IncDec("n", "post++"), Echo(Str("h"), Var("n"))}}}
	case "local":
		return []*Func{{Name: "h", Body: []*Stmt{Assign("a", Int(5)), Assign("n", Int(6)), bar}}}
	case "param":
		return []*Func{{Name: "h", Params: []Param{{Name: "a"}}, Body: []*Stmt{Assign("a", Bin("+", Var("a"), Int(1))), bar}}}
	case "nested":
		return []*Func{{Name: "h2", Body: []*Stmt{bar}}, {Name: "h", Body: []*Stmt{ExprS(Call("h2"))}}}
	case "rec":
		return []*Func{{Name: "h", Body: []*Stmt{Static("k", Int(0)), IncDec("k", "post++"), If(Bin("<", Var("k"), Int(3)), ExprS(Call("h"))), bar}}}
	}
	panic("f6: helper " + c.Helper)
}

func (c f6cfg) call() *Stmt {
	switch c.Helper {
	case "ret":
		return Echo(Call("h"))
	case "param":
		return ExprS(Call("h", Int(3)))
	}
	return ExprS(Call("h"))
}

func (c f6cfg) caller(name, sname string, init, step int) *Func {
	at := func(i int, ss []*Stmt) []*Stmt {
		if c.Calls&(1<<i) != 0 {
			return append(ss, c.call())
		}
		return ss
	}
	var core []*Stmt
	core = at(0, core)
	core = append(core, Static(sname, Int(init)))
	core = at(1, core)
	core = append(core, OpAssign(sname, "+=", Int(step)))
	core = at(2, core)
	if c.Local == "post" {
		core = append(core, Assign("a", Bin("*", Var(sname), Int(2))))
	}
	core = at(3, core)
	f := &Func{Name: name}
	if c.Local == "pre" {
		f.Body = append(f.Body, Assign("a", Int(init+7)))
	}
	switch c.Wrap {
	case "loop":
		f.Body = append(f.Body, Loop(LFor, "c", 2, core...))
	case "rec":
		f.Params = []Param{{Name: "d"}}
		f.Body = append(f.Body, core...)
		f.Body = append(f.Body, If(Bin(">", Var("d"), Int(0)), ExprS(Call(name, Bin("-", Var("d"), Int(1))))))
	default:
		f.Body = append(f.Body, core...)
	}
	tail := Echo(Str(name), Var(sname))
	if c.Local != "none" {
		tail.Args = append(tail.Args, Str(","), Var("a"))
	}
	tail.Args = append(tail.Args, Str(";"))
	f.Body = append(f.Body, tail)
	return f
}

func (c f6cfg) Build() *Program {
	p := &Program{Funcs: c.helperFuncs()}
	fs, gs := "id", "code"
	if c.SameNames {
		fs, gs = "n", "n"
	}
	p.Funcs = append(p.Funcs, c.caller("f", fs, 0, 1), c.caller("g", gs, 100, 10))
	p.Main = []*Stmt{Assign("a", Int(50)), Assign("n", Int(60))}
	if c.MainCall {
		p.Main = append(p.Main, c.call())
	}
	p.Main = append(p.Main, Assign("b", Int(70)))
	for _, fn := range []string{"f", "f", "g", "g", "f"} {
		if c.Wrap == "rec" {
			p.Main = append(p.Main, ExprS(Call(fn, Int(1))))
		} else {
			p.Main = append(p.Main, ExprS(Call(fn)))
		}
	}
	p.Main = append(p.Main, Echo(Str(" m"), Var("a"), Str(","), Var("n"), Str(","), Var("b"), Str("\n")))
	return p
}

func (c f6cfg) Next() []cfgT {
	var out []cfgT
	for i := 0; i < 4; i++ {
		if c.Calls&(1<<i) != 0 {
			n := c
			n.Calls &^= 1 << i
			out = append(out, n)
		}
	}
	if c.Wrap != "plain" {
		n := c
		n.Wrap = "plain"
		out = append(out, n)
	}
	if c.Local != "none" {
		n := c
		n.Local = "none"
		out = append(out, n)
	}
	if c.MainCall {
		n := c
		n.MainCall = false
		out = append(out, n)
	}
	if c.SameNames {
		n := c
		n.SameNames = false
		out = append(out, n)
	}
	for _, h := range f6Helpers {
		if h == c.Helper {
			break
		}
		n := c
		n.Helper = h
		out = append(out, n)
	}
	return out
}

// F6 streams the family in a fixed order.
func F6(yield func(f6cfg) bool) {
	for _, h := range f6Helpers {
		for calls := 0; calls < 16; calls++ {
			for _, same := range []bool{false, true} {
				for _, loc := range f6Locals {
					for _, wrap := range f6Wraps {
						for _, mc := range []bool{false, true} {
							if calls == 0 && !mc {
								continue // the callee is never called
							}
							if !yield(f6cfg{Helper: h, Calls: calls, SameNames: same, Local: loc, Wrap: wrap, MainCall: mc}) {
								return
							}
						}
					}
				}
			}
		}
	}
}

func F6Count() int {
	n := 0
	F6(func(f6cfg) bool { n++; return true })
	return n
}
