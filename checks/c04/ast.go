package main

import (
	"strings"
)

// ---- the operator table of the property statement --------------------------------------------
//
// tightest first: ** (right, above unary minus); ! ~ - casts; * / %; + -; << >>; < <= > >= <=>;
// == != === !==; &; ^; |; &&; ||; ??; ?: ; assignment (right, lowest); '.' looser than arithmetic
// and tighter than ??  (its place among levels 5..12 is NOT fixed by the statement).

type assoc int

const (
	left assoc = iota
	right
	unknownAssoc // the statement does not say: parentheses are never dropped between two of them
)

// ternaryChainsGroupRight: an unparenthesised chain  a ? b : c ? d : e  (a ?: b ? c : d, ...) is
// demanded to mean  a ? b : (c ? d : e).  The statement's table names ?: as one level without an
// associativity, exactly as it does for ?? and for the left-associative binary levels, whose
// chains this check has always resolved by "the language's operator table": origami's parser
// builds the else-branch by right recursion (the anchored "one function per level" mechanism), as
// every language with this operator does; the only other dialects are PHP <= 7 (groups to the left,
// deprecated in 7.4 and removed as a defect) and PHP 8 (rejects the chain). Grouping to the right
// or REJECTING the chain at parse time are both accepted; silently grouping to the left is not.
// Set to false to make chains of ?: open again (their parentheses are then always kept).
const ternaryChainsGroupRight = true

type opClass struct {
	name  string
	level int // bigger = tighter; concat handled separately
	assoc assoc
}

var (
	clsPow      = &opClass{"pow", 16, right}
	clsPrefix   = &opClass{"prefix", 15, right}
	clsCast     = &opClass{"cast", 15, right}
	clsMul      = &opClass{"mul", 14, left}
	clsAdd      = &opClass{"add", 13, left}
	clsShift    = &opClass{"shift", 12, left}
	clsCmp      = &opClass{"cmp", 11, unknownAssoc}
	clsEq       = &opClass{"eq", 10, unknownAssoc}
	clsBitAnd   = &opClass{"bitand", 9, left}
	clsBitXor   = &opClass{"bitxor", 8, left}
	clsBitOr    = &opClass{"bitor", 7, left}
	clsLand     = &opClass{"and", 6, left}
	clsLor      = &opClass{"or", 5, left}
	clsCoalesce = &opClass{"coalesce", 4, right}
	clsTernary  = &opClass{"ternary", 3, right} // see ternaryChainsGroupRight
	clsAssign   = &opClass{"assign", 2, right}
	clsConcat   = &opClass{"concat", -1, left}
)

// ---- types of the generated expressions ------------------------------------------------------

type typ int

const (
	tI typ = iota // int (and the floats that / produces)
	tB            // bool
	tS            // string
	tN            // null-able operand of ??  (a null leaf)
)

type sig struct {
	args []typ
	res  typ
}

type kind int

const (
	kLeaf kind = iota
	kPrefix
	kBinary
	kTernary
	kElvis
	kAssign
)

type opDef struct {
	sym  string
	kind kind
	cls  *opClass
	sigs []sig
	core bool // member of the reduced operator set used at the largest tree size
}

func bin(sym string, cls *opClass, core bool, sigs ...sig) *opDef {
	return &opDef{sym: sym, kind: kBinary, cls: cls, sigs: sigs, core: core}
}

var (
	sII_I = sig{[]typ{tI, tI}, tI}
	sII_B = sig{[]typ{tI, tI}, tB}
	sBB_B = sig{[]typ{tB, tB}, tB}
	sSS_B = sig{[]typ{tS, tS}, tB}
)

var ops = []*opDef{
	bin("**", clsPow, true, sII_I),
	{sym: "-", kind: kPrefix, cls: clsPrefix, core: true, sigs: []sig{{[]typ{tI}, tI}}},
	{sym: "+", kind: kPrefix, cls: clsPrefix, sigs: []sig{{[]typ{tI}, tI}}},
	{sym: "!", kind: kPrefix, cls: clsPrefix, core: true, sigs: []sig{{[]typ{tB}, tB}}},
	{sym: "~", kind: kPrefix, cls: clsPrefix, sigs: []sig{{[]typ{tI}, tI}}},
	{sym: "(int)", kind: kPrefix, cls: clsCast, core: true, sigs: []sig{{[]typ{tS}, tI}}},
	{sym: "(string)", kind: kPrefix, cls: clsCast, sigs: []sig{{[]typ{tI}, tS}}},
	{sym: "(bool)", kind: kPrefix, cls: clsCast, sigs: []sig{{[]typ{tI}, tB}}},
	{sym: "(float)", kind: kPrefix, cls: clsCast, sigs: []sig{{[]typ{tS}, tI}}},
	bin("*", clsMul, true, sII_I), bin("/", clsMul, false, sII_I), bin("%", clsMul, true, sII_I),
	bin("+", clsAdd, true, sII_I), bin("-", clsAdd, true, sII_I),
	bin("<<", clsShift, true, sII_I), bin(">>", clsShift, false, sII_I),
	bin("<", clsCmp, true, sII_B), bin("<=", clsCmp, false, sII_B), bin(">", clsCmp, false, sII_B), bin(">=", clsCmp, false, sII_B), bin("<=>", clsCmp, false, sII_I),
	bin("==", clsEq, true, sII_B, sBB_B, sSS_B), bin("!=", clsEq, false, sII_B, sBB_B), bin("===", clsEq, false, sII_B, sBB_B), bin("!==", clsEq, false, sII_B, sBB_B),
	bin("&", clsBitAnd, true, sII_I), bin("^", clsBitXor, true, sII_I), bin("|", clsBitOr, true, sII_I),
	bin("&&", clsLand, true, sBB_B, sig{[]typ{tB, tI}, tB}), bin("||", clsLor, true, sBB_B, sig{[]typ{tB, tI}, tB}),
	bin(".", clsConcat, true, sig{[]typ{tS, tS}, tS}, sig{[]typ{tS, tI}, tS}, sig{[]typ{tI, tS}, tS}),
	bin("??", clsCoalesce, true, sig{[]typ{tN, tI}, tI}, sig{[]typ{tI, tI}, tI}, sig{[]typ{tN, tS}, tS}, sig{[]typ{tS, tS}, tS}, sig{[]typ{tN, tB}, tB}),
	{sym: "?:", kind: kTernary, cls: clsTernary, core: true, sigs: []sig{{[]typ{tB, tI, tI}, tI}, {[]typ{tB, tS, tS}, tS}, {[]typ{tB, tB, tB}, tB}}},
	{sym: "?:elvis", kind: kElvis, cls: clsTernary, sigs: []sig{{[]typ{tI, tI}, tI}, {[]typ{tB, tB}, tB}}},
	{sym: "=", kind: kAssign, cls: clsAssign, core: true, sigs: []sig{{[]typ{tI}, tI}, {[]typ{tB}, tB}, {[]typ{tS}, tS}}},
	{sym: "+=", kind: kAssign, cls: clsAssign, core: true, sigs: []sig{{[]typ{tI}, tI}}},
	{sym: "-=", kind: kAssign, cls: clsAssign, sigs: []sig{{[]typ{tI}, tI}}},
	{sym: "*=", kind: kAssign, cls: clsAssign, sigs: []sig{{[]typ{tI}, tI}}},
	{sym: "/=", kind: kAssign, cls: clsAssign, sigs: []sig{{[]typ{tI}, tI}}},
	{sym: "%=", kind: kAssign, cls: clsAssign, sigs: []sig{{[]typ{tI}, tI}}},
	{sym: "**=", kind: kAssign, cls: clsAssign, sigs: []sig{{[]typ{tI}, tI}}},
	{sym: "<<=", kind: kAssign, cls: clsAssign, sigs: []sig{{[]typ{tI}, tI}}},
	{sym: ">>=", kind: kAssign, cls: clsAssign, sigs: []sig{{[]typ{tI}, tI}}},
	{sym: "&=", kind: kAssign, cls: clsAssign, sigs: []sig{{[]typ{tI}, tI}}},
	{sym: "|=", kind: kAssign, cls: clsAssign, core: true, sigs: []sig{{[]typ{tI}, tI}}},
	{sym: "^=", kind: kAssign, cls: clsAssign, sigs: []sig{{[]typ{tI}, tI}}},
	{sym: ".=", kind: kAssign, cls: clsAssign, sigs: []sig{{[]typ{tS}, tS}}},
	{sym: "??=", kind: kAssign, cls: clsAssign, sigs: []sig{{[]typ{tI}, tI}}},
}

// ---- AST ---------------------------------------------------------------------------------------

type node struct {
	op   *opDef // nil for leaves
	kids []*node
	t    typ    // type of the leaf / result
	leaf int    // leaf ordinal in left-to-right order (set by number())
	tgt  string // assignment target: "v" | "w" | "s" | "u"
}

func (n *node) size() int {
	if n.op == nil {
		return 0
	}
	s := 1
	for _, k := range n.kids {
		s += k.size()
	}
	return s
}

// number assigns leaf ordinals and returns the leaf types in order.
func (n *node) number() []typ {
	var ts []typ
	var walk func(x *node)
	walk = func(x *node) {
		if x.op == nil {
			x.leaf = len(ts)
			ts = append(ts, x.t)
			return
		}
		for _, k := range x.kids {
			walk(k)
		}
	}
	walk(n)
	return ts
}

// sigText is the shape without leaf values: operators, structure, leaf types.
func (n *node) sigText() string {
	if n.op == nil {
		return [...]string{"I", "B", "S", "N"}[n.t]
	}
	var ks []string
	for _, k := range n.kids {
		ks = append(ks, k.sigText())
	}
	s := n.op.sym
	if n.op.kind == kAssign {
		s = "$" + n.tgt + s
	}
	return s + "(" + strings.Join(ks, ",") + ")"
}

// ---- what the table says about parentheses -------------------------------------------------------

type need int

const (
	noParens need = iota // the table makes them redundant
	parens               // needed, or the statement leaves the grouping open
)

// rel: is the child tighter / looser than the parent according to the statement? ok=false: open.
func tighter(child, parent *opClass) (t bool, ok bool) {
	if child == clsConcat && parent == clsConcat {
		return false, false // same level, handled by the caller
	}
	if child == clsConcat || parent == clsConcat {
		o := parent
		if parent == clsConcat {
			o = child
		}
		switch {
		case o.level >= clsAdd.level: // arithmetic (and prefix, **) is tighter than '.'
			return o == child, true
		case o.level <= clsCoalesce.level: // ?? ?: = are looser than '.'
			return o == parent, true
		}
		return false, false // shift .. || : not fixed by the statement
	}
	if child.level == parent.level {
		return false, false
	}
	return child.level > parent.level, true
}

// needParens decides whether child (operand number pos of parent) keeps its parentheses in the
// minimal printing.
func needParens(parent *node, pos int, child *node) need {
	if child.op == nil {
		return noParens
	}
	p, c := parent.op, child.op
	// An assignment takes everything to its right as its value (its left side must be a variable),
	// so `8 | $q <<= 2` is `8 | ($q <<= 2)`: as the LAST operand of an operator it needs no
	// parentheses; an operand that ends in such an open assignment needs them whenever something
	// follows it inside the parent.
	last := len(parent.kids) - 1
	if pos < last && openRight(child) && !(p.kind == kTernary && pos == 1) {
		return parens
	}
	if c.kind == kAssign && pos == last && (p.kind == kBinary || p.kind == kTernary || p.kind == kElvis) {
		return noParens
	}
	switch p.kind {
	case kAssign:
		return noParens // the right-hand side of the loosest, right-associative operator
	case kPrefix:
		if c.kind == kPrefix || c.cls == clsPow {
			return noParens
		}
		return parens
	case kTernary, kElvis:
		if c.kind == kAssign {
			return parens
		}
		if p.kind == kTernary && pos == 1 {
			// delimited by ? and : - there is only one way to read  a ? b ? c : d : e  and
			// a ? b ?: c : d , so parentheses around a nested conditional are redundant here
			return noParens
		}
		if c.kind == kTernary || c.kind == kElvis {
			if pos == last && ternaryChainsGroupRight {
				return noParens // else-branch: a ? b : c ? d : e  is  a ? b : (c ? d : e)
			}
			return parens // a conditional as the condition of another one needs them
		}
		return noParens // everything else is tighter than ?:
	}
	// binary parent
	if c.kind == kAssign || c.kind == kTernary || c.kind == kElvis {
		return parens
	}
	if c.kind == kPrefix {
		if pos == 1 {
			return noParens // a prefix operator in right-operand position is unambiguous
		}
		if p.cls == clsPow {
			return parens // ** is above unary minus: (-a) ** b needs them
		}
		return noParens
	}
	if c.cls == p.cls {
		switch p.cls.assoc {
		case left:
			if pos == 0 {
				return noParens
			}
		case right:
			if pos == 1 {
				return noParens
			}
		}
		return parens
	}
	if t, ok := tighter(c.cls, p.cls); ok && t {
		return noParens
	}
	return parens
}

// openRight: does the minimal printing of n end in an assignment that is not closed by a parenthesis?
func openRight(n *node) bool {
	if n.op == nil {
		return false
	}
	if n.op.kind == kAssign {
		return true
	}
	k := n.kids[len(n.kids)-1]
	return k.op != nil && needParens(n, len(n.kids)-1, k) == noParens && openRight(k)
}

// ---- printing --------------------------------------------------------------------------------

type style struct {
	mode   string // "min" | "full" | "redundant"
	minus  string // "spaced" | "right" (a -1) | "tight" (a-1): spelling of binary + and -
	extra  *node  // min mode: additionally parenthesise this node (localisation of a finding)
	extra2 *node
}

type leafText func(n *node) string

func (n *node) print(st style, lt leafText) string {
	return n.pr(st, lt, nil, 0)
}

func (n *node) pr(st style, lt leafText, parent *node, pos int) string {
	if n.op == nil {
		s := lt(n)
		if st.mode == "redundant" {
			return "((" + s + "))"
		}
		return s
	}
	var s string
	kid := func(i int) string { return n.kids[i].pr(st, lt, n, i) }
	if negLiteral(n) {
		if t := lt(n.kids[0]); t != "" && t[0] >= '0' && t[0] <= '9' {
			// a minus sign directly before an int literal is a negative literal in every printing
			s = "-" + t
			if st.mode == "redundant" {
				return "((" + s + "))"
			}
			if st.mode == "full" && parent != nil || st.mode == "min" && (parent != nil && needParens(parent, pos, n) == parens || (st.extra == n || st.extra2 == n)) {
				return "(" + s + ")"
			}
			return s
		}
	}
	switch n.op.kind {
	case kPrefix:
		k := kid(0)
		if strings.HasPrefix(k, "-") && n.op.sym == "-" || strings.HasPrefix(k, "+") && n.op.sym == "+" {
			k = " " + k // never create -- or ++
		}
		s = n.op.sym + k
	case kBinary:
		l, r := kid(0), kid(1)
		sp1, sp2 := " ", " "
		if n.op.sym == "-" || n.op.sym == "+" {
			switch st.minus {
			case "right":
				sp2 = ""
			case "tight":
				sp1, sp2 = "", ""
			}
			if sp2 == "" && (strings.HasPrefix(r, "-") || strings.HasPrefix(r, "+")) {
				sp2 = " " // never create -- or ++
			}
		}
		s = l + sp1 + n.op.sym + sp2 + r
	case kTernary:
		s = kid(0) + " ? " + kid(1) + " : " + kid(2)
	case kElvis:
		s = kid(0) + " ?: " + kid(1)
	case kAssign:
		s = "$" + n.tgt + "{S} " + n.op.sym + " " + kid(0)
	}
	wrap := false
	switch st.mode {
	case "full":
		wrap = parent != nil
	case "redundant":
		return "((" + s + "))"
	default:
		wrap = parent != nil && needParens(parent, pos, n) == parens || st.extra == n || st.extra2 == n
	}
	if wrap {
		return "(" + s + ")"
	}
	return s
}

func isCond(o *opDef) bool { return o.kind == kTernary || o.kind == kElvis }

// chainEdge: a conditional in the else-branch of a conditional (the edge a non-associative dialect rejects).
func (e edge) chainEdge() bool {
	return isCond(e.child.op) && isCond(e.parent.op) && e.pos == len(e.parent.kids)-1
}

// negLiteral: prefix minus applied directly to an int leaf.
func negLiteral(n *node) bool {
	return n.op != nil && n.op.kind == kPrefix && n.op.sym == "-" && n.kids[0].op == nil && n.kids[0].t == tI
}

// atStake lists the (parent, pos, child) edges whose parentheses the minimal printing dropped.
type edge struct {
	parent *node
	pos    int
	child  *node
}

func (n *node) atStake() []edge {
	var es []edge
	var walk func(x *node)
	walk = func(x *node) {
		for i, k := range x.kids {
			if k.op != nil && needParens(x, i, k) == noParens {
				es = append(es, edge{x, i, k})
			}
			walk(k)
		}
	}
	walk(n)
	return es
}

func posName(p *node, pos int) string {
	switch p.op.kind {
	case kPrefix:
		return "operand"
	case kTernary:
		return [...]string{"cond", "then", "else"}[pos]
	case kElvis:
		return [...]string{"cond", "else"}[pos]
	case kAssign:
		return "rhs"
	}
	return [...]string{"L", "R"}[pos]
}

func className(o *opDef) string {
	switch {
	case o.cls == clsPrefix:
		return map[string]string{"-": "neg", "+": "pos", "!": "not", "~": "bitnot"}[o.sym]
	}
	return o.cls.name
}

func (e edge) key() string {
	return className(e.parent.op) + "/" + posName(e.parent, e.pos) + ":" + className(e.child.op)
}

// regroup returns the tree in which edge e is grouped the other way round (what a parser with the
// opposite precedence / associativity for this pair would build); nil if there is no such reading.
// Sub-trees are shared with the original (nothing is mutated).
func regroup(root *node, e edge) *node {
	p, c, pos := e.parent, e.child, e.pos
	mk := func(proto *node, kids ...*node) *node {
		n := *proto
		n.kids = kids
		return &n
	}
	var alt *node
	switch {
	case c.op.kind == kBinary && (p.op.kind == kBinary || p.op.kind == kElvis):
		a, b := c.kids[0], c.kids[1]
		if pos == 0 {
			alt = mk(c, a, mk(p, b, p.kids[1]))
		} else {
			alt = mk(c, mk(p, p.kids[0], a), b)
		}
	case c.op.kind == kPrefix && (p.op.kind == kBinary || p.op.kind == kElvis) && pos == 0:
		alt = mk(c, mk(p, c.kids[0], p.kids[1]))
	case c.op.kind == kBinary && p.op.kind == kPrefix:
		alt = mk(c, mk(p, c.kids[0]), c.kids[1])
	case c.op.kind == kBinary && p.op.kind == kTernary && pos == 0:
		alt = mk(c, c.kids[0], mk(p, c.kids[1], p.kids[1], p.kids[2]))
	case c.op.kind == kBinary && p.op.kind == kTernary && pos == 2:
		alt = mk(c, mk(p, p.kids[0], p.kids[1], c.kids[0]), c.kids[1])
	case c.op.kind == kPrefix && p.op.kind == kTernary && pos == 0:
		alt = mk(c, mk(p, c.kids[0], p.kids[1], p.kids[2]))
	case c.op.kind == kBinary && p.op.kind == kAssign:
		alt = mk(c, mk(p, c.kids[0]), c.kids[1])
	case isCond(c.op) && isCond(p.op) && pos == len(p.kids)-1:
		// the left-associative reading of a chain: (a ? b : c) ? d : e,  (a ?: c) ? d : e, (a ? b : c) ?: e
		inner := append(append([]*node{}, p.kids[:pos]...), c.kids[0])
		alt = mk(c, append([]*node{mk(p, inner...)}, c.kids[1:]...)...)
	}
	if alt == nil {
		return nil
	}
	var cp func(x *node) *node
	cp = func(x *node) *node {
		if x == p {
			return alt
		}
		if x.op == nil {
			return x
		}
		n := *x
		n.kids = make([]*node, len(x.kids))
		for i, k := range x.kids {
			n.kids[i] = cp(k)
		}
		return &n
	}
	return cp(root)
}
