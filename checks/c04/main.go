// C04: expressions parse by the fixed precedence / associativity table; redundant parentheses
// never change a result.
//
// Form P: every well-typed expression tree with <= N operators over the operator table of the
// statement is printed (1) with the fewest parentheses the table allows, (2) fully parenthesised,
// (3) with redundant double parentheses around every sub-tree and leaf, (4,5) like (1) with
// binary +/- written "a -1" and "a-1" (signed-number lexing), (6) like (1) as a call argument
// instead of an assignment right-hand side. All printings run on the real lexer -> parser ->
// interpreter and must give the same value and type; (2) must also equal the reference
// evaluation of the tree (ref.go). Where the statement leaves a grouping open ('.' against
// shift/comparison/equality/bitwise/logical operators, chains of comparisons and of equalities)
// the minimal printing keeps the parentheses, so nothing is demanded there. A chain of
// conditionals  a ? b : c ? d : e  must group to the right or be rejected by the parser (ast.go,
// ternaryChainsGroupRight).
//
// Form C (same-level chains): every tree built from the operators of ONE level of the table (all
// of them), two sizes beyond what Form P reaches with all operators - associativity slips that
// need three or more links, or a non-core operator of the level.
package main

import (
	"encoding/json"
	"fmt"
	"os"
	"sort"
	"strings"
	"time"

	"github.com/php-any/origami/data"

	"verif/engine/ev"
	"verif/engine/exprsem"
	"verif/engine/pool"
	"verif/engine/runner"
)

// ---- leaves ----------------------------------------------------------------------------------

var intLeaves = []int{3, 2, 5, 7}
var strLeaves = []string{"10", "a", "3", "b"}

var targetInit = map[string]string{"v": "11", "w": "13", "x": "17", "y": "19", "s": `"s"`, "t": `"t"`, "z": `"z"`, "zz": `"y"`, "p": "true", "q": "false", "pp": "true", "qq": "false", "u": "null"}

func targetValue(name string) data.Value {
	switch s := targetInit[name]; {
	case s == "null":
		return data.NewNullValue()
	case s == "true" || s == "false":
		return data.NewBoolValue(s == "true")
	case s[0] == '"':
		return data.NewStringValue(strings.Trim(s, `"`))
	default:
		var i int
		fmt.Sscan(s, &i)
		return data.NewIntValue(i)
	}
}

type assignment struct {
	vals    []data.Value
	lits    []string
	useVars bool
}

// assignments of leaf values: every combination of booleans (at most 8), literal and variable
// spelling of the leaves; ints / strings are distinct small constants rotated by the seed.
func assignments(ts []typ, seed int64, maxCombos int) []assignment {
	return assignmentsWith(ts, intLeaves, int(seed%4+4)%4, maxCombos)
}

// altInts: further constant lists tried (rotated) for a tree when the default constants give the
// table's grouping and the opposite grouping of some edge the same value (e.g. 3 ** -2 ** 5:
// (-2) ** 5 == -(2 ** 5) because the exponent is odd).
var altInts = [][]int{intLeaves, {2, 4, 3, 6}}

func assignmentsWith(ts []typ, ints []int, rot int, maxCombos int) []assignment {
	var bpos []int
	for i, t := range ts {
		if t == tB {
			bpos = append(bpos, i)
		}
	}
	combos := 1 << len(bpos)
	spread := combos > maxCombos
	if spread {
		combos = maxCombos
	}
	var out []assignment
	for c := 0; c < combos; c++ {
		pat := c
		if spread { // maxCombos spread patterns out of more
			pat = c * 0x9E37 >> 2
		}
		for _, uv := range []bool{false, true} {
			a := assignment{useVars: uv}
			ni, ns := rot, rot
			for i, t := range ts {
				switch t {
				case tI:
					v := ints[ni%4]
					ni++
					a.vals = append(a.vals, data.NewIntValue(v))
					a.lits = append(a.lits, fmt.Sprint(v))
				case tS:
					v := strLeaves[ns%4]
					ns++
					a.vals = append(a.vals, data.NewStringValue(v))
					a.lits = append(a.lits, `"`+v+`"`)
				case tN:
					a.vals = append(a.vals, data.NewNullValue())
					a.lits = append(a.lits, "null")
				case tB:
					k := 0
					for j, p := range bpos {
						if p == i {
							k = j
						}
					}
					b := pat>>uint(k)&1 == 1
					a.vals = append(a.vals, data.NewBoolValue(b))
					a.lits = append(a.lits, fmt.Sprint(b))
				}
			}
			out = append(out, a)
		}
	}
	return out
}

// ---- one case = tree + assignment -------------------------------------------------------------

type printing struct {
	name string
	st   style
	arg  bool
}

var printings = []printing{
	{"min", style{mode: "min", minus: "spaced"}, false},
	{"full", style{mode: "full", minus: "spaced"}, false},
	{"redundant", style{mode: "redundant", minus: "spaced"}, false},
	{"spacing-right", style{mode: "min", minus: "right"}, false},
	{"spacing-tight", style{mode: "min", minus: "tight"}, false},
	{"arg", style{mode: "min", minus: "spaced"}, true},
}

func hasPlusMinus(n *node) bool {
	if n.op == nil {
		return false
	}
	if n.op.kind == kBinary && (n.op.sym == "+" || n.op.sym == "-") {
		return true
	}
	for _, k := range n.kids {
		if hasPlusMinus(k) {
			return true
		}
	}
	return false
}

func usedTargets(n *node) []string {
	var ts []string
	seen := map[string]bool{}
	var walk func(x *node)
	walk = func(x *node) {
		if x.op != nil && x.op.kind == kAssign && !seen[x.tgt] {
			seen[x.tgt] = true
			ts = append(ts, x.tgt)
		}
		for _, k := range x.kids {
			walk(k)
		}
	}
	walk(n)
	return ts
}

// source builds the statements of one printing of one case.
func source(t *node, a assignment, p printing) string {
	var sb strings.Builder
	if a.useVars {
		for i, l := range a.lits {
			fmt.Fprintf(&sb, "$l%d_{S} = %s; ", i, l)
		}
	}
	tg := usedTargets(t)
	for _, x := range tg {
		fmt.Fprintf(&sb, "$%s{S} = %s; ", x, targetInit[x])
	}
	expr := t.print(p.st, func(n *node) string {
		if a.useVars {
			return fmt.Sprintf("$l%d_{S}", n.leaf)
		}
		return a.lits[n.leaf]
	})
	if len(tg) == 0 {
		if p.arg {
			fmt.Fprintf(&sb, "__r({S}, %s);", expr)
		} else {
			fmt.Fprintf(&sb, "$r{S} = %s; __r({S}, $r{S});", expr)
		}
		return sb.String()
	}
	var rest []string
	for _, x := range tg {
		rest = append(rest, "$"+x+"{S}")
	}
	if p.arg {
		// evaluate as an argument, then hand over the targets
		fmt.Fprintf(&sb, "$r{S} = __id(%s); __r({S}, [$r{S}, %s]);", expr, strings.Join(rest, ", "))
	} else {
		fmt.Fprintf(&sb, "$r{S} = %s; __r({S}, [$r{S}, %s]);", expr, strings.Join(rest, ", "))
	}
	return sb.String()
}

func refOutcome(r *refEnv, t *node, a assignment) string {
	tg := usedTargets(t)
	vars := map[string]data.Value{}
	for _, x := range tg {
		vars[x] = targetValue(x)
	}
	o := r.eval(t, a.vals, vars, !a.useVars)
	if len(tg) == 0 || strings.HasPrefix(o, "CRASH") || o == "E" || strings.HasPrefix(o, "CTL") {
		return o
	}
	parts := []string{o}
	for _, x := range tg {
		parts = append(parts, exprsem.Render(vars[x]))
	}
	return "a:[" + strings.Join(parts, ",") + "]"
}

func norm(o string) string {
	if strings.HasPrefix(o, "CRASH:") {
		return "CRASH"
	}
	return o
}

// ---- worker ------------------------------------------------------------------------------------

type shardArg struct {
	N    int   `json:"n"`
	Lo   int64 `json:"lo"`
	Hi   int64 `json:"hi"`
	Core bool  `json:"core"`
	Seed int64 `json:"seed"`
	// Group != "": the same-level chain family - only the operators of one level of the table
	Group string `json:"group,omitempty"`
}

type caseT struct {
	Shape   string   `json:"shape"`
	N       int      `json:"n"`
	Idx     int64    `json:"idx"`
	Core    bool     `json:"core"`
	Group   string   `json:"group,omitempty"`
	Seed    int64    `json:"seed"`
	Assign  int      `json:"assignment"`
	Print   string   `json:"printing"`
	Min     string   `json:"minimal"`
	Full    string   `json:"full"`
	Script  string   `json:"script"`
	Culprit string   `json:"culprit,omitempty"`
	Fixes   []string `json:"parenthesising_fixes,omitempty"`
}

type failRec struct {
	Key    string `json:"key"`
	Clause string `json:"clause"`
	Size   int    `json:"size"`
	Case   caseT  `json:"case"`
	Detail string `json:"detail"`
}

type rec struct {
	Kind      string         `json:"kind"`
	Trees     int64          `json:"trees,omitempty"`
	Cases     int64          `json:"cases,omitempty"`
	Evals     int64          `json:"evals,omitempty"`
	Scripts   int64          `json:"scripts,omitempty"`
	Stake     int64          `json:"stake,omitempty"`
	Explained int64          `json:"explained,omitempty"`
	Extra     int64          `json:"extra,omitempty"`
	Rejected  int64          `json:"rejected,omitempty"`
	Fail      *failRec       `json:"fail,omitempty"`
	Outcomes  map[string]int `json:"outcomes,omitempty"`
	Edges     map[string]int `json:"edges,omitempty"`
	Disc      map[string]int `json:"disc,omitempty"`
	Alt       map[string]int `json:"alt,omitempty"`
	Sample    any            `json:"sample,omitempty"`
}

type emitter interface{ Emit(v any) }

type localW struct{ fails []failRec }

func (l *localW) Emit(v any) {
	if r, ok := v.(rec); ok && r.Kind == "fail" && r.Fail != nil {
		l.fails = append(l.fails, *r.Fail)
	}
}

func newBatch() *exprsem.Batch {
	return &exprsem.Batch{Prelude: "function __id($x) { return $x; }", NewEnv: func() *exprsem.Env { return exprsem.NewEnv(nil) }, Size: 240}
}

type pending struct {
	t    *node
	idx  int64
	ai   int
	a    assignment
	ref  string
	outs map[string]string
}

type worker struct {
	arg       shardArg
	em        emitter
	batch     *exprsem.Batch
	ref       *refEnv
	out       map[string]int
	edges     map[string]int
	trees     int64
	cases     int64
	evals     int64
	stake     int64
	sample    bool
	explained int64
	extra     int64
	rejected  int64
	disc      map[string]int
	alt       map[string]int
}

func jobID(ci int, p string) string { return fmt.Sprintf("%d|%s", ci, p) }

// flush evaluates the accumulated cases in three rounds:
//  1. every printing of every case;
//  2. for each failing (case, printing): all strictly smaller variants of the tree (a sub-tree
//     hoisted to the top, a sub-tree replaced by a leaf) - if one of them fails too, the case is a
//     superset of a smaller case of the enumeration, which carries the finding (delta-reduction);
//  3. for the remaining, minimal failing cases: which single pair (or two pairs) of parentheses
//     restores the table's value - that edge of the tree names the finding.
func (w *worker) flush(ps []*pending) {
	if len(ps) == 0 {
		return
	}
	var jobs []exprsem.Job
	for ci, p := range ps {
		pm := hasPlusMinus(p.t)
		for _, pr := range printings {
			if strings.HasPrefix(pr.name, "spacing") && !pm {
				continue
			}
			jobs = append(jobs, exprsem.Job{ID: jobID(ci, pr.name), Src: source(p.t, p.a, pr)})
		}
	}
	out := w.batch.Run(jobs)
	w.evals += int64(len(jobs))
	type todo struct {
		ci    int
		pr    printing
		edges []edge
		cands int
		refs  []string // clause "full": reference outcome of every smaller variant
	}
	var todos []*todo
	var red []exprsem.Job
	for ci, p := range ps {
		p.outs = map[string]string{}
		for _, pr := range printings {
			if o, ok := out[jobID(ci, pr.name)]; ok {
				p.outs[pr.name] = o
			}
		}
		full := norm(p.outs["full"])
		cls := full
		if i := strings.Index(cls, ":"); i > 0 {
			cls = cls[:i]
		}
		w.out[cls]++
		// parenthesised printings: reduced like the others, keyed by what stands inside the parentheses
		for _, pc := range []struct {
			pr  printing
			bad bool
		}{{printings[1], full != norm(p.ref)}, {printings[2], norm(p.outs["redundant"]) != full}} {
			if !pc.bad {
				continue
			}
			td := &todo{ci: ci, pr: pc.pr}
			ti := len(todos)
			for _, cand := range smaller(p.t, p.a) {
				red = append(red, exprsem.Job{ID: fmt.Sprintf("%d|%d|v", ti, td.cands), Src: source(cand.t, cand.a, pc.pr)},
					exprsem.Job{ID: fmt.Sprintf("%d|%d|f", ti, td.cands), Src: source(cand.t, cand.a, printings[1])})
				if pc.pr.name == "full" {
					td.refs = append(td.refs, refOutcome(w.ref, cand.t, cand.a))
				}
				td.cands++
			}
			todos = append(todos, td)
		}
		minOK := norm(p.outs["min"]) == full
		for _, pr := range printings {
			if pr.st.mode != "min" {
				continue
			}
			o, ok := p.outs[pr.name]
			if !ok || norm(o) == full {
				continue
			}
			if pr.name != "min" && !minOK {
				continue // already reported through the plain minimal printing
			}
			td := &todo{ci: ci, pr: pr, edges: p.t.atStake()}
			ti := len(todos)
			for _, cand := range smaller(p.t, p.a) {
				if strings.HasPrefix(pr.name, "spacing") && !hasPlusMinus(cand.t) {
					continue
				}
				red = append(red, exprsem.Job{ID: fmt.Sprintf("%d|%d|v", ti, td.cands), Src: source(cand.t, cand.a, pr)},
					exprsem.Job{ID: fmt.Sprintf("%d|%d|f", ti, td.cands), Src: source(cand.t, cand.a, printings[1])})
				td.cands++
			}
			todos = append(todos, td)
		}
	}
	if len(todos) == 0 {
		return
	}
	rout := w.batch.Run(red)
	w.evals += int64(len(red))
	var loc []exprsem.Job
	var minimal []int
	for ti, td := range todos {
		reduced := false
		for k := 0; k < td.cands; k++ {
			want := norm(rout[fmt.Sprintf("%d|%d|f", ti, k)])
			if td.pr.name == "full" {
				want = norm(td.refs[k])
			}
			if norm(rout[fmt.Sprintf("%d|%d|v", ti, k)]) != want {
				reduced = true
				break
			}
		}
		if reduced {
			w.explained++
			continue
		}
		if td.pr.st.mode != "min" {
			w.fail(ps[td.ci], td.pr.name, td.pr, nil, nil)
			continue
		}
		minimal = append(minimal, ti)
		p := ps[td.ci]
		for i, e := range td.edges {
			st := td.pr.st
			st.extra = e.child
			loc = append(loc, exprsem.Job{ID: fmt.Sprintf("%d|s%d", ti, i), Src: source(p.t, p.a, printing{td.pr.name, st, td.pr.arg})})
			for j := i + 1; j < len(td.edges); j++ {
				st.extra2 = td.edges[j].child
				loc = append(loc, exprsem.Job{ID: fmt.Sprintf("%d|p%d.%d", ti, i, j), Src: source(p.t, p.a, printing{td.pr.name, st, td.pr.arg})})
			}
		}
	}
	if len(minimal) == 0 {
		return
	}
	lout := w.batch.Run(loc)
	w.evals += int64(len(loc))
	for _, ti := range minimal {
		td := todos[ti]
		p := ps[td.ci]
		full := norm(p.outs["full"])
		var culprits []edge
		for i, e := range td.edges {
			if norm(lout[fmt.Sprintf("%d|s%d", ti, i)]) == full {
				culprits = append(culprits, e)
			}
		}
		for i := 0; i < len(td.edges) && culprits == nil; i++ {
			for j := i + 1; j < len(td.edges); j++ {
				if norm(lout[fmt.Sprintf("%d|p%d.%d", ti, i, j)]) == full {
					culprits = []edge{td.edges[i], td.edges[j]}
					break
				}
			}
		}
		if strings.HasPrefix(p.outs[td.pr.name], "PARSE:") && len(culprits) > 0 {
			// a dialect in which ?: is NON-associative (PHP 8) rejects the unparenthesised chain at
			// parse time and takes it with parentheses: defensible, the chain then simply is not an
			// expression of the language (never observed on origami; counted, not reported)
			all := true
			for _, e := range culprits {
				all = all && e.chainEdge()
			}
			if all {
				w.rejected++
				continue
			}
		}
		w.fail(p, td.pr.name, td.pr, culprits, td.edges)
	}
}

type variant struct {
	t *node
	a assignment
}

var fillLit = map[typ]string{tI: "4", tS: `"q"`, tB: "true", tN: "null"}

// smaller lists the strictly smaller variants of a case: every proper non-leaf sub-tree on its
// own, and the tree with one non-leaf sub-tree replaced by a leaf of the same type.
func smaller(t *node, a assignment) []variant {
	var out []variant
	var subs []*node
	var walk func(x *node)
	walk = func(x *node) {
		for _, k := range x.kids {
			if k.op != nil {
				subs = append(subs, k)
				walk(k)
			}
		}
	}
	walk(t)
	for _, k := range subs {
		out = append(out, rebuild(k, nil, a))
		if k.op.kind != kAssign { // an assignment right-hand side keeps its shape
			out = append(out, rebuild(t, k, a))
		}
	}
	return out
}

// rebuild clones root (replacing the sub-tree cut by a fresh leaf) and re-derives the assignment.
func rebuild(root, cut *node, a assignment) variant {
	na := assignment{useVars: a.useVars}
	var cp func(x *node) *node
	cp = func(x *node) *node {
		if x == cut {
			l := &node{t: x.t, leaf: len(na.lits)}
			na.lits = append(na.lits, fillLit[x.t])
			switch x.t {
			case tI:
				na.vals = append(na.vals, data.NewIntValue(4))
			case tS:
				na.vals = append(na.vals, data.NewStringValue("q"))
			case tB:
				na.vals = append(na.vals, data.NewBoolValue(true))
			default:
				na.vals = append(na.vals, data.NewNullValue())
			}
			return l
		}
		c := *x
		if x.op == nil {
			c.leaf = len(na.lits)
			na.lits = append(na.lits, a.lits[x.leaf])
			na.vals = append(na.vals, a.vals[x.leaf])
			return &c
		}
		c.kids = make([]*node, len(x.kids))
		for i, k := range x.kids {
			c.kids[i] = cp(k)
		}
		return &c
	}
	return variant{cp(root), na}
}

// classSet: the operator classes occurring in a tree, sorted.
func classSet(t *node) string {
	set := map[string]bool{}
	var walk func(x *node)
	walk = func(x *node) {
		if x.op != nil {
			set[className(x.op)] = true
			for _, c := range x.kids {
				walk(c)
			}
		}
	}
	walk(t)
	var cs []string
	for c := range set {
		cs = append(cs, c)
	}
	sort.Strings(cs)
	return strings.Join(cs, "+")
}

// findingKey names the violated sentence of the table: (outer class, operand position, inner
// class), coarsened where the statement itself speaks about a whole group.
func findingKey(clause string, e edge) string {
	p, c := e.parent.op, e.child.op
	if strings.HasPrefix(clause, "spacing") {
		// "a -1" / "a-1": the sign is lexed into the number; what follows the number is irrelevant
		return "signed-literal:" + className(p) + "/" + posName(e.parent, e.pos)
	}
	switch {
	case p.cls == clsConcat && c.cls.level >= clsAdd.level:
		return clause + ":concat-vs-arithmetic" // "'.' looser than arithmetic"
	case c.cls == clsCast:
		return clause + ":cast-operand" // how far a cast's operand extends does not depend on the context
	case c.cls == clsConcat:
		return clause + ":" + className(p) + "/" + posName(e.parent, e.pos) + ":concat"
	case p.cls == clsPow && e.pos == 1 && c.kind == kPrefix:
		return clause + ":pow/R:prefix-operator"
	case c.kind == kAssign && p.cls != clsPow && p.kind != kAssign:
		// "assignment is right-associative and lowest": a op $v = e is a op ($v = e) whatever op is
		// (** keeps its own key: its operands are parsed below the level that recognises assignments)
		return clause + ":assign-as-last-operand"
	}
	return clause + ":" + e.key()
}

func (w *worker) fail(p *pending, clause string, pr printing, culprits []edge, stake []edge) {
	key := clause + ":"
	var fixes []string
	for _, e := range culprits {
		fixes = append(fixes, e.key())
	}
	// several single pairs of parentheses may each restore the value (an outer pair hides what an
	// inner operator did): the innermost one names the mechanism
	if len(culprits) > 1 {
		depth := map[*node]int{}
		var walk func(x *node, d int)
		walk = func(x *node, d int) {
			depth[x] = d
			for _, k := range x.kids {
				walk(k, d+1)
			}
		}
		walk(p.t, 0)
		best := 0
		for i, e := range culprits {
			if depth[e.child] > depth[culprits[best].child] {
				best = i
			}
		}
		// '.' pulled into a tighter operator shows as a culprit edge under a concat parent, however
		// deep the operator that swallowed it sits: that edge names the sentence of the statement
		for i, e := range culprits {
			if e.parent.op.cls == clsConcat && e.child.op.cls.level >= clsAdd.level {
				best = i
				break
			}
		}
		if strings.HasPrefix(clause, "spacing") {
			// the operator whose spelling changed is a binary + or -: prefer the outermost such edge
			for i, e := range culprits {
				if e.parent.op.kind == kBinary && (e.parent.op.sym == "-" || e.parent.op.sym == "+") && e.pos == 1 {
					if pe := culprits[best]; !(pe.parent.op.kind == kBinary && (pe.parent.op.sym == "-" || pe.parent.op.sym == "+") && pe.pos == 1) || depth[e.child] < depth[pe.child] {
						best = i
					}
				}
			}
		}
		culprits[0], culprits[best] = culprits[best], culprits[0]
	}
	switch {
	case clause == "full" || clause == "redundant":
		// minimal failing tree: the classes of the parenthesised sub-expressions (of the root if none)
		set := map[string]bool{}
		for _, k := range p.t.kids {
			var walk func(x *node)
			walk = func(x *node) {
				if x.op != nil {
					set[className(x.op)] = true
					for _, c := range x.kids {
						walk(c)
					}
				}
			}
			walk(k)
		}
		if len(set) == 0 && p.t.op != nil {
			set[className(p.t.op)] = true
		}
		var cs []string
		for c := range set {
			cs = append(cs, c)
		}
		sort.Strings(cs)
		key += "parenthesised:" + strings.Join(cs, "+")
	case len(culprits) > 0:
		key = findingKey(clause, culprits[0])
	default:
		key += "unlocalised:" + classSet(p.t)
	}
	lt := func(n *node) string {
		if p.a.useVars {
			return fmt.Sprintf("$l%d", n.leaf)
		}
		return p.a.lits[n.leaf]
	}
	clean := func(s string) string { return strings.ReplaceAll(s, "{S}", "") }
	minTxt := clean(p.t.print(pr.st, lt))
	fullTxt := clean(p.t.print(printings[1].st, lt))
	detail := fmt.Sprintf("%s  evaluates to %s\n%s  evaluates to %s\nreference (table grouping, origami's own operators on constants): %s", minTxt, p.outs[pr.name], fullTxt, p.outs["full"], p.ref)
	if clause == "redundant" {
		detail = fmt.Sprintf("%s  evaluates to %s\n%s  evaluates to %s", clean(p.t.print(printings[2].st, lt)), p.outs["redundant"], fullTxt, p.outs["full"])
	}
	if len(fixes) > 0 {
		detail += "\nadding parentheses restores the table's value at: " + strings.Join(fixes, ", ")
	}
	cs := caseT{Shape: p.t.sigText(), N: w.arg.N, Idx: p.idx, Core: w.arg.Core, Group: w.arg.Group, Seed: w.arg.Seed, Assign: p.ai, Print: pr.name, Min: minTxt, Full: fullTxt,
		Script: w.batch.BareScript(exprsem.Job{ID: "x", Src: source(p.t, p.a, pr)}), Fixes: fixes}
	if len(culprits) > 0 {
		cs.Culprit = culprits[0].key()
	}
	size := p.t.size()*1000 + len(minTxt)
	if p.a.useVars {
		size += 500
	}
	w.em.Emit(rec{Kind: "fail", Fail: &failRec{Key: key, Clause: clause, Size: size, Case: cs, Detail: detail}})
}

func (w *worker) run(item func(string) bool) {
	g := newGenerator(w.arg.Core, w.arg.Group)
	maxCombos := 8
	if w.arg.Group != "" {
		maxCombos = 16 // chains of ?: with int / string branches: every combination of the 4 conditions
	}
	var ps []*pending
	g.forEachTree(w.arg.N, func(idx int64, proto *node) bool {
		if idx < w.arg.Lo {
			return true
		}
		if idx >= w.arg.Hi {
			return false
		}
		if !item(fmt.Sprintf("%d/%d", w.arg.N, idx)) {
			return true
		}
		t := proto.clone()
		ts := t.number()
		w.trees++
		for _, e := range t.atStake() {
			w.edges[e.key()]++
			w.stake++
		}
		stakes := t.atStake()
		alts := make([]*node, len(stakes))
		for i, e := range stakes {
			alts[i] = regroup(t, e)
			if alts[i] != nil {
				w.alt[e.key()] = 1
			}
		}
		as := assignments(ts, w.arg.Seed, maxCombos)
		refs := make([]string, len(as))
		open := map[int]bool{} // edges not yet told apart from their opposite grouping
		for i := range stakes {
			if alts[i] != nil {
				open[i] = true
			}
		}
		tell := func(a assignment, ref string) bool {
			hit := false
			for i := range open {
				if refOutcome(w.ref, alts[i], a) != ref {
					delete(open, i)
					w.disc[stakes[i].key()] = 1
					hit = true
				}
			}
			return hit
		}
		for ai, a := range as {
			refs[ai] = refOutcome(w.ref, t, a)
			tell(a, refs[ai])
		}
		// discriminating constants per tree: while an edge is still open, try the other constant
		// lists / rotations and keep (as additional cases) those that close at least one edge
		hasInt := false
		for _, x := range ts {
			hasInt = hasInt || x == tI
		}
		base := int(w.arg.Seed%4+4) % 4
		added := 0
		for li := 0; hasInt && len(open) > 0 && li < len(altInts) && added < 3; li++ {
			for r := 0; r < 4 && len(open) > 0 && added < 3; r++ {
				if li == 0 && r == base {
					continue
				}
				cand := assignmentsWith(ts, altInts[li], r, maxCombos)
				var crefs []string
				hit := false
				for _, a := range cand {
					cr := refOutcome(w.ref, t, a)
					crefs = append(crefs, cr)
					if !a.useVars && tell(a, cr) {
						hit = true
					}
				}
				if hit {
					as = append(as, cand...)
					refs = append(refs, crefs...)
					added++
					w.extra++
				}
			}
		}
		for ai, a := range as {
			w.cases++
			ps = append(ps, &pending{t: t, idx: idx, ai: ai, a: a, ref: refs[ai]})
		}
		if len(ps) >= 48 {
			w.flush(ps)
			ps = ps[:0]
		}
		if !w.sample && w.arg.Lo == 0 && t.size() >= 2 && len(t.atStake()) > 0 {
			w.sample = true
			a := assignments(ts, w.arg.Seed, maxCombos)[0]
			lt := func(n *node) string { return a.lits[n.leaf] }
			w.em.Emit(rec{Kind: "sample", Sample: map[string]any{"shape": t.sigText(), "minimal": t.print(printings[0].st, lt), "full": t.print(printings[1].st, lt), "redundant": t.print(printings[2].st, lt), "reference": refOutcome(w.ref, t, a)}})
		}
		return true
	})
	w.flush(ps)
	w.em.Emit(rec{Kind: "count", Trees: w.trees, Cases: w.cases, Evals: w.evals, Scripts: w.batch.Scripts, Stake: w.stake, Explained: w.explained, Extra: w.extra, Rejected: w.rejected, Outcomes: w.out, Edges: w.edges, Disc: w.disc, Alt: w.alt})
}

func handler(pw *pool.W, raw json.RawMessage) {
	var a shardArg
	json.Unmarshal(raw, &a)
	w := &worker{arg: a, em: pw, batch: newBatch(), ref: newRefEnv(), out: map[string]int{}, edges: map[string]int{}, disc: map[string]int{}, alt: map[string]int{}}
	defer w.ref.close()
	w.run(pw.Item)
}

// ---- main ----------------------------------------------------------------------------------------

func main() {
	if pool.IsWorker() {
		pool.Serve(map[string]pool.Handler{"c04": handler})
	}
	if f := os.Getenv("C04_PROBE"); f != "" {
		b, _ := os.ReadFile(f)
		bt := newBatch()
		env := bt.NewEnv()
		res := env.Run(bt.Prelude+"\n"+string(b), 0)
		fmt.Printf("kind=%s class=%s msg=%s panic=%s\n", res.Kind, res.Class, res.Msg, res.PanicKey)
		var ks []int
		for k := range env.Rec.Slots {
			ks = append(ks, k)
		}
		sort.Ints(ks)
		for _, k := range ks {
			fmt.Println(k, env.Rec.Slots[k])
		}
		return
	}
	c := ev.New("C04")
	defer runner.Cleanup()
	if c.Replay != "" {
		replay(c)
		return
	}
	c.SetBudget(5*time.Minute, 45*time.Minute)
	// bounds: all operators up to maxFull operators per tree, the core operator set one size further
	maxFull, coreSize := 2, 3
	if !c.Quick() {
		maxFull, coreSize = 3, 4
	}
	chainMax := coreSize + 1
	if v := os.Getenv("C04_MAXFULL"); v != "" {
		fmt.Sscan(v, &maxFull)
		coreSize = maxFull + 1
	}
	counts := map[string]int64{}
	var trees, cases, evals, scripts, stake, explained, extra, rejected, chainTrees int64
	outcomes := map[string]int{}
	edges := map[string]int{}
	disc := map[string]bool{}
	hasAlt := map[string]bool{}
	completed := "nothing"
	mkShards := func(n int, core bool, group string) []pool.Shard {
		g := newGenerator(core, group)
		var total int64
		g.forEachTree(n, func(idx int64, t *node) bool { total = idx + 1; return true })
		if group != "" {
			counts[fmt.Sprintf("chains_of_%d_operators_level=%s", n, group)] = total
			chainTrees += total
		} else {
			counts[fmt.Sprintf("trees_with_%d_operators_core=%v", n, core)] = total
		}
		per := total/96 + 1
		if per > 3000 {
			per = 3000
		}
		if group != "" && per < 12 {
			per = 12 // many small levels share one pool run
		}
		var shards []pool.Shard
		for lo := int64(0); lo < total; lo += per {
			hi := lo + per
			if hi > total {
				hi = total
			}
			shards = append(shards, pool.Shard{Kind: "c04", Arg: shardArg{N: n, Lo: lo, Hi: hi, Core: core, Group: group, Seed: c.Seed}})
		}
		return shards
	}
	runShards := func(shards []pool.Shard, label string) {
		if c.Expired() {
			c.NotExhaustive("wall-clock budget reached; completed: " + completed)
			return
		}
		if len(shards) == 0 {
			return
		}
		pool.Run(shards, pool.Options{}, func(si int, rb json.RawMessage) {
			var r rec
			json.Unmarshal(rb, &r)
			switch r.Kind {
			case "count":
				trees += r.Trees
				cases += r.Cases
				evals += r.Evals
				scripts += r.Scripts
				stake += r.Stake
				explained += r.Explained
				extra += r.Extra
				rejected += r.Rejected
				for k, v := range r.Outcomes {
					outcomes[k] += v
				}
				for k, v := range r.Edges {
					edges[k] += v
				}
				for k := range r.Disc {
					disc[k] = true
				}
				for k := range r.Alt {
					hasAlt[k] = true
				}
			case "fail":
				if os.Getenv("C04_VERBOSE") != "" {
					fmt.Printf("FAIL %s | %s\n", r.Fail.Key, strings.ReplaceAll(r.Fail.Detail, "\n", " ## "))
				}
				c.Fail(r.Fail.Key, r.Fail.Clause, r.Fail.Size, r.Fail.Case, r.Fail.Detail)
			case "sample":
				c.Sample(r.Sample)
			}
		}, func(d pool.Death) {
			c.Fail("worker-death:"+runner.FatalFrame(d.Stderr), "crash", 0, map[string]any{"item": d.Item, "reason": d.Reason}, d.Stderr)
		})
		completed = label
	}
	onlyChains := os.Getenv("C04_ONLY_CHAINS") != "" // measuring aid: skip Form P
	for n := 1; n <= maxFull && !onlyChains; n++ {
		runShards(mkShards(n, false, ""), fmt.Sprintf("trees with <= %d operators over all operators", n))
	}
	if !onlyChains {
		runShards(mkShards(coreSize, true, ""), fmt.Sprintf("trees with <= %d operators over all operators and with %d over the core set", maxFull, coreSize))
	}
	// same-level chains: every tree built from the operators of ONE level (all of them, not only the
	// core set), from the first size the mixed trees do not reach with all operators up to chainMax
	// operators (one fewer for the levels with many operators)
	var chainShards []pool.Shard
	for _, cg := range chainGroups {
		hi := chainMax
		if cg.wide {
			hi--
		}
		for n := maxFull + 1; n <= hi; n++ {
			chainShards = append(chainShards, mkShards(n, false, cg.name)...)
		}
	}
	runShards(chainShards, "all mixed trees and the same-level chains")
	for k, v := range outcomes {
		c.Outcome(k)
		c.Add("outcome:"+k, int64(v))
	}
	for k, v := range counts {
		c.Set(k, v)
	}
	var opsAll, opsCore []string
	for _, o := range ops {
		opsAll = append(opsAll, o.sym)
		if o.core {
			opsCore = append(opsCore, o.sym)
		}
	}
	c.Set("operators", opsAll)
	c.Set("core_operators", opsCore)
	c.Set("max_operators_all", maxFull)
	c.Set("max_operators_core", coreSize)
	c.Set("trees", trees)
	c.Set("cases_tree_x_leaf_assignment", cases)
	c.Set("printings_evaluated", evals)
	c.Set("scripts_executed", scripts)
	c.Set("edges_whose_parentheses_were_dropped", stake)
	c.Set("failing_cases_reduced_to_a_smaller_failing_subexpression", explained)
	c.Set("extra_constant_sets_added_to_discriminate_an_edge", extra)
	c.Set("same_level_chain_trees", chainTrees)
	c.Set("max_operators_same_level_chain", chainMax)
	c.Set("unparenthesised_conditional_chains_rejected_by_the_parser", rejected)
	c.Set("distinct_parent_position_child_classes_at_stake", len(edges))
	var ek []string
	for k := range edges {
		ek = append(ek, k)
	}
	sort.Strings(ek)
	c.Set("classes_at_stake", ek)
	var nodisc []string
	for _, k := range ek {
		if hasAlt[k] && !disc[k] {
			nodisc = append(nodisc, k)
		}
	}
	c.Set("classes_with_an_opposite_grouping", len(hasAlt))
	c.Set("classes_where_the_opposite_grouping_gives_another_value", len(disc))
	c.Set("classes_not_discriminated_by_the_leaf_values", nodisc)
	c.Assume("per-operator meaning in the reference evaluation is origami's own operator node applied to constants (C03 judges those); only the grouping comes from the check's table")
	c.Assume("groupings the statement leaves open keep their parentheses in the minimal printing: '.' against << >> < <= > >= <=> == != === !== & ^ | && ||, chains of comparison / equality operators, assignment inside a larger expression")
	if ternaryChainsGroupRight {
		c.Assume("a conditional in the else-branch of a conditional without parentheses (a ? b : c ? d : e, a ?: b ? c : d) groups to the right, as origami's right-recursive parseTernary and every language but PHP <= 7 have it; a parser that REJECTS such a chain (PHP 8: non-associative) is accepted, one that silently groups it to the left is reported")
	}
	c.Assume("instanceof, like, xor/and/or, ++/--, array/member access are not in the statement's table and are not enumerated; deeper trees than the bound are not explored")
	if c.Exhaustive && !onlyChains && (len(outcomes) < 4 || len(edges) < 40 || len(disc) < 60) {
		c.HarnessError("vacuous: %d outcome classes, %d classes of dropped parentheses, %d of them told apart from the opposite grouping by the leaf values", len(outcomes), len(edges), len(disc))
	}
	if c.Exhaustive && ternaryChainsGroupRight && !(edges["ternary/else:ternary"] > 0 && disc["ternary/else:ternary"] && edges["ternary/then:ternary"] > 0) {
		c.HarnessError("vacuous: no chain of conditionals whose two groupings differ in value was enumerated")
	}
	c.Finish(trees, evals, cases, fmt.Sprintf("every well-typed expression tree with <= %d operators over %d operators (and with %d operators over the %d core operators) and every tree with <= %d operators taken from one level of the table (%d for the unary and assignment levels) x leaf assignments (all boolean combinations, literal and variable leaves) x up to 6 printings; states = trees, validated = cases compared with the reference evaluation", maxFull, len(ops), coreSize, len(opsCore), chainMax, chainMax-1))
}

func replay(c *ev.Check) {
	var cs caseT
	key, err := ev.LoadReplay(c.Replay, &cs)
	if err != nil {
		c.HarnessError("replay: %v", err)
		c.Finish(1, 1, 1, "replay")
	}
	fmt.Printf("key: %s\nshape: %s\nminimal: %s\nfull:    %s\n", key, cs.Shape, cs.Min, cs.Full)
	lw := &localW{}
	w := &worker{arg: shardArg{N: cs.N, Lo: cs.Idx, Hi: cs.Idx + 1, Core: cs.Core, Group: cs.Group, Seed: cs.Seed}, em: lw, batch: newBatch(), ref: newRefEnv(), out: map[string]int{}, edges: map[string]int{}, disc: map[string]int{}, alt: map[string]int{}}
	w.run(func(string) bool { return true })
	w.ref.close()
	hit := false
	for _, f := range lw.fails {
		if f.Key == key && (!hit) {
			hit = true
			fmt.Println("reproduced:\n" + f.Detail)
			c.Fail(f.Key, f.Clause, f.Size, f.Case, f.Detail)
		}
	}
	if !hit {
		fmt.Println("not reproduced under this key")
		for _, f := range lw.fails {
			fmt.Printf("  the tree fails under another key: %s\n", f.Key)
		}
	}
	c.Finish(1, 1, 1, "replay")
}
