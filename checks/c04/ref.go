package main

import (
	"strings"

	"github.com/php-any/origami/data"
	"github.com/php-any/origami/lexer"
	onode "github.com/php-any/origami/node"
	"github.com/php-any/origami/token"

	"verif/engine/exprsem"
	"verif/engine/runner"
)

// Reference evaluation. The grouping of the tree is the check's own (ast.go: the table of the
// statement); the meaning of ONE operator applied to already evaluated operands is taken from
// origami's operator nodes, which are instantiated directly on constant operands - the parser is
// not involved. Whether those single-operator results are right is property C03's business; C04
// must not raise an alarm for them, and this construction makes that impossible.

var tokOf = map[string]token.TokenType{
	"+": token.ADD, "-": token.SUB, "*": token.MUL, "/": token.QUO, "%": token.REM, "**": token.POWER,
	"<<": token.SHL, ">>": token.SHR, "<": token.LT, "<=": token.LE, ">": token.GT, ">=": token.GE, "<=>": token.SPACESHIP,
	"==": token.EQ, "!=": token.NE, "===": token.EQ_STRICT, "!==": token.NE_STRICT,
	"&": token.BIT_AND, "^": token.BIT_XOR, "|": token.BIT_OR, "&&": token.LAND, "||": token.LOR, ".": token.DOT,
}

type refEnv struct {
	sess *runner.Session
	from *onode.TokenFrom
}

func newRefEnv() *refEnv {
	_, s := runner.RunKeep("$z = 0;", runner.Opts{})
	return &refEnv{sess: s, from: onode.NewTokenFrom(nil, 0, 0, 0, 0)}
}

func (r *refEnv) close() { r.sess.Close() }

// build turns the check's AST into origami nodes over constants. vars gives the current values of
// script variables (assignment targets); leaves are constants.
func (r *refEnv) build(n *node, leaves []data.Value, vars map[string]data.Value, fold bool) data.GetValue {
	if n.op == nil {
		return leaves[n.leaf]
	}
	if fold && negLiteral(n) {
		// "-3" is a negative literal (the lexer's signed-number token), in every printing
		return data.NewIntValue(-leaves[n.kids[0].leaf].(*data.IntValue).Value)
	}
	kid := func(i int) data.GetValue { return r.build(n.kids[i], leaves, vars, fold) }
	switch n.op.kind {
	case kPrefix:
		if n.op.cls == clsCast {
			name := strings.Trim(n.op.sym, "()")
			fn, ok := r.sess.VM.GetFunc(name)
			if !ok {
				panic("no conversion function " + name)
			}
			return onode.NewCallExpression(r.from, name, []data.GetValue{kid(0)}, fn)
		}
		return onode.NewUnaryExpression(r.from, n.op.sym, kid(0))
	case kBinary:
		if n.op.sym == "??" {
			return onode.NewNullCoalesceExpression(r.from, kid(0), kid(1))
		}
		return onode.NewBinaryExpression(r.from, kid(0), lexer.NewWorkerToken(tokOf[n.op.sym], n.op.sym, 0, 0, 0, 0), kid(1))
	case kTernary:
		return onode.NewTernaryExpression(r.from, kid(0), kid(1), kid(2))
	case kElvis:
		c := kid(0)
		return onode.NewTernaryExpression(r.from, c, c, kid(1))
	case kAssign:
		return &assignThunk{r: r, n: n, rhs: kid(0), vars: vars}
	}
	panic("unreachable")
}

// assignThunk models "$t op= rhs" on the vars map (right-hand side first, like any assignment).
type assignThunk struct {
	r    *refEnv
	n    *node
	rhs  data.GetValue
	vars map[string]data.Value
}

func (a *assignThunk) GetValue(ctx data.Context) (data.GetValue, data.Control) {
	var res data.GetValue
	var ctl data.Control
	old := a.vars[a.n.tgt]
	switch a.n.op.sym {
	case "=":
		res, ctl = a.rhs.GetValue(ctx)
	case "??=":
		res, ctl = onode.NewNullCoalesceExpression(a.r.from, old, a.rhs).GetValue(ctx)
	default:
		op := strings.TrimSuffix(a.n.op.sym, "=")
		res, ctl = onode.NewBinaryExpression(a.r.from, old, lexer.NewWorkerToken(tokOf[op], op, 0, 0, 0, 0), a.rhs).GetValue(ctx)
	}
	if ctl != nil {
		return nil, ctl
	}
	v, _ := res.(data.Value)
	if v == nil {
		v = data.NewNullValue()
	}
	a.vars[a.n.tgt] = v
	return v, nil
}

// eval returns the outcome in the notation of exprsem.Batch ("E" for a catchable error,
// "CRASH:.." for a panic) and the final values of the assignment targets.
func (r *refEnv) eval(n *node, leaves []data.Value, vars map[string]data.Value, fold bool) string {
	var out string
	g := runner.Guard(func() {
		root := r.build(n, leaves, vars, fold)
		v, ctl := root.GetValue(r.sess.Ctx)
		if ctl != nil {
			out = "E"
			return
		}
		if v == nil {
			out = "n"
			return
		}
		out = exprsem.Render(v)
	})
	switch g.Kind {
	case "ok":
		return out
	case "panic":
		return "CRASH:" + g.PanicKey
	case "control":
		return "E"
	}
	return "CTL:" + g.Kind
}
