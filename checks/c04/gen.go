package main

// Typed enumeration of every expression tree with exactly n operators.

type genKey struct {
	t      typ
	n      int
	assign bool // an assignment may be the root of this subtree
}

type generator struct {
	ops  []*opDef
	memo map[genKey][]*node
}

// newGenerator: all operators, the core set, or (group != "") the operators of ONE level of the
// table - the same-level chain family, which goes further in size than the mixed trees.
func newGenerator(core bool, group string) *generator {
	g := &generator{memo: map[genKey][]*node{}}
	for _, o := range ops {
		if group != "" {
			if groupOf(o) == group {
				g.ops = append(g.ops, o)
			}
			continue
		}
		if !core || o.core {
			g.ops = append(g.ops, o)
		}
	}
	return g
}

// groupOf names the level an operator belongs to in the chain family; "" = its chains are left
// open by the statement (comparison, equality), so there is nothing to drop.
func groupOf(o *opDef) string {
	switch o.cls {
	case clsCmp, clsEq:
		return ""
	case clsPrefix, clsCast:
		return "unary"
	}
	return o.cls.name
}

// chainGroups: levels enumerated by the chain family; wide = many operators on the level (one
// operator fewer per chain than the others).
var chainGroups = []struct {
	name string
	wide bool
}{{"pow", false}, {"unary", true}, {"mul", false}, {"add", false}, {"shift", false}, {"bitand", false}, {"bitxor", false},
	{"bitor", false}, {"and", false}, {"or", false}, {"concat", false}, {"coalesce", false}, {"ternary", false}, {"assign", true}}

// targets of assignments by type and chain depth
var targets = map[typ][]string{tI: {"v", "w", "x", "y"}, tS: {"s", "t", "z", "zz"}, tB: {"p", "q", "pp", "qq"}}

// list returns the prototypes of all trees of type t with n operators (shared, never mutated).
func (g *generator) list(t typ, n int, assign bool) []*node {
	k := genKey{t, n, assign}
	if l, ok := g.memo[k]; ok {
		return l
	}
	var out []*node
	g.each(t, n, assign, 0, func(x *node) { out = append(out, x) })
	g.memo[k] = out
	return out
}

// each enumerates without materialising the top level.
func (g *generator) each(t typ, n int, assign bool, depth int, emit func(*node)) {
	if n == 0 {
		emit(&node{t: t})
		return
	}
	if t == tN {
		return // only a null leaf has this type
	}
	for _, o := range g.ops {
		if o.kind == kAssign && !assign {
			continue
		}
		for _, sg := range o.sigs {
			if sg.res != t {
				continue
			}
			switch len(sg.args) {
			case 1:
				if o.kind == kAssign {
					tg := targets[t][depth%4]
					if o.sym == "??=" {
						tg = "u"
					}
					for _, k := range g.assignKids(sg.args[0], n-1, depth+1) {
						emit(&node{op: o, t: t, kids: []*node{k}, tgt: tg})
					}
					continue
				}
				for _, k := range g.list(sg.args[0], n-1, false) {
					emit(&node{op: o, t: t, kids: []*node{k}})
				}
			case 2:
				for a := 0; a <= n-1; a++ {
					for _, l := range g.list(sg.args[0], a, false) {
						// the last operand may be an assignment: a op $v = e  is  a op ($v = e)
						for _, r := range g.list(sg.args[1], n-1-a, o.kind == kBinary || o.kind == kElvis) {
							emit(&node{op: o, t: t, kids: []*node{l, r}})
						}
					}
				}
			case 3:
				for a := 0; a <= n-1; a++ {
					for b := 0; a+b <= n-1; b++ {
						for _, x := range g.list(sg.args[0], a, false) {
							for _, y := range g.list(sg.args[1], b, false) {
								for _, z := range g.list(sg.args[2], n-1-a-b, true) {
									emit(&node{op: o, t: t, kids: []*node{x, y, z}})
								}
							}
						}
					}
				}
			}
		}
	}
}

// assignKids: right-hand sides of an assignment (may be another assignment, one level deeper).
func (g *generator) assignKids(t typ, n int, depth int) []*node {
	var out []*node
	g.each(t, n, true, depth, func(x *node) { out = append(out, x) })
	return out
}

// clone deep-copies a prototype so that leaves can be numbered.
func (n *node) clone() *node {
	c := *n
	if len(n.kids) > 0 {
		c.kids = make([]*node, len(n.kids))
		for i, k := range n.kids {
			c.kids[i] = k.clone()
		}
	}
	return &c
}

var rootTypes = []typ{tI, tB, tS}

// forEachTree enumerates every tree with exactly n operators of every root type; idx is the
// position in the enumeration (stable for a given operator set).
func (g *generator) forEachTree(n int, fn func(idx int64, t *node) bool) {
	var idx int64
	stop := false
	for _, rt := range rootTypes {
		g.each(rt, n, true, 0, func(x *node) {
			if stop {
				return
			}
			if !fn(idx, x) {
				stop = true
			}
			idx++
		})
	}
}
