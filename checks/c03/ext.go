// Extensions of the C03 table (round 3): magnitude grids, mixed operand forms, condition positions,
// evaluation scopes and generator-resumed boolean contexts.
package main

import (
	"fmt"
	"math"
	"strconv"
	"strings"

	"verif/engine/exprsem"
)

// ---- grid pools -------------------------------------------------------------------------------
//
// The base pool has six integers. Width-dependent behaviour (shift counts around the word size,
// products around 2^63, exact-float limits around 2^53, 32-bit seams) needs operands on both
// sides of each boundary, for BOTH operands. The numeric grid is a second complete table
// (every operator x every ordered pair) over such boundary values; the string grid is the
// same for string/string ordering, equality and concatenation.

func intName(i int64) string {
	switch i {
	case math.MaxInt64:
		return "INT_MAX"
	case math.MinInt64:
		return "INT_MIN"
	}
	return strconv.FormatInt(i, 10)
}

func intLit(i int64) string {
	switch {
	case i == math.MinInt64:
		return "PHP_INT_MIN"
	case i < 0:
		return fmt.Sprintf("(%d)", i)
	}
	return strconv.FormatInt(i, 10)
}

func floatLit(f float64) string {
	if math.IsNaN(f) || math.IsInf(f, 0) {
		return ""
	}
	if f == 0 && math.Signbit(f) {
		return "(-0.0)"
	}
	t := strconv.FormatFloat(f, 'f', -1, 64)
	if len(t) > 24 {
		t = strconv.FormatFloat(f, 'e', -1, 64)
	} else if !strings.Contains(t, ".") {
		t += ".0"
	}
	if f < 0 {
		t = "(" + t + ")"
	}
	return t
}

func floatName(f float64) string {
	t := exprsem.FloatText(f)
	if !strings.ContainsAny(t, ".eNI") {
		t += ".0"
	}
	return t
}

type poolBuilder struct {
	p    []pval
	seen map[string]bool
}

func (b *poolBuilder) ints(vs ...int64) {
	for _, i := range vs {
		n := intName(i)
		if b.seen[n] {
			continue
		}
		b.seen[n] = true
		b.p = append(b.p, scalar(n, exprsem.Int(i), intLit(i)))
	}
}

func (b *poolBuilder) floats(vs ...float64) {
	for _, f := range vs {
		n := floatName(f)
		if b.seen[n] {
			continue
		}
		b.seen[n] = true
		b.p = append(b.p, scalar(n, exprsem.Float(f), floatLit(f)))
	}
}

func (b *poolBuilder) strs(vs ...string) {
	for _, s := range vs {
		n := strconv.Quote(s)
		if b.seen[n] {
			continue
		}
		b.seen[n] = true
		b.p = append(b.p, scalar(n, exprsem.Str(s), n))
	}
}

// numGrid: quick = both sides of every width boundary; thorough = additionally every count 0..66,
// more counts beyond the word size and further powers of two with their neighbours. thorough is a superset of quick in the same order.
func numGrid(tier string) []pval {
	b := &poolBuilder{seen: map[string]bool{}}
	const p31, p32, p53, p62 = int64(1) << 31, int64(1) << 32, int64(1) << 53, int64(1) << 62
	b.ints(0, 1, -1, 2, -2, 3, -3, 7, 8, -8, 31, 32, 33, 62, 63, 64, 65, 127, 128, -63, -64,
		p31-1, p31, -p31, p32-1, p32, p32+1, 3037000499, 3037000500, p53-1, p53, p53+1, p62, -p62,
		math.MaxInt64-1, math.MaxInt64, math.MinInt64, math.MinInt64+1, 0x5555555555555555, -0x5555555555555556)
	b.floats(0, 0.5, -0.5, 1, 2, -2.5, 64, 0.1, 1e18, float64(p53), 9223372036854775808.0, -9223372036854775808.0, math.NaN(), math.Inf(1))
	if tier == "thorough" {
		for i := int64(0); i <= 66; i++ { // every shift count / small exponent up to and across the word size
			b.ints(i)
		}
		b.ints(100, 126, 129, 130, 255, 256, -65, p32+64, p62+1)
		for _, k := range []uint{8, 16, 24, 40, 47, 48, 52, 54, 61} {
			b.ints(int64(1)<<k-1, int64(1)<<k, -(int64(1) << k))
		}
		b.ints(-5, -7, -10, -31, -32, -33, -62, -66, -127, -128, -p32, -p53, 1000003, -1000003)
		b.floats(math.Copysign(0, -1), -1, 1.5, 2.5, 63, 1e308, 5e-324, math.Inf(-1))
		b.floats(-1.5, 3, -3, 0.25, 1e-7, 1e15, 4294967296.0, -4294967296.0, 9007199254740993.0, 1.7976931348623157e308, -1e308, 31, 32, 65)
	}
	return b.p
}

func strGrid(tier string) []pval {
	b := &poolBuilder{seen: map[string]bool{}}
	b.strs("", "0", "00", "1", "01", "1.0", "10", "9", "1e1", "-1", " 1", "1 ", "a", "A", "b", "aa", "ab", "abc", "abd", "a ", "é", "日本", "true", "null", "1abc", "abc1", "0x1A")
	if tier == "thorough" {
		b.strs(" ", "0.0", "1e3", "+1", ".5", "1.", "-0", "Z", "z", "aB", "Ab", "abcd", "ab\n", "a\tb", "ée", "日", "false", "NAN", "INF", "9223372036854775807", "9223372036854775808", "1e400", "'", "\\", "$a", "{$a}")
	}
	return b.p
}

var poolIDs = []string{"", "num", "str"}

func poolTitle(id string) string {
	if id == "" {
		return "base"
	}
	return id
}

// ---- reference refinements local to C03 ---------------------------------------------------------

// refBin is exprsem.BinRef plus what the statement's "64-bit integers" fixes for a shift that
// moves all 64 bits out. Two families of 64-bit languages exist: the mathematical shift truncated
// to the word (PHP, Go: x << 64 == 0, x >> 64 == sign fill) and the masked count (Java, C#, x86:
// x << 64 == x << 0). Both are accepted, and so is a catchable error; anything else is not a
// 64-bit shift of the operand.
func refBin(op string, a, b exprsem.V) exprsem.Expect {
	if (op == "<<" || op == ">>") && a.K == exprsem.KInt && b.K == exprsem.KInt && b.I >= 64 {
		var trunc, masked int64
		m := uint(b.I & 63)
		if op == "<<" {
			trunc, masked = 0, a.I<<m
		} else {
			if a.I < 0 {
				trunc = -1
			}
			masked = a.I >> m
		}
		acc := []string{exprsem.Int(trunc).Render()}
		if masked != trunc {
			acc = append(acc, exprsem.Int(masked).Render())
		}
		return exprsem.Expect{Accept: acc, Err: true, Why: "64-bit shift by 64 or more: all bits shifted out (0 / sign fill), or count taken modulo 64, or an error"}
	}
	return exprsem.BinRef(op, a, b)
}

// ---- operand forms of a binary cell -----------------------------------------------------------

// boolOps: operators whose result is a truth value and may therefore sit in a condition position,
// where the interpreter has fused / fast-path nodes (for-condition BoolTest, VarIntLe ...).
var boolOps = map[string]bool{"==": true, "!=": true, "===": true, "!==": true, "<": true, "<=": true, ">": true, ">=": true, "&&": true, "||": true}

// pairForms: "x" = both operands in form x, "x-y" = left in form x, right in form y.
func pairForms(poolID, tier string) []string {
	if poolID != "" {
		return []string{"var", "lit", "var-lit", "lit-var"}
	}
	fs := append([]string{}, forms...)
	for _, x := range forms {
		for _, y := range forms {
			if x != y {
				fs = append(fs, x+"-"+y)
			}
		}
	}
	return fs
}

// condForms: the operator in a condition position; the recorded outcome is the branch taken.
func condForms(poolID string) []string {
	if poolID != "" {
		return []string{"if:var-lit", "for:var-lit", "genfor:var-lit", "genforL:var-lit"}
	}
	return []string{"if:var", "if:var-lit", "while:var-lit", "for:var", "for:var-lit", "tern:var-lit", "genfor:var", "genfor:var-lit", "genfor:lit-var",
		"forL:var-lit", "genforL:var", "genforL:var-lit", "genforR:lit-var", "genforR:var"}
}

// allFormNames lists every cell form in key-suffix order.
func allFormNames() []string {
	fs := pairForms("", "thorough")
	fs = append(fs, "self")
	fs = append(fs, condForms("")...)
	return fs
}

func splitPair(f string) (string, string) {
	if i := strings.Index(f, "-"); i >= 0 {
		return f[:i], f[i+1:]
	}
	return f, f
}

// condJob builds "pos:form" jobs. ok=false when the operand form does not exist.
func (w *world) condJob(id, op, cf string, l, r int) (exprsem.Job, bool) {
	i := strings.Index(cf, ":")
	pos, f := cf[:i], cf[i+1:]
	fl, fr := splitPair(f)
	s1, x1, ok1 := w.operand(fl, l, "a")
	s2, x2, ok2 := w.operand(fr, r, "b")
	if !ok1 || !ok2 || !boolOps[op] {
		return exprsem.Job{}, false
	}
	cond := x1 + " " + op + " " + x2
	var src string
	// "L"/"R" positions: the left / right operand is a loop variable that starts with a value for which
	// the reference fixes the result true and takes the cell's value from the second test on, so the
	// cell is only ever evaluated by the re-test of a running (resumed) loop.
	if strings.HasSuffix(pos, "L") || strings.HasSuffix(pos, "R") {
		var init, step string
		if strings.HasSuffix(pos, "L") {
			l0 := w.trueOther(op, r, true)
			if l0 < 0 || fl != "var" {
				return exprsem.Job{}, false
			}
			init, step, s1 = fmt.Sprintf("$a{S} = __v(%d)", l0), fmt.Sprintf("$a{S} = __v(%d)", l), ""
		} else {
			r0 := w.trueOther(op, l, false)
			if r0 < 0 || fr != "var" {
				return exprsem.Job{}, false
			}
			init, step, s2 = fmt.Sprintf("$b{S} = __v(%d)", r0), fmt.Sprintf("$b{S} = __v(%d)", r), ""
		}
		switch pos[:len(pos)-1] {
		case "for":
			src = fmt.Sprintf("%s%s$n{S} = 0; for (%s; %s; %s) { $n{S} = $n{S} + 1; if ($n{S} >= 3) { break; } } __r({S}, $n{S});", s1, s2, init, cond, step)
		case "genfor":
			src = fmt.Sprintf("function g{S}() { %s%sfor (%s; %s; %s) { yield 1; } } $n{S} = 0; foreach (g{S}() as $w{S}) { $n{S} = $n{S} + 1; if ($n{S} >= 3) { break; } } __r({S}, $n{S});", s1, s2, init, cond, step)
		default:
			return exprsem.Job{}, false
		}
		return exprsem.Job{ID: id, Src: src}, true
	}
	switch pos {
	case "if":
		src = fmt.Sprintf("%s%sif (%s) { __r({S}, true); } else { __r({S}, false); }", s1, s2, cond)
	case "while":
		src = fmt.Sprintf("%s%s$n{S} = false; while (%s) { $n{S} = true; break; } __r({S}, $n{S});", s1, s2, cond)
	case "for":
		src = fmt.Sprintf("%s%s$n{S} = false; for ($i{S} = 0; %s; $i{S} = $i{S} + 1) { $n{S} = true; break; } __r({S}, $n{S});", s1, s2, cond)
	case "tern":
		src = fmt.Sprintf("%s%s$r{S} = (%s) ? true : false; __r({S}, $r{S});", s1, s2, cond)
	case "genfor":
		// the loop condition is tested once on entry and again after every resumption
		src = fmt.Sprintf("function g{S}() { %s%sfor ($k = 0; %s; $k = $k + 1) { yield $k; } } $n{S} = 0; foreach (g{S}() as $w{S}) { $n{S} = $n{S} + 1; if ($n{S} >= 3) { break; } } __r({S}, $n{S});", s1, s2, cond)
	default:
		return exprsem.Job{}, false
	}
	return exprsem.Job{ID: id, Src: src}, true
}

// condOutcome maps the record of a condition-position job to the rendering of the operator's result.
func condOutcome(cf, o string) (string, bool) {
	pos := cf[:strings.Index(cf, ":")]
	if strings.HasSuffix(pos, "L") || strings.HasSuffix(pos, "R") {
		switch o {
		case "i:0":
			return "", false // the entry test (another cell) was not true: nothing observed about this cell
		case "i:1":
			return "b:0", true
		case "i:3":
			return "b:1", true
		}
		if strings.HasPrefix(o, "i:") {
			return "PARTIAL:" + o + " of 3 iterations (condition changed its mind between re-tests)", true
		}
		return o, true
	}
	if strings.HasPrefix(cf, "genfor:") {
		switch o {
		case "i:0":
			return "b:0", true
		case "i:3":
			return "b:1", true
		}
		if strings.HasPrefix(o, "i:") {
			return "PARTIAL:" + o + " of 3 iterations (condition changed its mind after a resumption)", true
		}
	}
	return o, true
}

// trueOther returns the first pool value x for which the reference fixes "x op pool[k]" (left=true)
// or "pool[k] op x" (left=false) to exactly true, -1 if none.
func (w *world) trueOther(op string, k int, left bool) int {
	key := fmt.Sprintf("%s|%d|%v", op, k, left)
	if v, ok := w.trueMemo[key]; ok {
		return v
	}
	res := -1
	for x := range w.pool {
		var e exprsem.Expect
		if left {
			e = refBin(op, w.pool[x].V, w.pool[k].V)
		} else {
			e = refBin(op, w.pool[k].V, w.pool[x].V)
		}
		if !e.Open && !e.Err && len(e.Accept) == 1 && e.Accept[0] == "b:1" {
			res = x
			break
		}
	}
	if w.trueMemo == nil {
		w.trueMemo = map[string]int{}
	}
	w.trueMemo[key] = res
	return res
}

// ---- scopes and generator contexts ------------------------------------------------------------

// A scope wraps the statements of a boolean context ({B}) so that the same context is evaluated
// at top level, in a function, a closure, a method, a static method and in a generator that has
// already been resumed once. {P} = "$p = __pool();" when the operand is the array-element form.
type scopeDef struct{ name, src string }

var scopes = []scopeDef{
	{"top", "{B}"},
	{"fn", "function f{S}() { {P}{B} } f{S}();"},
	{"closure", "$c{S} = function() { {P}{B} }; $c{S}();"},
	{"method", "class K{S} { public function m() { {P}{B} } } $o{S} = new K{S}(); $o{S}->m();"},
	{"static", "class Q{S} { public static function m() { {P}{B} } } Q{S}::m();"},
	{"resumed", "function g{S}() { {P}yield 0; {B} yield 1; } foreach (g{S}() as $w{S}) { }"},
}

// genContexts: boolean contexts whose body yields, so that the construct itself is suspended and
// resumed (the interpreter turns such a loop into a separate iterator object with its own
// condition test). They bring their own function; {A} = operand setup, {X} = operand. The
// consumer counts the values it receives; cnt maps count -> verdict.
type genCtx struct {
	name, src string
	t, f      string
}

const consume3 = " $n{S} = 0; foreach (g{S}() as $w{S}) { $n{S} = $n{S} + 1; if ($n{S} >= 3) { break; } } __r({S}, $n{S});"
const consume4 = " $n{S} = 0; foreach (g{S}() as $w{S}) { $n{S} = $n{S} + 1; if ($n{S} >= 4) { break; } } __r({S}, $n{S});"
const consumeAll = " $n{S} = 0; foreach (g{S}() as $w{S}) { $n{S} = $n{S} + 1; } __r({S}, $n{S});"

var genContexts = []genCtx{
	{"gen:for-yield", "function g{S}() { {P}{A}for ($k = 0; {X}; $k = $k + 1) { yield $k; } }" + consume3, "i:3", "i:0"},
	{"gen:for-2yield", "function g{S}() { {P}{A}for ($k = 0; {X}; $k = $k + 1) { yield $k; yield $k; } }" + consume4, "i:4", "i:0"},
	{"gen:resumed-for-yield", "function g{S}() { {P}{A}yield 9; for ($k = 0; {X}; $k = $k + 1) { yield $k; } }" + consume4, "i:4", "i:1"},
	{"gen:for-yield-manual", "function g{S}() { {P}{A}for ($k = 0; {X}; $k = $k + 1) { yield $k; } } $h{S} = g{S}(); $n{S} = 0; while ($h{S}->valid()) { $n{S} = $n{S} + 1; if ($n{S} >= 3) { break; } $h{S}->next(); } __r({S}, $n{S});", "i:3", "i:0"},
	{"gen:method-for-yield", "class G{S} { public function g() { {P}{A}for ($k = 0; {X}; $k = $k + 1) { yield $k; } } } $o{S} = new G{S}(); $n{S} = 0; foreach ($o{S}->g() as $w{S}) { $n{S} = $n{S} + 1; if ($n{S} >= 3) { break; } } __r({S}, $n{S});", "i:3", "i:0"},
	// the condition is truthy on entry (true) and becomes the operand afterwards: the operand is only
	// ever tested on a resumed loop
	{"gen:for-yield-later", "function g{S}() { {P}{A}for ($c = true; $c; $c = {X}) { yield 1; } }" + consume3, "i:3", "i:1"},
	{"gen:for-2yield-later", "function g{S}() { {P}{A}for ($c = true; $c; $c = {X}) { yield 1; yield 2; } }" + consume4, "i:4", "i:2"},
	{"gen:resumed-for-yield-later", "function g{S}() { {P}{A}yield 9; for ($c = true; $c; $c = {X}) { yield 1; } }" + consume4, "i:4", "i:2"},
	{"gen:for-yield-later-manual", "function g{S}() { {P}{A}for ($c = true; $c; $c = {X}) { yield 1; } } $h{S} = g{S}(); $n{S} = 0; while ($h{S}->valid()) { $n{S} = $n{S} + 1; if ($n{S} >= 3) { break; } $h{S}->next(); } __r({S}, $n{S});", "i:3", "i:1"},
	{"gen:method-for-yield-later", "class H{S} { public function g() { {P}{A}for ($c = true; $c; $c = {X}) { yield 1; } } } $o{S} = new H{S}(); $n{S} = 0; foreach ($o{S}->g() as $w{S}) { $n{S} = $n{S} + 1; if ($n{S} >= 3) { break; } } __r({S}, $n{S});", "i:3", "i:1"},
	{"gen:if-yield", "function g{S}() { {P}{A}yield 5; if ({X}) { yield 1; } }" + consumeAll, "i:2", "i:1"},
	{"gen:elseif-yield", "function g{S}() { {P}{A}yield 5; if (false) { yield 7; yield 7; yield 7; } elseif ({X}) { yield 1; } }" + consumeAll, "i:2", "i:1"},
	{"gen:while-yield-once", "function g{S}() { {P}{A}yield 5; while ({X}) { yield 1; break; } }" + consumeAll, "i:2", "i:1"},
}

// extraContexts: further spellings of the listed contexts at statement level.
type xCtx struct {
	ctxDef
	t, f string
}

var extraContexts = []xCtx{
	{ctxDef{"?:short", `$r{S} = {X} ?: "~"; if ($r{S} === "~") { __r({S}, 0); } else { __r({S}, 1); }`, false}, "", ""},
	{ctxDef{"!!", `$r{S} = !!{X}; __r({S}, $r{S});`, false}, "", ""},
	{ctxDef{"if-not", `if (!{X}) { __r({S}, 1); } else { __r({S}, 0); }`, true}, "", ""},
	{ctxDef{"for-3x", `$n{S} = 0; for ($i{S} = 0; {X}; $i{S} = $i{S} + 1) { $n{S} = $n{S} + 1; if ($n{S} >= 3) { break; } } __r({S}, $n{S});`, false}, "i:3", "i:0"},
	{ctxDef{"for-later", `$n{S} = 0; for ($c{S} = true; $c{S}; $c{S} = {X}) { $n{S} = $n{S} + 1; if ($n{S} >= 3) { break; } } __r({S}, $n{S});`, false}, "i:3", "i:1"},
	{ctxDef{"while-later", `$n{S} = 0; $c{S} = true; while ($c{S}) { $n{S} = $n{S} + 1; if ($n{S} >= 3) { break; } $c{S} = {X}; } __r({S}, $n{S});`, false}, "i:3", "i:1"},
	{ctxDef{"do-while-3x", `$n{S} = 0; do { $n{S} = $n{S} + 1; if ($n{S} >= 3) { break; } } while ({X}); __r({S}, $n{S});`, false}, "i:3", "i:1"},
	{ctxDef{"while-3x", `$n{S} = 0; while ({X}) { $n{S} = $n{S} + 1; if ($n{S} >= 3) { break; } } __r({S}, $n{S});`, false}, "i:3", "i:0"},
}

func (w *world) scopedCtxJob(sc scopeDef, c ctxDef, form string, i int) (exprsem.Job, bool) {
	s, x, ok := w.operand(form, i, "a")
	if !ok {
		return exprsem.Job{}, false
	}
	body := s + strings.ReplaceAll(c.src, "{X}", x)
	pre := ""
	if form == "elem" && sc.name != "top" {
		pre = "$p = __pool(); "
	}
	src := strings.ReplaceAll(strings.ReplaceAll(sc.src, "{P}", pre), "{B}", body)
	name := c.name
	if sc.name != "top" {
		name = sc.name + ":" + c.name
	}
	return exprsem.Job{ID: fmt.Sprintf("ctx|%s|%s|%d", name, form, i), Src: src}, true
}

func (w *world) genCtxJob(g genCtx, form string, i int) (exprsem.Job, bool) {
	s, x, ok := w.operand(form, i, "a")
	if !ok {
		return exprsem.Job{}, false
	}
	pre := ""
	if form == "elem" {
		pre = "$p = __pool(); "
	}
	src := strings.NewReplacer("{P}", pre, "{A}", s, "{X}", x).Replace(g.src)
	return exprsem.Job{ID: fmt.Sprintf("ctx|%s|%s|%d", g.name, form, i), Src: src}, true
}

// ctxCase is one boolean context instance of a value: how to build it and how to read it.
type ctxCase struct {
	name string
	job  func(form string) (exprsem.Job, bool)
	t, f string // records meaning truthy / falsy ("" = the default i:1|b:1 / i:0|b:0)
	neg  bool
}

func (w *world) ctxCases(poolID string, i int) []ctxCase {
	var cs []ctxCase
	var all []xCtx
	for _, c := range contexts {
		all = append(all, xCtx{ctxDef: c})
	}
	all = append(all, extraContexts...)
	for _, sc := range scopes {
		for _, c := range all {
			sc, c := sc, c
			if poolID != "" && sc.name != "top" && sc.name != "fn" && sc.name != "resumed" {
				continue // grids: the scopes with their own variable tables / resumed frames
			}
			name := c.name
			if sc.name != "top" {
				name = sc.name + ":" + c.name
			}
			cs = append(cs, ctxCase{name: name, neg: c.neg, t: c.t, f: c.f, job: func(form string) (exprsem.Job, bool) { return w.scopedCtxJob(sc, c.ctxDef, form, i) }})
		}
	}
	for _, g := range genContexts {
		g := g
		cs = append(cs, ctxCase{name: g.name, t: g.t, f: g.f, job: func(form string) (exprsem.Job, bool) { return w.genCtxJob(g, form, i) }})
	}
	return cs
}

func ctxForms(poolID string) []string {
	if poolID != "" {
		return []string{"var", "lit"}
	}
	return forms
}

// ctxFamily names the interpreter construct a context exercises (scope and spelling removed).
func ctxFamily(name string) string {
	if strings.HasPrefix(name, "gen:") {
		switch {
		case strings.Contains(name, "for-"):
			return "generator-for"
		case strings.Contains(name, "elseif"):
			return "generator-elseif"
		case strings.Contains(name, "if-"):
			return "generator-if"
		case strings.Contains(name, "while"):
			return "generator-while"
		}
		return "generator"
	}
	if i := strings.Index(name, ":"); i >= 0 && !strings.HasPrefix(name, "?:") {
		name = name[i+1:]
	}
	switch name {
	case "for-3x", "for-later":
		return "for"
	case "while-3x", "while-later":
		return "while"
	case "do-while-3x":
		return "do-while"
	case "!!", "if-not":
		return "!"
	case "&&rhs":
		return "&&"
	case "||rhs":
		return "||"
	case "?:short":
		return "?:"
	}
	return name
}
