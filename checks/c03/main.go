// C03: scalar operators give reference results; truthiness is context-independent; no operand
// combination crashes the interpreter.
//
// Form P, a complete table: every binary operator x every ordered pair of pool values x four
// operand forms (variable, call result, array element, literal) plus the compound-assignment
// form; every prefix operator x pool x forms; every boolean context x pool x forms. Each case
// runs on the real lexer -> parser -> interpreter; results come back through a Go recorder with
// their exact runtime type. ext.go adds: two more complete tables over a numeric boundary grid and
// a string grid, mixed operand-form pairs (var-lit ...), the boolean-valued operators in condition
// position (incl. the re-test of a resumed generator loop), and every boolean context in six
// evaluation scopes plus generator-suspended contexts. Oracles (engine/exprsem/ref.go, written from the statement and
// docs/operators.md, never looking at origami's nodes):
//
//	value     exact value+type on the documented domain, the whole set of defensible answers
//	          where the statement leaves the answer open (overflow, numeric-looking strings)
//	law       == symmetric, != == !(==), !== == !(===), <=> agrees with < and >   (every pair)
//	compound  $x op= $y leaves in $x what $x op $y returns
//	truthy    all boolean contexts agree on every value (and with the uncontested truth value)
//	crash     outcome is a value or a catchable Throwable, never a Go panic (bare top-level form)
package main

import (
	"encoding/json"
	"fmt"
	"math"
	"os"
	"regexp"
	"sort"
	"strings"
	"time"

	"github.com/php-any/origami/data"

	"verif/engine/ev"
	"verif/engine/exprsem"
	"verif/engine/pool"
	"verif/engine/runner"
)

// ---- operand pool -----------------------------------------------------------------------

type pval struct {
	Name string
	V    exprsem.V
	Lit  string // source literal ("" = none)
	Src  string // script expression that builds a non-scalar (stored with __set)
	mk   func() data.Value
}

func scalar(name string, v exprsem.V, lit string) pval {
	return pval{Name: name, V: v, Lit: lit, mk: func() data.Value { return exprsem.ToData(v) }}
}

func basePool() []pval {
	I, F, S := exprsem.Int, exprsem.Float, exprsem.Str
	p := []pval{
		scalar("0", I(0), "0"), scalar("1", I(1), "1"), scalar("-1", I(-1), "(-1)"), scalar("2", I(2), "2"),
		scalar("INT_MAX", I(math.MaxInt64), "PHP_INT_MAX"), scalar("INT_MIN", I(math.MinInt64), "PHP_INT_MIN"),
		scalar("0.0", F(0), "0.0"), scalar("-0.0", F(math.Copysign(0, -1)), "(-0.0)"), scalar("0.5", F(0.5), "0.5"),
		scalar("-1.5", F(-1.5), "(-1.5)"), scalar("1e308", F(1e308), "1e308"), scalar("NAN", F(math.NaN()), ""), scalar("INF", F(math.Inf(1)), ""),
		scalar("true", exprsem.Bool(true), "true"), scalar("false", exprsem.Bool(false), "false"), scalar("null", exprsem.Null(), "null"),
		scalar(`""`, S(""), `""`), scalar(`"0"`, S("0"), `"0"`), scalar(`"a"`, S("a"), `"a"`), scalar(`"1"`, S("1"), `"1"`),
		scalar(`"1.5"`, S("1.5"), `"1.5"`), scalar(`"abc"`, S("abc"), `"abc"`), scalar(`" 1"`, S(" 1"), `" 1"`),
		{Name: "[]", V: exprsem.V{K: exprsem.KArray, Txt: "a:[]"}, Lit: "[]", mk: func() data.Value { return data.NewArrayValue(nil) }},
		{Name: "[0]", V: exprsem.V{K: exprsem.KArray, Txt: "a:[i:0]"}, Lit: "[0]", mk: func() data.Value { return data.NewArrayValue([]data.Value{data.NewIntValue(0)}) }},
		{Name: "object", V: exprsem.V{K: exprsem.KObject, Txt: "o:stdClass"}, Src: "new stdClass()"},
		{Name: "closure", V: exprsem.V{K: exprsem.KClosure, Txt: "c:closure"}, Src: "function($x) { return $x; }"},
	}
	return p
}

func extraPool() []pval {
	I, F, S := exprsem.Int, exprsem.Float, exprsem.Str
	return []pval{
		scalar("-2", I(-2), "(-2)"), scalar("3", I(3), "3"), scalar("7", I(7), "7"), scalar("63", I(63), "63"), scalar("64", I(64), "64"),
		scalar("2^53+1", I(1<<53+1), "9007199254740993"), scalar("2^53-1", I(1<<53-1), "9007199254740991"), scalar("-2^31", I(-(1 << 31)), "(-2147483648)"),
		scalar("1e-7", F(1e-7), "1e-7"), scalar("2.0", F(2), "2.0"), scalar("-0.5", F(-0.5), "(-0.5)"), scalar("1e18", F(1e18), "1e18"), scalar("-INF", F(math.Inf(-1)), ""),
		scalar("3.75", F(3.75), "3.75"),
		scalar(`"0.0"`, S("0.0"), `"0.0"`), scalar(`"1e3"`, S("1e3"), `"1e3"`), scalar(`"-1"`, S("-1"), `"-1"`), scalar(`"é"`, S("é"), `"é"`), scalar(`"日本"`, S("日本"), `"日本"`),
		scalar(`" "`, S(" "), `" "`), scalar(`"A"`, S("A"), `"A"`), scalar(`"ab"`, S("ab"), `"ab"`), scalar(`"10"`, S("10"), `"10"`), scalar(`"9"`, S("9"), `"9"`),
		scalar(`"true"`, S("true"), `"true"`), scalar(`"null"`, S("null"), `"null"`),
		{Name: "[[]]", V: exprsem.V{K: exprsem.KArray, Txt: "a:[a:[]]"}, Lit: "[[]]", mk: func() data.Value { return data.NewArrayValue([]data.Value{data.NewArrayValue(nil)}) }},
		{Name: "{}", V: exprsem.V{K: exprsem.KObject, Txt: "o:{}"}, Src: "{}"},
	}
}

// seedPool adds one representative per value class chosen by the seed (a concretisation of the
// same table, never a sub-sample).
func seedPool(seed int64) []pval {
	if seed == 0 {
		return nil
	}
	x := uint64(seed)*0x9E3779B97F4A7C15 + 0x1234567
	next := func() uint64 {
		x ^= x << 13
		x ^= x >> 7
		x ^= x << 17
		return x
	}
	I, F, S := exprsem.Int, exprsem.Float, exprsem.Str
	small := int64(next()%900) + 10
	neg := -int64(next()%900) - 10
	big := int64(next() >> 2)
	fl := float64(int64(next()%20000)-10000) / 64
	letters := "bcdfghjkmnpqrstvwxyz"
	var sb strings.Builder
	for i := 0; i < 3; i++ {
		sb.WriteByte(letters[next()%uint64(len(letters))])
	}
	str := sb.String()
	lit := func(i int64) string {
		if i < 0 {
			return fmt.Sprintf("(%d)", i)
		}
		return fmt.Sprint(i)
	}
	flit := exprsem.FloatText(fl)
	if !strings.ContainsAny(flit, ".e") {
		flit += ".0"
	}
	if fl < 0 {
		flit = "(" + flit + ")"
	}
	return []pval{
		scalar(fmt.Sprint("seed:", small), I(small), lit(small)), scalar(fmt.Sprint("seed:", neg), I(neg), lit(neg)), scalar(fmt.Sprint("seed:", big), I(big), lit(big)),
		scalar("seed:"+exprsem.FloatText(fl), F(fl), flit), scalar(`seed:"`+str+`"`, S(str), `"`+str+`"`), scalar(fmt.Sprintf(`seed:"%d"`, small), S(fmt.Sprint(small)), fmt.Sprintf(`"%d"`, small)),
	}
}

func buildPool(tier string, seed int64, poolID string) []pval {
	switch poolID {
	case "num":
		return numGrid(tier)
	case "str":
		return strGrid(tier)
	}
	p := basePool()
	if tier == "thorough" {
		p = append(p, extraPool()...)
	}
	return append(p, seedPool(seed)...)
}

// ---- operators, forms, contexts -----------------------------------------------------------

var binOps = []string{"+", "-", "*", "/", "%", "**", "&", "|", "^", "<<", ">>", "==", "!=", "===", "!==", "<", "<=", ">", ">=", "<=>", "&&", "||", "."}
var compoundOps = map[string]bool{"+": true, "-": true, "*": true, "/": true, "%": true, "**": true, "&": true, "|": true, "^": true, "<<": true, ">>": true, ".": true}

// opName gives the spelling of an operator inside finding keys (keys become file names).
var opName = map[string]string{"+": "add", "-": "sub", "*": "mul", "/": "div", "%": "mod", "**": "pow", "&": "bitand", "|": "bitor", "^": "bitxor", "<<": "shl", ">>": "shr",
	"==": "eq", "!=": "ne", "===": "identical", "!==": "notidentical", "<": "lt", "<=": "le", ">": "gt", ">=": "ge", "<=>": "spaceship", "&&": "and", "||": "or", ".": "concat"}

// opFamily groups operators that share one implementation pattern; value / compound findings are
// keyed by family so that one root cause gives one key.
var opFamily = map[string]string{"+": "arith", "-": "arith", "*": "arith", "/": "div", "%": "mod", "**": "pow", "&": "bitwise", "|": "bitwise", "^": "bitwise", "<<": "shift", ">>": "shift",
	"==": "equality", "!=": "equality", "===": "identity", "!==": "identity", "<": "ordering", "<=": "ordering", ">": "ordering", ">=": "ordering", "<=>": "spaceship", "&&": "logical", "||": "logical", ".": "concat"}
var unName = map[string]string{"-": "neg", "+": "plus", "~": "bitnot", "!": "not", "(int)": "cast-int", "(float)": "cast-float", "(string)": "cast-string", "(bool)": "cast-bool"}

// operator groups = shards (the laws relate operators of one group)
var opGroups = [][]string{{"==", "!=", "===", "!=="}, {"<", "<=", ">", ">=", "<=>"}, {"+", "-", "*"}, {"/", "%", "**"}, {"&", "|", "^", "<<", ">>"}, {"&&", "||", "."}}

var unOps = []string{"-", "+", "~", "!", "(int)", "(float)", "(string)", "(bool)"}

var forms = []string{"var", "call", "elem", "lit"}

type ctxDef struct {
	name string
	src  string // {X} operand expression, {S} slot
	neg  bool   // recorded value is the negation of the truthiness
}

var contexts = []ctxDef{
	{"if", `if ({X}) { __r({S}, 1); } else { __r({S}, 0); }`, false},
	{"while", `$n{S} = 0; while ({X}) { $n{S} = 1; break; } __r({S}, $n{S});`, false},
	{"for", `$n{S} = 0; for ($i{S} = 0; {X}; $i{S} = $i{S} + 1) { $n{S} = 1; break; } __r({S}, $n{S});`, false},
	{"?:", `$r{S} = {X} ? 1 : 0; __r({S}, $r{S});`, false},
	{"!", `$r{S} = !{X}; __r({S}, $r{S});`, true},
	{"&&", `$r{S} = {X} && true; __r({S}, $r{S});`, false},
	{"||", `$r{S} = {X} || false; __r({S}, $r{S});`, false},
	{"(bool)", `$r{S} = (bool){X}; __r({S}, $r{S});`, false},
	{"&&rhs", `$r{S} = true && {X}; __r({S}, $r{S});`, false},
	{"||rhs", `$r{S} = false || {X}; __r({S}, $r{S});`, false},
	{"elseif", `if (false) { __r({S}, 2); } elseif ({X}) { __r({S}, 1); } else { __r({S}, 0); }`, false},
	{"do-while", `$n{S} = 0; do { $n{S} = $n{S} + 1; if ($n{S} > 1) { break; } } while ({X}); $m{S} = $n{S} - 1; __r({S}, $m{S});`, false},
}

// ---- case construction --------------------------------------------------------------------

type world struct {
	pool   []pval
	poolID string
	tier   string
	batch  *exprsem.Batch

	trueMemo map[string]int
}

func newWorld(tier string, seed int64, poolID string) *world {
	w := &world{pool: buildPool(tier, seed, poolID), poolID: poolID, tier: tier}
	mk := make([]func() data.Value, len(w.pool))
	var pre strings.Builder
	for i, p := range w.pool {
		mk[i] = p.mk
		if p.Src != "" {
			fmt.Fprintf(&pre, "__set(%d, %s);\n", i, p.Src)
		}
	}
	pre.WriteString("$p = __pool();")
	w.batch = &exprsem.Batch{Prelude: pre.String(), NewEnv: func() *exprsem.Env { return exprsem.NewEnv(mk) }, Size: 250}
	return w
}

func (w *world) index(name string) int {
	for i, p := range w.pool {
		if p.Name == name {
			return i
		}
	}
	return -1
}

// operand returns (setup statements, expression) for pool value i in a form; ok=false when the
// form does not exist for the value.
func (w *world) operand(form string, i int, varName string) (string, string, bool) {
	switch form {
	case "var":
		return fmt.Sprintf("$%s{S} = __v(%d); ", varName, i), "$" + varName + "{S}", true
	case "call":
		return "", fmt.Sprintf("__v(%d)", i), true
	case "elem":
		return "", fmt.Sprintf("$p[%d]", i), true
	case "lit":
		if w.pool[i].Lit == "" {
			return "", "", false
		}
		return "", w.pool[i].Lit, true
	}
	return "", "", false
}

func (w *world) binJob(op, form string, l, r int) (exprsem.Job, bool) {
	id := fmt.Sprintf("bin|%s|%s|%d|%d", op, form, l, r)
	if form == "compound" {
		return exprsem.Job{ID: id, Src: fmt.Sprintf("$x{S} = __v(%d); $x{S} %s= __v(%d); __r({S}, $x{S});", l, op, r)}, compoundOps[op]
	}
	if form == "compound:lit" || form == "compound:var" { // $x op= <literal> / $x op= $y
		_, fr := "", strings.TrimPrefix(form, "compound:")
		s2, x2, ok2 := w.operand(fr, r, "b")
		return exprsem.Job{ID: id, Src: fmt.Sprintf("%s$x{S} = __v(%d); $x{S} %s= %s; __r({S}, $x{S});", s2, l, op, x2)}, compoundOps[op] && ok2
	}
	if strings.Contains(form, ":") {
		return w.condJob(id, op, form, l, r)
	}
	if form == "self" { // $a op $a: both operands are the very same value object
		return exprsem.Job{ID: id, Src: fmt.Sprintf("$a{S} = __v(%d); $r{S} = $a{S} %s $a{S}; __r({S}, $r{S});", l, op)}, l == r
	}
	if form == "swap" { // b op a written with variables (for the symmetry law)
		return exprsem.Job{ID: id, Src: fmt.Sprintf("$a{S} = __v(%d); $b{S} = __v(%d); $r{S} = $b{S} %s $a{S}; __r({S}, $r{S});", l, r, op)}, true
	}
	fl, fr := splitPair(form)
	s1, x1, ok1 := w.operand(fl, l, "a")
	s2, x2, ok2 := w.operand(fr, r, "b")
	if !ok1 || !ok2 {
		return exprsem.Job{}, false
	}
	return exprsem.Job{ID: id, Src: fmt.Sprintf("%s%s$r{S} = %s %s %s; __r({S}, $r{S});", s1, s2, x1, op, x2)}, true
}

func (w *world) unJob(op, form string, i int) (exprsem.Job, bool) {
	s, x, ok := w.operand(form, i, "a")
	if !ok {
		return exprsem.Job{}, false
	}
	return exprsem.Job{ID: fmt.Sprintf("un|%s|%s|%d", op, form, i), Src: fmt.Sprintf("%s$r{S} = %s%s; __r({S}, $r{S});", s, op, x)}, true
}

func (w *world) ctxJob(c ctxDef, form string, i int) (exprsem.Job, bool) {
	s, x, ok := w.operand(form, i, "a")
	if !ok {
		return exprsem.Job{}, false
	}
	return exprsem.Job{ID: fmt.Sprintf("ctx|%s|%s|%d", c.name, form, i), Src: s + strings.ReplaceAll(c.src, "{X}", x)}, true
}

func (w *world) identJob(form string, i int) (exprsem.Job, bool) {
	s, x, ok := w.operand(form, i, "a")
	if !ok {
		return exprsem.Job{}, false
	}
	return exprsem.Job{ID: fmt.Sprintf("id|%s|%d", form, i), Src: fmt.Sprintf("%s$r{S} = %s; __r({S}, $r{S});", s, x)}, true
}

// ---- records --------------------------------------------------------------------------------

type failRec struct {
	Forms  []string `json:"forms,omitempty"` // forms in which the cell failed (form-aggregated keys only)
	AllF   bool     `json:"allf,omitempty"`  // failed in every form that exists for the cell
	Key    string   `json:"key"`
	Clause string   `json:"clause"`
	Size   int      `json:"size"`
	Case   caseT    `json:"case"`
	Detail string   `json:"detail"`
}

type caseT struct {
	Kind   string   `json:"kind"` // bin | un | ctx
	Op     string   `json:"op"`
	L      string   `json:"l"`
	R      string   `json:"r,omitempty"`
	Forms  []string `json:"forms"`
	Tier   string   `json:"tier"`
	Seed   int64    `json:"seed"`
	Pool   string   `json:"pool,omitempty"` // "" = base pool, "num" / "str" = grid pools
	Script string   `json:"script"`
}

type rec struct {
	Kind     string         `json:"kind"`
	N        int64          `json:"n,omitempty"`
	Scripts  int64          `json:"scripts,omitempty"`
	Bare     int64          `json:"bare,omitempty"`
	Exact    int64          `json:"exact,omitempty"`
	Laws     int64          `json:"laws,omitempty"`
	Fail     *failRec       `json:"fail,omitempty"`
	Outcomes map[string]int `json:"outcomes,omitempty"`
	Vac      map[string]int `json:"vac,omitempty"` // verdicts per condition form / context (vacuity guard)
	Sample   any            `json:"sample,omitempty"`
	NoLit    []string       `json:"nolit,omitempty"`
	Harness  string         `json:"harness,omitempty"`
}

// outcome class for the vacuity guard / statistics
func outClass(o string) string {
	switch {
	case o == "E":
		return "error"
	case strings.HasPrefix(o, "CRASH:"):
		return "crash"
	case o == "HANG" || strings.HasPrefix(o, "PARSE:") || strings.HasPrefix(o, "CTL:") || o == "NOREC" || strings.HasPrefix(o, "MULTI:"):
		return strings.SplitN(o, ":", 2)[0]
	}
	if i := strings.Index(o, ":"); i > 0 {
		return "value:" + o[:i]
	}
	return "value:" + o
}

// crashKey coarsens a panic key "panic:<class>@<frame>" to "<frame>:<panic family>".
func crashKey(o string) string {
	k := strings.TrimPrefix(o, "CRASH:")
	cls, frame := k, "?"
	if i := strings.LastIndex(k, "@"); i >= 0 {
		cls, frame = k[:i], k[i+1:]
	}
	fam := "other"
	switch {
	case strings.Contains(cls, "interface-conversion"):
		fam = "type-assertion"
	case strings.Contains(cls, "nil-pointer") || strings.Contains(cls, "invalid-memory"):
		fam = "nil-deref"
	case strings.Contains(cls, "divide-by-zero"):
		fam = "divide-by-zero"
	case strings.Contains(cls, "negative-shift"):
		fam = "negative-shift"
	case strings.Contains(cls, "index-out-of-range"):
		fam = "index-out-of-range"
	case strings.HasPrefix(cls, "converted"):
		fam = "converted-panic"
	default:
		fam = strings.TrimPrefix(cls, "panic:")
	}
	return "crash:" + frame + ":" + fam
}

func kinds(w *world, l, r int) string { return w.pool[l].V.K.String() + "," + w.pool[r].V.K.String() }

// kindsFor: <=> is implemented by one symmetric Compare(), so its cells are keyed by the unordered pair.
func kindsFor(w *world, op string, l, r int) string {
	if op == "<=>" {
		ks := []string{w.pool[l].V.K.String(), w.pool[r].V.K.String()}
		sort.Strings(ks)
		return strings.Join(ks, "~")
	}
	return kinds(w, l, r)
}

// lawKinds: laws are keyed by the kind for same-kind pairs and "mixed" otherwise.
func lawKinds(w *world, l, r int) string {
	if w.pool[l].V.K == w.pool[r].V.K {
		return w.pool[l].V.K.String()
	}
	return "mixed-kinds"
}

// misjudged names the kind of the operand whose truthiness, if taken the other way round, explains
// a wrong && / || result (non-boolean operands first), so that one broken truthiness rule is one key.
func misjudged(op string, a, b exprsem.V, out string) string {
	ta, _ := exprsem.Truth(a)
	tb, _ := exprsem.Truth(b)
	got := out == "b:1"
	if out != "b:1" && out != "b:0" {
		return a.K.String() + "," + b.K.String()
	}
	eval := func(x, y bool) bool {
		if op == "&&" {
			return x && y
		}
		return x || y
	}
	type cand struct {
		k    exprsem.Kind
		x, y bool
	}
	cs := []cand{{a.K, !ta, tb}, {b.K, ta, !tb}}
	if a.K == exprsem.KBool || a.K == exprsem.KNull {
		cs[0], cs[1] = cs[1], cs[0]
	}
	for _, c := range cs {
		if eval(c.x, c.y) == got {
			return c.k.String()
		}
	}
	return a.K.String() + "," + b.K.String()
}

// zeroSign: the compound law ignores the sign of a float zero (storing 0.0 over -0.0 is an
// assignment matter, not an operator one).
func zeroSign(o string) string {
	if o == "f:-0" {
		return "f:0"
	}
	return rePtr.ReplaceAllString(o, "0xPTR")
}

var rePtr = regexp.MustCompile(`0x[0-9a-f]{6,}`)

// value-level finding for one form
type hit struct {
	clause string // crash | value | hang | parse
	key    string // without form suffix
	detail string
}

func judge(o string, exp exprsem.Expect) (string, string) {
	switch {
	case strings.HasPrefix(o, "CRASH:"):
		return "crash", "Go panic " + strings.TrimPrefix(o, "CRASH:")
	case o == "HANG":
		return "hang", "did not terminate within the fuel budget"
	case o == "E":
		if !exp.Allows("E") {
			return "value", "raised an error"
		}
		return "", ""
	case strings.HasPrefix(o, "PARSE:") || strings.HasPrefix(o, "CTL:") || o == "NOREC" || strings.HasPrefix(o, "MULTI:"):
		if exp.Open {
			// outside the documented domain a rejection is still "no crash"; only note it
			return "", ""
		}
		return "value", "no value: " + o
	}
	if !exp.Allows(o) {
		return "value", "returned " + o
	}
	return "", ""
}

// ---- workers --------------------------------------------------------------------------------

type shardArg struct {
	Kind  string `json:"kind"` // bin | un | ctx | ident
	Group int    `json:"group"`
	L     int    `json:"l"`
	Tier  string `json:"tier"`
	Seed  int64  `json:"seed"`
	Pool  string `json:"pool,omitempty"`
}

type emitter interface{ Emit(v any) }

// localW collects the failures of a row evaluated in-process (replay).
type localW struct{ fails []failRec }

func (l *localW) Emit(v any) {
	if r, ok := v.(rec); ok && r.Kind == "fail" && r.Fail != nil {
		l.fails = append(l.fails, *r.Fail)
	}
}

type workerState struct {
	w        *world
	arg      shardArg
	pw       emitter
	outcomes map[string]int
	vac      map[string]int
	n        int64
	exact    int64
	laws     int64
}

func (s *workerState) emitFail(key, clause string, size int, cs caseT, detail string) {
	cs.Tier, cs.Seed, cs.Pool = s.arg.Tier, s.arg.Seed, s.arg.Pool
	s.pw.Emit(rec{Kind: "fail", Fail: &failRec{Key: key, Clause: clause, Size: size, Case: cs, Detail: detail}})
}

// emitFormFail: a finding whose key gets a ":form=" suffix only if, over the whole run, it never
// fails in all operand forms of a cell (decided by the parent, see formAgg).
func (s *workerState) emitFormFail(key, clause string, size int, cs caseT, detail string, failed, tried []string) {
	cs.Tier, cs.Seed, cs.Pool = s.arg.Tier, s.arg.Seed, s.arg.Pool
	s.pw.Emit(rec{Kind: "fail", Fail: &failRec{Key: key, Clause: clause, Size: size, Case: cs, Detail: detail, Forms: failed, AllF: len(failed) == len(tried)}})
}

func (s *workerState) count(out map[string]string) {
	for _, o := range out {
		s.outcomes[outClass(o)]++
		s.n++
	}
}

func (s *workerState) finish() {
	s.pw.Emit(rec{Kind: "count", N: s.n, Scripts: s.w.batch.Scripts, Bare: s.w.batch.Bare, Exact: s.exact, Laws: s.laws, Outcomes: s.outcomes, Vac: s.vac})
}

func handler(kind string) pool.Handler {
	return func(pw *pool.W, raw json.RawMessage) {
		var a shardArg
		json.Unmarshal(raw, &a)
		s := &workerState{w: newWorld(a.Tier, a.Seed, a.Pool), arg: a, pw: pw, outcomes: map[string]int{}, vac: map[string]int{}}
		if !pw.Item(fmt.Sprintf("%s/%s/%d/%d", a.Kind, poolTitle(a.Pool), a.Group, a.L)) {
			return
		}
		switch a.Kind {
		case "bin":
			s.binShard()
		case "un":
			s.unShard()
		case "ctx":
			s.ctxShard()
		case "ident":
			s.identShard()
		}
		s.finish()
	}
}

func (s *workerState) identShard() {
	w := s.w
	var jobs []exprsem.Job
	for _, f := range forms {
		for i := range w.pool {
			if j, ok := w.identJob(f, i); ok {
				jobs = append(jobs, j)
			}
		}
	}
	out := w.batch.Run(jobs)
	s.count(out)
	var nolit []string
	for _, f := range forms {
		for i, p := range w.pool {
			o, ok := out[fmt.Sprintf("id|%s|%d", f, i)]
			if !ok {
				continue
			}
			if o != p.V.Render() {
				if f == "lit" {
					nolit = append(nolit, p.Name)
				} else {
					s.pw.Emit(rec{Kind: "harness", Harness: fmt.Sprintf("operand form %s does not deliver pool value %s: got %s", f, p.Name, o)})
				}
			}
		}
	}
	s.pw.Emit(rec{Kind: "nolit", NoLit: nolit})
}

// litOK: literal spellings that do not produce the intended value are not the operators' business
// (lexing of literals belongs to other properties); they are found by identShard in every worker.
func (s *workerState) litUnavailable() map[int]bool {
	w := s.w
	var jobs []exprsem.Job
	for i := range w.pool {
		if j, ok := w.identJob("lit", i); ok {
			jobs = append(jobs, j)
		}
	}
	out := w.batch.Run(jobs)
	bad := map[int]bool{}
	for i, p := range w.pool {
		if o, ok := out[fmt.Sprintf("id|lit|%d", i)]; ok && o != p.V.Render() {
			bad[i] = true
		}
	}
	return bad
}

func (s *workerState) binShard() {
	w := s.w
	ops := opGroups[s.arg.Group]
	l := s.arg.L
	nolit := s.litUnavailable()
	cellForms := append(pairForms(w.poolID, w.tier), "self")
	cellForms = append(cellForms, condForms(w.poolID)...)
	compoundForms := []string{"compound", "compound:lit", "compound:var"}
	allForms := append(append(append([]string{}, cellForms...), compoundForms...), "swap")
	usesLit := func(f string, r int) bool { // does the form spell an operand as a literal that is not available?
		g := f
		if i := strings.Index(g, ":"); i >= 0 {
			g = g[i+1:]
		}
		fl, fr := splitPair(g)
		if strings.HasPrefix(f, "compound:") {
			fl = "call"
		}
		return fl == "lit" && nolit[l] || fr == "lit" && nolit[r]
	}
	var jobs []exprsem.Job
	for _, op := range ops {
		for r := range w.pool {
			for _, f := range allForms {
				if usesLit(f, r) {
					continue
				}
				if f == "swap" && op != "==" {
					continue
				}
				if j, ok := w.binJob(op, f, l, r); ok {
					jobs = append(jobs, j)
				}
			}
		}
	}
	out := w.batch.Run(jobs)
	s.count(out)
	get := func(op, f string, r int) (string, bool) {
		o, ok := out[fmt.Sprintf("bin|%s|%s|%d|%d", op, f, l, r)]
		if ok && strings.Contains(f, ":") && !strings.HasPrefix(f, "compound:") {
			o, ok = condOutcome(f, o)
		}
		return o, ok
	}
	formIndex := map[string]int{}
	for i, f := range cellForms {
		formIndex[f] = i
	}
	script := func(op, f string, r int) string {
		j, _ := w.binJob(op, f, l, r)
		return w.batch.BareScript(j)
	}
	size := func(r, fi int) int { return fi*1000000 + l*1000 + r }
	for _, op := range ops {
		for r := range w.pool {
			exp := refBin(op, w.pool[l].V, w.pool[r].V)
			if !exp.Open {
				s.exact++
			}
			// value / crash per form, collapsed over forms
			byKey := map[string][]string{}
			detail := map[string]string{}
			var tried []string
			for _, f := range cellForms {
				o, ok := get(op, f, r)
				if !ok {
					continue
				}
				tried = append(tried, f)
				cl, why := judge(o, exp)
				if cl == "" {
					continue
				}
				var key string
				switch cl {
				case "crash":
					key = crashKey(o)
				case "hang":
					key = "hang:" + opFamily[op] + ":" + kinds(w, l, r)
				default:
					key = "value:" + opFamily[op] + ":" + kindsFor(w, op, l, r)
					if op == "&&" || op == "||" {
						key = "value:logical:" + misjudged(op, w.pool[l].V, w.pool[r].V, o)
					}
				}
				k := cl + "\x00" + key
				byKey[k] = append(byKey[k], f)
				if detail[k] == "" {
					detail[k] = fmt.Sprintf("%s %s %s (%s form) %s; the statement allows: %s [%s]", w.pool[l].Name, op, w.pool[r].Name, f, why, exp.String(), exp.Why)
				}
				if cl == "crash" && !exp.Open {
					// inside the documented domain a crash is also a wrong result of that table cell; the
					// cell key keeps a new crash from hiding behind a listed crash of the same node
					k2 := "value\x00value:" + opFamily[op] + ":" + kindsFor(w, op, l, r)
					byKey[k2] = append(byKey[k2], f)
					if detail[k2] == "" {
						detail[k2] = detail[k]
					}
				}
			}
			for k, fs := range byKey {
				parts := strings.SplitN(k, "\x00", 2)
				fi := 0
				fi = formIndex[fs[0]]
				s.emitFormFail(parts[1], parts[0], size(r, fi), caseT{Kind: "bin", Op: op, L: w.pool[l].Name, R: w.pool[r].Name, Forms: fs, Script: script(op, fs[0], r)}, detail[k], fs, tried)
			}
			// compound assignment agrees with the binary operator (variable form)
			// condition position: the branch taken agrees with the truth value the operator returns
			if vo, ok := get(op, "var", r); ok && boolOps[op] && (vo == "b:1" || vo == "b:0") {
				var bad []string
				var tried []string
				for _, cf := range condForms(w.poolID) {
					co, ok := get(op, cf, r)
					if !ok {
						continue
					}
					tried = append(tried, cf)
					s.laws++
					s.vac["cond "+cf+" "+co]++
					if c1, _ := judge(co, exp); c1 != "" {
						continue // already reported by the value clause
					}
					if co != vo && !strings.HasPrefix(co, "CRASH:") && co != "HANG" {
						bad = append(bad, cf)
					}
				}
				if len(bad) > 0 {
					co, _ := get(op, bad[0], r)
					s.emitFormFail("cond:"+opFamily[op]+":"+kinds(w, l, r), "cond", size(r, formIndex[bad[0]]), caseT{Kind: "bin", Op: op, L: w.pool[l].Name, R: w.pool[r].Name, Forms: bad, Script: script(op, bad[0], r)},
						fmt.Sprintf("%s %s %s returns %s, but in condition position (%s) the outcome is %s ('a value is truthy in if, while, for, ?: alike')", w.pool[l].Name, op, w.pool[r].Name, vo, bad[0], co), bad, tried)
				}
			}
			for ci, cform := range compoundForms {
				co, ok := get(op, cform, r)
				if !ok {
					continue
				}
				vo, _ := get(op, "var", r)
				s.laws++
				if strings.HasPrefix(co, "CRASH:") {
					if !strings.HasPrefix(vo, "CRASH:") {
						s.emitFail(crashKey(co), "crash", size(r, 40+ci), caseT{Kind: "bin", Op: op, L: w.pool[l].Name, R: w.pool[r].Name, Forms: []string{cform}, Script: script(op, cform, r)},
							fmt.Sprintf("$x = %s; $x %s= %s panics: %s", w.pool[l].Name, op, w.pool[r].Name, co))
					}
				} else if zeroSign(co) != zeroSign(vo) && !(strings.HasPrefix(vo, "CRASH:")) {
					s.emitFail("compound:"+opFamily[op]+":"+kinds(w, l, r), "compound", size(r, 40+ci), caseT{Kind: "bin", Op: op, L: w.pool[l].Name, R: w.pool[r].Name, Forms: []string{cform, "var"}, Script: script(op, cform, r)},
						fmt.Sprintf("$x = %s; $x %s= %s leaves %s in $x, but $x %s %s returns %s", w.pool[l].Name, op, w.pool[r].Name, co, op, w.pool[r].Name, vo))
				}
			}
		}
	}
	isBool := func(o string) bool { return o == "b:1" || o == "b:0" }
	lawCase := func(op string, r int, fs ...string) caseT {
		return caseT{Kind: "bin", Op: op, L: w.pool[l].Name, R: w.pool[r].Name, Forms: fs, Script: script(op, fs[0], r)}
	}
	switch s.arg.Group {
	case 0:
		for r := range w.pool {
			ab, _ := get("==", "var", r)
			ba, _ := get("==", "swap", r)
			s.laws++
			if isBool(ab) && isBool(ba) && ab != ba && exprsem.BinRef("==", w.pool[l].V, w.pool[r].V).Open {
				// report once per unordered pair: from the side where a == b is true
				if ab == "b:1" {
					s.emitFail("law:eq-symmetric:"+lawKinds(w, l, r), "law", size(r, 0), lawCase("==", r, "var", "swap"),
						fmt.Sprintf("%s == %s is %s but %s == %s is %s ('== is symmetric')", w.pool[l].Name, w.pool[r].Name, ab, w.pool[r].Name, w.pool[l].Name, ba))
				}
			}
			for _, pr := range [][2]string{{"==", "!="}, {"===", "!=="}} {
				p, _ := get(pr[0], "var", r)
				q, _ := get(pr[1], "var", r)
				s.laws++
				if isBool(p) && isBool(q) && p == q && exprsem.BinRef(pr[0], w.pool[l].V, w.pool[r].V).Open {
					s.emitFail("law:"+opName[pr[1]]+"-complement:"+lawKinds(w, l, r), "law", size(r, 0), lawCase(pr[1], r, "var"),
						fmt.Sprintf("%s %s %s is %s and %s %s %s is %s too ('%s and %s are complements')", w.pool[l].Name, pr[0], w.pool[r].Name, p, w.pool[l].Name, pr[1], w.pool[r].Name, q, pr[0], pr[1]))
				}
			}
		}
	case 1:
		for r := range w.pool {
			sp, _ := get("<=>", "var", r)
			lt, _ := get("<", "var", r)
			gt, _ := get(">", "var", r)
			if !isBool(lt) || !isBool(gt) || !strings.HasPrefix(sp, "i:") {
				continue
			}
			if !exprsem.BinRef("<=>", w.pool[l].V, w.pool[r].V).Open && !exprsem.BinRef("<", w.pool[l].V, w.pool[r].V).Open {
				continue // the value clause already fixes all three results
			}
			s.laws++
			want := "i:0"
			switch {
			case lt == "b:1" && gt == "b:0":
				want = "i:-1"
			case gt == "b:1" && lt == "b:0":
				want = "i:1"
			case gt == "b:1" && lt == "b:1":
				want = "contradiction"
			}
			if sp != want {
				s.emitFail("law:spaceship-agrees:"+lawKinds(w, l, r), "law", size(r, 0), lawCase("<=>", r, "var"),
					fmt.Sprintf("%s <=> %s is %s while %s < %s is %s and %s > %s is %s ('<=> agrees with < and >')", w.pool[l].Name, w.pool[r].Name, sp, w.pool[l].Name, w.pool[r].Name, lt, w.pool[l].Name, w.pool[r].Name, gt))
			}
		}
	}
	if l == 1 && s.arg.Group == 3 && w.poolID == "" {
		o, _ := get("%", "var", 0)
		s.pw.Emit(rec{Kind: "sample", Sample: map[string]any{"script": script("%", "var", 0), "expected": exprsem.BinRef("%", w.pool[l].V, w.pool[0].V).String(), "observed": o}})
	}
	if l == 1 && s.arg.Group == 2 && w.poolID == "" {
		o, _ := get("+", "var", 3)
		s.pw.Emit(rec{Kind: "sample", Sample: map[string]any{"script": script("+", "var", 3), "expected": exprsem.BinRef("+", w.pool[l].V, w.pool[3].V).String(), "observed": o}})
	}
}

func (s *workerState) unShard() {
	w := s.w
	op := unOps[s.arg.Group]
	nolit := s.litUnavailable()
	forms := ctxForms(w.poolID)
	var jobs []exprsem.Job
	for i := range w.pool {
		for _, f := range forms {
			if f == "lit" && nolit[i] {
				continue
			}
			if j, ok := w.unJob(op, f, i); ok {
				jobs = append(jobs, j)
			}
		}
	}
	out := w.batch.Run(jobs)
	s.count(out)
	for i, p := range w.pool {
		exp := exprsem.UnRef(op, p.V)
		if !exp.Open {
			s.exact++
		}
		byKey := map[string][]string{}
		detail := map[string]string{}
		var tried []string
		for _, f := range forms {
			o, ok := out[fmt.Sprintf("un|%s|%s|%d", op, f, i)]
			if !ok {
				continue
			}
			tried = append(tried, f)
			cl, why := judge(o, exp)
			if cl == "" {
				continue
			}
			key := "value:" + unName[op] + ":" + p.V.K.String()
			switch cl {
			case "crash":
				key = crashKey(o)
			case "hang":
				key = "hang:" + unName[op] + ":" + p.V.K.String()
			}
			k := cl + "\x00" + key
			byKey[k] = append(byKey[k], f)
			if detail[k] == "" {
				detail[k] = fmt.Sprintf("%s%s (%s form) %s; the statement allows: %s [%s]", op, p.Name, f, why, exp.String(), exp.Why)
			}
		}
		for k, fs := range byKey {
			parts := strings.SplitN(k, "\x00", 2)
			j, _ := w.unJob(op, fs[0], i)
			s.emitFormFail(parts[1], parts[0], i, caseT{Kind: "un", Op: op, L: p.Name, Forms: fs, Script: w.batch.BareScript(j)}, detail[k], fs, tried)
		}
	}
}

func (s *workerState) ctxShard() {
	w := s.w
	i := s.arg.L
	p := w.pool[i]
	nolit := s.litUnavailable()
	cases := w.ctxCases(w.poolID, i)
	forms := ctxForms(w.poolID)
	byName := map[string]ctxCase{}
	var jobs []exprsem.Job
	for _, c := range cases {
		byName[c.name] = c
		for _, f := range forms {
			if f == "lit" && nolit[i] {
				continue
			}
			if j, ok := c.job(f); ok {
				jobs = append(jobs, j)
			}
		}
	}
	out := w.batch.Run(jobs)
	s.count(out)
	// truthiness per context/form: "T" | "F" | other outcome
	verdict := map[string]string{}
	var order []string
	for _, c := range cases {
		for _, f := range forms {
			o, ok := out[fmt.Sprintf("ctx|%s|%s|%d", c.name, f, i)]
			if !ok {
				continue
			}
			v := o
			switch {
			case c.t != "" && o == c.t:
				v = "T"
			case c.f != "" && o == c.f:
				v = "F"
			case c.t != "" && strings.HasPrefix(o, "i:"):
				v = "PARTIAL(" + o + ",truthy=" + c.t + ",falsy=" + c.f + ")"
			case o == "i:1" || o == "b:1":
				v = "T"
			case o == "i:0" || o == "b:0":
				v = "F"
			}
			if c.neg {
				switch v {
				case "T":
					v = "F"
				case "F":
					v = "T"
				}
			}
			name := c.name + "/" + f
			s.vac["ctx "+c.name+" "+v]++
			verdict[name] = v
			order = append(order, name)
		}
	}
	s.laws++
	var ts, fs, crashes, others []string
	for _, n := range order {
		switch v := verdict[n]; {
		case v == "T":
			ts = append(ts, n)
		case v == "F":
			fs = append(fs, n)
		case strings.HasPrefix(v, "CRASH:"):
			crashes = append(crashes, n)
		default:
			others = append(others, n+"="+v)
		}
	}
	mkCase := func(name string) caseT {
		parts := strings.SplitN(name, "/", 2)
		if c, ok := byName[parts[0]]; ok {
			j, _ := c.job(parts[1])
			return caseT{Kind: "ctx", Op: c.name, L: p.Name, Forms: []string{parts[1]}, Script: w.batch.BareScript(j)}
		}
		return caseT{}
	}
	// truthyKey: a disagreement confined to one construct (all its scopes / forms) is a defect of that
	// construct, whatever the value kind; otherwise it is the kind's conversion rule.
	truthyKey := func(minority []string) string {
		fam := ""
		for _, n := range minority {
			f := ctxFamily(strings.SplitN(n, "/", 2)[0])
			if fam == "" {
				fam = f
			} else if fam != f {
				return "truthy:" + p.V.K.String()
			}
		}
		if fam == "" {
			return "truthy:" + p.V.K.String()
		}
		return "truthy:in-" + fam
	}
	short := func(ns []string) string {
		if len(ns) > 14 {
			return strings.Join(ns[:14], " ") + fmt.Sprintf(" ... (%d)", len(ns))
		}
		return strings.Join(ns, " ")
	}
	seenCrash := map[string]bool{}
	for _, n := range crashes {
		k := crashKey(verdict[n])
		if !seenCrash[k] {
			seenCrash[k] = true
			s.emitFail(k, "crash", i, mkCase(n), fmt.Sprintf("%s in context %s panics: %s", p.Name, n, verdict[n]))
		}
	}
	if len(ts) > 0 && len(fs) > 0 {
		minority := fs
		if len(ts) < len(fs) {
			minority = ts
		}
		if t, ok := exprsem.Truth(p.V); ok {
			// the uncontested truth value decides which side is wrong
			if t {
				minority = fs
			} else {
				minority = ts
			}
		}
		s.emitFail(truthyKey(minority), "truthy", i, mkCase(minority[0]),
			fmt.Sprintf("%s is truthy in [%s] but falsy in [%s] ('a value is truthy in if, while, for, ?:, !, &&, || and (bool) alike')", p.Name, short(ts), short(fs)))
	} else if t, ok := exprsem.Truth(p.V); ok && (t && len(fs) > 0 || !t && len(ts) > 0) {
		all := append(ts, fs...)
		s.emitFail("truthy:"+p.V.K.String(), "truthy", i, mkCase(all[0]), fmt.Sprintf("%s must be %v in every boolean context, observed truthy in [%s], falsy in [%s]", p.Name, t, short(ts), short(fs)))
	}
	if len(others) > 0 && p.V.Scalar() {
		// a scalar in a boolean context must produce a truth value (errors are not "alike")
		if len(ts)+len(fs) > 0 {
			var names []string
			for _, o := range others {
				names = append(names, strings.SplitN(o, "=", 2)[0])
			}
			s.emitFail(truthyKey(names), "truthy", i, mkCase(names[0]), fmt.Sprintf("%s gives a truth value in [%s] but not in [%s]", p.Name, short(append(ts, fs...)), short(others)))
		}
	}
	if i == 2 && w.poolID == "" {
		s.pw.Emit(rec{Kind: "sample", Sample: map[string]any{"value": p.Name, "truthy_in": len(ts), "falsy_in": len(fs), "falsy_examples": short(fs), "truthy_examples": short(ts), "other": others}})
	}
}

// ---- main -----------------------------------------------------------------------------------

func main() {
	if pool.IsWorker() {
		pool.Serve(map[string]pool.Handler{"c03": handler("c03")})
	}
	if f := os.Getenv("C03_PROBE"); f != "" {
		// development aid: run a script file with the pool environment (__v, __pool, __r, __e) installed
		b, _ := os.ReadFile(f)
		w := newWorld("thorough", 0, os.Getenv("C03_PROBE_POOL"))
		env := w.batch.NewEnv()
		res := env.Run(w.batch.Prelude+"\n"+string(b), 0)
		fmt.Printf("kind=%s class=%s msg=%s panic=%s\n", res.Kind, res.Class, res.Msg, res.PanicKey)
		var ks []int
		for k := range env.Rec.Slots {
			ks = append(ks, k)
		}
		sort.Ints(ks)
		for _, k := range ks {
			fmt.Println(k, env.Rec.Slots[k])
		}
		return
	}
	c := ev.New("C03")
	defer runner.Cleanup()
	if c.Replay != "" {
		replay(c)
		return
	}
	c.SetBudget(4*time.Minute, 20*time.Minute)
	w := newWorld(c.Tier, c.Seed, "")
	var shards []pool.Shard
	var cells int64
	poolSizes := map[string]int{}
	poolNames := map[string][]string{}
	for _, pid := range poolIDs {
		pw := newWorld(c.Tier, c.Seed, pid)
		n := int64(len(pw.pool))
		poolSizes[poolTitle(pid)] = len(pw.pool)
		for _, p := range pw.pool {
			poolNames[poolTitle(pid)] = append(poolNames[poolTitle(pid)], p.Name)
		}
		cells += int64(len(binOps))*n*n + int64(len(unOps))*n + n
		shards = append(shards, pool.Shard{Kind: "c03", Arg: shardArg{Kind: "ident", Tier: c.Tier, Seed: c.Seed, Pool: pid}})
		// the big grid rows first (better balance at the tail)
		for g := range opGroups {
			for l := range pw.pool {
				shards = append(shards, pool.Shard{Kind: "c03", Arg: shardArg{Kind: "bin", Group: g, L: l, Tier: c.Tier, Seed: c.Seed, Pool: pid}})
			}
		}
		for g := range unOps {
			shards = append(shards, pool.Shard{Kind: "c03", Arg: shardArg{Kind: "un", Group: g, Tier: c.Tier, Seed: c.Seed, Pool: pid}})
		}
		for l := range pw.pool {
			shards = append(shards, pool.Shard{Kind: "c03", Arg: shardArg{Kind: "ctx", L: l, Tier: c.Tier, Seed: c.Seed, Pool: pid}})
		}
	}
	agg := &formAgg{by: map[string]*aggEntry{}}
	var total, scripts, bare, exactN, laws int64
	outcomes := map[string]int{}
	vac := map[string]int{}
	var nolit []string
	pool.Run(shards, pool.Options{}, func(si int, rb json.RawMessage) {
		var r rec
		json.Unmarshal(rb, &r)
		switch r.Kind {
		case "count":
			total += r.N
			scripts += r.Scripts
			bare += r.Bare
			exactN += r.Exact
			laws += r.Laws
			for k, v := range r.Outcomes {
				outcomes[k] += v
			}
			for k, v := range r.Vac {
				vac[k] += v
			}
		case "fail":
			if os.Getenv("C03_VERBOSE") != "" {
				fmt.Printf("FAIL %s | %s\n", r.Fail.Key, r.Fail.Detail)
			}
			agg.add(r.Fail)
		case "sample":
			c.Sample(r.Sample)
		case "nolit":
			nolit = append(nolit, r.NoLit...)
		case "harness":
			c.HarnessError("%s", r.Harness)
		}
	}, func(d pool.Death) {
		c.Fail("worker-death:"+runner.FatalFrame(d.Stderr), "crash", 0, map[string]any{"item": d.Item, "reason": d.Reason}, d.Stderr)
	})
	agg.flush(c)
	for k, v := range outcomes {
		c.Outcome(k)
		c.Add("outcome:"+k, int64(v))
	}
	var names []string
	for _, p := range w.pool {
		names = append(names, p.Name)
	}
	c.Set("pool", names)
	c.Set("pool_size", len(w.pool))
	c.Set("grid_pools", poolNames)
	c.Set("pool_sizes", poolSizes)
	c.Set("binary_cell_forms_base", append(append(pairForms("", c.Tier), "self"), condForms("")...))
	c.Set("binary_cell_forms_grids", append(append(pairForms("num", c.Tier), "self"), condForms("num")...))
	c.Set("compound_forms", []string{"compound", "compound:lit", "compound:var"})
	var scn, gcn []string
	for _, x := range scopes {
		scn = append(scn, x.name)
	}
	for _, x := range genContexts {
		gcn = append(gcn, x.name)
	}
	for _, x := range extraContexts {
		gcn = append(gcn, x.name)
	}
	c.Set("context_scopes", scn)
	c.Set("additional_contexts", gcn)
	c.Set("binary_operators", binOps)
	c.Set("prefix_operators", unOps)
	c.Set("operand_forms", append(append([]string{}, forms...), "compound-assignment"))
	var cn []string
	for _, x := range contexts {
		cn = append(cn, x.name)
	}
	c.Set("boolean_contexts", cn)
	c.Set("scripts_executed", scripts)
	c.Set("bare_top_level_reruns", bare)
	c.Set("cells_with_exact_expectation", exactN)
	c.Set("law_instances_checked", laws)
	c.Set("literal_spellings_not_delivering_the_value", nolit)
	c.Assume("operand values are injected through a Go function (__v) so that operator semantics are observed independently of literal lexing; the literal form is used only for literals that demonstrably yield the pool value")
	c.Assume("cases are batched ~250 per script inside try/catch; every case that panicked, did not record, or follows an aborted script is re-run alone as bare top-level statements and that outcome decides")
	c.Assume("exact results only on the documented domain (same-kind, int/float, string/string); integer overflow accepts wrap or float; numeric-looking strings accept byte or numeric order; truthiness of \"0\"-like strings, negative numbers and NAN is settled only by the coherence clause")
	c.Assume("values outside the pool (other magnitudes, longer strings, nested arrays, objects with properties) are not explored")
	if len(outcomes) < 6 {
		c.HarnessError("vacuous: only %d distinct outcome classes", len(outcomes))
	}
	// every condition form and every boolean context must have taken both branches somewhere
	condSeen := map[string]int64{}
	for _, cf := range condForms("") {
		for _, o := range []string{"b:1", "b:0"} {
			if vac["cond "+cf+" "+o] == 0 {
				c.HarnessError("vacuous: condition form %s never observed %s", cf, o)
			}
			condSeen[cf] += int64(vac["cond "+cf+" "+o])
		}
	}
	ctxSeen := map[string]int64{}
	for _, cc := range w.ctxCases("", 0) {
		for _, o := range []string{"T", "F"} {
			if vac["ctx "+cc.name+" "+o] == 0 {
				c.HarnessError("vacuous: boolean context %s never observed %s", cc.name, o)
			}
			ctxSeen[cc.name] += int64(vac["ctx "+cc.name+" "+o])
		}
	}
	c.Set("condition_form_verdicts", condSeen)
	c.Set("boolean_context_verdicts", ctxSeen)
	c.Set("boolean_context_instances", len(ctxSeen))
	if exactN < 1000 {
		c.HarnessError("vacuous: only %d cells had an exact expectation", exactN)
	}
	c.Set("table_cells", cells)
	sort.Strings(nolit)
	c.Finish(cells, total, total, fmt.Sprintf("complete tables over three pools (base %d values, numeric boundary grid %d, string grid %d): %d binary operators x every ordered operand pair x operand-form pairs (base: all 16 of var/call/elem/lit; grids: var, lit, var-lit, lit-var) + same-object + 3 compound-assignment spellings + swapped == + the boolean-valued operators in condition position (if / while / for / ?: / for inside a generator); %d prefix operators x pool x forms; (%d+%d boolean contexts x %d scopes + %d generator-suspended contexts) x pool x forms; states = table cells (operator x operand tuple), executions = cases run", poolSizes["base"], poolSizes["num"], poolSizes["str"], len(binOps), len(unOps), len(contexts), len(extraContexts), len(scopes), len(genContexts)))
}

// formAgg decides the ":form=" suffix of form-aggregated keys: none if the finding occurs in all
// operand forms of at least one cell, otherwise the union of the forms it occurs in.
type aggEntry struct {
	best  *failRec
	count int
	all   bool
	forms map[string]bool
}
type formAgg struct{ by map[string]*aggEntry }

func (a *formAgg) add(f *failRec) {
	e := a.by[f.Key]
	if e == nil {
		e = &aggEntry{forms: map[string]bool{}}
		a.by[f.Key] = e
	}
	e.count++
	if f.Forms == nil || f.AllF {
		e.all = true
	}
	for _, x := range f.Forms {
		e.forms[x] = true
	}
	if e.best == nil || f.Size < e.best.Size {
		e.best = f
	}
}

func (a *formAgg) finalKey(base string) string {
	e := a.by[base]
	if e == nil || e.all {
		return base
	}
	var fs []string
	for _, f := range allFormNames() {
		if e.forms[f] {
			fs = append(fs, f)
		}
	}
	if len(fs) > 4 {
		fs = append(fs[:3:3], fmt.Sprintf("and-%d-more", len(fs)-3))
	}
	return base + ":form=" + strings.Join(fs, "+")
}

func (a *formAgg) flush(c *ev.Check) {
	for base, e := range a.by {
		k := a.finalKey(base)
		for i := 0; i < e.count; i++ {
			c.Fail(k, e.best.Clause, e.best.Size, e.best.Case, e.best.Detail)
		}
	}
}

func replay(c *ev.Check) {
	var cs caseT
	key, err := ev.LoadReplay(c.Replay, &cs)
	if err != nil {
		fmt.Println("replay:", err)
		c.HarnessError("replay: %v", err)
		c.Finish(1, 1, 1, "replay")
	}
	w := newWorld("thorough", cs.Seed, cs.Pool)
	l, r := w.index(cs.L), w.index(cs.R)
	fmt.Printf("key: %s\ncase: %s %s %s forms=%v\n", key, cs.L, cs.Op, cs.R, cs.Forms)
	if l < 0 {
		c.HarnessError("replay: pool value %q unknown", cs.L)
		c.Finish(1, 1, 1, "replay")
	}
	// re-run the shard row that contains the case and keep the failures with the same key
	fails := replayRow(w, cs, l, r)
	hit := false
	for _, f := range fails {
		if f.Key == key || strings.HasPrefix(key, f.Key+":form=") {
			f.Key = key
			hit = true
			fmt.Println("reproduced:", f.Detail)
			fmt.Println("script:\n" + f.Case.Script)
			c.Fail(f.Key, f.Clause, f.Size, f.Case, f.Detail)
			break
		}
	}
	if !hit {
		fmt.Println("not reproduced (the case now satisfies the property)")
	}
	c.Finish(1, 1, 1, "replay")
}

// replayRow re-evaluates the table row of a recorded case in-process.
func replayRow(w *world, cs caseT, l, r int) []failRec {
	wp := &localW{}
	s := &workerState{w: w, pw: wp, outcomes: map[string]int{}, vac: map[string]int{}}
	s.arg.Tier, s.arg.Seed, s.arg.Pool = cs.Tier, cs.Seed, cs.Pool
	switch cs.Kind {
	case "bin":
		for g, ops := range opGroups {
			for _, o := range ops {
				if o == cs.Op {
					s.arg.Group, s.arg.L = g, l
					s.binShard()
				}
			}
		}
	case "un":
		for g, o := range unOps {
			if o == cs.Op {
				s.arg.Group = g
				s.unShard()
			}
		}
	case "ctx":
		s.arg.L = l
		s.ctxShard()
	}
	fails := wp.fails
	// keep the failures that concern the recorded operands
	var keep []failRec
	for _, f := range fails {
		if f.Case.L == cs.L && f.Case.R == cs.R && (cs.Kind != "bin" || f.Case.Op == cs.Op || f.Clause == "law") {
			keep = append(keep, f)
		}
	}
	if len(keep) == 0 {
		return fails
	}
	return keep
}
