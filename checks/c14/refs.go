package main

import (
	"bytes"
	"encoding/json"
	"fmt"
	"io"
	"math"
	"regexp"
	"strconv"
	"strings"
)

// ---- JSON: reference reader on top of encoding/json ------------------------------------------

// jsonRef decodes s with encoding/json (token stream, UseNumber) into a P, keeping object key
// order. ok=false when encoding/json rejects the text.
func jsonRef(s string) (p *P, ok bool) {
	p, ok, _ = jsonRef3(s)
	return
}

// jsonRef3 additionally reports judged=false for texts encoding/json's own Unmarshal and Valid
// disagree on (number literals outside the double range).
func jsonRef3(s string) (p *P, ok bool, judged bool) {
	p, ok = jsonRefRaw(s)
	if ok {
		var any interface{}
		if err := json.Unmarshal([]byte(s), &any); err != nil {
			return nil, false, false
		}
	}
	return p, ok, true
}

// jsonErrClass names the grammar violation encoding/json reports (characters and offsets stripped).
func jsonErrClass(s string) string {
	var any interface{}
	err := json.Unmarshal([]byte(s), &any)
	if err == nil {
		return "valid"
	}
	m := err.Error()
	m = regexp.MustCompile(`'[^']*'|"[^"]*"|[0-9]+`).ReplaceAllString(m, "")
	m = strings.Join(strings.Fields(m), "-")
	return "malformed(" + m + ")"
}

func jsonRefRaw(s string) (p *P, ok bool) {
	if !json.Valid([]byte(s)) {
		return nil, false
	}
	dec := json.NewDecoder(strings.NewReader(s))
	dec.UseNumber()
	p, err := jsonRefValue(dec)
	if err != nil {
		return nil, false
	}
	if _, err := dec.Token(); err != io.EOF {
		return nil, false
	}
	return p, true
}

func jsonRefValue(dec *json.Decoder) (*P, error) {
	tok, err := dec.Token()
	if err != nil {
		return nil, err
	}
	switch x := tok.(type) {
	case nil:
		return &P{K: 'n'}, nil
	case bool:
		return &P{K: 'b', B: x}, nil
	case string:
		return &P{K: 's', S: x}, nil
	case json.Number:
		return numRef(string(x)), nil
	case json.Delim:
		switch x {
		case '[':
			p := &P{K: 'a'}
			for i := 0; dec.More(); i++ {
				c, err := jsonRefValue(dec)
				if err != nil {
					return nil, err
				}
				p.set(PK{Int: true, I: int64(i)}, c)
			}
			_, err := dec.Token()
			return p, err
		case '{':
			p := &P{K: 'a'}
			for dec.More() {
				kt, err := dec.Token()
				if err != nil {
					return nil, err
				}
				ks, _ := kt.(string)
				c, err := jsonRefValue(dec)
				if err != nil {
					return nil, err
				}
				p.set(normKey(ks), c)
			}
			_, err := dec.Token()
			return p, err
		}
	}
	return nil, fmt.Errorf("unexpected token %v", tok)
}

// numRef: an integer literal that fits int64 is that int; everything else is the nearest double.
func numRef(lit string) *P {
	if !strings.ContainsAny(lit, ".eE") {
		if n, err := strconv.ParseInt(lit, 10, 64); err == nil {
			return &P{K: 'i', I: n}
		}
	}
	f, _ := strconv.ParseFloat(lit, 64)
	return &P{K: 'f', F: f}
}

// jsonDepth returns the maximal container nesting of a (valid or not) JSON text, strings skipped.
func jsonDepth(s string) int {
	d, m := 0, 0
	in := false
	for i := 0; i < len(s); i++ {
		c := s[i]
		if in {
			if c == '\\' {
				i++
			} else if c == '"' {
				in = false
			}
			continue
		}
		switch c {
		case '"':
			in = true
		case '[', '{':
			d++
			if d > m {
				m = d
			}
		case ']', '}':
			d--
		}
	}
	return m
}

// ---- PHP serialize: reference writer and strict reader ---------------------------------------

// phpSer is the reference *encoder* (used to build well-formed decoder inputs).
func phpSer(p *P) string {
	switch p.K {
	case 'n':
		return "N;"
	case 'b':
		if p.B {
			return "b:1;"
		}
		return "b:0;"
	case 'i':
		return "i:" + strconv.FormatInt(p.I, 10) + ";"
	case 'f':
		return "d:" + phpFloat(p.F) + ";"
	case 's':
		return "s:" + strconv.Itoa(len(p.S)) + ":\"" + p.S + "\";"
	case 'a':
		var sb strings.Builder
		fmt.Fprintf(&sb, "a:%d:{", len(p.Keys))
		for i, k := range p.Keys {
			if k.Int {
				fmt.Fprintf(&sb, "i:%d;", k.I)
			} else {
				fmt.Fprintf(&sb, "s:%d:\"%s\";", len(k.S), k.S)
			}
			sb.WriteString(phpSer(p.C[i]))
		}
		sb.WriteString("}")
		return sb.String()
	}
	panic("phpSer")
}

func phpFloat(f float64) string {
	switch {
	case math.IsInf(f, 1):
		return "INF"
	case math.IsInf(f, -1):
		return "-INF"
	case math.IsNaN(f):
		return "NAN"
	case f == 0 && math.Signbit(f):
		return "-0"
	}
	s := strconv.FormatFloat(f, 'G', -1, 64)
	return s
}

// phpUnser is the strict reference reader of the PHP serialize grammar restricted to
// N b i d s a. verdict: 1 = well-formed (p set), 0 = malformed, -1 = forms on which PHP versions
// disagree ('+' before an unsigned length / count) -- not judged.
func phpUnser(s string) (p *P, verdict int) {
	r := &serReader{s: s}
	p = r.value(0)
	if r.amb {
		return nil, -1
	}
	if p == nil || r.i != len(s) {
		return nil, 0
	}
	return p, 1
}

type serReader struct {
	s   string
	i   int
	amb bool
	err string // first grammar violation
}

func (r *serReader) fail(code string) *P {
	if r.err == "" {
		r.err = code
	}
	return nil
}

// serErrClass names the first production at which the strict reader gives up.
func serErrClass(s string) string {
	r := &serReader{s: s}
	p := r.value(0)
	switch {
	case r.amb:
		return "ambiguous"
	case p == nil:
		return "malformed(" + r.err + ")"
	case r.i != len(s):
		return "malformed(trailing-data)"
	}
	return "valid"
}

func (r *serReader) lit(x string) bool {
	if strings.HasPrefix(r.s[r.i:], x) {
		r.i += len(x)
		return true
	}
	return false
}

func (r *serReader) uint() (int, bool) {
	if r.i < len(r.s) && r.s[r.i] == '+' {
		r.amb = true
		return 0, false
	}
	st := r.i
	for r.i < len(r.s) && r.s[r.i] >= '0' && r.s[r.i] <= '9' {
		r.i++
	}
	if st == r.i || r.i-st > 9 {
		return 0, false
	}
	n, _ := strconv.Atoi(r.s[st:r.i])
	return n, true
}

func (r *serReader) value(depth int) *P {
	if r.i >= len(r.s) {
		return r.fail("truncated")
	}
	if depth > 200000 {
		return r.fail("too-deep")
	}
	switch r.s[r.i] {
	case 'N':
		if r.lit("N;") {
			return &P{K: 'n'}
		}
		return r.fail("N-syntax")
	case 'b':
		if r.lit("b:0;") {
			return &P{K: 'b'}
		}
		if r.lit("b:1;") {
			return &P{K: 'b', B: true}
		}
		return r.fail("b-syntax")
	case 'i':
		if !r.lit("i:") {
			return r.fail("i-syntax")
		}
		st := r.i
		if r.i < len(r.s) && (r.s[r.i] == '-' || r.s[r.i] == '+') {
			r.i++
		}
		ds := r.i
		for r.i < len(r.s) && r.s[r.i] >= '0' && r.s[r.i] <= '9' {
			r.i++
		}
		if ds == r.i {
			return r.fail("i-syntax")
		}
		n, err := strconv.ParseInt(strings.TrimPrefix(r.s[st:r.i], "+"), 10, 64)
		if err != nil {
			r.amb = true // out-of-range integers: PHP's behaviour is version dependent
			return nil
		}
		if !r.lit(";") {
			return r.fail("i-syntax")
		}
		return &P{K: 'i', I: n}
	case 'd':
		if !r.lit("d:") {
			return r.fail("d-syntax")
		}
		end := strings.IndexByte(r.s[r.i:], ';')
		if end <= 0 {
			return r.fail("d-syntax")
		}
		txt := r.s[r.i : r.i+end]
		var f float64
		switch txt {
		case "INF":
			f = math.Inf(1)
		case "-INF":
			f = math.Inf(-1)
		case "NAN":
			f = math.NaN()
		default:
			// digits, sign, '.', exponent only
			for _, c := range txt {
				if !(c >= '0' && c <= '9' || c == '-' || c == '+' || c == '.' || c == 'e' || c == 'E') {
					return r.fail("d-syntax")
				}
			}
			var err error
			f, err = strconv.ParseFloat(txt, 64)
			if err != nil {
				return r.fail("d-syntax")
			}
		}
		r.i += end + 1
		return &P{K: 'f', F: f}
	case 's':
		if !r.lit("s:") {
			return r.fail("s-syntax")
		}
		n, ok := r.uint()
		if !ok || !r.lit(":\"") {
			return r.fail("s-length-syntax")
		}
		if r.i+n > len(r.s) {
			return r.fail("s-length-mismatch")
		}
		str := r.s[r.i : r.i+n]
		r.i += n
		if !r.lit("\";") {
			return r.fail("s-length-mismatch")
		}
		return &P{K: 's', S: str}
	case 'a':
		if !r.lit("a:") {
			return r.fail("a-syntax")
		}
		n, ok := r.uint()
		if !ok || !r.lit(":{") {
			return r.fail("a-count-syntax")
		}
		p := &P{K: 'a'}
		for j := 0; j < n; j++ {
			if r.i < len(r.s) && r.s[r.i] == '}' {
				return r.fail("a-count-mismatch")
			}
			if r.i < len(r.s) && r.s[r.i] != 'i' && r.s[r.i] != 's' {
				return r.fail("a-key-type")
			}
			k := r.value(depth + 1)
			if k == nil {
				return nil
			}
			v := r.value(depth + 1)
			if v == nil {
				return nil
			}
			if k.K == 'i' {
				p.set(PK{Int: true, I: k.I}, v)
			} else {
				p.set(normKey(k.S), v)
			}
		}
		if !r.lit("}") {
			if r.i >= len(r.s) {
				return r.fail("truncated")
			}
			return r.fail("a-count-mismatch")
		}
		return p
	}
	return r.fail("unknown-type-tag")
}

// ---- enumeration helpers -------------------------------------------------------------------------

// forStrings calls f with every concatenation of exactly n symbols (index vector) and returns early
// when f returns false.
func forSeq(nsym, n int, prefix []int, f func(idx []int)) {
	idx := make([]int, n)
	copy(idx, prefix)
	var rec func(pos int)
	rec = func(pos int) {
		if pos == n {
			f(idx)
			return
		}
		for s := 0; s < nsym; s++ {
			idx[pos] = s
			rec(pos + 1)
		}
	}
	rec(len(prefix))
}

func join(alpha []string, idx []int) string {
	var sb bytes.Buffer
	for _, i := range idx {
		sb.WriteString(alpha[i])
	}
	return sb.String()
}

// edits calls f with every string at edit distance 1 from base over the alphabet (every proper
// prefix, every single deletion, substitution and insertion of an alphabet symbol).
func edits(base string, alpha []string, f func(kind string, s string)) {
	for i := 0; i < len(base); i++ {
		f("trunc", base[:i])
	}
	for i := 0; i < len(base); i++ {
		f("del", base[:i]+base[i+1:])
		for _, a := range alpha {
			if a != base[i:i+1] {
				f("sub", base[:i]+a+base[i+1:])
			}
		}
	}
	for i := 0; i <= len(base); i++ {
		for _, a := range alpha {
			f("ins", base[:i]+a+base[i:])
		}
	}
}
