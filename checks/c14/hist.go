package main

import (
	"encoding/json"
	"fmt"
	"strings"
	"time"

	"github.com/php-any/origami/data"

	"verif/engine/pool"
	"verif/engine/runner"
)

// Build histories: values that no literal denotes are made by element assignment, push and unset.
// Every history of at most L operations over the alphabet below, from each start value, is run as
// a real script; the value it leaves in $v is read back slot by slot into a tree (list / keyed /
// mixed array / map) and goes through the same encoder / decoder checks as the value-tree
// families, and the script's own json_encode / serialize results are bound to the direct calls.
// The array operations themselves are not judged here (another property owns them): a history
// whose result carries one key twice, or whose foreach view disagrees with the slot reading, is
// counted and skipped.

var histInits = []string{"$v = [];", "$v = [1, 2];", "$v = [\"a\" => 1];"}

// %d is replaced by a value that is distinct per position (10, 11, ...)
var histOps = []string{
	"$v[] = %d;", "$v[\"a\"] = %d;", "$v[\"b\"] = %d;", "$v[0] = %d;", "$v[1] = %d;", "$v[5] = %d;",
	"unset($v[0]);", "unset($v[\"a\"]);", "$v[\"a\"][] = %d;", "$v[0][\"b\"] = %d;",
}

func histMaxLen(quick bool) int {
	if quick {
		return 3
	}
	return 4
}

// histories lists (init, op sequence) in a fixed order.
func histories(quick bool) [][]int {
	var out [][]int
	for in := range histInits {
		for l := 0; l <= histMaxLen(quick); l++ {
			forSeq(len(histOps), l, nil, func(idx []int) {
				out = append(out, append([]int{in}, idx...))
			})
		}
	}
	return out
}

func histScript(h []int) string {
	var sb strings.Builder
	sb.WriteString(histInits[h[0]] + "\n")
	for i, o := range h[1:] {
		op := histOps[o]
		if strings.Contains(op, "%d") {
			op = fmt.Sprintf(op, 10+i)
		}
		sb.WriteString(op + "\n")
	}
	return sb.String()
}

// reprToT reads an origami value slot by slot; nil when it holds something no tree kind denotes
// (nil slot, nil value, class instance).
func reprToT(v data.Value) *T {
	switch x := v.(type) {
	case *data.NullValue:
		return tNull()
	case *data.BoolValue:
		return tBool(x.Value)
	case *data.IntValue:
		return tInt(int64(x.Value))
	case *data.FloatValue:
		return tFloat(x.Value)
	case *data.StringValue:
		return tStr(x.Value)
	case *data.ArrayValue:
		t := &T{K: 'l'}
		pos, named := 0, 0
		for _, z := range x.List {
			if z == nil || z.Value == nil {
				return nil
			}
			c := reprToT(z.Value)
			if c == nil {
				return nil
			}
			t.C = append(t.C, c)
			t.Keys = append(t.Keys, z.Name)
			if z.Name == "" {
				pos++
			} else {
				named++
			}
		}
		switch {
		case named == 0:
			t.Keys = nil
		case pos == 0:
			t.K = 'k'
		default:
			t.K = 'x'
		}
		return t
	case *data.ObjectValue:
		t := &T{K: 'm'}
		ok := true
		x.RangeProperties(func(k string, v data.Value) bool {
			c := reprToT(v)
			if c == nil {
				ok = false
				return false
			}
			t.Keys = append(t.Keys, k)
			t.C = append(t.C, c)
			return true
		})
		if !ok {
			return nil
		}
		return t
	}
	return nil
}

// distinctKeys: no container of the tree carries one (normalised) key twice.
func distinctKeys(t *T) bool {
	if t.K == 'k' || t.K == 'm' || t.K == 'x' {
		seen := map[PK]bool{}
		for i := range t.C {
			k := normKey(t.Keys[i])
			if t.K == 'x' && t.Keys[i] == "" {
				k = PK{Int: true, I: int64(i)}
			}
			if seen[k] {
				return false
			}
			seen[k] = true
		}
	}
	for _, c := range t.C {
		if !distinctKeys(c) {
			return false
		}
	}
	return true
}

type histShard struct {
	Quick bool `json:"quick"`
	Seed  int  `json:"seed"`
	Lo    int  `json:"lo"`
	Hi    int  `json:"hi"`
}

func histWorker(w *pool.W, arg json.RawMessage) {
	var sh histShard
	t0 := time.Now()
	json.Unmarshal(arg, &sh)
	seedRot = sh.Seed
	e := getEnv()
	hs := histories(sh.Quick)
	fs := &failSet{}
	outcomes := map[string]int64{}
	var n int64
	for i := sh.Lo; i < sh.Hi && i < len(hs); i++ {
		if !w.Item(fmt.Sprintf("hist %d", i)) {
			continue
		}
		n++
		build := histScript(hs[i])
		src := build + "$ks = [];\n$xs = [];\nforeach ($v as $k => $x) { $ks[] = $k; $xs[] = $x; }\n$j = json_encode($v);\n$s = serialize($v);\n"
		res, sess := runner.RunKeep(src, runner.Opts{})
		cs := map[string]any{"kind": "bind", "script": src}
		if res.Kind == "panic" || res.Kind == "fuel" {
			// a crash while *building* belongs to the array operations unless an encoder is on the stack
			if strings.Contains(res.PanicKey, "json") || strings.Contains(res.PanicKey, "serializ") {
				fs.add("history:"+res.PanicKey+":crash", "crash", len(hs[i]), cs, res.PanicMsg)
			}
			outcomes["history: script "+res.Kind]++
			sess.Close()
			continue
		}
		if res.Kind != "ok" {
			outcomes["history: script refuses an operation ("+res.Kind+")"]++
			sess.Close()
			continue
		}
		sv := sess.Var("v")
		t := reprToT(sv)
		if t == nil || !sameRepr(sv, t.toData()) {
			outcomes["history: result is not a plain value tree (not judged)"]++
			sess.Close()
			continue
		}
		if !distinctKeys(t) {
			outcomes["history: result carries one key twice (array operations, not judged)"]++
			sess.Close()
			continue
		}
		// the value as the language shows it: foreach keys and values
		view := &P{K: 'a'}
		ks, _ := sess.Var("ks").(*data.ArrayValue)
		xs, _ := sess.Var("xs").(*data.ArrayValue)
		if ks != nil && xs != nil && len(ks.List) == len(xs.List) {
			for q := range ks.List {
				var k PK
				switch kv := ks.List[q].Value.(type) {
				case *data.IntValue:
					k = PK{Int: true, I: int64(kv.Value)}
				case *data.StringValue:
					k = normKey(kv.Value)
				}
				view.Keys = append(view.Keys, k)
				view.C = append(view.C, fromData(xs.List[q].Value))
			}
		}
		if d := diff(t.canon(), view, true); d != "" {
			outcomes["history: foreach view differs from the slot reading (not judged)"]++
			sess.Close()
			continue
		}
		outcomes["history: "+map[byte]string{'l': "list", 'k': "keyed array", 'x': "mixed array", 'm': "map"}[t.K]]++
		// bind the script's encoder calls to the direct calls
		v := t.toData()
		for _, b := range []struct {
			fn, name string
		}{{"json_encode", "j"}, {"serialize", "s"}} {
			direct := e.call(b.fn, v)
			if direct.Kind != "ok" || !sameRepr(sess.Var(b.name), direct.V) {
				fs.add("binding:"+b.fn+":"+t.class(), "binding", t.size(), cs, fmt.Sprintf("%s: script gave %s, direct call gave %s %s", b.fn, reprOf(sess.Var(b.name)), direct.Kind, reprOf(direct.V)))
			}
		}
		sess.Close()
		if fails := treeFailures(e, t); len(fails) > 0 {
			for cc := range fails {
				outcomes[cc[0]+" "+cc[1]]++
			}
			reportTree(e, fs, t, fails, valCache)
		} else {
			outcomes["tree ok"]++
		}
	}
	fs.flush(w)
	w.Emit(rec{Kind: "count", Fam: fmt.Sprintf("build histories: <= %d operations from %d start values (scripts)", histMaxLen(sh.Quick), len(histInits)), N: n, Calls: n * 9, Outcome: outcomes, Ms: time.Since(t0).Milliseconds()})
	if sh.Lo == 0 {
		w.Emit(rec{Kind: "sample", Case: map[string]any{"family": "build histories", "script": histScript(hs[len(hs)-1])}})
	}
}
