package main

import (
	"encoding/json"
	"fmt"
	"sort"
	"strings"
	"time"

	"github.com/php-any/origami/data"
	"github.com/php-any/origami/utils/vshim"

	"verif/engine/ev"
	"verif/engine/pool"
	"verif/engine/sched"
)

// Schedule exploration (form S) over the codec builtins: two threads each make ONE direct call of
// the same builtin with different inputs on one shared VM; every interleaving at the scheduling
// points govis plants (package-level variables, map fields, mutexes of the origami packages) is
// explored, unbounded. Oracle: each result equals the result of the same call made alone, no
// panic, no logical data race, no deadlock.

type concScenario struct {
	Kind    string   `json:"kind"`  // "conc"
	Codec   string   `json:"codec"` // finding-key codec, e.g. "hash"
	Func    string   `json:"func"`  // builtin name, or "Class::method"
	Label   string   `json:"label"` // e.g. hash(sha3-256)
	Args    [2][]*T  `json:"args"`  // per thread
	Choices []int    `json:"choices,omitempty"`
	Sites   []string `json:"sites,omitempty"`
}

func concScenarios() []concScenario {
	s := func(x string) *T { return tStr(x) }
	var out []concScenario
	add := func(codec, fn, label string, a, b []*T) {
		out = append(out, concScenario{Kind: "conc", Codec: codec, Func: fn, Label: label, Args: [2][]*T{a, b}})
	}
	in1, in2 := "alpha input of thread one", "b2"
	for _, algo := range []string{"md5", "sha1", "sha-1", "sha256", "sha-256", "sha2_256", "sha512", "sha-512", "sha2_512", "sha3-256", "sha3-512", "xxh3", "no-such-algo"} {
		add("hash", "hash", "hash("+algo+")", []*T{s(algo), s(in1)}, []*T{s(algo), s(in2)})
	}
	add("hash", "hash", "hash(sha256|sha512)", []*T{s("sha256"), s(in1)}, []*T{s("sha512"), s(in2)})
	add("md5", "md5", "md5", []*T{s(in1)}, []*T{s(in2)})
	add("md5", "md5", "md5(raw)", []*T{s(in1), tBool(true)}, []*T{s(in2), tBool(true)})
	for _, fn := range []string{"base64_encode", "urlencode", "rawurlencode", "bin2hex"} {
		add(fn, fn, fn, []*T{s(in1 + "&+=/\xff")}, []*T{s(in2 + " ~")})
	}
	add("base64_decode", "base64_decode", "base64_decode", []*T{s("YWxwaGEgaW5wdXQ=")}, []*T{s("YjI=")})
	add("urldecode", "urldecode", "urldecode", []*T{s("a%20b+c%26")}, []*T{s("d%3De")})
	add("rawurldecode", "rawurldecode", "rawurldecode", []*T{s("a%20b+c%26")}, []*T{s("d%3De")})
	a := string([]byte{letter('a')})
	v1 := tMap('m', []string{a, "k"}, []*T{tList(tInt(1), tFloat(0.5), tStr("é\"")), tNull()})
	v2 := tList(tStr("x"), tMap('k', []string{"n"}, []*T{tInt(1<<53 + 1)}), tBool(true))
	add("json_encode", "json_encode", "json_encode", []*T{v1}, []*T{v2})
	add("serialize", "serialize", "serialize", []*T{v1}, []*T{v2})
	j1, j2 := `{"a":[1,0.5,"é\""],"k":null}`, `["x",{"n":9007199254740993},true]`
	add("json_decode", "json_decode", "json_decode(assoc)", []*T{s(j1), tBool(true)}, []*T{s(j2), tBool(true)})
	add("json_decode", "json_decode", "json_decode(default)", []*T{s(j1)}, []*T{s(j2)})
	add("unserialize", "unserialize", "unserialize", []*T{s(`a:2:{s:1:"a";a:2:{i:0;i:1;i:1;s:1:"x";}s:1:"k";N;}`)}, []*T{s(`a:2:{i:0;d:0.5;i:1;b:1;}`)})
	add("protowire", "Protowire::parse", "Protowire::parse", []*T{s("\x08\x96\x01\x12\x02ab")}, []*T{s("\x0b\x08\x01\x0c")})
	add("protowire", "Protowire::encodeVarint", "Protowire::encodeVarint", []*T{tInt(300)}, []*T{tInt(1 << 40)})
	return out
}

// callable is a resolved builtin (function or static method); resolution happens before the
// threads start, the way a parsed script holds its resolved callee.
type callable struct {
	params []data.GetValue
	vars   []data.Variable
	call   func(data.Context) (data.GetValue, data.Control)
}

func (e *env) resolve(fn string) *callable {
	if i := strings.Index(fn, "::"); i > 0 {
		cs, _ := e.vm.GetClass(fn[:i])
		m, ok := cs.(data.GetStaticMethod).GetStaticMethod(fn[i+2:])
		if !ok {
			panic("c14: no method " + fn)
		}
		return &callable{m.GetParams(), m.GetVariables(), m.Call}
	}
	f, ok := e.vm.GetFunc(fn)
	if !ok {
		panic("c14: no builtin " + fn)
	}
	return &callable{f.GetParams(), f.GetVariables(), f.Call}
}

// rawCall is env.call / callStatic without the (process-global) fuel counter; a panic unwinds into
// the scheduler's thread wrapper.
func (e *env) rawCall(c *callable, args []data.Value) string {
	ctx := e.top.CreateContext(c.vars)
	if acl := bind(ctx, c.params, c.vars, args); acl != nil {
		return "throw(bind):" + trunc(acl.AsString(), 120)
	}
	v, acl := c.call(ctx)
	if acl != nil {
		return "throw:" + trunc(acl.AsString(), 120)
	}
	val, _ := v.(data.Value)
	return reprSorted(val)
}

// reprSorted is reprOf with object properties in key order (Protowire::parse builds its field
// objects from a Go map, so their property order is not part of the result).
func reprSorted(v data.Value) string {
	switch x := v.(type) {
	case *data.ArrayValue:
		s := "Array["
		for _, z := range x.List {
			if z == nil {
				s += "<nil>,"
				continue
			}
			s += fmt.Sprintf("%q=>%s,", z.Name, reprSorted(z.Value))
		}
		return s + "]"
	case *data.ObjectValue:
		var parts []string
		x.RangeProperties(func(k string, v data.Value) bool {
			parts = append(parts, fmt.Sprintf("%q:%s", k, reprSorted(v)))
			return true
		})
		sort.Strings(parts)
		return "Object{" + strings.Join(parts, ",") + "}"
	}
	return reprOf(v)
}

func toArgs(ts []*T) []data.Value {
	out := make([]data.Value, len(ts))
	for i, t := range ts {
		out[i] = t.toData()
	}
	return out
}

var unlockWrapped bool

// sharedUnlockSites: release sites of mutexes that BOTH calls of the current scenario take (learned
// from the sequential runs). Per-object mutexes (fresh address in every call) are not in it.
var sharedUnlockSites = map[string]bool{}

// learnSharedUnlocks runs the two calls alone, records which mutex addresses each releases, and
// returns the results of the calls.
func learnSharedUnlocks(run func(i int) string) [2]string {
	prev := vshim.OnPoint
	seen := [2]map[any]string{{}, {}}
	who := 0
	vshim.OnPoint = func(kind int, addr any, site string) {
		if kind == vshim.KUnlock || kind == vshim.KRUnlock {
			seen[who][addr] = site
		}
	}
	var want [2]string
	for round := 0; round < 2; round++ { // twice: the second call sees whatever the first one cached
		for i := 0; i < 2; i++ {
			who = i
			want[i] = run(i)
		}
	}
	vshim.OnPoint = prev
	sharedUnlockSites = map[string]bool{}
	for addr, site := range seen[0] {
		if _, ok := seen[1][addr]; ok {
			sharedUnlockSites[site] = true
			sharedUnlockSites[seen[1][addr]] = true
		}
	}
	return want
}

// yieldAfterUnlock: sched applies a mutex release at once and lets the thread run on to its next
// point, so "work done after the lock was released" (Write/Sum on a cached object, say) would be
// glued to the critical section. A release of a mutex both calls use is therefore followed by an
// explicit yield point: "the other thread runs between the unlock and what follows" is explored.
func yieldAfterUnlock() {
	if unlockWrapped || vshim.OnPoint == nil {
		return
	}
	unlockWrapped = true
	orig := vshim.OnPoint
	vshim.OnPoint = func(kind int, addr any, site string) {
		orig(kind, addr, site)
		if (kind == vshim.KUnlock || kind == vshim.KRUnlock) && sharedUnlockSites[site] {
			orig(vshim.KYield, nil, site+"|after-unlock")
		}
	}
}

type concResult struct {
	Execs    int64
	Complete bool
	Stop     string
	Fails    map[string][2]string // key -> (clause, detail)
	Choices  map[string][]int
	Sites    []string
}

func concExplore(sc concScenario, deadline time.Time) concResult {
	e := getEnv()
	for i := range sc.Args {
		for _, t := range sc.Args[i] {
			t.fix()
		}
	}
	// the same calls made alone
	cl := e.resolve(sc.Func)
	want := learnSharedUnlocks(func(i int) string { return e.rawCall(cl, toArgs(sc.Args[i])) })
	res := concResult{Fails: map[string][2]string{}, Choices: map[string][]int{}}
	var got [2]string
	cfg := &sched.Config{Name: sc.Label, Bound: -1, MaxExecs: 200000, Deadline: deadline}
	cfg.Setup = func() []sched.Body {
		yieldAfterUnlock() // Setup runs after sched has installed its hooks
		got = [2]string{"<not run>", "<not run>"}
		var bodies []sched.Body
		for i := 0; i < 2; i++ {
			i := i
			args := toArgs(sc.Args[i])
			bodies = append(bodies, func(t *sched.Thread) { got[i] = e.rawCall(cl, args) })
		}
		return bodies
	}
	emit := func(x *sched.Exec, clause, detail string) {
		key := "concurrent:" + sc.Codec + ":" + clause
		if _, ok := res.Fails[key]; ok {
			return
		}
		res.Fails[key] = [2]string{clause, detail + "\nscenario: two threads, one call each of " + sc.Label + "\nschedule: " + strings.Join(x.Schedule(), " ")}
		res.Choices[key] = x.Choices()
	}
	cfg.Check = func(x *sched.Exec) {
		if x.Stuck != "" {
			emit(x, "stuck", x.Stuck)
			return
		}
		crashed := false
		for _, t := range x.Threads {
			if t.Panic != "" {
				crashed = true
				emit(x, "crash", "thread "+t.Name+" panicked: "+t.PanicKey+" "+trunc(t.Panic, 200))
			}
		}
		for _, r := range x.Races {
			emit(x, "data-race", fmt.Sprintf("%s race: %s then %s (not ordered by any lock)", r.Kind, sched.SiteStable(r.SiteA), sched.SiteStable(r.SiteB)))
		}
		if x.Deadlock {
			emit(x, "deadlock", "threads left parked")
		}
		if crashed || x.Deadlock || x.Horizon {
			return
		}
		for i := 0; i < 2; i++ {
			if got[i] != want[i] {
				emit(x, "wrong-result", fmt.Sprintf("thread %d: %s with its own arguments returned %s; the same call made alone returns %s", i, sc.Label, trunc(got[i], 200), trunc(want[i], 200)))
			}
		}
	}
	st := sched.Explore(cfg)
	res.Execs, res.Complete, res.Stop = st.Execs, st.Complete, st.StopReason
	res.Sites = sched.RelevantSites()
	return res
}

type concShard struct {
	Lo, Hi int
	Seed   int
}

func concWorker(w *pool.W, arg json.RawMessage) {
	var sh concShard
	t0 := time.Now()
	json.Unmarshal(arg, &sh)
	seedRot = sh.Seed
	scs := concScenarios()
	outcomes := map[string]int64{}
	var n, execs int64
	for i := sh.Lo; i < sh.Hi && i < len(scs); i++ {
		sc := scs[i]
		if !w.Item("concurrent " + sc.Label) {
			continue
		}
		n++
		r := concExplore(sc, time.Now().Add(5*time.Minute))
		execs += r.Execs
		if !r.Complete {
			outcomes["concurrent exploration incomplete: "+r.Stop]++
			w.Emit(rec{Kind: "note", Key: "incomplete", Detail: "concurrent " + sc.Label + ": exploration stopped: " + r.Stop + " sites=" + strings.Join(r.Sites, " ; ")})
		}
		if len(r.Fails) == 0 {
			outcomes["concurrent agrees with sequential"]++
		}
		keys := make([]string, 0, len(r.Fails))
		for k := range r.Fails {
			keys = append(keys, k)
		}
		sort.Strings(keys)
		for _, k := range keys {
			f := r.Fails[k]
			outcomes["concurrent "+f[0]]++
			cs := sc
			cs.Choices, cs.Sites = r.Choices[k], r.Sites
			w.Emit(rec{Kind: "fail", Key: k, Clause: f[0], Size: len(cs.Choices), Case: cs, Detail: f[1], Count: 1})
		}
		if i == 0 {
			w.Emit(rec{Kind: "sample", Case: map[string]any{"family": "concurrent", "scenario": sc.Label, "interleavings": r.Execs, "choice_sites": r.Sites}})
		}
	}
	w.Emit(rec{Kind: "count", Fam: "concurrent: two threads x one call of each codec builtin on a shared VM, every interleaving", N: n, Calls: execs * 2, Outcome: outcomes, Ms: time.Since(t0).Milliseconds(), Count: execs})
}

func replayConc(c *ev.Check, key string) {
	var sc concScenario
	ev.LoadReplay(c.Replay, &sc)
	r := concExplore(sc, time.Now().Add(5*time.Minute))
	fmt.Printf("%s: %d interleavings explored, complete=%v\n", sc.Label, r.Execs, r.Complete)
	for k, f := range r.Fails {
		fmt.Printf("%s: %s\n", k, f[1])
		if k == key {
			c.Fail(key, f[0], 0, sc, f[1])
		}
	}
	if len(r.Fails) == 0 {
		fmt.Println("no failure reproduced")
	}
}
