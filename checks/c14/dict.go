package main

import (
	"go/ast"
	"go/parser"
	"go/token"
	"os"
	"path/filepath"
	"sort"
	"strconv"
	"strings"
	"unicode/utf8"
)

// Marker dictionary: every string literal of the structured-text codec sources of the tree under
// test (the JSON / serialize anchors of the property). A codec that gives some *content* a special
// meaning (a legacy wrapper prefix, a type tag, a sentinel) has to spell that content somewhere in
// its source, so "every literal, alone and followed by each payload" is a complete enumeration of
// the strings that can collide with such a marker -- nothing here names a particular marker.
var markerGlobs = []string{
	"std/php/json_encode.go", "std/php/json_decode.go", "std/php/serialize.go", "std/php/unserialize.go",
	"std/serializer/json/*.go", "data/serializer.go",
}

// payloads appended to a marker: nothing, a JSON list, a JSON object, a serialize text, not-a-document.
var markerPayloads = []string{"", "[1,2,3]", `{"x":1}`, "i:1;", "x"}

var markerMemo []string
var markerDone bool

func repoDir() string {
	if d := os.Getenv("VERIF_REPO"); d != "" {
		return d
	}
	return "/repo"
}

// markers returns the harvested literals (sorted, de-duplicated; 2..24 bytes, valid UTF-8, not purely
// alphanumeric: a marker that is told apart from ordinary text needs some punctuation).
func markers() []string {
	if markerDone {
		return markerMemo
	}
	markerDone = true
	seen := map[string]bool{}
	for _, g := range markerGlobs {
		files, _ := filepath.Glob(filepath.Join(repoDir(), g))
		sort.Strings(files)
		for _, f := range files {
			if strings.HasSuffix(f, "_test.go") {
				continue
			}
			fset := token.NewFileSet()
			af, err := parser.ParseFile(fset, f, nil, 0)
			if err != nil {
				continue
			}
			skip := map[*ast.BasicLit]bool{}
			for _, im := range af.Imports {
				skip[im.Path] = true
			}
			ast.Inspect(af, func(n ast.Node) bool {
				switch x := n.(type) {
				case *ast.Field:
					if x.Tag != nil {
						skip[x.Tag] = true
					}
				case *ast.BasicLit:
					if x.Kind != token.STRING || skip[x] {
						return true
					}
					s, err := strconv.Unquote(x.Value)
					if err != nil || len(s) < 2 || len(s) > 24 || !utf8.ValidString(s) {
						return true
					}
					plain := true
					for i := 0; i < len(s); i++ {
						c := s[i]
						if !(c >= '0' && c <= '9' || c >= 'a' && c <= 'z' || c >= 'A' && c <= 'Z') {
							plain = false
						}
					}
					if !plain {
						seen[s] = true
					}
				}
				return true
			})
		}
	}
	for s := range seen {
		markerMemo = append(markerMemo, s)
	}
	sort.Strings(markerMemo)
	return markerMemo
}

// markerStrings: every marker alone and followed by each payload.
func markerStrings() []string {
	var out []string
	for _, m := range markers() {
		for _, p := range markerPayloads {
			out = append(out, m+p)
		}
	}
	return out
}

// markerIn returns the longest harvested literal of at least 4 bytes that s contains ("" if none).
// Literals that are complete documents of a codec (b:0; d:INF; ...) are plain syntax, whose role in
// a failure the grammar classes already name; they are enumerated as leaves but do not name a class.
func markerIn(s string) string {
	best := ""
	for _, m := range markers() {
		if len(m) >= 4 && len(m) > len(best) && strings.Contains(s, m) {
			if _, v := phpUnser(m); v == 1 {
				continue
			}
			if _, ok := jsonRef(m); ok {
				continue
			}
			best = m
		}
	}
	return best
}
