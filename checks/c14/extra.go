package main

import (
	"encoding/json"
	"fmt"
	"math"
	"os"
	"strings"

	pw "google.golang.org/protobuf/encoding/protowire"

	"github.com/php-any/origami/data"

	"verif/engine/ev"
	"verif/engine/pool"
	"verif/engine/runner"
)

// probe (VERIF_C14_PROBE=<script>) runs one script and dumps a few top-level variables: a development aid.
func probe(file string) {
	if file == "markers" {
		for _, m := range markers() {
			fmt.Printf("%q\n", m)
		}
		return
	}
	src, _ := os.ReadFile(file)
	res, s := runner.RunKeep(string(src), runner.Opts{})
	fmt.Printf("kind=%s class=%s msg=%s panic=%s\nout=%s\n", res.Kind, res.Class, res.Msg, res.PanicKey, res.Out)
	for _, n := range []string{"a", "b", "c", "d", "e", "f", "g", "r"} {
		fmt.Println(n, reprOf(s.Var(n)))
	}
	s.Close()
}

// ---- protowire encode helpers (method level) ---------------------------------------------------------------

var pwInts = []int64{0, 1, 2, 127, 128, 255, 256, 300, 16383, 16384, 1<<31 - 1, 1 << 31, 1<<32 - 1, 1 << 32, 1 << 53, 1<<53 + 1, math.MaxInt64, -1, -2, math.MinInt64}

func intClass(v int64) string {
	switch {
	case v < 0:
		return "int-negative"
	case v >= 1<<32:
		return "int>=2^32"
	}
	return "int"
}

func pwEncodePass(w *pool.W, run *pwRun) {
	e := getEnv()
	fail := func(what, class, clause string, cs any, detail string) {
		run.outcomes["protowire "+what+" "+clause]++
		run.fs.add("protowire-"+what+":"+class+":"+clause, clause, 1, cs, detail)
	}
	call := func(method string, args ...data.Value) (string, bool, callRes) {
		run.calls++
		r := e.callStatic("Protowire", method, args...)
		s, ok := strOf(r)
		return s, ok, r
	}
	parse1 := func(b string) (int64, int64, *P, bool) {
		run.calls++
		r := e.callStatic("Protowire", "parse", data.NewStringValue(b))
		if r.Kind != "ok" {
			return 0, 0, nil, false
		}
		p := fromData(r.V)
		if p.K != 'a' || len(p.C) != 1 || p.C[0].K != 'a' {
			return 0, 0, nil, false
		}
		var num, typ int64
		var val *P
		for i, k := range p.C[0].Keys {
			switch k.S {
			case "number":
				num = p.C[0].C[i].I
			case "wire_type":
				typ = p.C[0].C[i].I
			case "value":
				val = p.C[0].C[i]
			}
		}
		return num, typ, val, val != nil
	}
	for _, v := range pwInts {
		if !w.Item(fmt.Sprintf("pwenc int %d", v)) {
			continue
		}
		run.n++
		cs := map[string]any{"kind": "pwenc", "int": v}
		out, ok, r := call("encodeVarint", data.NewIntValue(int(v)))
		if c := crashClause(r); c != "" {
			fail("encodeVarint", intClass(v), c, cs, r.Msg+r.Panic)
		} else if u, n := pw.ConsumeVarint([]byte(out)); !ok || n != len(out) || u != uint64(v) {
			fail("encodeVarint", intClass(v), "readback", cs, fmt.Sprintf("encodeVarint(%d) = % x, protowire.ConsumeVarint reads %d (n=%d)", v, out, u, n))
		} else if num, typ, val, ok := parse1(string(pw.AppendTag(nil, 1, pw.VarintType)) + out); !ok || num != 1 || typ != 0 || val.K != 'i' || val.I != v {
			fail("encodeVarint", intClass(v), "roundtrip", cs, fmt.Sprintf("Protowire::parse(tag . encodeVarint(%d)) gives %v", v, val))
		} else {
			run.outcomes["protowire encodeVarint ok"]++
		}
		out, ok, r = call("encodeFixed64", data.NewIntValue(int(v)))
		if c := crashClause(r); c != "" {
			fail("encodeFixed64", intClass(v), c, cs, r.Msg+r.Panic)
		} else if u, n := pw.ConsumeFixed64([]byte(out)); !ok || n != len(out) || u != uint64(v) {
			fail("encodeFixed64", intClass(v), "readback", cs, fmt.Sprintf("encodeFixed64(%d) = % x, protowire.ConsumeFixed64 reads %d (n=%d)", v, out, u, n))
		} else if num, typ, val, ok := parse1(string(pw.AppendTag(nil, 1, pw.Fixed64Type)) + out); !ok || num != 1 || typ != 1 || val.K != 'i' || val.I != v {
			fail("encodeFixed64", intClass(v), "roundtrip", cs, fmt.Sprintf("Protowire::parse(tag . encodeFixed64(%d)) gives %v", v, val))
		} else {
			run.outcomes["protowire encodeFixed64 ok"]++
		}
		if v >= 0 && v < 1<<32 {
			out, ok, r = call("encodeFixed32", data.NewIntValue(int(v)))
			if c := crashClause(r); c != "" {
				fail("encodeFixed32", intClass(v), c, cs, r.Msg+r.Panic)
			} else if u, n := pw.ConsumeFixed32([]byte(out)); !ok || n != len(out) || int64(u) != v {
				fail("encodeFixed32", intClass(v), "readback", cs, fmt.Sprintf("encodeFixed32(%d) = % x, protowire.ConsumeFixed32 reads %d (n=%d)", v, out, u, n))
			} else if num, typ, val, ok := parse1(string(pw.AppendTag(nil, 1, pw.Fixed32Type)) + out); !ok || num != 1 || typ != 5 || val.K != 'i' || val.I != v {
				fail("encodeFixed32", intClass(v), "roundtrip", cs, fmt.Sprintf("Protowire::parse(tag . encodeFixed32(%d)) gives %v", v, val))
			} else {
				run.outcomes["protowire encodeFixed32 ok"]++
			}
		}
	}
	for _, num := range []int64{1, 2, 15, 16, 2047, 2048, 1<<29 - 1} {
		for typ := int64(0); typ <= 5; typ++ {
			if !w.Item(fmt.Sprintf("pwenc tag %d %d", num, typ)) {
				continue
			}
			run.n++
			out, ok, r := call("encodeTag", data.NewIntValue(int(num)), data.NewIntValue(int(typ)))
			cs := map[string]any{"kind": "pwenc", "tag": []int64{num, typ}}
			if c := crashClause(r); c != "" {
				fail("encodeTag", "tag", c, cs, r.Msg+r.Panic)
			} else if n2, t2, n := pw.ConsumeTag([]byte(out)); !ok || n != len(out) || int64(n2) != num || int64(t2) != typ {
				fail("encodeTag", "tag", "readback", cs, fmt.Sprintf("encodeTag(%d,%d) = % x, protowire.ConsumeTag reads (%d,%d,n=%d)", num, typ, out, n2, t2, n))
			} else {
				run.outcomes["protowire encodeTag ok"]++
			}
		}
	}
	var strs [][]byte
	strs = append(strs, []byte{})
	for b := 0; b < 256; b++ {
		strs = append(strs, []byte{byte(b)})
	}
	for _, a := range hotBytes {
		for _, b := range hotBytes {
			strs = append(strs, []byte{a, b})
		}
	}
	for _, l := range []int{127, 128, 300, 16384} {
		strs = append(strs, []byte(strings.Repeat("x", l)))
	}
	for _, s := range strs {
		if !w.Item(fmt.Sprintf("pwenc bytes %d:%x", len(s), s[:min(len(s), 4)])) {
			continue
		}
		run.n++
		out, ok, r := call("encodeBytes", data.NewStringValue(string(s)))
		cs := map[string]any{"kind": "pwenc", "bytes": s[:min(len(s), 64)], "len": len(s)}
		if c := crashClause(r); c != "" {
			fail("encodeBytes", bytesClass(s[:min(len(s), 2)]), c, cs, r.Msg+r.Panic)
		} else if b, n := pw.ConsumeBytes([]byte(out)); !ok || n != len(out) || string(b) != string(s) {
			fail("encodeBytes", bytesClass(s[:min(len(s), 2)]), "readback", cs, fmt.Sprintf("encodeBytes(%q) = % x", trunc(string(s), 40), trunc(out, 40)))
		} else if num, typ, val, ok := parse1(string(pw.AppendTag(nil, 1, pw.BytesType)) + out); !ok || num != 1 || typ != 2 || val.K != 's' || val.S != string(s) {
			fail("encodeBytes", bytesClass(s[:min(len(s), 2)]), "roundtrip", cs, fmt.Sprintf("Protowire::parse(tag . encodeBytes(%q)) gives %v", trunc(string(s), 40), val))
		} else {
			run.outcomes["protowire encodeBytes ok"]++
		}
	}
}

// ---- protowire from real scripts ---------------------------------------------------------------------------

const pwClasses = `use Protowire\Annotation\Field;
class Inner {
    #[Field(number: 1, type: PROTOWIRE_VARINT)]
    public int $x;
}
class Msg {
    #[Field(number: 1, type: PROTOWIRE_VARINT)]
    public int $id;
    #[Field(number: 2, type: PROTOWIRE_LENGTH_DELIMITED)]
    public string $name;
}
`

func pwScriptPass(w *pool.W, run *pwRun, sh pwShard) {
	// (1) Protowire::parse(<literal>, <option literal>) against the Go seam
	bases := pwBases()
	inputs := [][]byte{{}, {0x0c}, {0x0c, 0x01}, {0x08, 0x01, 0x0c}, {0x0a, 0x01, 0x0c}, {0x0b, 0x0c}, {0x0b, 0x0b, 0x0c, 0x0c}, {0x0b, 0x14}, {0x08}, {0x0a, 0x05, 0x01}}
	for i := 0; i < len(bases); i += 3 {
		inputs = append(inputs, bases[i])
	}
	combos := []pwOpts{{}, {Msg: []int32{1}}, {Msg: []int32{1, 2}, MaxDepth: 2}, {Msg: []int32{1}, MaxDepth: 1}, {MaxDepth: 1}, {Packed: []int32{1}, Elem: 0}, {Packed: []int32{2}, Elem: 5}, {Packed: []int32{1, 2}, Elem: 1, Msg: []int32{2}}, {Msg: []int32{2}, Packed: []int32{1}, Elem: 0, MaxDepth: 3}}
	for _, in := range inputs {
		for ci := range combos {
			o := &combos[ci]
			if !w.Item(fmt.Sprintf("pwscript parse %x %s", in, o)) {
				continue
			}
			run.n++
			run.calls++
			src := fmt.Sprintf("$r = Protowire::parse(%s, %s);\n", phpStr(in), o.phpLiteral())
			if ci == 0 {
				src = fmt.Sprintf("$r = Protowire::parse(%s);\n", phpStr(in))
			}
			res, sess := runner.RunKeep(src, runner.Opts{})
			gf, gerr := implParse(in, o)
			bad := ""
			switch {
			case res.Kind == "panic":
				bad = "script panicked: " + res.PanicKey
			case (gerr != nil) != (res.Kind == "throw"):
				bad = fmt.Sprintf("script outcome %s (%s) vs ParseRawFields error %v", res.Kind, res.Msg, gerr)
			case gerr == nil:
				if d := diff(fieldsToP(gf), fromData(sess.Var("r")), true); d != "" && d != "order" {
					bad = fmt.Sprintf("script returned %s, ParseRawFields gave %s", show(sess.Var("r")), fieldsToP(gf))
				}
			}
			sess.Close()
			if bad != "" {
				run.outcomes["script-binding differs"]++
				run.fs.add("protowire:Protowire::parse-script:binding", "binding", len(in), map[string]any{"kind": "pwscript", "script": src}, bad)
			} else {
				run.outcomes["script bound Protowire::parse"]++
			}
		}
	}
	// (2) encode helpers from scripts against the reference encoder
	for _, v := range []int64{0, 1, 150, 300, 1 << 32} {
		if !w.Item(fmt.Sprintf("pwscript enc %d", v)) {
			continue
		}
		run.n++
		run.calls++
		src := fmt.Sprintf("$r = Protowire::encodeTag(2, PROTOWIRE_VARINT) . Protowire::encodeVarint(%d) . Protowire::encodeTag(1, PROTOWIRE_LENGTH_DELIMITED) . Protowire::encodeBytes(\"ab\") . Protowire::encodeTag(3, PROTOWIRE_FIXED32) . Protowire::encodeFixed32(7) . Protowire::encodeTag(4, PROTOWIRE_FIXED64) . Protowire::encodeFixed64(%d);\n", v, v)
		want := pw.AppendVarint(pw.AppendTag(nil, 2, pw.VarintType), uint64(v))
		want = pw.AppendBytes(pw.AppendTag(want, 1, pw.BytesType), []byte("ab"))
		want = pw.AppendFixed32(pw.AppendTag(want, 3, pw.Fixed32Type), 7)
		want = pw.AppendFixed64(pw.AppendTag(want, 4, pw.Fixed64Type), uint64(v))
		res, sess := runner.RunKeep(src, runner.Opts{})
		got, _ := sess.Var("r").(*data.StringValue)
		sess.Close()
		if res.Kind != "ok" || got == nil || got.Value != string(want) {
			run.outcomes["script encode helpers differ"]++
			run.fs.add("protowire-encode:script:readback", "readback", 1, map[string]any{"kind": "pwscript", "script": src}, fmt.Sprintf("script gave %s %s, reference encoder gives % x", res.Kind, reprOf(sess.Var("r")), want))
		} else {
			run.outcomes["script encode helpers ok"]++
		}
	}
	// (3) annotation-driven Protowire::parse($data, 'Msg') and Protowire::serialize($obj)
	for _, id := range []int64{0, 1, 300, 1 << 53, -1} {
		for _, name := range []string{"", "Al", "\xff\x00", "é"} {
			if !w.Item(fmt.Sprintf("pwscript class %d %q", id, name)) {
				continue
			}
			run.n++
			run.calls += 2
			wire := pw.AppendBytes(pw.AppendTag(pw.AppendVarint(pw.AppendTag(nil, 1, pw.VarintType), uint64(id)), 2, pw.BytesType), []byte(name))
			cs := map[string]any{"kind": "pwscript"}
			// decode into the class
			src := pwClasses + fmt.Sprintf("$c = Protowire::parse(%s, \"Msg\");\n$i = $c->id;\n$n = $c->name;\n", phpStr(wire))
			res, sess := runner.RunKeep(src, runner.Opts{})
			cs["script"] = src
			iv, _ := sess.Var("i").(*data.IntValue)
			nv, _ := sess.Var("n").(*data.StringValue)
			sess.Close()
			switch {
			case res.Kind == "panic":
				run.fs.add("protowire-parse-class:annotated-object:crash:"+res.PanicKey, "crash", 1, cs, res.PanicMsg)
			case res.Kind != "ok" || iv == nil || nv == nil || int64(iv.Value) != id || nv.Value != name:
				run.fs.add("protowire-parse-class:annotated-object:decode-value", "decode-value", 1, cs, fmt.Sprintf("parse(% x, 'Msg'): %s %s id=%v name=%v", wire, res.Kind, res.Msg, reprOf(sess.Var("i")), reprOf(sess.Var("n"))))
			default:
				run.outcomes["script parse into class ok"]++
			}
			// encode the object
			src = pwClasses + fmt.Sprintf("$o = new Msg();\n$o->id = %s;\n$o->name = %s;\n$r = Protowire::serialize($o);\n", tInt(id).literal(), phpStr([]byte(name)))
			res, sess = runner.RunKeep(src, runner.Opts{})
			got, _ := sess.Var("r").(*data.StringValue)
			sess.Close()
			cs = map[string]any{"kind": "pwscript", "script": src}
			switch {
			case res.Kind == "panic":
				run.outcomes["protowire serialize crash"]++
				run.fs.add("protowire-serialize:annotated-object:crash:"+res.PanicKey, "crash", 1, cs, "Protowire::serialize($obj) on the class of docs/protowire.md: "+res.PanicMsg)
			case res.Kind != "ok" || got == nil:
				run.fs.add("protowire-serialize:annotated-object:error", "error", 1, cs, fmt.Sprintf("%s %s %s", res.Kind, res.Class, res.Msg))
			default:
				w2 := &walker{o: &pwOpts{}, maxDepth: 64}
				t, e := w2.fields([]byte(got.Value), 1)
				okTree := e == "" && len(t) == 2 && t[0].Num == 1 && t[0].V == any(uint64(id)) && t[1].Num == 2 && string(t[1].V.([]byte)) == name
				if !okTree {
					run.fs.add("protowire-serialize:annotated-object:readback", "readback", 1, cs, fmt.Sprintf("serialize gave % x, reference walker reads %s %s", got.Value, treeString(t), e))
				} else {
					run.outcomes["script serialize ok"]++
				}
			}
		}
	}
}

// ---- replay ----------------------------------------------------------------------------------------------------------

func replay(c *ev.Check) {
	var head struct {
		Kind string `json:"kind"`
	}
	key, err := ev.LoadReplay(c.Replay, &head)
	if err != nil {
		fmt.Println("replay:", err)
		os.Exit(2)
	}
	e := getEnv()
	parts := strings.Split(key, ":")
	clause := parts[len(parts)-1]
	report := func(fails map[[2]string]string, codec string) {
		n := 0
		for cc, d := range fails {
			fmt.Printf("%s %s: %s\n", cc[0], cc[1], d)
			if cc[0] == codec || codec == "" {
				c.Fail(key, cc[1], 0, nil, d)
				n++
			}
		}
		if n == 0 {
			fmt.Println("no failure reproduced")
		}
	}
	switch head.Kind {
	case "conc":
		replayConc(c, key)
	case "tree":
		var cs treeCase
		ev.LoadReplay(c.Replay, &cs)
		cs.Tree.fix()
		fmt.Println("value:", cs.Tree.canon())
		fails := treeFailures(e, cs.Tree)
		sel := map[[2]string]string{}
		for cc, d := range fails {
			if cc[0] == cs.Codec && cc[1] == clause {
				sel[cc] = d
			}
		}
		report(sel, cs.Codec)
	case "bytes-enc", "bytes-dec":
		var cs bytesCase
		ev.LoadReplay(c.Replay, &cs)
		fn := encFailures
		if head.Kind == "bytes-dec" {
			fn = decFailures
		}
		sel := map[[2]string]string{}
		for cc, d := range fn(e, cs.Bytes) {
			if cc[0] == cs.Codec && cc[1] == clause {
				sel[cc] = d
			}
		}
		report(sel, cs.Codec)
	case "text":
		var cs textCase
		ev.LoadReplay(c.Replay, &cs)
		sel := map[[2]string]string{}
		for cc, d := range decCodecs[cs.Codec].Fails(e, string(cs.Text)) {
			if cc[0] == cs.Func && cc[1] == clause {
				sel[cc] = d
			}
		}
		report(sel, cs.Func)
	case "pw":
		var cs pwCase
		ev.LoadReplay(c.Replay, &cs)
		cl, d := pwFailure(cs.Bytes, &cs.Opts)
		fmt.Printf("% x with %s -> %q %s\n", cs.Bytes, &cs.Opts, cl, d)
		if cl != "" {
			c.Fail(key, cl, 0, cs, d)
		}
	case "pwscript", "bind", "bytebind":
		var cs struct {
			Script string `json:"script"`
		}
		ev.LoadReplay(c.Replay, &cs)
		res := runner.Run(cs.Script, runner.Opts{})
		b, _ := json.Marshal(res)
		fmt.Printf("script:\n%s\nresult: %s\n", cs.Script, b)
		if res.Kind == "panic" || res.Kind == "fuel" {
			c.Fail(key, "crash", 0, cs, res.PanicKey)
		} else {
			fmt.Println("(binding / value comparisons of script cases are re-checked by the full run only)")
		}
	default:
		fmt.Println("replay: this case kind is re-checked by the full run only:", head.Kind)
	}
	c.Finish(1, 1, 1, "replay")
}
