package main

import (
	"encoding/json"
	"fmt"
	"math"
	"strings"
	"time"
	"unicode/utf8"

	"github.com/php-any/origami/data"
	"github.com/php-any/origami/utils/vshim"

	"verif/engine/pool"
	"verif/engine/runner"
)

// ---- pools ----------------------------------------------------------------------------------

var hotBytes = []byte{0x00, 0x0a, 0x1f, ' ', '"', '%', '&', '+', '/', '0', ':', ';', '=', 'A', '\\', 'a', '{', '}', '~', 0x7f, 0x80, 0xc3, 0xa9, 0xff}

var seedRot int // VERIF_SEED rotates neutral letters / key names only

func letter(c byte) byte { return 'a' + (c-'a'+byte(seedRot%20))%26 }

func fullLeaves() []*T {
	var l []*T
	for _, i := range []int64{0, 1, -1, 2, -2, 1 << 53, -(1 << 53), 1<<53 + 1, -(1<<53 + 1), math.MaxInt64, math.MinInt64} {
		l = append(l, tInt(i))
	}
	for _, f := range []float64{0, math.Copysign(0, -1), 0.5, -0.5, 1, 1.5, 1e-7, 1e21, 1 << 53} {
		l = append(l, tFloat(f))
	}
	l = append(l, tBool(true), tBool(false), tNull(), tStr(""))
	for b := 0; b < 256; b++ {
		l = append(l, tStr(string([]byte{byte(b)})))
	}
	for _, a := range hotBytes {
		for _, b := range hotBytes {
			l = append(l, tStr(string([]byte{a, b})))
		}
	}
	for _, s := range []string{"é", "中", "\xf0\x9f\x98\x80", " ", `a"b`, `a\b`, "</tag>", "a\nb", `é`, "a/b", "1", "1.5", "01", " a ", "null", "N;", `";`, `s:1:"x";`, "a\";i:1;s:1:\"b", string([]byte{letter('h'), letter('i')})} {
		l = append(l, tStr(s))
	}
	// every literal of the codec sources, alone and followed by each payload (dict.go)
	for _, s := range markerStrings() {
		l = append(l, tStr(s))
	}
	return l
}

// mixedPatterns: every slot pattern of n slots over {positional, named a, named b, named "é",
// named "7" (sparse integer key)} that has at least one positional and one named slot and pairwise
// distinct keys. "" stands for a positional slot.
func mixedPatterns(n int, names []string) [][]string {
	opts := append([]string{""}, names...)
	var out [][]string
	idx := make([]int, n)
	for {
		keys := make([]string, n)
		pos, named := 0, 0
		for i, o := range idx {
			keys[i] = opts[o]
			if o == 0 {
				pos++
			} else {
				named++
			}
		}
		if pos > 0 && named > 0 && (&T{K: 'x', Keys: keys, C: make([]*T, 0)}).keysDistinct() {
			out = append(out, keys)
		}
		i := 0
		for ; i < n; i++ {
			idx[i]++
			if idx[i] < len(opts) {
				break
			}
			idx[i] = 0
		}
		if i == n {
			return out
		}
	}
}

func mixedNames() []string {
	return []string{string([]byte{letter('a')}), string([]byte{letter('b')}), "é", "7"}
}

// mixedOver: every mixed array of 2..maxSlots slots over the pool.
func mixedOver(poolT []*T, maxSlots int, names []string) []*T {
	var out []*T
	for n := 2; n <= maxSlots; n++ {
		for _, kv := range mixedPatterns(n, names) {
			slots := make([][]*T, n)
			for i := range slots {
				slots[i] = poolT
			}
			f := &fam{Kind: 'x', Keys: kv, Slots: slots}
			for i := int64(0); i < f.n(); i++ {
				out = append(out, f.tree(i))
			}
		}
	}
	return out
}

func reducedLeaves() []*T {
	return []*T{tInt(0), tInt(-1), tInt(1<<53 + 1), tFloat(0.5), tFloat(1), tBool(true), tNull(), tStr(""), tStr(string([]byte{letter('a')})), tStr(`"`), tStr("é"), tStr("\xff")}
}

func tinyLeaves() []*T {
	return []*T{tInt(1), tFloat(0.5), tNull(), tStr(string([]byte{letter('a')})), tStr(`a"b`), tBool(false)}
}

// key variants per child count (decimal strings are integer keys)
func keyVariants(n int) [][]string {
	a, b, c := string([]byte{letter('a')}), string([]byte{letter('b')}), string([]byte{letter('c')})
	switch n {
	case 0:
		return [][]string{{}}
	case 1:
		return [][]string{{a}, {""}, {"é"}, {`"`}, {"k k"}, {"\xff"}, {"0"}, {"1"}, {"5"}, {"-1"}, {"01"}}
	case 2:
		return [][]string{{a, b}, {b, a}, {"0", "1"}, {"1", "0"}, {"1", "2"}, {a, "0"}, {"5", a}}
	case 3:
		return [][]string{{a, b, c}, {c, b, a}, {"0", "1", "2"}, {"2", "1", "0"}, {b, "0", a}}
	}
	panic("keyVariants")
}

// fam is a finite cross product: container kind, keys, one pool per child slot (kind 0 = the
// pool elements themselves).
type fam struct {
	Name  string
	Kind  byte
	Keys  []string
	Slots [][]*T
}

func (f *fam) n() int64 {
	n := int64(1)
	for _, s := range f.Slots {
		n *= int64(len(s))
	}
	return n
}

func (f *fam) tree(i int64) *T {
	if f.Kind == 0 {
		return f.Slots[0][i]
	}
	t := &T{K: f.Kind}
	if f.Kind != 'l' {
		t.Keys = f.Keys
	}
	for _, s := range f.Slots {
		t.C = append(t.C, s[i%int64(len(s))])
		i /= int64(len(s))
	}
	return t
}

func containersOver(poolT []*T, maxChildren int, allKeys bool) []*T {
	var out []*T
	for _, kind := range []byte{'l', 'm', 'k'} {
		for n := 0; n <= maxChildren; n++ {
			kvs := keyVariants(n)
			if kind == 'l' {
				kvs = kvs[:1]
			} else if !allKeys {
				if len(kvs) > 2 {
					kvs = kvs[:2]
				}
			}
			for _, kv := range kvs {
				slots := make([][]*T, n)
				for i := range slots {
					slots[i] = poolT
				}
				f := &fam{Kind: kind, Keys: kv, Slots: slots}
				for i := int64(0); i < f.n(); i++ {
					out = append(out, f.tree(i))
				}
			}
		}
	}
	return out
}

// valueFamilies lists the families of a tier. Everything is enumerated completely.
func valueFamilies(quick bool) []*fam {
	full, red, tiny := fullLeaves(), reducedLeaves(), tinyLeaves()
	var fs []*fam
	add := func(name string, pools [][]*T, keysets func(n int) [][]string) {
		n := len(pools)
		for _, kind := range []byte{'l', 'm', 'k'} {
			kvs := keysets(n)
			if kind == 'l' {
				kvs = kvs[:1]
			}
			for _, kv := range kvs {
				fs = append(fs, &fam{Name: name, Kind: kind, Keys: kv, Slots: pools})
			}
		}
	}
	first := func(k int) func(n int) [][]string {
		return func(n int) [][]string {
			v := keyVariants(n)
			if len(v) > k {
				v = v[:k]
			}
			return v
		}
	}
	// depth 0: every leaf
	fs = append(fs, &fam{Name: "d0 leaf", Kind: 0, Slots: [][]*T{full}})
	// depth 1
	add("d1 empty", nil, keyVariants)
	add("d1 one child, every leaf", [][]*T{full}, first(1))
	add("d1 one child, every key", [][]*T{red}, keyVariants)
	add("d1 two children", [][]*T{red, red}, keyVariants)
	add("d1 three children", [][]*T{tiny, tiny, tiny}, keyVariants)
	// mixed arrays (positional and named slots in one ArrayValue: what element assignment on a
	// list, or a push on a keyed array, builds -- no literal has this shape)
	addX := func(name string, pools [][]*T, names []string) {
		for _, kv := range mixedPatterns(len(pools), names) {
			fs = append(fs, &fam{Name: name, Kind: 'x', Keys: kv, Slots: pools})
		}
	}
	one := []*T{tInt(1)}
	addX("d1 mixed array, two slots, every leaf", [][]*T{full, one}, mixedNames())
	addX("d1 mixed array, two slots, every leaf", [][]*T{one, full}, mixedNames())
	addX("d1 mixed array, two slots", [][]*T{red, red}, mixedNames())
	addX("d1 mixed array, three slots", [][]*T{tiny, tiny, tiny}, mixedNames())
	if !quick {
		addX("d1 mixed array, four slots", [][]*T{tiny[:3], tiny[:3], tiny[:3], tiny[:3]}, mixedNames())
	}
	// depth 2 with mixed arrays: a mixed array inside every container kind, and containers of every
	// kind inside a mixed array
	xs := mixedOver(tiny[:3], 2, mixedNames()[:2])
	xkids := append(append(append([]*T{}, tiny[:3]...), xs...), containersOver(tiny[:2], 1, false)...)
	add("d2 one child: a mixed array", [][]*T{mixedOver(tiny[:3], 3, mixedNames())}, first(2))
	add("d2 two children incl. mixed arrays", [][]*T{xkids, xkids}, first(2))
	addX("d2 mixed array of containers", [][]*T{xkids, xkids}, mixedNames()[:2])
	if !quick {
		addX("d2 mixed array of containers, three slots", [][]*T{xkids, xkids, xkids}, mixedNames()[:2])
	}
	// depth 2: children are leaves or depth-1 containers
	d1small := append(append([]*T{}, tiny...), containersOver(tiny[:4], 2, false)...)
	d1all := append(append([]*T{}, red...), containersOver(red, 1, true)...)
	add("d2 one child, every d1 shape over reduced leaves", [][]*T{d1all}, first(2))
	add("d2 two children", [][]*T{d1small, d1small}, first(3))
	if !quick {
		d1mid := append(append([]*T{}, tiny[:4]...), containersOver(tiny[:3], 2, false)...)
		add("d2 three children", [][]*T{d1mid, d1mid, d1mid}, first(2))
		// depth 3
		d2small := append(append([]*T{}, d1small...), containersOver(d1mid, 1, false)...)
		add("d3 one child", [][]*T{containersOver(d1small, 2, false)}, first(1))
		add("d3 two children", [][]*T{d2small, d2small}, first(2))
	} else {
		d1mid := append(append([]*T{}, tiny[:3]...), containersOver(tiny[:2], 1, false)...)
		add("d2 three children", [][]*T{d1mid, d1mid, d1mid}, first(1))
		add("d3 one child", [][]*T{containersOver(d1mid, 2, false)}, first(1))
	}
	return fs
}

// ---- the checks on one tree -------------------------------------------------------------------

func hasBadUTF8(t *T) bool {
	if t.K == 's' && !utf8.Valid(t.S) {
		return true
	}
	for i, c := range t.C {
		if i < len(t.Keys) && !utf8.ValidString(t.Keys[i]) {
			return true
		}
		if hasBadUTF8(c) {
			return true
		}
	}
	return false
}

func strOf(r callRes) (string, bool) {
	if r.Kind != "ok" {
		return "", false
	}
	s, ok := r.V.(*data.StringValue)
	if !ok {
		return "", false
	}
	return s.Value, true
}

func crashClause(r callRes) string {
	switch r.Kind {
	case "panic":
		return "crash"
	case "fuel":
		return "no-termination"
	}
	return ""
}

func isRefusal(r callRes) bool {
	if r.Kind == "throw" {
		return true
	}
	if r.Kind == "ok" {
		if b, ok := r.V.(*data.BoolValue); ok && !b.Value {
			return true
		}
	}
	return false
}

var iterSel int

func withIter(sel int, f func()) {
	iterSel = sel
	vshim.OnIter = func(n int, site string) int { return iterSel }
	defer func() { vshim.OnIter = nil }()
	f()
}

// treeFailures returns every (codec, clause) the tree violates, with a detail text.
func treeFailures(e *env, t *T) map[[2]string]string { return treeFailuresFor(e, t, "") }

// treeFailuresFor restricts the work to the codec group of `codec` ("" = both groups).
func treeFailuresFor(e *env, t *T, codec string) map[[2]string]string {
	out := map[[2]string]string{}
	v := t.toData()
	exp := t.canon()
	bad := hasBadUTF8(t)
	doJSON := codec == "" || strings.HasPrefix(codec, "json")
	doSer := codec == "" || !strings.HasPrefix(codec, "json")

	// ---- JSON
	func() {
		if !doJSON {
			return
		}
		r := e.call("json_encode", v)
		if c := crashClause(r); c != "" {
			out[[2]string{"json_encode", c}] = r.Msg + r.Panic
			return
		}
		if bad && isRefusal(r) {
			return // a string that is not valid UTF-8 has no JSON form: refusing is faithful
		}
		js, ok := strOf(r)
		if !ok {
			out[[2]string{"json_encode", "error"}] = fmt.Sprintf("json_encode(%s) did not return a string: %s %s", exp, r.Kind, show(r.V))
			return
		}
		ref, ok := jsonRef(js)
		if !ok {
			out[[2]string{"json_encode", "readback-invalid"}] = fmt.Sprintf("json_encode(%s) = %q is rejected by encoding/json", exp, js)
			return
		}
		if d := diff(exp, ref, false); d != "" {
			out[[2]string{"json_encode", "readback"}] = fmt.Sprintf("json_encode(%s) = %q, which encoding/json reads as %s (%s differs)", exp, js, ref, d)
			return
		}
		for _, mode := range []string{"assoc", "default"} {
			for sel := 0; sel < 2; sel++ {
				var dr callRes
				withIter(sel, func() {
					if mode == "assoc" {
						dr = e.call("json_decode", data.NewStringValue(js), data.NewBoolValue(true))
					} else {
						dr = e.call("json_decode", data.NewStringValue(js))
					}
				})
				name := "json_decode"
				if mode == "default" {
					name = "json_decode(default)"
				}
				if c := crashClause(dr); c != "" {
					out[[2]string{name, c}] = dr.Msg + dr.Panic
					break
				}
				if dr.Kind != "ok" || (isNull(dr.V) && exp.K != 'n') {
					out[[2]string{name, "reject-valid"}] = fmt.Sprintf("json_decode(json_encode(v)) with v = %s, json = %q (%s mode) gave %s %s", exp, js, mode, dr.Kind, show(dr.V))
					break
				}
				got := fromData(dr.V)
				if d := diff(exp, got, true); d != "" {
					out[[2]string{name, "decode"}] = fmt.Sprintf("json_decode(json_encode(v)) with v = %s, json = %q (%s mode, map iteration choice %d) gave %s (%s differs)", exp, js, mode, sel, got, d)
					break
				}
			}
		}
	}()

	// ---- serialize
	func() {
		if !doSer {
			return
		}
		r := e.call("serialize", v)
		if c := crashClause(r); c != "" {
			out[[2]string{"serialize", c}] = r.Msg + r.Panic
			return
		}
		s, ok := strOf(r)
		if !ok {
			out[[2]string{"serialize", "error"}] = fmt.Sprintf("serialize(%s) did not return a string: %s %s", exp, r.Kind, show(r.V))
			return
		}
		ref, verdict := phpUnser(s)
		if verdict != 1 {
			out[[2]string{"serialize", "readback-invalid"}] = fmt.Sprintf("serialize(%s) = %q is not well-formed", exp, s)
			return
		}
		if d := diff(exp, ref, true); d != "" {
			out[[2]string{"serialize", "readback"}] = fmt.Sprintf("serialize(%s) = %q, which reads as %s (%s differs)", exp, s, ref, d)
			return
		}
		dr := e.call("unserialize", data.NewStringValue(s))
		if c := crashClause(dr); c != "" {
			out[[2]string{"unserialize", c}] = dr.Msg + dr.Panic
			return
		}
		if b, isB := dr.V.(*data.BoolValue); dr.Kind != "ok" || (isB && !b.Value && !(exp.K == 'b' && !exp.B)) {
			out[[2]string{"unserialize", "reject-valid"}] = fmt.Sprintf("unserialize(serialize(v)) with v = %s, text = %q gave %s %s", exp, s, dr.Kind, show(dr.V))
			return
		}
		got := fromData(dr.V)
		if d := diff(exp, got, true); d != "" {
			out[[2]string{"unserialize", "decode"}] = fmt.Sprintf("unserialize(serialize(v)) with v = %s, text = %q gave %s (%s differs)", exp, s, got, d)
		}
	}()
	return out
}

func show(v data.Value) string {
	if v == nil {
		return "<nil>"
	}
	return fromData(v).String()
}

// ---- worker ---------------------------------------------------------------------------------------

type rec struct {
	Kind    string           `json:"kind"` // "count" | "fail" | "sample" | "note"
	Fam     string           `json:"fam,omitempty"`
	N       int64            `json:"n,omitempty"`
	Calls   int64            `json:"calls,omitempty"`
	Key     string           `json:"key,omitempty"`
	Clause  string           `json:"clause,omitempty"`
	Case    any              `json:"case,omitempty"`
	Detail  string           `json:"detail,omitempty"`
	Size    int              `json:"size,omitempty"`
	Count   int64            `json:"count,omitempty"`
	Ms      int64            `json:"ms,omitempty"`
	Outcome map[string]int64 `json:"outcome,omitempty"`
}

type valShard struct {
	Quick bool  `json:"quick"`
	Seed  int   `json:"seed"`
	Fam   int   `json:"fam"`
	Lo    int64 `json:"lo"`
	Hi    int64 `json:"hi"`
}

type treeCase struct {
	Kind  string `json:"kind"` // "tree"
	Codec string `json:"codec"`
	Tree  *T     `json:"tree"`
	Descr string `json:"descr"`
}

// failSet accumulates failures per key inside one shard.
type failSet struct {
	m map[string]*rec
}

func (fs *failSet) add(key, clause string, size int, cs any, detail string) {
	if fs.m == nil {
		fs.m = map[string]*rec{}
	}
	r := fs.m[key]
	if r == nil {
		fs.m[key] = &rec{Kind: "fail", Key: key, Clause: clause, Size: size, Case: cs, Detail: detail, Count: 1}
		return
	}
	r.Count++
	if size < r.Size {
		r.Size, r.Case, r.Detail = size, cs, detail
	}
}

// bump counts one more case under a key this shard already holds a representative for.
func (fs *failSet) bump(key string) bool {
	if r := fs.m[key]; r != nil {
		r.Count++
		return true
	}
	return false
}

func (fs *failSet) flush(w *pool.W) {
	for _, r := range fs.m {
		w.Emit(r)
	}
}

// reportTree reduces a failing tree per (codec, clause) and files it under its key.
func reportTree(e *env, fs *failSet, t *T, fails map[[2]string]string, cache map[string]string) {
	for cc := range fails {
		ck := cc[0] + "|" + cc[1] + "|" + t.class()
		key, ok := cache[ck]
		var red *T
		if !ok {
			red = reduceTree(t, func(c *T) bool { _, bad := treeFailuresFor(e, c, cc[0])[cc]; return bad })
			key = cc[0] + ":" + treeKeyClass(cc[0], red) + ":" + cc[1]
			cache[ck] = key
			detail := treeFailuresFor(e, red, cc[0])[cc]
			fs.add(key, cc[1], red.size(), treeCase{Kind: "tree", Codec: cc[0], Tree: red, Descr: red.canon().String()}, detail)
			continue
		}
		// same (codec, clause, class of the unreduced tree) already reduced by this worker: count it
		// under the key found then (a different bug of the same class would differ in class or clause)
		if fs.bump(key) {
			continue
		}
		fs.add(key, cc[1], 1<<29, treeCase{Kind: "tree", Codec: cc[0], Tree: t, Descr: t.canon().String()}, fails[cc])
	}
}

// treeKeyClass: when json_decode without assoc fails even on the neutral document `0`, the class is
// "any document whose top level is not an object".
func treeKeyClass(codec string, red *T) string {
	if codec == "json_decode(default)" && red.K == 'i' && red.I == 0 {
		return "non-object-document" // even the neutral scalar fails: the content does not matter
	}
	if codec == "unserialize" {
		// keyed by what the text handed to unserialize needs (same classes as the decoder family)
		if s, ok := strOf(getEnv().call("serialize", red.toData())); ok {
			if c := cstParse(s); c != nil {
				failsText := func(x string) bool { return len(serDecFailures(getEnv(), x)) > 0 }
				if failsText(s) {
					return serFeatures(cstReduce(c, failsText).render())
				}
			}
			return serFeatures(s)
		}
	}
	return red.class()
}

// per-worker-process memo: (codec, clause, class of the unreduced tree) -> finding key
var valCache = map[string]string{}

func valWorker(w *pool.W, arg json.RawMessage) {
	t0 := time.Now()
	var sh valShard
	json.Unmarshal(arg, &sh)
	seedRot = sh.Seed
	e := getEnv()
	fams := valueFamilies(sh.Quick)
	f := fams[sh.Fam]
	fs := &failSet{}
	cache := valCache
	outcomes := map[string]int64{}
	var n int64
	for i := sh.Lo; i < sh.Hi; i++ {
		if !w.Item(fmt.Sprintf("val %d/%d", sh.Fam, i)) {
			continue
		}
		t := f.tree(i)
		n++
		fails := treeFailures(e, t)
		if len(fails) == 0 {
			outcomes["tree ok"]++
			continue
		}
		for cc := range fails {
			outcomes[cc[0]+" "+cc[1]]++
		}
		reportTree(e, fs, t, fails, cache)
	}
	fs.flush(w)
	w.Emit(rec{Kind: "count", Fam: "values: " + f.Name, N: n, Calls: n * 7, Outcome: outcomes, Ms: time.Since(t0).Milliseconds()})
	if sh.Lo == 0 && f.n() > 1 {
		t := f.tree(f.n() - 1)
		r := e.call("json_encode", t.toData())
		r2 := e.call("serialize", t.toData())
		w.Emit(rec{Kind: "sample", Case: map[string]any{"family": "values: " + f.Name, "value": t.canon().String(), "json_encode": show(r.V), "serialize": show(r2.V)}})
	}
}

// ---- script-level binding pass ----------------------------------------------------------------

type bindShard struct {
	Seed int `json:"seed"`
	Lo   int `json:"lo"`
	Hi   int `json:"hi"`
}

// bindTrees: every value tree of depth <= 1 with at most one child (every leaf, every leaf inside
// each container kind), plus the empty containers and the keyed two-child shapes.
func bindTrees() []*T {
	full := fullLeaves()
	out := append([]*T{}, full...)
	a := string([]byte{letter('a')})
	for _, l := range full {
		out = append(out, tList(l), tMap('m', []string{a}, []*T{l}), tMap('k', []string{a}, []*T{l}))
	}
	out = append(out, containersOver(tinyLeaves()[:3], 2, true)...)
	// mixed arrays: every leaf in a positional and in a named slot, every slot pattern up to three
	// slots, and one level of nesting in each direction
	b := string([]byte{letter('b')})
	for _, l := range full {
		out = append(out, tMap('x', []string{"", a}, []*T{tInt(1), l}), tMap('x', []string{a, ""}, []*T{tInt(1), l}),
			tMap('x', []string{"", a}, []*T{l, tInt(1)}), tMap('x', []string{a, ""}, []*T{l, tInt(1)}))
	}
	xs := mixedOver(tinyLeaves()[:2], 3, mixedNames())
	out = append(out, xs...)
	for _, x := range mixedOver(tinyLeaves()[:1], 3, mixedNames()[:2]) {
		out = append(out, tList(x), tList(tInt(1), x), tMap('m', []string{a}, []*T{x}), tMap('k', []string{a}, []*T{x}),
			tMap('x', []string{"", b}, []*T{x, x}), tMap('x', []string{b, ""}, []*T{tList(tInt(1)), x}))
	}
	return out
}

func sameRepr(a, b data.Value) bool {
	switch x := a.(type) {
	case *data.ArrayValue:
		y, ok := b.(*data.ArrayValue)
		if !ok || len(x.List) != len(y.List) {
			return false
		}
		for i := range x.List {
			if x.List[i].Name != y.List[i].Name || !sameRepr(x.List[i].Value, y.List[i].Value) {
				return false
			}
		}
		return true
	case *data.ObjectValue:
		y, ok := b.(*data.ObjectValue)
		if !ok {
			return false
		}
		var ka, kb []string
		var va, vb []data.Value
		x.RangeProperties(func(k string, v data.Value) bool { ka = append(ka, k); va = append(va, v); return true })
		y.RangeProperties(func(k string, v data.Value) bool { kb = append(kb, k); vb = append(vb, v); return true })
		if strings.Join(ka, "\x00") != strings.Join(kb, "\x00") || len(va) != len(vb) {
			return false
		}
		for i := range va {
			if !sameRepr(va[i], vb[i]) {
				return false
			}
		}
		return true
	case *data.FloatValue:
		y, ok := b.(*data.FloatValue)
		return ok && (x.Value == y.Value && math.Signbit(x.Value) == math.Signbit(y.Value))
	}
	if a == nil || b == nil {
		return a == nil && b == nil
	}
	return fmt.Sprintf("%T", a) == fmt.Sprintf("%T", b) && a.AsString() == b.AsString()
}

func reprOf(v data.Value) string {
	switch x := v.(type) {
	case nil:
		return "<nil>"
	case *data.ArrayValue:
		s := "Array["
		for _, z := range x.List {
			s += fmt.Sprintf("%q=>%s,", z.Name, reprOf(z.Value))
		}
		return s + "]"
	case *data.ObjectValue:
		s := "Object{"
		x.RangeProperties(func(k string, v data.Value) bool { s += fmt.Sprintf("%q:%s,", k, reprOf(v)); return true })
		return s + "}"
	}
	return fmt.Sprintf("%T(%q)", v, v.AsString())
}

func bindWorker(w *pool.W, arg json.RawMessage) {
	var sh bindShard
	t0 := time.Now()
	json.Unmarshal(arg, &sh)
	seedRot = sh.Seed
	e := getEnv()
	trees := bindTrees()
	fs := &failSet{}
	var n, unbound int64
	outcomes := map[string]int64{}
	for i := sh.Lo; i < sh.Hi && i < len(trees); i++ {
		if !w.Item(fmt.Sprintf("bind %d", i)) {
			continue
		}
		t := trees[i]
		n++
		src := t.script("v") + "$j = json_encode($v);\n$s = serialize($v);\n$ja = json_decode($j, true);\n$jd = json_decode($j);\n$u = null;\nif (is_string($s)) { $u = unserialize($s); }\n"
		res, sess := runner.RunKeep(src, runner.Opts{})
		if res.Kind != "ok" {
			sess.Close()
			fs.add("binding:"+t.class()+":script-"+res.Kind, "binding", t.size(), map[string]any{"kind": "bind", "tree": t, "script": src}, fmt.Sprintf("script did not run: %s %s %s %s", res.Kind, res.Class, res.Msg, res.PanicKey))
			outcomes["script "+res.Kind]++
			continue
		}
		sv := sess.Var("v")
		if !sameRepr(sv, t.toData()) {
			// the script surface builds another representation than the harness: not comparable
			unbound++
			outcomes["script value differs from direct construction"]++
			if unbound <= 2 {
				w.Emit(rec{Kind: "note", Detail: fmt.Sprintf("unbound: script %q built %s, harness builds %s", src, reprOf(sv), reprOf(t.toData()))})
			}
			sess.Close()
			continue
		}
		v := t.toData()
		dj := e.call("json_encode", v)
		ds := e.call("serialize", v)
		cmp := func(what string, script data.Value, direct callRes) {
			if direct.Kind != "ok" || !sameRepr(script, direct.V) {
				fs.add("binding:"+what+":"+t.class(), "binding", t.size(), map[string]any{"kind": "bind", "tree": t, "script": src}, fmt.Sprintf("%s: script gave %s, direct call gave %s %s", what, reprOf(script), direct.Kind, reprOf(direct.V)))
				outcomes["binding differs "+what]++
			} else {
				outcomes["bound "+what]++
			}
		}
		cmp("json_encode", sess.Var("j"), dj)
		cmp("serialize", sess.Var("s"), ds)
		if js, ok := strOf(dj); ok {
			var a, d callRes
			withIter(0, func() {
				// scripts run with native map order: compare only order-insensitively (P without order)
				a = e.call("json_decode", data.NewStringValue(js), data.NewBoolValue(true))
				d = e.call("json_decode", data.NewStringValue(js))
			})
			for _, x := range []struct {
				what   string
				script data.Value
				direct callRes
			}{{"json_decode", sess.Var("ja"), a}, {"json_decode(default)", sess.Var("jd"), d}} {
				if x.direct.Kind != "ok" || x.script == nil {
					continue
				}
				if dd := diff(fromData(x.direct.V), fromData(x.script), true); dd != "" && dd != "order" {
					fs.add("binding:"+x.what+":"+t.class(), "binding", t.size(), map[string]any{"kind": "bind", "tree": t, "script": src}, fmt.Sprintf("%s: script gave %s, direct call gave %s", x.what, reprOf(x.script), reprOf(x.direct.V)))
				} else {
					outcomes["bound "+x.what]++
				}
			}
		}
		if ss, ok := strOf(ds); ok {
			u := e.call("unserialize", data.NewStringValue(ss))
			cmp("unserialize", sess.Var("u"), u)
		}
		sess.Close()
	}
	fs.flush(w)
	outcomes["unbound"] += unbound
	w.Emit(rec{Kind: "count", Fam: "script binding: value trees", N: n, Calls: n * 6, Outcome: outcomes, Ms: time.Since(t0).Milliseconds()})
}
