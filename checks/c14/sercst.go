package main

import (
	"sort"
	"strconv"
	"strings"
)

// cst is the concrete syntax tree of a well-formed PHP-serialize text: leaves keep their exact
// spelling, arrays keep every key/value pair (duplicate and numeric-string keys included), so a
// text can be reduced token-wise without changing the spelling of what remains.
type cst struct {
	raw   string // leaf: the token text, e.g. `s:1:"a";`
	arr   bool
	pairs [][2]*cst
}

func cstParse(s string) *cst {
	r := &serReader{s: s}
	c := r.cst()
	if c == nil || r.amb || r.i != len(s) {
		return nil
	}
	return c
}

func (r *serReader) cst() *cst {
	if r.i >= len(r.s) {
		return nil
	}
	if r.s[r.i] != 'a' {
		st := r.i
		if r.value(0) == nil {
			return nil
		}
		return &cst{raw: r.s[st:r.i]}
	}
	if !r.lit("a:") {
		return nil
	}
	n, ok := r.uint()
	if !ok || !r.lit(":{") {
		return nil
	}
	c := &cst{arr: true}
	for j := 0; j < n; j++ {
		if r.i >= len(r.s) || (r.s[r.i] != 'i' && r.s[r.i] != 's') {
			return nil
		}
		k := r.cst()
		if k == nil {
			return nil
		}
		v := r.cst()
		if v == nil {
			return nil
		}
		c.pairs = append(c.pairs, [2]*cst{k, v})
	}
	if !r.lit("}") {
		return nil
	}
	return c
}

func (c *cst) render() string {
	if !c.arr {
		return c.raw
	}
	var sb strings.Builder
	sb.WriteString("a:" + strconv.Itoa(len(c.pairs)) + ":{")
	for _, p := range c.pairs {
		sb.WriteString(p[0].render())
		sb.WriteString(p[1].render())
	}
	sb.WriteString("}")
	return sb.String()
}

func (c *cst) clone() *cst {
	n := &cst{raw: c.raw, arr: c.arr}
	for _, p := range c.pairs {
		n.pairs = append(n.pairs, [2]*cst{p[0].clone(), p[1].clone()})
	}
	return n
}

func (c *cst) size() int { return len(c.render()) }

// shrinks: hoist a value, drop a pair, value -> i:0; , key -> i:<index>; , recurse.
func (c *cst) shrinks() []*cst {
	var out []*cst
	if !c.arr {
		if c.raw != "N;" {
			out = append(out, &cst{raw: "N;"})
		}
		if strings.HasPrefix(c.raw, "s:") && c.raw != `s:0:"";` {
			out = append(out, &cst{raw: `s:0:"";`})
			if c.raw != `s:1:"a";` {
				out = append(out, &cst{raw: `s:1:"a";`})
			}
		}
		return out
	}
	for _, p := range c.pairs {
		out = append(out, p[1].clone())
	}
	for i := range c.pairs {
		n := c.clone()
		n.pairs = append(n.pairs[:i:i], n.pairs[i+1:]...)
		out = append(out, n)
	}
	out = append(out, &cst{raw: "N;"})
	for i, p := range c.pairs {
		want := "i:" + strconv.Itoa(i) + ";"
		if p[0].raw != want {
			n := c.clone()
			n.pairs[i][0] = &cst{raw: want}
			out = append(out, n)
		}
		if strings.HasPrefix(p[0].raw, "s:") && p[0].raw != `s:1:"a";` {
			n := c.clone()
			n.pairs[i][0] = &cst{raw: `s:1:"a";`}
			out = append(out, n)
		}
		for _, s := range p[1].shrinks() {
			n := c.clone()
			n.pairs[i][1] = s
			out = append(out, n)
		}
	}
	return out
}

func cstReduce(c *cst, fails func(string) bool) *cst {
	cur := c
	for changed := true; changed; {
		changed = false
		for _, cand := range cur.shrinks() {
			if (cand.size() < cur.size() || (cand.size() == cur.size() && len(serFeatures(cand.render())) < len(serFeatures(cur.render())))) && fails(cand.render()) {
				cur, changed = cand, true
				break
			}
		}
	}
	return cur
}

// serFeatures names what a reduced well-formed serialize text still needs: the multiset of its
// non-neutral tokens (everything except arrays and small integers), e.g. "2 x str", "float",
// "int>2^53".
func serFeatures(s string) string {
	c := cstParse(s)
	if c == nil {
		return textClass(s)
	}
	count := map[string]int{}
	var walk func(c *cst)
	walk = func(c *cst) {
		if c.arr {
			for _, p := range c.pairs {
				walk(p[0])
				walk(p[1])
			}
			return
		}
		p, _ := phpUnser(c.raw)
		if p == nil {
			count["?"]++
			return
		}
		cl := pToT(p).class()
		switch cl {
		case "int", "null", "bool":
			return
		case "str-alnum", "str-empty", "str-numeric":
			cl = "str"
		case "float-frac", "float-integral", "float-exp":
			cl = "float"
		}
		count[cl]++
	}
	walk(c)
	if len(count) == 0 {
		if c.arr {
			return "array-of-plain-scalars"
		}
		return "plain-scalar"
	}
	var parts []string
	for k, n := range count {
		if n > 1 {
			k = "2 x " + k // two or more
		}
		parts = append(parts, k)
	}
	sort.Strings(parts)
	return strings.Join(parts, " + ")
}
