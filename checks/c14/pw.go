package main

import (
	"bytes"
	"encoding/json"
	"errors"
	"fmt"
	"runtime/debug"
	"strings"
	"time"

	pw "google.golang.org/protobuf/encoding/protowire"

	"github.com/php-any/origami/data"
	opw "github.com/php-any/origami/std/protowire"
	"github.com/php-any/origami/utils/vshim"

	"verif/engine/pool"
	"verif/engine/runner"
)

// ---- options --------------------------------------------------------------------------------------

type pwOpts struct {
	Msg      []int32 `json:"msg,omitempty"`
	Packed   []int32 `json:"packed,omitempty"`
	Elem     int32   `json:"elem"`      // element wire type of every packed field: 0, 5 or 1
	MaxDepth int     `json:"max_depth"` // 0 = unset (default 64)
	po       *opw.ParseOptions
}

func (o *pwOpts) String() string {
	return fmt.Sprintf("message_fields=%v packed_fields=%v packed_element_type=%d max_depth=%d", o.Msg, o.Packed, o.Elem, o.MaxDepth)
}

func has(s []int32, f int32) bool {
	for _, x := range s {
		if x == f {
			return true
		}
	}
	return false
}

// impl returns the (memoised) ParseOptions; ParseRawFields only ever normalises MaxDepth<=0 to 64
// in it, which keeps its meaning.
func (o *pwOpts) impl() *opw.ParseOptions {
	if o.po == nil {
		o.po = o.implNew()
	}
	return o.po
}

func (o *pwOpts) implNew() *opw.ParseOptions {
	po := &opw.ParseOptions{MaxDepth: o.MaxDepth}
	if len(o.Msg) > 0 {
		po.MessageFields = map[int32]bool{}
		for _, f := range o.Msg {
			po.MessageFields[f] = true
		}
	}
	if len(o.Packed) > 0 {
		po.PackedFields = map[int32]bool{}
		po.PackedElementType = map[int32]int32{}
		for _, f := range o.Packed {
			po.PackedFields[f] = true
			po.PackedElementType[f] = o.Elem
		}
	}
	return po
}

// php builds the options array as a script literal would (nested keyed maps = ObjectValue).
func (o *pwOpts) php() data.Value {
	top := data.NewObjectValue()
	if len(o.Msg) > 0 {
		m := data.NewObjectValue()
		for _, f := range o.Msg {
			m.SetProperty(fmt.Sprint(f), data.NewBoolValue(true))
		}
		top.SetProperty("message_fields", m)
	}
	if len(o.Packed) > 0 {
		m, t := data.NewObjectValue(), data.NewObjectValue()
		for _, f := range o.Packed {
			m.SetProperty(fmt.Sprint(f), data.NewBoolValue(true))
			t.SetProperty(fmt.Sprint(f), data.NewIntValue(int(o.Elem)))
		}
		top.SetProperty("packed_fields", m)
		top.SetProperty("packed_element_type", t)
	}
	if o.MaxDepth != 0 {
		top.SetProperty("max_depth", data.NewIntValue(o.MaxDepth))
	}
	return top
}

func (o *pwOpts) phpLiteral() string {
	var parts []string
	lit := func(fs []int32, v string) string {
		var p []string
		for _, f := range fs {
			p = append(p, fmt.Sprintf("%d => %s", f, v))
		}
		return "[" + strings.Join(p, ", ") + "]"
	}
	if len(o.Msg) > 0 {
		parts = append(parts, "'message_fields' => "+lit(o.Msg, "true"))
	}
	if len(o.Packed) > 0 {
		parts = append(parts, "'packed_fields' => "+lit(o.Packed, "true"), "'packed_element_type' => "+lit(o.Packed, fmt.Sprint(o.Elem)))
	}
	if o.MaxDepth != 0 {
		parts = append(parts, fmt.Sprintf("'max_depth' => %d", o.MaxDepth))
	}
	return "[" + strings.Join(parts, ", ") + "]"
}

var subsets12 = [][]int32{nil, {1}, {2}, {1, 2}}
var elemTypes = []int32{0, 5, 1}
var depthChoices = []int{0, 1, 2, 3}

// relevantCombos returns every option combination that can influence the parse of b: options
// of field f matter only if some byte has low seven bits f<<3|2 (first byte of every varint
// spelling of that tag), max_depth only if something can nest.
var combosByMask [8][]pwOpts

func relevantCombos(b []byte) []pwOpts {
	mask := 0
	for _, c := range b {
		switch c & 0x7f {
		case 0x0a:
			mask |= 1
		case 0x12:
			mask |= 2
		}
		if c&7 == 3 {
			mask |= 4
		}
	}
	if combosByMask[mask] == nil {
		combosByMask[mask] = buildCombos(mask&1 != 0, mask&2 != 0, mask&4 != 0)
	}
	return combosByMask[mask]
}

func buildCombos(rel1, rel2, group bool) []pwOpts {
	rel := map[int32]bool{1: rel1, 2: rel2}
	ok := func(s []int32) bool {
		for _, f := range s {
			if !rel[f] {
				return false
			}
		}
		return true
	}
	var out []pwOpts
	for _, m := range subsets12 {
		if !ok(m) {
			continue
		}
		for _, p := range subsets12 {
			if !ok(p) {
				continue
			}
			elems := elemTypes
			if len(p) == 0 {
				elems = elemTypes[:1]
			}
			for _, el := range elems {
				depths := depthChoices
				if !group && len(m) == 0 {
					depths = depthChoices[:1]
				}
				for _, d := range depths {
					out = append(out, pwOpts{Msg: m, Packed: p, Elem: el, MaxDepth: d})
				}
			}
		}
	}
	return out
}

func allCombos() []pwOpts {
	return relevantCombos([]byte{0x0a, 0x12, 0x0b})
}

// ---- reference walker -------------------------------------------------------------------------------

type rf struct {
	Num int32
	Typ int32
	V   any // uint64 | uint32 | []byte | []rf | []uint64 | []uint32
}

type walker struct {
	o           *pwOpts
	maxDepth    int
	packedFirst bool
}

// levels: the top-level message is level 1, the content of every nested message or group is one
// level deeper; a limit of N admits N levels (this is what the repository's own TestDepthLimit
// pins for messages: MaxDepth 5 rejects six levels, and the default is documented as 64).
func (w *walker) fields(b []byte, level int) ([]rf, string) {
	if level > w.maxDepth {
		return nil, "depth"
	}
	var out []rf
	for len(b) > 0 {
		num, typ, n := pw.ConsumeTag(b)
		if n < 0 {
			return nil, "syntax"
		}
		b = b[n:]
		if typ == pw.EndGroupType {
			return nil, "syntax" // end-group with no open group
		}
		f, rest, e := w.value(b, num, typ, level)
		if e != "" {
			return nil, e
		}
		out = append(out, f)
		b = rest
	}
	return out, ""
}

func (w *walker) value(b []byte, num pw.Number, typ pw.Type, level int) (rf, []byte, string) {
	f := rf{Num: int32(num), Typ: int32(typ)}
	switch typ {
	case pw.VarintType:
		v, n := pw.ConsumeVarint(b)
		if n < 0 {
			return f, nil, "syntax"
		}
		f.V = v
		return f, b[n:], ""
	case pw.Fixed32Type:
		v, n := pw.ConsumeFixed32(b)
		if n < 0 {
			return f, nil, "syntax"
		}
		f.V = v
		return f, b[n:], ""
	case pw.Fixed64Type:
		v, n := pw.ConsumeFixed64(b)
		if n < 0 {
			return f, nil, "syntax"
		}
		f.V = v
		return f, b[n:], ""
	case pw.BytesType:
		p, n := pw.ConsumeBytes(b)
		if n < 0 {
			return f, nil, "syntax"
		}
		isP, isM := has(w.o.Packed, int32(num)), has(w.o.Msg, int32(num))
		switch {
		case isP && (w.packedFirst || !isM):
			v, e := w.packed(p)
			if e != "" {
				return f, nil, e
			}
			f.V = v
		case isM:
			inner, e := w.fields(p, level+1)
			if e != "" {
				return f, nil, e
			}
			if inner == nil {
				inner = []rf{}
			}
			f.V = inner
		default:
			f.V = p
		}
		return f, b[n:], ""
	case pw.StartGroupType:
		inner, rest, e := w.group(b, num, level+1)
		if e != "" {
			return f, nil, e
		}
		f.V = inner
		return f, rest, ""
	}
	return f, nil, "syntax"
}

func (w *walker) group(b []byte, gnum pw.Number, level int) ([]rf, []byte, string) {
	if level > w.maxDepth {
		return nil, nil, "depth"
	}
	out := []rf{}
	for len(b) > 0 {
		num, typ, n := pw.ConsumeTag(b)
		if n < 0 {
			return nil, nil, "syntax"
		}
		b = b[n:]
		if typ == pw.EndGroupType {
			if num != gnum {
				return nil, nil, "syntax"
			}
			return out, b, ""
		}
		f, rest, e := w.value(b, num, typ, level)
		if e != "" {
			return nil, nil, e
		}
		out = append(out, f)
		b = rest
	}
	return nil, nil, "syntax" // group never closed
}

func (w *walker) packed(p []byte) (any, string) {
	switch w.o.Elem {
	case 0:
		out := []uint64{}
		for len(p) > 0 {
			v, n := pw.ConsumeVarint(p)
			if n < 0 {
				return nil, "syntax"
			}
			out = append(out, v)
			p = p[n:]
		}
		return out, ""
	case 5:
		out := []uint32{}
		for len(p) > 0 {
			v, n := pw.ConsumeFixed32(p)
			if n < 0 {
				return nil, "syntax"
			}
			out = append(out, v)
			p = p[n:]
		}
		return out, ""
	case 1:
		out := []uint64{}
		for len(p) > 0 {
			v, n := pw.ConsumeFixed64(p)
			if n < 0 {
				return nil, "syntax"
			}
			out = append(out, v)
			p = p[n:]
		}
		return out, ""
	}
	return nil, "syntax"
}

func effDepth(o *pwOpts) int {
	if o.MaxDepth <= 0 {
		return 64
	}
	return o.MaxDepth
}

// refParse: every defensible reading (packed-before-message and message-before-packed when a
// field is configured as both).
func refParse(b []byte, o *pwOpts, maxDepth int) (trees [][]rf, errs []string) {
	both := false
	for _, f := range o.Packed {
		if has(o.Msg, f) {
			both = true
		}
	}
	for _, pf := range []bool{true, false} {
		w := &walker{o: o, maxDepth: maxDepth, packedFirst: pf}
		t, e := w.fields(b, 1)
		trees = append(trees, t)
		errs = append(errs, e)
		if !both {
			break
		}
	}
	return
}

// consumeFieldLoop is protowire's own whole-field consumer, used to cross-check the walker with
// no options (self-test of the oracle).
func consumeFieldLoop(b []byte) bool {
	for len(b) > 0 {
		num, typ, n := pw.ConsumeField(b)
		if n < 0 {
			return false
		}
		_ = num
		if typ == pw.EndGroupType {
			return false
		}
		b = b[n:]
	}
	return true
}

// ---- implementation side --------------------------------------------------------------------------------

type implRes struct {
	F     []opw.Field
	Err   error
	Crash string // "crash" | "no-termination"
	Msg   string
}

func implParse(b []byte, o *pwOpts) ([]opw.Field, error) {
	return opw.ParseRawFields(b, o.impl())
}

func implParseGuarded(b []byte, o *pwOpts) (res implRes) {
	defer func() {
		r := recover()
		vshim.SetFuel(0)
		if r != nil {
			if _, ok := r.(vshim.FuelExhausted); ok {
				res = implRes{Crash: "no-termination"}
				return
			}
			msg := fmt.Sprint(r)
			res = implRes{Crash: "crash", Msg: "panic:" + runner.PanicClass(msg) + "@" + runner.FirstFrame(string(debug.Stack()))}
		}
	}()
	vshim.SetFuel(directFuel)
	f, err := implParse(b, o)
	return implRes{F: f, Err: err}
}

func sameTree(i []opw.Field, r []rf) bool {
	if len(i) != len(r) {
		return false
	}
	for k := range i {
		if i[k].Number != r[k].Num || i[k].WireType != r[k].Typ {
			return false
		}
		switch rv := r[k].V.(type) {
		case uint64:
			if iv, ok := i[k].Value.(uint64); !ok || iv != rv {
				return false
			}
		case uint32:
			if iv, ok := i[k].Value.(uint32); !ok || iv != rv {
				return false
			}
		case []byte:
			if iv, ok := i[k].Value.([]byte); !ok || !bytes.Equal(iv, rv) {
				return false
			}
		case []rf:
			iv, ok := i[k].Value.([]opw.Field)
			if !ok || !sameTree(iv, rv) {
				return false
			}
		case []uint64:
			iv, ok := i[k].Value.([]uint64)
			if !ok || len(iv) != len(rv) {
				return false
			}
			for x := range iv {
				if iv[x] != rv[x] {
					return false
				}
			}
		case []uint32:
			iv, ok := i[k].Value.([]uint32)
			if !ok || len(iv) != len(rv) {
				return false
			}
			for x := range iv {
				if iv[x] != rv[x] {
					return false
				}
			}
		default:
			return false
		}
	}
	return true
}

func treeString(r []rf) string {
	var sb strings.Builder
	sb.WriteString("[")
	for i, f := range r {
		if i > 0 {
			sb.WriteString(" ")
		}
		switch v := f.V.(type) {
		case []rf:
			fmt.Fprintf(&sb, "%d/%d:%s", f.Num, f.Typ, treeString(v))
		case []byte:
			fmt.Fprintf(&sb, "%d/%d:%x", f.Num, f.Typ, v)
		default:
			fmt.Fprintf(&sb, "%d/%d:%v", f.Num, f.Typ, v)
		}
	}
	sb.WriteString("]")
	return sb.String()
}

func implTreeString(fs []opw.Field) string {
	var sb strings.Builder
	sb.WriteString("[")
	for i, f := range fs {
		if i > 0 {
			sb.WriteString(" ")
		}
		switch v := f.Value.(type) {
		case []opw.Field:
			fmt.Fprintf(&sb, "%d/%d:%s", f.Number, f.WireType, implTreeString(v))
		case []byte:
			fmt.Fprintf(&sb, "%d/%d:%x", f.Number, f.WireType, v)
		default:
			fmt.Fprintf(&sb, "%d/%d:%v", f.Number, f.WireType, v)
		}
	}
	sb.WriteString("]")
	return sb.String()
}

// fieldsToP: what Protowire::parse must hand to the script for an accepted tree.
func fieldsToP(fs []opw.Field) *P {
	p := &P{K: 'a'}
	for i, f := range fs {
		e := &P{K: 'a'}
		e.set(PK{S: "number"}, &P{K: 'i', I: int64(f.Number)})
		e.set(PK{S: "wire_type"}, &P{K: 'i', I: int64(f.WireType)})
		var v *P
		switch x := f.Value.(type) {
		case uint64:
			v = &P{K: 'i', I: int64(x)}
		case uint32:
			v = &P{K: 'i', I: int64(x)}
		case []byte:
			v = &P{K: 's', S: string(x)}
		case []opw.Field:
			v = fieldsToP(x)
		case []uint64:
			v = &P{K: 'a'}
			for j, n := range x {
				v.set(PK{Int: true, I: int64(j)}, &P{K: 'i', I: int64(n)})
			}
		case []uint32:
			v = &P{K: 'a'}
			for j, n := range x {
				v.set(PK{Int: true, I: int64(j)}, &P{K: 'i', I: int64(n)})
			}
		default:
			v = &P{K: 'x', X: fmt.Sprintf("%T", x)}
		}
		e.set(PK{S: "value"}, v)
		p.set(PK{Int: true, I: int64(i)}, e)
	}
	return p
}

// pwFailure judges one (bytes, options) pair on the Go seam. clause "" = agrees.
func pwFailure(b []byte, o *pwOpts) (clause, detail string) { return pwFailureD(b, o, true) }

// pwClause is pwFailure without building the detail text (hot path).
func pwClause(b []byte, o *pwOpts) string { c, _ := pwFailureD(b, o, false); return c }

func pwFailureD(b []byte, o *pwOpts, wantDetail bool) (clause, detail string) {
	ir := implParseGuarded(b, o)
	if ir.Crash != "" {
		return ir.Crash, ir.Msg
	}
	trees, errs := refParse(b, o, effDepth(o))
	implAccepts := ir.Err == nil
	// agreement with one complete reading (a field configured packed *and* message has two)
	for i, e := range errs {
		if (e == "") == implAccepts && (!implAccepts || sameTree(ir.F, trees[i])) {
			return "", ""
		}
	}
	refAccepts := errs[0] == ""
	if !wantDetail {
		switch {
		case implAccepts && refAccepts:
			return "tree-differs", ""
		case implAccepts:
			t2, e2 := refParse(b, o, 1<<30)
			for i, e := range e2 {
				if e == "" && sameTree(ir.F, t2[i]) {
					return "depth-limit-exceeded", ""
				}
			}
			return "accept-invalid", ""
		case errors.Is(ir.Err, opw.ErrMaxDepth):
			return "depth-limit-early", ""
		}
		return "reject-valid", ""
	}
	switch {
	case implAccepts && refAccepts:
		return "tree-differs", fmt.Sprintf("ParseRawFields(% x, %s) = %s; the reference walker over protowire.Consume* reads %s", b, o, implTreeString(ir.F), treeString(trees[0]))
	case implAccepts && !refAccepts:
		t2, e2 := refParse(b, o, 1<<30)
		for i, e := range e2 {
			if e == "" && sameTree(ir.F, t2[i]) {
				return "depth-limit-exceeded", fmt.Sprintf("ParseRawFields(% x, %s) accepted %s although the input nests deeper than max_depth=%d levels", b, o, implTreeString(ir.F), effDepth(o))
			}
		}
		return "accept-invalid", fmt.Sprintf("ParseRawFields(% x, %s) = %s with no error; the reference walker rejects the input (bytes are not accounted for)", b, o, implTreeString(ir.F))
	default:
		if errors.Is(ir.Err, opw.ErrMaxDepth) {
			return "depth-limit-early", fmt.Sprintf("ParseRawFields(% x, %s) fails with %v although the input has no more than %d levels", b, o, ir.Err, effDepth(o))
		}
		return "reject-valid", fmt.Sprintf("ParseRawFields(% x, %s) fails with %v; the reference walker accepts %s", b, o, ir.Err, treeString(trees[0]))
	}
}

// ---- classes and reduction ------------------------------------------------------------------------------------

var wtNames = []string{"varint", "fixed64", "bytes", "group", "endgroup", "fixed32", "wt6", "wt7"}

// wireClass describes a (reduced) input leniently as a token sequence without numbers.
func wireClass(b []byte, o *pwOpts) string {
	var parts []string
	var walk func(b []byte, depth int)
	walk = func(b []byte, depth int) {
		for len(b) > 0 && len(parts) < 12 {
			num, typ, n := pw.ConsumeTag(b)
			if n < 0 {
				parts = append(parts, "badtag")
				return
			}
			b = b[n:]
			name := wtNames[typ&7]
			switch typ {
			case pw.VarintType, pw.Fixed32Type, pw.Fixed64Type:
				m := pw.ConsumeFieldValue(num, typ, b)
				if m < 0 {
					parts = append(parts, name+"(truncated)")
					return
				}
				parts = append(parts, name)
				b = b[m:]
			case pw.BytesType:
				p, m := pw.ConsumeBytes(b)
				if m < 0 {
					parts = append(parts, "bytes(overrun)")
					return
				}
				switch {
				case has(o.Packed, int32(num)):
					parts = append(parts, "packed")
				case has(o.Msg, int32(num)) && depth < 8:
					parts = append(parts, "msg{")
					walk(p, depth+1)
					parts = append(parts, "}")
				default:
					parts = append(parts, "bytes")
				}
				b = b[m:]
			default:
				parts = append(parts, name)
			}
		}
	}
	walk(b, 0)
	if len(parts) == 0 {
		return "empty"
	}
	return strings.Join(parts, " ")
}

func reducePW(b []byte, o pwOpts, clause string) ([]byte, pwOpts) {
	fails := func(b []byte, o pwOpts) bool { return pwClause(b, &o) == clause }
	cur := append([]byte{}, b...)
	for changed := true; changed; {
		changed = false
		// delete any contiguous range (longest first), then any pair of single bytes
		for l := len(cur); l >= 1 && !changed; l-- {
			for i := 0; i+l <= len(cur) && !changed; i++ {
				cand := append(append([]byte{}, cur[:i]...), cur[i+l:]...)
				if fails(cand, o) {
					cur, changed = cand, true
				}
			}
		}
		for i := 0; i < len(cur) && !changed && len(cur) <= 40; i++ {
			for j := i + 1; j < len(cur) && !changed; j++ {
				cand := append(append(append([]byte{}, cur[:i]...), cur[i+1:j]...), cur[j+1:]...)
				if fails(cand, o) {
					cur, changed = cand, true
				}
			}
		}
		// simpler options
		for _, alt := range []pwOpts{
			{Msg: o.Msg, Packed: nil, Elem: 0, MaxDepth: o.MaxDepth},
			{Msg: nil, Packed: o.Packed, Elem: o.Elem, MaxDepth: o.MaxDepth},
			{Msg: o.Msg, Packed: o.Packed, Elem: 0, MaxDepth: o.MaxDepth},
			{Msg: o.Msg, Packed: o.Packed, Elem: o.Elem, MaxDepth: 0},
		} {
			if !changed && alt.String() != o.String() && fails(cur, alt) {
				o, changed = alt, true
			}
		}
	}
	return cur, o
}

func pwKey(b []byte, o *pwOpts, clause string) string {
	cls := wireClass(b, o)
	if strings.HasPrefix(clause, "depth-limit") {
		// nesting findings are keyed by the kinds of nesting involved, not by the depth
		k := "message"
		if strings.Contains(cls, "group") {
			k = "group"
		}
		cls = k + "-nesting"
	}
	return "protowire:" + cls + ":" + clause
}

// ---- workers --------------------------------------------------------------------------------------------------------

var wireAlpha = []byte{0x08, 0x09, 0x0a, 0x0b, 0x0c, 0x0d, 0x10, 0x11, 0x12, 0x13, 0x14, 0x15, 0x00, 0x01, 0x02, 0x03, 0x7f, 0x80, 0xff}

type pwShard struct {
	Mode   string `json:"mode"` // "bytes" | "alpha" | "edit" | "ladder" | "method" | "script" | "encode"
	Len    int    `json:"len"`
	Prefix []int  `json:"prefix"`
	Lo     int    `json:"lo"`
	Hi     int    `json:"hi"`
	Quick  bool   `json:"quick"`
}

type pwCase struct {
	Kind  string `json:"kind"` // "pw"
	Bytes []byte `json:"bytes"`
	Opts  pwOpts `json:"opts"`
	Descr string `json:"descr"`
}

type pwRun struct {
	fs       *failSet
	outcomes map[string]int64
	cache    map[string]string
	n, calls int64
	selfErr  string
}

func (r *pwRun) one(b []byte, combos []pwOpts) {
	r.n++
	// oracle self-test: with no options the walker must agree with protowire.ConsumeField
	if _, errs := refParse(b, &pwOpts{}, 1<<30); (errs[0] == "") != consumeFieldLoop(b) && r.selfErr == "" {
		r.selfErr = fmt.Sprintf("reference walker and protowire.ConsumeField disagree on % x", b)
	}
	for ci := range combos {
		o := &combos[ci]
		r.calls++
		clause := pwClause(b, o)
		if clause == "" {
			continue
		}
		detail := ""
		r.outcomes["protowire "+clause]++
		ck := clause + "|" + wireClass(b, o)
		if key, ok := r.cache[ck]; ok {
			if r.fs.bump(key) {
				continue
			}
			_, detail = pwFailure(b, o)
			r.fs.add(key, clause, 1<<29+len(b), pwCase{Kind: "pw", Bytes: append([]byte{}, b...), Opts: *o, Descr: fmt.Sprintf("% x with %s", b, o)}, detail)
			continue
		}
		rb, ro := reducePW(b, *o, clause)
		key := pwKey(rb, &ro, clause)
		r.cache[ck] = key
		if c, d := pwFailure(rb, &ro); c == clause {
			detail = d
		}
		r.fs.add(key, clause, len(rb), pwCase{Kind: "pw", Bytes: rb, Opts: ro, Descr: fmt.Sprintf("% x with %s", rb, &ro)}, detail)
	}
}

// ---- reference-built messages (bases for edits, ladders) --------------------------------------------------

func pwBases() [][]byte {
	leaf := [][]byte{
		pw.AppendVarint(pw.AppendTag(nil, 1, pw.VarintType), 150),
		pw.AppendFixed32(pw.AppendTag(nil, 2, pw.Fixed32Type), 7),
		pw.AppendFixed64(pw.AppendTag(nil, 1, pw.Fixed64Type), 9),
		pw.AppendBytes(pw.AppendTag(nil, 2, pw.BytesType), []byte("ab")),
		pw.AppendBytes(pw.AppendTag(nil, 1, pw.BytesType), pw.AppendVarint(pw.AppendVarint(nil, 1), 300)),
		pw.AppendBytes(pw.AppendTag(nil, 2, pw.BytesType), pw.AppendFixed32(nil, 5)),
		pw.AppendBytes(pw.AppendTag(nil, 1, pw.BytesType), nil),
	}
	wrapM := func(f pw.Number, in []byte) []byte { return pw.AppendBytes(pw.AppendTag(nil, f, pw.BytesType), in) }
	wrapG := func(f pw.Number, in []byte) []byte {
		return pw.AppendTag(append(pw.AppendTag(nil, f, pw.StartGroupType), in...), f, pw.EndGroupType)
	}
	var l1 [][]byte
	l1 = append(l1, leaf...)
	for _, a := range leaf {
		l1 = append(l1, wrapM(1, a), wrapM(2, a), wrapG(1, a), wrapG(2, a))
	}
	l1 = append(l1, wrapG(1, nil), wrapG(2, nil))
	var out [][]byte
	out = append(out, l1...)
	for _, a := range l1[len(leaf):] {
		out = append(out, wrapM(1, a), wrapG(2, a), append(append([]byte{}, a...), leaf[0]...))
	}
	for _, a := range leaf[:4] {
		for _, b := range leaf[:4] {
			out = append(out, append(append([]byte{}, a...), b...))
		}
	}
	return out
}

type ladderCase struct {
	chain string // over 'M' (message, field 1) and 'G' (group, field 2), outermost first
	depth int    // max_depth option
}

func pwChain(chain string) []byte {
	inner := pw.AppendVarint(pw.AppendTag(nil, 1, pw.VarintType), 1)
	for i := len(chain) - 1; i >= 0; i-- {
		if chain[i] == 'M' {
			inner = pw.AppendBytes(pw.AppendTag(nil, 1, pw.BytesType), inner)
		} else {
			inner = pw.AppendTag(append(pw.AppendTag(nil, 2, pw.StartGroupType), inner...), 2, pw.EndGroupType)
		}
	}
	return inner
}

func pwLadders() []ladderCase {
	var out []ladderCase
	var chains []string
	var gen func(cur string, n int)
	gen = func(cur string, n int) {
		if len(cur) == n {
			chains = append(chains, cur)
			return
		}
		gen(cur+"M", n)
		gen(cur+"G", n)
	}
	for n := 0; n <= 6; n++ {
		gen("", n)
	}
	for _, c := range chains {
		for d := 1; d <= 8; d++ {
			out = append(out, ladderCase{c, d})
		}
		out = append(out, ladderCase{c, 0})
	}
	for n := 58; n <= 70; n++ {
		for _, pat := range []string{"M", "G", "MG", "GM", "MMG", "GGM"} {
			c := strings.Repeat(pat, n/len(pat)+1)[:n]
			for _, d := range []int{0, -1, 60, 62, 63, 64, 65, 66, 70, 71} {
				out = append(out, ladderCase{c, d})
			}
		}
	}
	return out
}

var pwCache = map[string]string{}

func pwWorker(w *pool.W, arg json.RawMessage) {
	var sh pwShard
	t0 := time.Now()
	json.Unmarshal(arg, &sh)
	run := &pwRun{fs: &failSet{}, outcomes: map[string]int64{}, cache: pwCache}
	fam := ""
	switch sh.Mode {
	case "bytes":
		fam = "protowire: all byte strings of length <= 3 x relevant option combinations (Go seam)"
		b := make([]byte, sh.Len)
		for i, p := range sh.Prefix {
			b[i] = byte(p)
		}
		var rec func(pos int)
		rec = func(pos int) {
			if pos == sh.Len {
				if !w.Item(fmt.Sprintf("pw bytes %x", b)) {
					return
				}
				run.one(b, relevantCombos(b))
				return
			}
			for c := 0; c < 256; c++ {
				b[pos] = byte(c)
				rec(pos + 1)
			}
		}
		rec(len(sh.Prefix))
	case "alpha":
		fam = fmt.Sprintf("protowire: all strings of <= k symbols over the %d-byte wire alphabet x relevant option combinations (Go seam)", len(wireAlpha))
		forSeq(len(wireAlpha), sh.Len, sh.Prefix, func(idx []int) {
			b := make([]byte, len(idx))
			for i, x := range idx {
				b[i] = wireAlpha[x]
			}
			if !w.Item(fmt.Sprintf("pw alpha %x", b)) {
				return
			}
			run.one(b, relevantCombos(b))
		})
	case "edit":
		fam = "protowire: edit-distance-1 neighbourhood of reference-encoded messages x relevant option combinations (Go seam)"
		bases := pwBases()
		alpha := make([]string, len(wireAlpha))
		for i, c := range wireAlpha {
			alpha[i] = string([]byte{c})
		}
		for i := sh.Lo; i < sh.Hi && i < len(bases); i++ {
			base := string(bases[i])
			if w.Item(fmt.Sprintf("pw base %x", base)) {
				run.one([]byte(base), relevantCombos([]byte(base)))
			}
			edits(base, alpha, func(kind, s string) {
				if !w.Item(fmt.Sprintf("pw edit %x", s)) {
					return
				}
				run.one([]byte(s), relevantCombos([]byte(s)))
			})
		}
	case "ladder":
		fam = "protowire: reference-built message/group chains to depth 70 x max_depth (Go seam)"
		ls := pwLadders()
		for i := sh.Lo; i < sh.Hi && i < len(ls); i++ {
			if !w.Item(fmt.Sprintf("pw ladder %s max_depth=%d", ls[i].chain, ls[i].depth)) {
				continue
			}
			run.one(pwChain(ls[i].chain), []pwOpts{{Msg: []int32{1}, MaxDepth: ls[i].depth}})
		}
	case "method":
		fam = "protowire: Protowire::parse method (PHP option arrays) against the Go seam, strings of <= 2 bytes x every option combination"
		pwMethodPass(w, run, sh)
	case "script":
		fam = "protowire: Protowire::parse / encode* / serialize from real scripts"
		pwScriptPass(w, run, sh)
	case "encode":
		fam = "protowire: encodeVarint / encodeTag / encodeBytes / encodeFixed32 / encodeFixed64 against protowire.Consume*"
		pwEncodePass(w, run)
	}
	run.fs.flush(w)
	if run.selfErr != "" {
		w.Emit(rec{Kind: "note", Key: "self-test", Detail: run.selfErr})
	}
	if run.n > 0 {
		run.outcomes["protowire cases"] += run.n
	}
	w.Emit(rec{Kind: "count", Fam: fam, N: run.n, Calls: run.calls, Outcome: run.outcomes, Ms: time.Since(t0).Milliseconds()})
}

// pwMethodPass binds the PHP-level method (options given as PHP arrays, result as PHP arrays) to
// the Go seam: same accept/reject, same tree.
func pwMethodPass(w *pool.W, run *pwRun, sh pwShard) {
	e := getEnv()
	combos := allCombos()
	var inputs [][]byte
	if sh.Quick {
		inputs = append(inputs, []byte{})
		for a := 0; a < 256; a++ {
			inputs = append(inputs, []byte{byte(a)})
		}
		for _, a := range wireAlpha {
			for _, b := range wireAlpha {
				inputs = append(inputs, []byte{a, b})
				for _, c := range []byte{0x00, 0x01, 0x0c, 0x14} {
					inputs = append(inputs, []byte{a, b, c})
				}
			}
		}
	} else {
		inputs = append(inputs, []byte{})
		for a := 0; a < 256; a++ {
			inputs = append(inputs, []byte{byte(a)})
			for b := 0; b < 256; b++ {
				inputs = append(inputs, []byte{byte(a), byte(b)})
			}
		}
		for _, a := range wireAlpha {
			for _, b := range wireAlpha {
				for _, c := range wireAlpha {
					inputs = append(inputs, []byte{a, b, c})
				}
			}
		}
	}
	for i := sh.Lo; i < len(inputs); i += sh.Hi { // Hi = stride
		b := inputs[i]
		if !w.Item(fmt.Sprintf("pw method %x", b)) {
			continue
		}
		run.n++
		for ci := range combos {
			o := &combos[ci]
			run.calls++
			gf, gerr := implParse(b, o)
			var r callRes
			withIter(0, func() { r = e.callStatic("Protowire", "parse", data.NewStringValue(string(b)), o.php()) })
			bad := ""
			switch {
			case r.Kind == "panic" || r.Kind == "fuel":
				bad = "method " + r.Kind + " " + r.Panic
			case (gerr != nil) != (r.Kind == "throw"):
				bad = fmt.Sprintf("method outcome %s (%s) vs ParseRawFields error %v", r.Kind, r.Msg, gerr)
			case gerr == nil:
				if d := diff(fieldsToP(gf), fromData(r.V), true); d != "" && d != "order" {
					bad = fmt.Sprintf("method returned %s, ParseRawFields gave %s", show(r.V), fieldsToP(gf))
				}
			}
			if bad != "" {
				run.outcomes["method-binding differs"]++
				run.fs.add("protowire:Protowire::parse-method:binding", "binding", len(b), pwCase{Kind: "pw-method", Bytes: append([]byte{}, b...), Opts: *o, Descr: fmt.Sprintf("% x with %s", b, o)}, bad)
			} else {
				run.outcomes["method bound"]++
			}
		}
	}
}
