package main

import (
	"fmt"
	"runtime/debug"

	"github.com/php-any/origami/data"
	"github.com/php-any/origami/node"
	"github.com/php-any/origami/parser"
	"github.com/php-any/origami/runtime"
	"github.com/php-any/origami/std"
	"github.com/php-any/origami/std/php"
	"github.com/php-any/origami/utils/vshim"

	"verif/engine/runner"
)

// env is one long-lived parser+VM with std/php loaded; builtins are looked up once and then
// called directly at native speed (no lexing/parsing per case).
type env struct {
	p   *parser.Parser
	vm  data.VM
	top data.Context
	fns map[string]data.FuncStmt
}

var theEnv *env

func getEnv() *env {
	if theEnv != nil {
		return theEnv
	}
	p := parser.NewParser()
	vm := runtime.NewVM(p)
	std.Load(vm)
	php.Load(vm)
	vm.SetThrowControl(func(acl data.Control) {})
	theEnv = &env{p: p, vm: vm, top: vm.CreateContext(nil), fns: map[string]data.FuncStmt{}}
	return theEnv
}

// outcome of one direct builtin call
type callRes struct {
	V     data.Value
	Kind  string // "ok" | "throw" | "panic" | "fuel"
	Msg   string
	Panic string // panic key
}

const directFuel = 2_000_000

// bind mirrors node.CallExpression.GetValue / paramSetValue for plain *node.Parameter params:
// supplied arguments go through Parameter.SetValue (type check included), missing ones through
// Parameter.GetValue (default value).
func bind(fnCtx data.Context, params []data.GetValue, vars []data.Variable, args []data.Value) data.Control {
	for i, prm := range params {
		if i < len(args) {
			switch p := prm.(type) {
			case *node.Parameter:
				if acl := p.SetValue(fnCtx, args[i]); acl != nil {
					return acl
				}
			case data.Variable:
				if acl := fnCtx.SetVariableValue(p, args[i]); acl != nil {
					return acl
				}
			default:
				panic(fmt.Sprintf("c14: unsupported parameter kind %T", prm))
			}
		} else if _, acl := prm.GetValue(fnCtx); acl != nil {
			return acl
		}
	}
	return nil
}

func guarded(fuel int64, f func() (data.GetValue, data.Control)) (res callRes) {
	defer func() {
		r := recover()
		vshim.SetFuel(0)
		if r != nil {
			switch r.(type) {
			case vshim.FuelExhausted:
				res = callRes{Kind: "fuel"}
			default:
				st := string(debug.Stack())
				msg := fmt.Sprint(r)
				if len(msg) > 200 {
					msg = msg[:200]
				}
				res = callRes{Kind: "panic", Msg: msg, Panic: "panic:" + runner.PanicClass(msg) + "@" + runner.FirstFrame(st)}
			}
		}
	}()
	vshim.SetFuel(fuel)
	v, acl := f()
	if acl != nil {
		return callRes{Kind: "throw", Msg: trunc(acl.AsString(), 200)}
	}
	if v == nil {
		return callRes{Kind: "ok", V: nil}
	}
	val, _ := v.(data.Value)
	return callRes{Kind: "ok", V: val}
}

// call invokes the builtin function `name` directly.
func (e *env) call(name string, args ...data.Value) callRes {
	fn := e.fns[name]
	if fn == nil {
		f, ok := e.vm.GetFunc(name)
		if !ok {
			panic("c14: builtin not registered: " + name)
		}
		e.fns[name] = f
		fn = f
	}
	return guarded(directFuel, func() (data.GetValue, data.Control) {
		fnCtx := e.top.CreateContext(fn.GetVariables())
		if acl := bind(fnCtx, fn.GetParams(), fn.GetVariables(), args); acl != nil {
			return nil, acl
		}
		return fn.Call(fnCtx)
	})
}

// callStatic invokes a static method of a registered class directly (Protowire::parse etc.).
func (e *env) callStatic(class, method string, args ...data.Value) callRes {
	cs, ok := e.vm.GetClass(class)
	if !ok || cs == nil {
		panic("c14: class not registered: " + class)
	}
	m, ok := cs.(data.GetStaticMethod).GetStaticMethod(method)
	if !ok {
		panic("c14: method not found: " + class + "::" + method)
	}
	return guarded(directFuel, func() (data.GetValue, data.Control) {
		fnCtx := e.top.CreateContext(m.GetVariables())
		if acl := bind(fnCtx, m.GetParams(), m.GetVariables(), args); acl != nil {
			return nil, acl
		}
		return m.Call(fnCtx)
	})
}

func trunc(s string, n int) string {
	if len(s) > n {
		return s[:n] + "…"
	}
	return s
}
