package main

import (
	"crypto/md5"
	"crypto/sha1"
	"crypto/sha256"
	"crypto/sha3"
	"crypto/sha512"
	"encoding/base64"
	"encoding/hex"
	"encoding/json"
	"fmt"
	"net/url"
	"strings"
	"time"

	"github.com/php-any/origami/data"

	"verif/engine/pool"
	"verif/engine/runner"
)

// ---- byte strings ------------------------------------------------------------------------------

// byteClass: the coarse class of one byte for finding keys (RFC 3986 groups).
func byteClass(c byte) string {
	switch {
	case c >= '0' && c <= '9', c >= 'a' && c <= 'z', c >= 'A' && c <= 'Z':
		return "alnum"
	case c == '-' || c == '_' || c == '.' || c == '~':
		return "mark"
	case c == ' ':
		return "space"
	case c == '%':
		return "percent"
	case strings.IndexByte("!$&'()*+,;=", c) >= 0:
		return "sub-delim"
	case strings.IndexByte(":/?#[]@", c) >= 0:
		return "gen-delim"
	case c < 0x20:
		return "ctrl"
	case c == 0x7f:
		return "del"
	case c >= 0x80:
		return "high"
	}
	return "other-ascii"
}

func bytesClass(s []byte) string {
	if len(s) == 0 {
		return "empty"
	}
	var parts []string
	for _, c := range s {
		k := byteClass(c)
		if len(parts) == 0 || parts[len(parts)-1] != k {
			parts = append(parts, k)
		}
	}
	return strings.Join(parts, "+")
}

// reduceBytes deletes bytes (then maps bytes of class alnum to 'a') while fails stays true.
func reduceBytes(s []byte, fails func([]byte) bool) []byte {
	cur := append([]byte{}, s...)
	for changed := true; changed; {
		changed = false
		for i := range cur {
			cand := append(append([]byte{}, cur[:i]...), cur[i+1:]...)
			if fails(cand) {
				cur, changed = cand, true
				break
			}
		}
		for i := 0; i < len(cur) && !changed; i++ {
			if cur[i] != 'a' {
				cand := append([]byte{}, cur...)
				cand[i] = 'a'
				if fails(cand) {
					cur, changed = cand, true
				}
			}
		}
	}
	return cur
}

// enumBytes enumerates: every byte string of length <= 2, and length 3 over hot3.
type byteShard struct {
	Dec   bool   `json:"dec"`
	First int    `json:"first"` // -1: the empty string; 0..255: strings starting with that byte
	Hot3  []byte `json:"hot3"`
}

func forByteStrings(sh byteShard, f func(s []byte)) {
	if sh.First < 0 {
		f([]byte{})
		return
	}
	a := byte(sh.First)
	f([]byte{a})
	for b := 0; b < 256; b++ {
		f([]byte{a, byte(b)})
	}
	in := false
	for _, h := range sh.Hot3 {
		if h == a {
			in = true
		}
	}
	if in {
		for _, b := range sh.Hot3 {
			for _, c := range sh.Hot3 {
				f([]byte{a, b, c})
			}
		}
	}
}

var hashAlgos = []string{"md5", "sha1", "sha-1", "sha256", "sha-256", "sha512", "sha-512", "sha3-256", "sha3-512"}

func hashFamily(algo string) string {
	switch {
	case strings.HasPrefix(algo, "sha3"):
		return "sha3"
	case algo == "sha1" || algo == "sha-1":
		return "sha1"
	case strings.HasPrefix(algo, "sha"):
		return "sha2"
	}
	return algo
}

func refHash(algo string, s []byte) string {
	switch algo {
	case "md5":
		x := md5.Sum(s)
		return hex.EncodeToString(x[:])
	case "sha1", "sha-1":
		x := sha1.Sum(s)
		return hex.EncodeToString(x[:])
	case "sha256", "sha-256":
		x := sha256.Sum256(s)
		return hex.EncodeToString(x[:])
	case "sha512", "sha-512":
		x := sha512.Sum512(s)
		return hex.EncodeToString(x[:])
	case "sha3-256":
		x := sha3.Sum256(s)
		return hex.EncodeToString(x[:])
	case "sha3-512":
		x := sha3.Sum512(s)
		return hex.EncodeToString(x[:])
	}
	panic(algo)
}

// encFailures: every (codec, clause) the byte string violates on the encoder side.
func encFailures(e *env, s []byte) map[[2]string]string {
	out := map[[2]string]string{}
	sv := data.NewStringValue(string(s))
	enc := func(name string, args ...data.Value) (string, bool) {
		r := e.call(name, args...)
		if c := crashClause(r); c != "" {
			out[[2]string{name, c}] = r.Msg + r.Panic
			return "", false
		}
		o, ok := strOf(r)
		if !ok {
			out[[2]string{name, "error"}] = fmt.Sprintf("%s(%q) did not return a string: %s %s %s", name, s, r.Kind, r.Msg, show(r.V))
		}
		return o, ok
	}
	dec := func(name, enc, in string) {
		r := e.call(name, data.NewStringValue(in))
		if c := crashClause(r); c != "" {
			out[[2]string{name, c}] = r.Msg + r.Panic
			return
		}
		if o, ok := strOf(r); !ok || o != string(s) {
			out[[2]string{name, "roundtrip"}] = fmt.Sprintf("%s(%s(%q)) = %s, %s gave %q", name, enc, s, show(r.V), enc, in)
		}
	}
	if o, ok := enc("base64_encode", sv); ok {
		if b, err := base64.StdEncoding.DecodeString(o); err != nil || string(b) != string(s) {
			out[[2]string{"base64_encode", "readback"}] = fmt.Sprintf("base64_encode(%q) = %q, encoding/base64 reads %q %v", s, o, b, err)
		} else {
			dec("base64_decode", "base64_encode", o)
		}
	}
	if o, ok := enc("urlencode", sv); ok {
		b, err := url.QueryUnescape(o)
		q, qerr := url.ParseQuery("k=" + o)
		switch {
		case err != nil || b != string(s):
			out[[2]string{"urlencode", "readback"}] = fmt.Sprintf("urlencode(%q) = %q, net/url.QueryUnescape reads %q %v", s, o, b, err)
		case qerr != nil || len(q) != 1 || len(q["k"]) != 1 || q["k"][0] != string(s):
			out[[2]string{"urlencode", "query-readback"}] = fmt.Sprintf("urlencode(%q) = %q; net/url.ParseQuery(\"k=\"+that) = %v %v", s, o, q, qerr)
		default:
			dec("urldecode", "urlencode", o)
		}
	}
	if o, ok := enc("rawurlencode", sv); ok {
		b, err := url.PathUnescape(o)
		q, qerr := url.ParseQuery("k=" + o)
		switch {
		case err != nil || b != string(s):
			out[[2]string{"rawurlencode", "readback"}] = fmt.Sprintf("rawurlencode(%q) = %q, net/url.PathUnescape reads %q %v", s, o, b, err)
		case qerr != nil || len(q) != 1 || len(q["k"]) != 1 || q["k"][0] != string(s):
			out[[2]string{"rawurlencode", "query-readback"}] = fmt.Sprintf("rawurlencode(%q) = %q; as a query value net/url.ParseQuery(\"k=\"+that) = %v %v", s, o, q, qerr)
		default:
			dec("rawurldecode", "rawurlencode", o)
		}
	}
	if o, ok := enc("bin2hex", sv); ok {
		if b, err := hex.DecodeString(o); err != nil || string(b) != string(s) {
			out[[2]string{"bin2hex", "readback"}] = fmt.Sprintf("bin2hex(%q) = %q, encoding/hex reads %q %v", s, o, b, err)
		}
	}
	if o, ok := enc("md5", sv); ok && o != refHash("md5", s) {
		out[[2]string{"md5", "digest"}] = fmt.Sprintf("md5(%q) = %q, crypto/md5 gives %q", s, o, refHash("md5", s))
	}
	if r := e.call("md5", sv, data.NewBoolValue(true)); true {
		x := md5.Sum(s)
		if o, ok := strOf(r); !ok || o != string(x[:]) {
			out[[2]string{"md5", "raw-digest"}] = fmt.Sprintf("md5(%q, true) = %s", s, show(r.V))
		}
	}
	for _, algo := range hashAlgos {
		r := e.call("hash", data.NewStringValue(algo), sv)
		fam := "hash(" + hashFamily(algo) + ")"
		if c := crashClause(r); c != "" {
			out[[2]string{fam, c}] = r.Msg + r.Panic
			continue
		}
		if o, ok := strOf(r); !ok || o != refHash(algo, s) {
			out[[2]string{fam, "digest"}] = fmt.Sprintf("hash(%q, %q) = %s, crypto reference gives %q", algo, s, show(r.V), refHash(algo, s))
		}
	}
	return out
}

const encCalls = 8 + 3 + 2 + 9

// decFailures: totality of the unstructured decoders on arbitrary bytes, and agreement with the
// reference wherever the reference accepts the input.
func decFailures(e *env, s []byte) map[[2]string]string {
	out := map[[2]string]string{}
	sv := data.NewStringValue(string(s))
	one := func(name string, ref func(string) (string, error)) {
		r := e.call(name, sv)
		if c := crashClause(r); c != "" {
			out[[2]string{name, c}] = r.Msg + r.Panic
			return
		}
		if r.Kind != "ok" {
			out[[2]string{name, "throws"}] = fmt.Sprintf("%s(%q) threw %s", name, s, r.Msg)
			return
		}
		want, err := ref(string(s))
		if err != nil {
			return // the reference rejects: any total answer (false / original text) is accepted
		}
		if o, ok := strOf(r); !ok || o != want {
			out[[2]string{name, "decode-valid"}] = fmt.Sprintf("%s(%q) = %s, reference reads %q", name, s, show(r.V), want)
		}
	}
	one("base64_decode", func(x string) (string, error) { b, err := base64.StdEncoding.DecodeString(x); return string(b), err })
	one("urldecode", url.QueryUnescape)
	one("rawurldecode", url.PathUnescape)
	return out
}

type bytesCase struct {
	Kind  string `json:"kind"` // "bytes-enc" | "bytes-dec"
	Codec string `json:"codec"`
	Bytes []byte `json:"bytes"`
	Descr string `json:"descr"`
}

var byteCache = map[string]string{}

func byteWorker(w *pool.W, arg json.RawMessage) {
	var sh byteShard
	t0 := time.Now()
	json.Unmarshal(arg, &sh)
	e := getEnv()
	fs := &failSet{}
	outcomes := map[string]int64{}
	cache := byteCache
	fn := encFailures
	kind := "bytes-enc"
	per := int64(encCalls)
	if sh.Dec {
		fn, kind, per = decFailures, "bytes-dec", 3
	}
	var n int64
	forByteStrings(sh, func(s []byte) {
		if !w.Item(fmt.Sprintf("%s %x", kind, s)) {
			return
		}
		n++
		fails := fn(e, s)
		if len(fails) == 0 {
			outcomes[kind+" ok"]++
		}
		for cc, detail := range fails {
			outcomes[cc[0]+" "+cc[1]]++
			ck := cc[0] + "|" + cc[1] + "|" + bytesClass(s)
			if key, ok := cache[ck]; ok {
				if fs.bump(key) {
					continue
				}
				fs.add(key, cc[1], 1<<29+len(s), bytesCase{Kind: kind, Codec: cc[0], Bytes: append([]byte{}, s...), Descr: fmt.Sprintf("%q", s)}, detail)
				continue
			}
			red := reduceBytes(s, func(c []byte) bool { _, bad := fn(e, c)[cc]; return bad })
			key := cc[0] + ":" + bytesClass(red) + ":" + cc[1]
			cache[ck] = key
			if d, ok := fn(e, red)[cc]; ok {
				detail = d
			}
			fs.add(key, cc[1], len(red), bytesCase{Kind: kind, Codec: cc[0], Bytes: red, Descr: fmt.Sprintf("%q", red)}, detail)
		}
	})
	fs.flush(w)
	w.Emit(rec{Kind: "count", Fam: map[bool]string{false: "byte strings -> encoders", true: "byte strings -> unstructured decoders"}[sh.Dec], N: n, Calls: n * per, Outcome: outcomes, Ms: time.Since(t0).Milliseconds()})
	if sh.First == 'a' && !sh.Dec {
		r := e.call("rawurlencode", data.NewStringValue("a&"))
		w.Emit(rec{Kind: "sample", Case: map[string]any{"family": "byte strings -> encoders", "input": "a&", "rawurlencode": show(r.V), "md5": show(e.call("md5", data.NewStringValue("a&")).V)}})
	}
}

// ---- script-level binding for byte strings of length <= 1 --------------------------------------

func byteBindWorker(w *pool.W, arg json.RawMessage) {
	t0 := time.Now()
	e := getEnv()
	fs := &failSet{}
	outcomes := map[string]int64{}
	var n int64
	names := []string{"base64_encode", "urlencode", "rawurlencode", "bin2hex", "md5", "base64_decode", "urldecode", "rawurldecode"}
	for b := -1; b < 256; b++ {
		s := []byte{}
		if b >= 0 {
			s = []byte{byte(b)}
		}
		if !w.Item(fmt.Sprintf("bytebind %x", s)) {
			continue
		}
		n++
		var sb strings.Builder
		fmt.Fprintf(&sb, "$v = %s;\n", phpStr(s))
		for i, nm := range names {
			fmt.Fprintf(&sb, "$r%d = %s($v);\n", i, nm)
		}
		fmt.Fprintf(&sb, "$r%d = hash(\"sha256\", $v);\n", len(names))
		fmt.Fprintf(&sb, "$r%d = Protowire::parse($v);\n", len(names)+1)
		src := sb.String()
		// Protowire::parse throws on malformed input: run it last and tolerate a throw
		res, sess := runner.RunKeep(src, runner.Opts{})
		if res.Kind != "ok" && res.Kind != "throw" {
			fs.add("binding:bytes:script-"+res.Kind, "binding", len(s), map[string]any{"kind": "bytebind", "script": src}, fmt.Sprintf("%s %s %s", res.Kind, res.Msg, res.PanicKey))
			sess.Close()
			continue
		}
		if sv, ok := sess.Var("v").(*data.StringValue); !ok || sv.Value != string(s) {
			fs.add("binding:bytes:literal", "binding", len(s), map[string]any{"kind": "bytebind", "script": src}, fmt.Sprintf("script literal %s evaluates to %s", phpStr(s), reprOf(sess.Var("v"))))
			sess.Close()
			continue
		}
		for i, nm := range names {
			d := e.call(nm, data.NewStringValue(string(s)))
			if d.Kind != "ok" || !sameRepr(sess.Var(fmt.Sprintf("r%d", i)), d.V) {
				fs.add("binding:"+nm+":bytes", "binding", len(s), map[string]any{"kind": "bytebind", "script": src}, fmt.Sprintf("%s(%q): script gave %s, direct call gave %s %s", nm, s, reprOf(sess.Var(fmt.Sprintf("r%d", i))), d.Kind, reprOf(d.V)))
				outcomes["binding differs "+nm]++
			} else {
				outcomes["bound "+nm]++
			}
		}
		d := e.call("hash", data.NewStringValue("sha256"), data.NewStringValue(string(s)))
		if d.Kind != "ok" || !sameRepr(sess.Var(fmt.Sprintf("r%d", len(names))), d.V) {
			fs.add("binding:hash:bytes", "binding", len(s), map[string]any{"kind": "bytebind", "script": src}, "hash differs between script and direct call")
		} else {
			outcomes["bound hash"]++
		}
		// Protowire::parse from the script against the Go seam
		gf, gerr := implParse(s, &pwOpts{})
		pv := sess.Var(fmt.Sprintf("r%d", len(names)+1))
		switch {
		case gerr != nil && res.Kind == "throw":
			outcomes["bound Protowire::parse (throws)"]++
		case gerr == nil && res.Kind == "ok" && pv != nil:
			if dd := diff(fieldsToP(gf), fromData(pv), true); dd != "" && dd != "order" {
				fs.add("binding:Protowire::parse:bytes", "binding", len(s), map[string]any{"kind": "bytebind", "script": src}, fmt.Sprintf("script gave %s, ParseRawFields gave %s", fromData(pv), fieldsToP(gf)))
			} else {
				outcomes["bound Protowire::parse"]++
			}
		default:
			fs.add("binding:Protowire::parse:bytes", "binding", len(s), map[string]any{"kind": "bytebind", "script": src}, fmt.Sprintf("script outcome %s %s vs ParseRawFields error %v", res.Kind, res.Msg, gerr))
		}
		sess.Close()
	}
	fs.flush(w)
	w.Emit(rec{Kind: "count", Fam: "script binding: byte strings of length <= 1", N: n, Calls: n * 11, Outcome: outcomes, Ms: time.Since(t0).Milliseconds()})
}
