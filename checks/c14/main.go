// C14: encoders are faithful and decoders total (JSON, serialize, base64, URL, hex, md5/hash,
// protobuf wire).
//
// Form P at builtin level: the builtins are called directly in-process (vm.GetFunc -> arguments
// bound the way node.CallExpression binds them -> Call) on one long-lived VM, so millions of inputs
// are feasible; a script-level pass binds that seam to the script surface for every value tree of
// depth <= 1 and every byte string of length <= 1. Every family below is enumerated completely.
package main

import (
	"encoding/json"
	"fmt"
	"os"
	"sort"
	"strings"
	"time"

	"verif/engine/ev"
	"verif/engine/pool"
	"verif/engine/runner"
)

func main() {
	if pool.IsWorker() {
		pool.Serve(map[string]pool.Handler{
			"val": valWorker, "bind": bindWorker, "bytes": byteWorker, "bytebind": byteBindWorker,
			"dec": decWorker, "pw": pwWorker, "conc": concWorker, "hist": histWorker,
		})
	}
	if f := os.Getenv("VERIF_C14_PROBE"); f != "" {
		probe(f)
		return
	}
	c := ev.New("C14")
	defer runner.Cleanup()
	if c.Replay != "" {
		replay(c)
		return
	}
	quick := c.Quick()
	seed := int(c.Seed % 1000)
	if seed < 0 {
		seed = -seed
	}
	seedRot = seed
	c.SetBudget(12*time.Minute, 45*time.Minute)

	var shards []pool.Shard
	chunk := func(n int64, per int64, f func(lo, hi int64)) {
		for lo := int64(0); lo < n; lo += per {
			hi := lo + per
			if hi > n {
				hi = n
			}
			f(lo, hi)
		}
	}
	// 0. schedule exploration: two concurrent calls of each codec builtin
	nConc := len(concScenarios())
	chunk(int64(nConc), 2, func(lo, hi int64) {
		shards = append(shards, pool.Shard{Kind: "conc", Arg: concShard{Lo: int(lo), Hi: int(hi), Seed: seed}})
	})
	// 1. value trees -> json_encode / serialize, reference read-back, own decoders
	var nTrees int64
	for fi, f := range valueFamilies(quick) {
		nTrees += f.n()
		fi := fi
		chunk(f.n(), 4000, func(lo, hi int64) {
			shards = append(shards, pool.Shard{Kind: "val", Arg: valShard{Quick: quick, Seed: seed, Fam: fi, Lo: lo, Hi: hi}})
		})
	}
	// 2. script-level binding of the direct-call seam
	nb := len(bindTrees())
	chunk(int64(nb), 250, func(lo, hi int64) {
		shards = append(shards, pool.Shard{Kind: "bind", Arg: bindShard{Seed: seed, Lo: int(lo), Hi: int(hi)}})
	})
	shards = append(shards, pool.Shard{Kind: "bytebind", Arg: struct{}{}})
	// 2b. build histories (element assignment / push / unset) as real scripts
	chunk(int64(len(histories(quick))), 120, func(lo, hi int64) {
		shards = append(shards, pool.Shard{Kind: "hist", Arg: histShard{Quick: quick, Seed: seed, Lo: int(lo), Hi: int(hi)}})
	})
	// 3. byte strings -> encoders and unstructured decoders
	hot3 := hotBytes
	if !quick {
		for b := 0; b < 256; b += 5 {
			hot3 = append(hot3, byte(b))
		}
		hot3 = dedupBytes(hot3)
	}
	for _, dec := range []bool{false, true} {
		for first := -1; first < 256; first++ {
			shards = append(shards, pool.Shard{Kind: "bytes", Arg: byteShard{Dec: dec, First: first, Hot3: hot3}})
		}
	}
	// 4. structured text decoders: exhaustive short strings, edit neighbourhoods, ladders
	seqLen := map[string]int{"chars": 5, "tokens": 4}
	if !quick {
		seqLen = map[string]int{"chars": 6, "tokens": 5}
	}
	for _, codec := range []string{"json", "ser"} {
		dc := decCodecs[codec]
		for _, an := range []string{"chars", "tokens"} {
			alpha := dc.Alpha[an]
			for l := 0; l <= seqLen[an]; l++ {
				if l < 3 {
					shards = append(shards, pool.Shard{Kind: "dec", Arg: decShard{Codec: codec, Mode: "seq", Alpha: an, Len: l, Prefix: []int{}, Quick: quick, Seed: seed}})
					continue
				}
				for a := range alpha {
					for b := range alpha {
						shards = append(shards, pool.Shard{Kind: "dec", Arg: decShard{Codec: codec, Mode: "seq", Alpha: an, Len: l, Prefix: []int{a, b}, Quick: quick, Seed: seed}})
					}
				}
			}
		}
		chunk(int64(len(dc.Bases(quick))), 8, func(lo, hi int64) {
			shards = append(shards, pool.Shard{Kind: "dec", Arg: decShard{Codec: codec, Mode: "edit", Lo: int(lo), Hi: int(hi), Quick: quick, Seed: seed}})
		})
		chunk(int64(len(dc.Ladder(quick))), 6, func(lo, hi int64) {
			shards = append(shards, pool.Shard{Kind: "dec", Arg: decShard{Codec: codec, Mode: "ladder", Lo: int(lo), Hi: int(hi), Quick: quick, Seed: seed}})
		})
	}
	// 5. protobuf wire
	for l := 0; l <= 3; l++ {
		if l < 2 {
			shards = append(shards, pool.Shard{Kind: "pw", Arg: pwShard{Mode: "bytes", Len: l, Prefix: []int{}, Quick: quick}})
			continue
		}
		for a := 0; a < 256; a++ {
			shards = append(shards, pool.Shard{Kind: "pw", Arg: pwShard{Mode: "bytes", Len: l, Prefix: []int{a}, Quick: quick}})
		}
	}
	alphaLen := 5
	if !quick {
		alphaLen = 6
	}
	for l := 4; l <= alphaLen; l++ {
		for a := range wireAlpha {
			for b := range wireAlpha {
				shards = append(shards, pool.Shard{Kind: "pw", Arg: pwShard{Mode: "alpha", Len: l, Prefix: []int{a, b}, Quick: quick}})
			}
		}
	}
	chunk(int64(len(pwBases())), 4, func(lo, hi int64) {
		shards = append(shards, pool.Shard{Kind: "pw", Arg: pwShard{Mode: "edit", Lo: int(lo), Hi: int(hi), Quick: quick}})
	})
	chunk(int64(len(pwLadders())), 400, func(lo, hi int64) {
		shards = append(shards, pool.Shard{Kind: "pw", Arg: pwShard{Mode: "ladder", Lo: int(lo), Hi: int(hi), Quick: quick}})
	})
	for i := 0; i < 32; i++ {
		shards = append(shards, pool.Shard{Kind: "pw", Arg: pwShard{Mode: "method", Lo: i, Hi: 32, Quick: quick}})
	}
	shards = append(shards, pool.Shard{Kind: "pw", Arg: pwShard{Mode: "script", Quick: quick}}, pool.Shard{Kind: "pw", Arg: pwShard{Mode: "encode", Quick: quick}})

	if only := os.Getenv("VERIF_C14_ONLY"); only != "" {
		var keep []pool.Shard
		for _, sh := range shards {
			b, _ := json.Marshal(sh.Arg)
			tag := sh.Kind + " " + string(b)
			for _, o := range strings.Split(only, ";") {
				if strings.Contains(tag, o) {
					keep = append(keep, sh)
					break
				}
			}
		}
		shards = keep
	}
	// three phases; the wall-clock budget is only consulted between phases
	phaseOf := func(sh pool.Shard) int {
		switch sh.Kind {
		case "conc":
			return 0
		case "val", "bind", "bytes", "bytebind", "hist":
			return 1
		case "dec":
			return 2
		}
		return 3
	}
	phaseNames := []string{"concurrent calls", "value trees + byte strings + script binding", "json_decode / unserialize inputs", "protobuf wire"}
	var total, calls int64
	famCount := map[string]int64{}
	famMs := map[string]int64{}
	var slowest int64
	slowestFam := ""
	outcomes := map[string]int64{}
	samples := 0
	var done []string
	for ph := 0; ph < 4; ph++ {
		var part []pool.Shard
		for _, sh := range shards {
			if phaseOf(sh) == ph {
				part = append(part, sh)
			}
		}
		if len(part) == 0 {
			continue
		}
		if c.Expired() {
			c.NotExhaustive("wall-clock budget expired; completed phases: " + strings.Join(done, "; "))
			break
		}
		// long shards first (better balance)
		sort.SliceStable(part, func(i, j int) bool { return shardWeight(part[i]) > shardWeight(part[j]) })
		pool.Run(part, pool.Options{Env: []string{"GOMAXPROCS=4", "GOGC=400"}}, func(si int, rb json.RawMessage) {
			var r rec
			json.Unmarshal(rb, &r)
			switch r.Kind {
			case "count":
				if r.Count > 0 && strings.HasPrefix(r.Fam, "concurrent") {
					c.Add("interleavings_explored", r.Count)
				}
				total += r.N
				calls += r.Calls
				famCount[r.Fam] += r.N
				famMs[r.Fam] += r.Ms
				if r.Ms > slowest {
					slowest, slowestFam = r.Ms, r.Fam
				}
				for k, v := range r.Outcome {
					outcomes[k] += v
				}
			case "fail":
				c.Fail(r.Key, r.Clause, r.Size, r.Case, r.Detail)
				for i := int64(1); i < r.Count && i < 500000; i++ {
					c.Fail(r.Key, r.Clause, 1<<30, nil, "")
				}
				c.Add("failing_cases", r.Count)
			case "sample":
				if samples < 10 {
					samples++
					c.Sample(r.Case)
				}
			case "note":
				if r.Key == "self-test" {
					c.HarnessError("%s", r.Detail)
				} else if r.Key == "incomplete" {
					c.NotExhaustive(r.Detail)
				} else {
					fmt.Fprintln(os.Stderr, "note:", r.Detail)
				}
			}
		}, func(d pool.Death) {
			fam := strings.SplitN(d.Item, " ", 2)[0]
			c.Fail(fam+":worker-death:"+runner.FatalFrame(d.Stderr), "crash", 0, map[string]any{"kind": "death", "item": d.Item, "reason": d.Reason}, d.Stderr)
		})
		done = append(done, phaseNames[ph])
	}
	for k, v := range outcomes {
		for i := int64(0); i < v && i < 1; i++ {
			c.Outcome(k)
		}
	}
	c.Set("family_counts", famCount)
	c.Set("family_cpu_ms", famMs)
	c.Set("slowest_shard", fmt.Sprintf("%d ms: %s", slowest, slowestFam))
	c.Set("outcome_case_counts", outcomes)
	c.Set("value_trees", nTrees)
	c.Set("builtin_calls", calls)
	c.Set("seed_rotation", seed)
	c.Assume("the reference for each format is the Go implementation named in the property (encoding/json, encoding/base64, net/url, encoding/hex, crypto/*, protowire.Consume*); for PHP serialize it is the strict reader in refs.go (N b i d s a; trailing blanks and '+' before an unsigned length are not judged)")
	c.Assume("origami represents associative arrays and stdClass objects by the same ObjectValue; values are compared as PHP values (ordered maps with PHP key normalisation), so list [a,b] equals map {0:a,1:b} and array/object identity is not judged")
	c.Assume("a positional slot of an ArrayValue has its index as key (what foreach shows; checked per build history); an array that carries one key twice, or whose foreach view disagrees with its slots, has no meaning as a value and is counted, not judged")
	c.Assume("marker strings are the string literals (2..24 bytes, not purely alphanumeric) of the JSON / serialize anchor sources of the tree under test, read from $VERIF_REPO at run time")
	c.Assume("a string that is not valid UTF-8 has no JSON form: json_encode may refuse it (false / throw); emitting a different string is a read-back failure")
	c.Assume("rawurlencode output is additionally read back as a query value through net/url.ParseQuery (RFC 3986 leaves no reserved character unescaped)")
	c.Assume("protowire nesting: top level is level 1, each message/group content one deeper, max_depth = N admits N levels (pinned for messages by std/protowire TestDepthLimit); a field configured both packed and message may be read either way")
	c.Assume("concurrent part: two threads, one call each, same builtin, shared VM; interleavings only at the points govis instruments (package-level variables, map fields, mutexes, channels of the origami packages); three or more threads and mixed builtins are not explored")
	c.Assume("outside the bound: value trees deeper than 3 / wider than 3, decoder inputs that are neither short, nor within edit distance 1 of a reference encoding, nor a ladder; objects (O:) in serialize; var_export; JSON flags; hash algorithms without a Go standard-library reference (xxh3)")
	if os.Getenv("VERIF_C14_ONLY") == "" && c.Exhaustive && (len(outcomes) < 12 || outcomes["tree ok"] == 0 || outcomes["json well-formed, agrees"] == 0 || outcomes["protowire cases"] == 0) {
		c.HarnessError("vacuous: outcomes %v", outcomes)
	}
	c.Finish(total, calls, calls, "complete enumeration per family (see coverage.family_counts): value trees depth<=2/3 -> json_encode+serialize with reference read-back and own-decoder round trip; all byte strings len<=2 + hot-set len 3 -> base64/url/rawurl/hex/md5/hash and their decoders; all strings of <=k symbols over char and token alphabets + edit-distance-1 neighbourhoods of reference encodings + nesting ladders -> json_decode (both modes) and unserialize; all byte strings len<=3, all strings <=k over the wire alphabet, edit neighbourhoods and message/group chains to depth 70 under every relevant option combination -> ParseRawFields vs an independent walker; states = cases, executions = builtin calls")
}

func dedupBytes(b []byte) []byte {
	seen := map[byte]bool{}
	var out []byte
	for _, c := range b {
		if !seen[c] {
			seen[c] = true
			out = append(out, c)
		}
	}
	return out
}

func shardWeight(s pool.Shard) int {
	switch a := s.Arg.(type) {
	case pwShard:
		switch a.Mode {
		case "bytes":
			if a.Len == 3 {
				return 90
			}
		case "alpha":
			return 50 + a.Len*10
		case "method", "script":
			return 100
		}
	case decShard:
		if a.Mode == "ladder" {
			return 100
		}
		if a.Mode == "seq" {
			return 20 + a.Len*10
		}
		return 60
	case bindShard, histShard:
		return 95
	}
	return 10
}
