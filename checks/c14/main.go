package main

import (
	"fmt"
	"os"
	"time"

	"github.com/php-any/origami/data"
	"verif/engine/runner"
)

func show(v data.Value) string {
	if v == nil {
		return "<nil>"
	}
	switch x := v.(type) {
	case *data.ArrayValue:
		s := "Arr["
		for _, z := range x.List {
			s += fmt.Sprintf("%q=>%s,", z.Name, show(z.Value))
		}
		return s + "]"
	case *data.ObjectValue:
		s := "Obj{"
		x.RangeProperties(func(k string, v data.Value) bool { s += fmt.Sprintf("%q:%s,", k, show(v)); return true })
		return s + "}"
	}
	return fmt.Sprintf("%T(%s)", v, v.AsString())
}

func main() {
	if len(os.Args) > 1 {
		src, _ := os.ReadFile(os.Args[1])
		res, s := runner.RunKeep(string(src), runner.Opts{})
		fmt.Printf("kind=%s class=%s msg=%s panic=%s\nout=%s\n", res.Kind, res.Class, res.Msg, res.PanicKey, res.Out)
		for _, n := range []string{"a", "b", "c", "d", "e", "f", "g"} {
			fmt.Println(n, show(s.Var(n)))
		}
		s.Close()
		return
	}
	e := getEnv()
	r := e.call("json_encode", data.NewArrayValue([]data.Value{data.NewIntValue(1), data.NewStringValue("x")}))
	fmt.Println(r.Kind, show(r.V))
	r = e.call("json_decode", data.NewStringValue(`{"a":[1,2.5,{"b":null}]}`), data.NewBoolValue(true))
	fmt.Println(r.Kind, show(r.V))
	r = e.call("json_decode", data.NewStringValue(`{"a":[1,2.5,{"b":null}]}`))
	fmt.Println(r.Kind, show(r.V))
	r = e.call("json_decode", data.NewIntValue(5))
	fmt.Println(r.Kind, r.Msg, show(r.V))
	r = e.callStatic("Protowire", "parse", data.NewStringValue("\x08\x01"))
	fmt.Println(r.Kind, r.Msg, show(r.V))
	r = e.callStatic("Protowire", "parse", data.NewStringValue("\x08"))
	fmt.Println(r.Kind, r.Msg, show(r.V))
	t0 := time.Now()
	for i := 0; i < 200000; i++ {
		e.call("base64_encode", data.NewStringValue("ab"))
	}
	fmt.Println("base64 per call", time.Since(t0)/200000)
	t0 = time.Now()
	for i := 0; i < 200000; i++ {
		e.call("json_decode", data.NewStringValue(`[1,"a"]`), data.NewBoolValue(true))
	}
	fmt.Println("json_decode per call", time.Since(t0)/200000)
}
