package main

import (
	"encoding/json"
	"fmt"
	"regexp"
	"strconv"
	"strings"
	"time"

	"github.com/php-any/origami/data"

	"verif/engine/pool"
)

// ---- classes of decoder inputs -------------------------------------------------------------------

func pToT(p *P) *T {
	switch p.K {
	case 'n':
		return tNull()
	case 'b':
		return tBool(p.B)
	case 'i':
		return tInt(p.I)
	case 'f':
		return tFloat(p.F)
	case 's':
		return tStr(p.S)
	case 'a':
		list := true
		for i, k := range p.Keys {
			if !k.Int || k.I != int64(i) {
				list = false
			}
		}
		t := &T{K: 'l'}
		if !list {
			t.K = 'm'
		}
		for i, c := range p.C {
			t.C = append(t.C, pToT(c))
			if !list {
				if p.Keys[i].Int {
					t.Keys = append(t.Keys, strconv.FormatInt(p.Keys[i].I, 10))
				} else {
					t.Keys = append(t.Keys, p.Keys[i].S)
				}
			}
		}
		return t
	}
	return tNull()
}

var reDigits = regexp.MustCompile(`[0-9]+`)

// textClass: malformed inputs are keyed by their reduced text with digit runs collapsed.
func textClass(s string) string {
	if len(s) > 40 {
		s = s[:40] + "…"
	}
	return "text " + strconv.Quote(reDigits.ReplaceAllStringFunc(s, func(d string) string {
		if len(d) > 9 {
			return "9…9"
		}
		return d
	}))
}

// reduceText deletes single characters and pairs of characters while fails stays true.
func reduceText(s string, fails func(string) bool) string {
	cur := s
	for changed := true; changed; {
		changed = false
		for i := 0; i < len(cur) && !changed; i++ {
			if c := cur[:i] + cur[i+1:]; fails(c) {
				cur, changed = c, true
			}
		}
		if changed || len(cur) > 64 {
			continue
		}
		for i := 0; i < len(cur) && !changed; i++ {
			for j := i + 1; j < len(cur) && !changed; j++ {
				if c := cur[:i] + cur[i+1:j] + cur[j+1:]; fails(c) {
					cur, changed = c, true
				}
			}
		}
	}
	return cur
}

// ---- JSON decoder ------------------------------------------------------------------------------------

func isNull(v data.Value) bool { _, ok := v.(*data.NullValue); return ok || v == nil }

// jsonDecFailures judges json_decode on one text in both modes.
func jsonDecFailures(e *env, s string) map[[2]string]string {
	out := map[[2]string]string{}
	ref, valid, judged := jsonRef3(s)
	nsel := 1
	if strings.Contains(s, "{") {
		nsel = 2
	}
	for _, mode := range []string{"json_decode", "json_decode(default)"} {
		for sel := 0; sel < nsel; sel++ {
			var r callRes
			withIter(sel, func() {
				if mode == "json_decode" {
					r = e.call("json_decode", data.NewStringValue(s), data.NewBoolValue(true))
				} else {
					r = e.call("json_decode", data.NewStringValue(s))
				}
			})
			if c := crashClause(r); c != "" {
				out[[2]string{mode, c}] = r.Msg + r.Panic
				break
			}
			rejected := r.Kind != "ok" || isNull(r.V)
			if !judged {
				continue
			}
			if !valid {
				if !rejected {
					out[[2]string{mode, "accept-invalid"}] = fmt.Sprintf("%s(%q) = %s, encoding/json rejects the text", mode, trunc(s, 120), show(r.V))
					break
				}
				continue
			}
			if ref.K == 'n' {
				if !rejected {
					out[[2]string{mode, "decode"}] = fmt.Sprintf("%s(%q) = %s, expected null", mode, trunc(s, 120), show(r.V))
				}
				continue
			}
			if rejected {
				out[[2]string{mode, "reject-valid"}] = fmt.Sprintf("%s(%q) = %s %s, encoding/json reads %s", mode, trunc(s, 120), r.Kind, show(r.V), trunc(ref.String(), 120))
				break
			}
			got := fromData(r.V)
			if d := diff(ref, got, false); d != "" {
				out[[2]string{mode, "decode"}] = fmt.Sprintf("%s(%q) = %s (map iteration choice %d), encoding/json reads %s (%s differs)", mode, trunc(s, 120), trunc(got.String(), 200), sel, trunc(ref.String(), 200), d)
				break
			}
		}
	}
	return out
}

// ---- unserialize ----------------------------------------------------------------------------------------

func serDecFailures(e *env, s string) map[[2]string]string {
	out := map[[2]string]string{}
	r := e.call("unserialize", data.NewStringValue(s))
	if c := crashClause(r); c != "" {
		out[[2]string{"unserialize", c}] = r.Msg + r.Panic
		return out
	}
	ref, verdict := phpUnser(s)
	if verdict < 0 {
		return out
	}
	isFalse := func() bool {
		if r.Kind != "ok" {
			return true
		}
		b, ok := r.V.(*data.BoolValue)
		return ok && !b.Value
	}
	if verdict == 0 {
		if _, v2 := phpUnser(strings.TrimRight(s, " \t\r\n\x00\x0b")); v2 != 0 {
			return out // only trailing blanks: PHP itself tolerates trailing data; not judged
		}
		if !isFalse() {
			out[[2]string{"unserialize", "accept-invalid"}] = fmt.Sprintf("unserialize(%q) = %s, but the text is not well-formed", trunc(s, 120), show(r.V))
		}
		return out
	}
	if ref.K == 'b' && !ref.B {
		if !isFalse() {
			out[[2]string{"unserialize", "decode"}] = fmt.Sprintf("unserialize(%q) = %s, expected false", s, show(r.V))
		}
		return out
	}
	if isFalse() {
		out[[2]string{"unserialize", "reject-valid"}] = fmt.Sprintf("unserialize(%q) = false, the text is the well-formed serialization of %s", trunc(s, 120), trunc(ref.String(), 120))
		return out
	}
	got := fromData(r.V)
	if d := diff(ref, got, true); d != "" {
		out[[2]string{"unserialize", "decode"}] = fmt.Sprintf("unserialize(%q) = %s, the text is the serialization of %s (%s differs)", trunc(s, 120), trunc(got.String(), 200), trunc(ref.String(), 200), d)
	}
	return out
}

// ---- alphabets ---------------------------------------------------------------------------------------------

var jsonChars = []string{"[", "]", "{", "}", "\"", ":", ",", "0", "1", "-", ".", "e", "\\", "a", " "}
var jsonTokens = []string{"[", "]", "{", "}", ":", ",", " ", "\"a\"", "\"b\"", "\"\\u00e9\"", "\"length\"", "null", "true", "false", "1", "-1", "1.5", "1e2", "9007199254740993", "9223372036854775808"}
var serChars = []string{"N", "b", "i", "s", "a", "d", ":", ";", "0", "1", "\"", "{", "}", "-", "x"}
var serTokens = []string{"N;", "b:1;", "i:0;", "i:1;", "i:-1;", "d:0.5;", "s:0:\"", "s:1:\"", "s:2:\"", "\";", "x", "\"", "a:0:{", "a:1:{", "a:2:{", "}", ";", " ", "+"}

type decCodec struct {
	Name   string
	Func   string
	Fails  func(e *env, s string) map[[2]string]string
	Ref    func(s string) (*P, bool) // reference reader: value, well-formed
	Enc    func(p *P) string         // reference encoder
	ErrCls func(s string) string     // first grammar violation of a malformed text
	Feat   func(s string) string     // optional: class of a reduced well-formed text
	CST    bool                      // reduce well-formed texts on the concrete syntax tree
	Calls  int64
	Alpha  map[string][]string
	Bases  func(quick bool) []string
	Ladder func(quick bool) []string
}

var decCodecs = map[string]*decCodec{
	"json": {Name: "json", Func: "json_decode", Fails: jsonDecFailures, Ref: jsonRef, Enc: jsonText, ErrCls: jsonErrClass, Calls: 2,
		Alpha: map[string][]string{"chars": jsonChars, "tokens": jsonTokens}, Bases: jsonBases, Ladder: jsonLadders},
	"ser": {Name: "ser", Func: "unserialize", Fails: serDecFailures, Ref: func(s string) (*P, bool) { p, v := phpUnser(s); return p, v == 1 }, Enc: phpSer, ErrCls: serErrClass, Feat: serFeatures, CST: true, Calls: 1,
		Alpha: map[string][]string{"chars": serChars, "tokens": serTokens}, Bases: serBases, Ladder: serLadders},
}

// ---- bases for the edit-distance-1 neighbourhoods --------------------------------------------------------

func baseTrees(quick bool) []*P {
	leaves := []*T{tInt(0), tInt(-1), tFloat(1.5), tStr("a"), tStr(`a"b`), tStr(""), tNull(), tBool(true)}
	if !quick {
		leaves = append(leaves, tStr("é"), tInt(1<<53+1), tStr("a;b"), tBool(false))
	}
	var ts []*T
	ts = append(ts, leaves...)
	var d1 []*T
	for _, kind := range []byte{'l', 'm'} {
		for n := 0; n <= 2; n++ {
			keys := keyVariants(n)[0]
			slots := make([][]*T, n)
			for i := range slots {
				slots[i] = leaves
			}
			f := &fam{Kind: kind, Keys: keys, Slots: slots}
			for i := int64(0); i < f.n(); i++ {
				d1 = append(d1, f.tree(i))
			}
		}
	}
	ts = append(ts, d1...)
	a, b := keyVariants(2)[0][0], keyVariants(2)[0][1]
	for _, c := range d1 {
		ts = append(ts, tList(c), tMap('m', []string{a}, []*T{c}))
	}
	small := append([]*T{tInt(1), tStr("a"), tNull()}, tList(), tList(tInt(1)), tMap('m', []string{a}, []*T{tStr("a")}), tMap('m', []string{"1"}, []*T{tNull()}))
	for _, x := range small {
		for _, y := range small {
			ts = append(ts, tList(x, y), tMap('m', []string{a, b}, []*T{x, y}))
		}
	}
	ps := make([]*P, len(ts))
	for i, t := range ts {
		ps[i] = t.canon()
	}
	return ps
}

func jsonText(p *P) string {
	switch p.K {
	case 'n':
		return "null"
	case 'b':
		return strconv.FormatBool(p.B)
	case 'i':
		return strconv.FormatInt(p.I, 10)
	case 'f':
		b, _ := json.Marshal(p.F)
		return string(b)
	case 's':
		b, _ := json.Marshal(p.S)
		return string(b)
	}
	list := true
	for i, k := range p.Keys {
		if !k.Int || k.I != int64(i) {
			list = false
		}
	}
	var parts []string
	for i, c := range p.C {
		if list {
			parts = append(parts, jsonText(c))
		} else {
			k := p.Keys[i].S
			if p.Keys[i].Int {
				k = strconv.FormatInt(p.Keys[i].I, 10)
			}
			kb, _ := json.Marshal(k)
			parts = append(parts, string(kb)+":"+jsonText(c))
		}
	}
	if list {
		return "[" + strings.Join(parts, ",") + "]"
	}
	return "{" + strings.Join(parts, ",") + "}"
}

func jsonBases(quick bool) []string {
	var out []string
	seen := map[string]bool{}
	for _, p := range baseTrees(quick) {
		s := jsonText(p)
		if !seen[s] {
			seen[s] = true
			out = append(out, s)
		}
	}
	out = append(out, `{"length":"a"}`, "{}", `{"a":{}}`, `[{}]`, ` [ 1 , 2 ] `, `{"a":1,"a":2}`, `"\u00e9\n\\\/"`, `-0`, `1E+2`, `0.5e-1`)
	// strings that carry a literal of the codec sources (dict.go), as a document and as a member
	for _, m := range markerStrings() {
		b, _ := json.Marshal(m)
		out = append(out, string(b), "["+string(b)+"]")
	}
	return out
}

func serBases(quick bool) []string {
	var out []string
	seen := map[string]bool{}
	for _, p := range baseTrees(quick) {
		s := phpSer(p)
		if !seen[s] {
			seen[s] = true
			out = append(out, s)
		}
	}
	out = append(out, `a:1:{i:0;a:1:{i:0;a:0:{}}}`, `i:+1;`, `d:1.0E+21;`, `d:-0;`, `a:2:{i:0;N;i:0;b:1;}`, `s:3:"a;b";`)
	// strings that carry a literal of the codec sources (dict.go), as a document and as a member
	for _, m := range markerStrings() {
		out = append(out, phpSer(&P{K: 's', S: m}), "a:1:{i:0;"+phpSer(&P{K: 's', S: m})+"}")
	}

	return out
}

// 2048 levels of "[" are the 4 KiB of the property's bound; 10000 is encoding/json's own limit.
var ladderDepthsQuick = []int{1, 2, 3, 4, 5, 8, 16, 32, 63, 64, 65, 70, 100, 128, 400, 511, 512, 513, 1000, 2048, 4096}
var ladderDepthsThorough = []int{5000, 9999, 10000, 10001, 10002, 20000, 32768}

func ladderDepths(quick bool) []int {
	if quick {
		return ladderDepthsQuick
	}
	return append(append([]int{}, ladderDepthsQuick...), ladderDepthsThorough...)
}

func jsonLadders(quick bool) []string {
	var out []string
	if quick { // the limit boundary itself, cheapest shape only
		for _, d := range []int{10000, 10001} {
			out = append(out, strings.Repeat("[", d)+strings.Repeat("]", d))
		}
	}
	for _, d := range ladderDepths(quick) {
		out = append(out,
			strings.Repeat("[", d)+strings.Repeat("]", d),
			strings.Repeat("[", d),
			strings.Repeat(`{"a":`, d)+"1"+strings.Repeat("}", d),
			strings.Repeat(`{"a":`, d),
			strings.Repeat(`[{"a":`, d)+"null"+strings.Repeat("}]", d),
			strings.Repeat("[", d)+strings.Repeat("]", d-1))
	}
	return out
}

// serOverruns: declared sizes far beyond the input (evaluated as they are, no neighbourhood).
func serOverruns() []string {
	var out []string
	for _, n := range []string{"3", "100", "65536", "2147483648", "99999999999999"} {
		out = append(out, "a:"+n+":{i:0;N;}", "s:"+n+":\"x\";", "a:1:{i:0;a:"+n+":{}}")
	}
	return out
}

func serLadders(quick bool) []string {
	var out []string
	depths := ladderDepths(quick)
	if !quick {
		depths = append(depths, 100000)
	}
	for _, d := range depths {
		out = append(out,
			strings.Repeat("a:1:{i:0;", d)+"N;"+strings.Repeat("}", d),
			strings.Repeat("a:1:{i:0;", d),
			strings.Repeat("a:1:{i:0;", d)+"N;"+strings.Repeat("}", d-1))
		if d == 1 {
			out = append(out, serOverruns()...)
		}
		if d <= 4096 { // origami's string scan is quadratic in the input: keep string-keyed ladders small
			out = append(out, strings.Repeat(`a:1:{s:1:"a";`, d)+"i:1;"+strings.Repeat("}", d))
		}
	}
	return out
}

// ---- worker -----------------------------------------------------------------------------------------------

type decShard struct {
	Codec  string `json:"codec"`
	Mode   string `json:"mode"`   // "seq" | "edit" | "ladder"
	Alpha  string `json:"alpha"`  // "chars" | "tokens"
	Len    int    `json:"len"`    // seq: exact length
	Prefix []int  `json:"prefix"` // seq: fixed leading symbols
	Lo     int    `json:"lo"`     // edit / ladder: base index range
	Hi     int    `json:"hi"`
	Quick  bool   `json:"quick"`
	Seed   int    `json:"seed"`
}

type textCase struct {
	Kind  string `json:"kind"` // "text"
	Codec string `json:"codec"`
	Func  string `json:"func"`
	Text  []byte `json:"text"`
	Descr string `json:"descr"`
}

// classify reduces a failing text and names its class:
//   - well-formed text whose canonical re-encoding fails the same way: reduced as a value tree
//     (same keys as the value-tree family);
//   - well-formed text that only fails in this spelling: "spelling" + reduced text;
//   - malformed text: the first grammar violation reported by the reference reader.
func (dc *decCodec) classify(e *env, cc [2]string, s string, reduce bool) (cls, red string) {
	failsText := func(c string) bool { _, bad := dc.Fails(e, c)[cc]; return bad }
	if ref, ok := dc.Ref(s); ok {
		t := pToT(ref)
		if !reduce {
			if cc[0] == "json_decode(default)" && t.K != 'm' && failsText("0") {
				return "non-object-document", s
			}
			if dc.Feat != nil {
				if f := dc.Feat(s); !strings.Contains(f, "plain-scalar") {
					return f, s
				}
			}
			return "nesting-ladder", s
		}
		failsTree := func(c *T) bool { return failsText(dc.Enc(c.canon())) }
		if dc.CST {
			if c := cstParse(s); c != nil {
				rc := cstReduce(c, failsText)
				return dc.Feat(rc.render()), rc.render()
			}
		}
		cur := s
		for round := 0; round < 4; round++ {
			r2, _ := dc.Ref(cur)
			t = pToT(r2)
			if failsTree(t) {
				rt := reduceTree(t, failsTree)
				return treeKeyClass(cc[0], rt), dc.Enc(rt.canon())
			}
			next := reduceText(cur, func(c string) bool { _, ok := dc.Ref(c); return ok && failsText(c) })
			if next == cur {
				break
			}
			cur = next
		}
		return "spelling " + textClass(cur), cur
	}
	cls = dc.ErrCls(s)
	if !reduce {
		return "nesting-ladder " + cls, s
	}
	red = reduceText(s, func(c string) bool { return dc.ErrCls(c) == cls && failsText(c) })
	if m := markerIn(red); m != "" {
		// does the failure need the literal of the codec sources that the reduced text still carries?
		// (same text with the literal overwritten by neutral letters of the same length)
		if !failsText(strings.ReplaceAll(red, m, strings.Repeat("a", len(m)))) {
			cls = "malformed+marker(" + m + ")"
		}
	}
	return cls, red
}

var decCache = map[string]string{}

func decWorker(w *pool.W, arg json.RawMessage) {
	var sh decShard
	t0 := time.Now()
	json.Unmarshal(arg, &sh)
	seedRot = sh.Seed
	e := getEnv()
	dc := decCodecs[sh.Codec]
	fs := &failSet{}
	outcomes := map[string]int64{}
	cache := decCache
	var n int64
	quickClass := func(s string) string {
		if ref, ok := dc.Ref(s); ok {
			return pToT(ref).class()
		}
		if m := markerIn(s); m != "" {
			return dc.ErrCls(s) + "+marker(" + m + ")"
		}
		return dc.ErrCls(s)
	}
	one := func(s string, reduce bool) {
		n++
		fails := dc.Fails(e, s)
		if len(fails) == 0 {
			if _, ok := dc.Ref(s); ok {
				outcomes[sh.Codec+" well-formed, agrees"]++
			} else {
				outcomes[sh.Codec+" malformed, rejected"]++
			}
			return
		}
		for cc, detail := range fails {
			outcomes[cc[0]+" "+cc[1]]++
			ck := cc[0] + "|" + cc[1] + "|" + quickClass(s)
			if key, ok := cache[ck]; ok {
				if fs.bump(key) {
					continue
				}
				fs.add(key, cc[1], 1<<29+len(s), textCase{Kind: "text", Codec: sh.Codec, Func: cc[0], Text: []byte(trunc(s, 4096)), Descr: trunc(strconv.Quote(s), 200)}, detail)
				continue
			}
			cls, red := dc.classify(e, cc, s, reduce)
			key := cc[0] + ":" + cls + ":" + cc[1]
			cache[ck] = key
			if d, ok := dc.Fails(e, red)[cc]; ok {
				detail = d
			}
			txt := red
			if len(txt) > 4096 {
				txt = txt[:4096]
			}
			fs.add(key, cc[1], len(red), textCase{Kind: "text", Codec: sh.Codec, Func: cc[0], Text: []byte(txt), Descr: trunc(strconv.Quote(red), 200)}, detail)
		}
	}
	famName := ""
	switch sh.Mode {
	case "seq":
		alpha := dc.Alpha[sh.Alpha]
		famName = fmt.Sprintf("%s: all strings of <= k symbols over the %d-symbol %s alphabet", dc.Func, len(alpha), sh.Alpha)
		forSeq(len(alpha), sh.Len, sh.Prefix, func(idx []int) {
			s := join(alpha, idx)
			if !w.Item(dc.Func + " seq " + strconv.Quote(s)) {
				return
			}
			one(s, true)
		})
	case "edit":
		bases := dc.Bases(sh.Quick)
		alpha := dc.Alpha["chars"]
		famName = fmt.Sprintf("%s: edit-distance-1 neighbourhood of reference encodings", dc.Func)
		for i := sh.Lo; i < sh.Hi && i < len(bases); i++ {
			base := bases[i]
			if w.Item(dc.Func + " base " + strconv.Quote(base)) {
				one(base, true)
			}
			edits(base, alpha, func(kind, s string) {
				if !w.Item(dc.Func + " edit " + strconv.Quote(s)) {
					return
				}
				one(s, true)
			})
		}
	case "ladder":
		ls := dc.Ladder(sh.Quick)
		ld := ladderDepths(sh.Quick)
		famName = fmt.Sprintf("%s: nesting ladders to depth %d", dc.Func, ld[len(ld)-1])
		for i := sh.Lo; i < sh.Hi && i < len(ls); i++ {
			if !w.Item(fmt.Sprintf("%s ladder #%d (%d bytes)", dc.Func, i, len(ls[i]))) {
				continue
			}
			one(ls[i], len(ls[i]) <= 64)
		}
	}
	fs.flush(w)
	w.Emit(rec{Kind: "count", Fam: famName, N: n, Calls: n * dc.Calls, Outcome: outcomes, Ms: time.Since(t0).Milliseconds()})
}
