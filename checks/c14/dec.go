package main

import (
	"encoding/json"
	"fmt"
	"regexp"
	"strconv"
	"strings"

	"github.com/php-any/origami/data"

	"verif/engine/pool"
)

// ---- classes of decoder inputs -------------------------------------------------------------------

func pToT(p *P) *T {
	switch p.K {
	case 'n':
		return tNull()
	case 'b':
		return tBool(p.B)
	case 'i':
		return tInt(p.I)
	case 'f':
		return tFloat(p.F)
	case 's':
		return tStr(p.S)
	case 'a':
		list := true
		for i, k := range p.Keys {
			if !k.Int || k.I != int64(i) {
				list = false
			}
		}
		t := &T{K: 'l'}
		if !list {
			t.K = 'm'
		}
		for i, c := range p.C {
			t.C = append(t.C, pToT(c))
			if !list {
				if p.Keys[i].Int {
					t.Keys = append(t.Keys, strconv.FormatInt(p.Keys[i].I, 10))
				} else {
					t.Keys = append(t.Keys, p.Keys[i].S)
				}
			}
		}
		return t
	}
	return tNull()
}

var reDigits = regexp.MustCompile(`[0-9]+`)

// textClass: malformed inputs are keyed by their reduced text with digit runs collapsed.
func textClass(s string) string {
	if len(s) > 40 {
		s = s[:40] + "…"
	}
	return "text " + strconv.Quote(reDigits.ReplaceAllStringFunc(s, func(d string) string {
		if len(d) > 9 {
			return "9…9"
		}
		return d
	}))
}

// reduceText deletes single characters and pairs of characters while fails stays true.
func reduceText(s string, fails func(string) bool) string {
	cur := s
	for changed := true; changed; {
		changed = false
		for i := 0; i < len(cur) && !changed; i++ {
			if c := cur[:i] + cur[i+1:]; fails(c) {
				cur, changed = c, true
			}
		}
		if changed || len(cur) > 64 {
			continue
		}
		for i := 0; i < len(cur) && !changed; i++ {
			for j := i + 1; j < len(cur) && !changed; j++ {
				if c := cur[:i] + cur[i+1:j] + cur[j+1:]; fails(c) {
					cur, changed = c, true
				}
			}
		}
	}
	return cur
}

// ---- JSON decoder ------------------------------------------------------------------------------------

func isNull(v data.Value) bool { _, ok := v.(*data.NullValue); return ok || v == nil }

// jsonDecFailures judges json_decode on one text in both modes.
func jsonDecFailures(e *env, s string) map[[2]string]string {
	out := map[[2]string]string{}
	ref, valid := jsonRef(s)
	nsel := 1
	if strings.Contains(s, "{") {
		nsel = 2
	}
	for _, mode := range []string{"json_decode", "json_decode(default)"} {
		for sel := 0; sel < nsel; sel++ {
			var r callRes
			withIter(sel, func() {
				if mode == "json_decode" {
					r = e.call("json_decode", data.NewStringValue(s), data.NewBoolValue(true))
				} else {
					r = e.call("json_decode", data.NewStringValue(s))
				}
			})
			if c := crashClause(r); c != "" {
				out[[2]string{mode, c}] = r.Msg + r.Panic
				break
			}
			rejected := r.Kind != "ok" || isNull(r.V)
			if !valid {
				if !rejected {
					out[[2]string{mode, "accept-invalid"}] = fmt.Sprintf("%s(%q) = %s, encoding/json rejects the text", mode, trunc(s, 120), show(r.V))
					break
				}
				continue
			}
			if ref.K == 'n' {
				if !rejected {
					out[[2]string{mode, "decode-kind"}] = fmt.Sprintf("%s(%q) = %s, expected null", mode, trunc(s, 120), show(r.V))
				}
				continue
			}
			if rejected {
				out[[2]string{mode, "reject-valid"}] = fmt.Sprintf("%s(%q) = %s %s, encoding/json reads %s", mode, trunc(s, 120), r.Kind, show(r.V), trunc(ref.String(), 120))
				break
			}
			got := fromData(r.V)
			if d := diff(ref, got, false); d != "" {
				out[[2]string{mode, "decode-" + d}] = fmt.Sprintf("%s(%q) = %s (map iteration choice %d), encoding/json reads %s", mode, trunc(s, 120), trunc(got.String(), 200), sel, trunc(ref.String(), 200))
				break
			}
		}
	}
	return out
}

func jsonInputClass(mode, s string) string {
	ref, valid := jsonRef(s)
	if !valid {
		return textClass(s)
	}
	if mode == "json_decode(default)" && !strings.HasPrefix(strings.TrimLeft(s, " \t\r\n"), "{") {
		return "non-object-document"
	}
	return pToT(ref).class()
}

// ---- unserialize ----------------------------------------------------------------------------------------

func serDecFailures(e *env, s string) map[[2]string]string {
	out := map[[2]string]string{}
	r := e.call("unserialize", data.NewStringValue(s))
	if c := crashClause(r); c != "" {
		out[[2]string{"unserialize", c}] = r.Msg + r.Panic
		return out
	}
	ref, verdict := phpUnser(s)
	if verdict < 0 {
		return out
	}
	isFalse := func() bool {
		if r.Kind != "ok" {
			return true
		}
		b, ok := r.V.(*data.BoolValue)
		return ok && !b.Value
	}
	if verdict == 0 {
		if _, v2 := phpUnser(strings.TrimRight(s, " \t\r\n\x00\x0b")); v2 != 0 {
			return out // only trailing blanks: PHP itself tolerates trailing data; not judged
		}
		if !isFalse() {
			out[[2]string{"unserialize", "accept-invalid"}] = fmt.Sprintf("unserialize(%q) = %s, but the text is not well-formed", trunc(s, 120), show(r.V))
		}
		return out
	}
	if ref.K == 'b' && !ref.B {
		if !isFalse() {
			out[[2]string{"unserialize", "decode-kind"}] = fmt.Sprintf("unserialize(%q) = %s, expected false", s, show(r.V))
		}
		return out
	}
	if isFalse() {
		out[[2]string{"unserialize", "reject-valid"}] = fmt.Sprintf("unserialize(%q) = false, the text is the well-formed serialization of %s", trunc(s, 120), trunc(ref.String(), 120))
		return out
	}
	got := fromData(r.V)
	if d := diff(ref, got, true); d != "" {
		out[[2]string{"unserialize", "decode-" + d}] = fmt.Sprintf("unserialize(%q) = %s, the text is the serialization of %s", trunc(s, 120), trunc(got.String(), 200), trunc(ref.String(), 200))
	}
	return out
}

func serInputClass(mode, s string) string {
	ref, verdict := phpUnser(s)
	if verdict != 1 {
		return textClass(s)
	}
	return pToT(ref).class()
}

// ---- alphabets ---------------------------------------------------------------------------------------------

var jsonChars = []string{"[", "]", "{", "}", "\"", ":", ",", "0", "1", "-", ".", "e", "\\", "a", " "}
var jsonTokens = []string{"[", "]", "{", "}", ":", ",", " ", "\"a\"", "\"b\"", "\"\\u00e9\"", "\"length\"", "null", "true", "false", "1", "-1", "1.5", "1e2", "9007199254740993", "9223372036854775808"}
var serChars = []string{"N", "b", "i", "s", "a", "d", ":", ";", "0", "1", "\"", "{", "}", "-", "x"}
var serTokens = []string{"N;", "b:1;", "i:0;", "i:1;", "i:-1;", "d:0.5;", "s:0:\"", "s:1:\"", "s:2:\"", "\";", "x", "\"", "a:0:{", "a:1:{", "a:2:{", "a:99999999999999:{", "}", ";", " ", "+"}

type decCodec struct {
	Name   string
	Fails  func(e *env, s string) map[[2]string]string
	Class  func(mode, s string) string
	Calls  int64
	Alpha  map[string][]string
	Bases  func(quick bool) []string
	Ladder func(quick bool) []string
}

var decCodecs = map[string]*decCodec{
	"json": {Name: "json", Fails: jsonDecFailures, Class: jsonInputClass, Calls: 2,
		Alpha: map[string][]string{"chars": jsonChars, "tokens": jsonTokens}, Bases: jsonBases, Ladder: jsonLadders},
	"ser": {Name: "ser", Fails: serDecFailures, Class: serInputClass, Calls: 1,
		Alpha: map[string][]string{"chars": serChars, "tokens": serTokens}, Bases: serBases, Ladder: serLadders},
}

// ---- bases for the edit-distance-1 neighbourhoods --------------------------------------------------------

func baseTrees(quick bool) []*P {
	leaves := []*T{tInt(0), tInt(-1), tFloat(1.5), tStr("a"), tStr(`a"b`), tStr(""), tNull(), tBool(true)}
	if !quick {
		leaves = append(leaves, tStr("é"), tInt(1<<53+1), tStr("a;b"), tBool(false))
	}
	var ts []*T
	ts = append(ts, leaves...)
	var d1 []*T
	for _, kind := range []byte{'l', 'm'} {
		for n := 0; n <= 2; n++ {
			keys := keyVariants(n)[0]
			slots := make([][]*T, n)
			for i := range slots {
				slots[i] = leaves
			}
			f := &fam{Kind: kind, Keys: keys, Slots: slots}
			for i := int64(0); i < f.n(); i++ {
				d1 = append(d1, f.tree(i))
			}
		}
	}
	ts = append(ts, d1...)
	a, b := keyVariants(2)[0][0], keyVariants(2)[0][1]
	for _, c := range d1 {
		ts = append(ts, tList(c), tMap('m', []string{a}, []*T{c}))
	}
	small := append([]*T{tInt(1), tStr("a"), tNull()}, tList(), tList(tInt(1)), tMap('m', []string{a}, []*T{tStr("a")}), tMap('m', []string{"1"}, []*T{tNull()}))
	for _, x := range small {
		for _, y := range small {
			ts = append(ts, tList(x, y), tMap('m', []string{a, b}, []*T{x, y}))
		}
	}
	ps := make([]*P, len(ts))
	for i, t := range ts {
		ps[i] = t.canon()
	}
	return ps
}

func jsonText(p *P) string {
	switch p.K {
	case 'n':
		return "null"
	case 'b':
		return strconv.FormatBool(p.B)
	case 'i':
		return strconv.FormatInt(p.I, 10)
	case 'f':
		b, _ := json.Marshal(p.F)
		return string(b)
	case 's':
		b, _ := json.Marshal(p.S)
		return string(b)
	}
	list := true
	for i, k := range p.Keys {
		if !k.Int || k.I != int64(i) {
			list = false
		}
	}
	var parts []string
	for i, c := range p.C {
		if list {
			parts = append(parts, jsonText(c))
		} else {
			k := p.Keys[i].S
			if p.Keys[i].Int {
				k = strconv.FormatInt(p.Keys[i].I, 10)
			}
			kb, _ := json.Marshal(k)
			parts = append(parts, string(kb)+":"+jsonText(c))
		}
	}
	if list {
		return "[" + strings.Join(parts, ",") + "]"
	}
	return "{" + strings.Join(parts, ",") + "}"
}

func jsonBases(quick bool) []string {
	var out []string
	seen := map[string]bool{}
	for _, p := range baseTrees(quick) {
		s := jsonText(p)
		if !seen[s] {
			seen[s] = true
			out = append(out, s)
		}
	}
	out = append(out, "{}", `{"a":{}}`, `[{}]`, ` [ 1 , 2 ] `, `{"a":1,"a":2}`, `"\u00e9\n\\\/"`, `-0`, `1E+2`, `0.5e-1`)
	return out
}

func serBases(quick bool) []string {
	var out []string
	seen := map[string]bool{}
	for _, p := range baseTrees(quick) {
		s := phpSer(p)
		if !seen[s] {
			seen[s] = true
			out = append(out, s)
		}
	}
	out = append(out, `a:1:{i:0;a:1:{i:0;a:0:{}}}`, `i:+1;`, `d:1.0E+21;`, `d:-0;`, `a:2:{i:0;N;i:0;b:1;}`, `s:3:"a;b";`)
	return out
}

var ladderDepths = []int{1, 2, 3, 4, 5, 8, 16, 32, 63, 64, 65, 70, 100, 128, 400, 511, 512, 513, 1000, 2000, 4096, 5000, 9999, 10000, 10001, 10002, 20000, 32768}

func jsonLadders(quick bool) []string {
	var out []string
	for _, d := range ladderDepths {
		out = append(out,
			strings.Repeat("[", d)+strings.Repeat("]", d),
			strings.Repeat("[", d),
			strings.Repeat(`{"a":`, d)+"1"+strings.Repeat("}", d),
			strings.Repeat(`{"a":`, d),
			strings.Repeat(`[{"a":`, d)+"null"+strings.Repeat("}]", d),
			strings.Repeat("[", d)+strings.Repeat("]", d-1))
	}
	return out
}

func serLadders(quick bool) []string {
	var out []string
	depths := append([]int{}, ladderDepths...)
	if !quick {
		depths = append(depths, 100000)
	}
	for _, d := range depths {
		out = append(out,
			strings.Repeat("a:1:{i:0;", d)+"N;"+strings.Repeat("}", d),
			strings.Repeat("a:1:{i:0;", d),
			strings.Repeat("a:1:{i:0;", d)+"N;"+strings.Repeat("}", d-1),
			strings.Repeat(`a:1:{s:1:"a";`, d)+"i:1;"+strings.Repeat("}", d))
	}
	return out
}

// ---- worker -----------------------------------------------------------------------------------------------

type decShard struct {
	Codec  string `json:"codec"`
	Mode   string `json:"mode"`   // "seq" | "edit" | "ladder"
	Alpha  string `json:"alpha"`  // "chars" | "tokens"
	Len    int    `json:"len"`    // seq: exact length
	Prefix []int  `json:"prefix"` // seq: fixed leading symbols
	Lo     int    `json:"lo"`     // edit / ladder: base index range
	Hi     int    `json:"hi"`
	Quick  bool   `json:"quick"`
	Seed   int    `json:"seed"`
}

type textCase struct {
	Kind  string `json:"kind"` // "text"
	Codec string `json:"codec"`
	Func  string `json:"func"`
	Text  []byte `json:"text"`
	Descr string `json:"descr"`
}

func decWorker(w *pool.W, arg json.RawMessage) {
	var sh decShard
	json.Unmarshal(arg, &sh)
	seedRot = sh.Seed
	e := getEnv()
	dc := decCodecs[sh.Codec]
	fs := &failSet{}
	outcomes := map[string]int64{}
	cache := map[string]string{}
	var n int64
	one := func(s string, reduce bool) {
		n++
		fails := dc.Fails(e, s)
		if len(fails) == 0 {
			if _, v := jsonRef(s); sh.Codec == "json" && v {
				outcomes["json well-formed, agrees"]++
			} else if _, v := phpUnser(s); sh.Codec == "ser" && v == 1 {
				outcomes["serialize well-formed, agrees"]++
			} else {
				outcomes[sh.Codec+" malformed, rejected"]++
			}
			return
		}
		for cc, detail := range fails {
			outcomes[cc[0]+" "+cc[1]]++
			ck := cc[0] + "|" + cc[1] + "|" + dc.Class(cc[0], s)
			if key, ok := cache[ck]; ok {
				fs.add(key, cc[1], 1<<30, nil, "")
				continue
			}
			red := s
			if reduce && len(s) <= 4096 {
				red = reduceText(s, func(c string) bool { _, bad := dc.Fails(e, c)[cc]; return bad })
			}
			cls := dc.Class(cc[0], red)
			if !reduce && cls != "non-object-document" {
				cls = "nesting-ladder"
			}
			key := cc[0] + ":" + cls + ":" + cc[1]
			cache[ck] = key
			if d, ok := dc.Fails(e, red)[cc]; ok {
				detail = d
			}
			txt := red
			if len(txt) > 4096 {
				txt = txt[:4096]
			}
			fs.add(key, cc[1], len(red), textCase{Kind: "text", Codec: sh.Codec, Func: cc[0], Text: []byte(txt), Descr: trunc(strconv.Quote(red), 200)}, detail)
		}
	}
	famName := ""
	switch sh.Mode {
	case "seq":
		alpha := dc.Alpha[sh.Alpha]
		famName = fmt.Sprintf("%s decoder: all strings of <= k symbols over the %d-symbol %s alphabet", sh.Codec, len(alpha), sh.Alpha)
		forSeq(len(alpha), sh.Len, sh.Prefix, func(idx []int) {
			s := join(alpha, idx)
			if !w.Item(sh.Codec + " seq " + strconv.Quote(s)) {
				return
			}
			one(s, true)
		})
	case "edit":
		bases := dc.Bases(sh.Quick)
		alpha := dc.Alpha["chars"]
		famName = fmt.Sprintf("%s decoder: edit-distance-1 neighbourhood of reference encodings", sh.Codec)
		for i := sh.Lo; i < sh.Hi && i < len(bases); i++ {
			base := bases[i]
			if w.Item(sh.Codec + " base " + strconv.Quote(base)) {
				one(base, true)
			}
			edits(base, alpha, func(kind, s string) {
				if !w.Item(sh.Codec + " edit " + strconv.Quote(s)) {
					return
				}
				one(s, true)
			})
		}
	case "ladder":
		ls := dc.Ladder(sh.Quick)
		famName = fmt.Sprintf("%s decoder: nesting ladders to depth %d", sh.Codec, ladderDepths[len(ladderDepths)-1])
		for i := sh.Lo; i < sh.Hi && i < len(ls); i++ {
			if !w.Item(fmt.Sprintf("%s ladder #%d (%d bytes)", sh.Codec, i, len(ls[i]))) {
				continue
			}
			one(ls[i], false)
		}
	}
	fs.flush(w)
	w.Emit(rec{Kind: "count", Fam: famName, N: n, Calls: n * dc.Calls, Outcome: outcomes})
}
