package main

import (
	"fmt"
	"math"
	"strconv"
	"strings"
	"unicode/utf8"

	"github.com/php-any/origami/data"
)

// T is an input value tree in origami's own representation space.
//
//	K: 'n' null, 'b' bool, 'i' int, 'f' float, 's' string,
//	   'l' list            (*data.ArrayValue, unnamed slots; script literal [a, b])
//	   'm' keyed map       (*data.ObjectValue; script literal ["k" => a] / [5 => a])
//	   'k' keyed array     (*data.ArrayValue with named slots; what `$v = []; $v["k"] = a;`
//	                        and json_decode(.., true) build)
//	   'x' mixed array     (*data.ArrayValue in which every slot is either positional or named:
//	                        Keys[i] == "" is a positional slot, whose key is its index i; what
//	                        `$v = [a, b]; $v["k"] = c;` or `$v = []; $v["k"] = a; $v[] = b;` build)
type T struct {
	K    byte     `json:"k"`
	B    bool     `json:"b,omitempty"`
	I    int64    `json:"i,omitempty"`
	F    float64  `json:"-"`
	FS   string   `json:"f,omitempty"` // float as text (JSON cannot carry -0 / exponents faithfully)
	S    []byte   `json:"s,omitempty"` // base64 in JSON
	Keys []string `json:"keys,omitempty"`
	C    []*T     `json:"c,omitempty"`
}

func tNull() *T           { return &T{K: 'n'} }
func tBool(b bool) *T     { return &T{K: 'b', B: b} }
func tInt(i int64) *T     { return &T{K: 'i', I: i} }
func tFloat(f float64) *T { return &T{K: 'f', F: f, FS: strconv.FormatFloat(f, 'g', -1, 64)} }
func tStr(s string) *T    { return &T{K: 's', S: []byte(s)} }
func tList(c ...*T) *T    { return &T{K: 'l', C: c} }
func tMap(kind byte, keys []string, c []*T) *T {
	return &T{K: kind, Keys: keys, C: c}
}

// fix restores F after JSON decoding.
func (t *T) fix() {
	if t == nil {
		return
	}
	if t.K == 'f' {
		t.F, _ = strconv.ParseFloat(t.FS, 64)
	}
	for _, c := range t.C {
		c.fix()
	}
}

func (t *T) clone() *T {
	n := *t
	n.S = append([]byte(nil), t.S...)
	n.Keys = append([]string(nil), t.Keys...)
	n.C = make([]*T, len(t.C))
	for i, c := range t.C {
		n.C[i] = c.clone()
	}
	if len(t.C) == 0 {
		n.C = nil
	}
	return &n
}

func (t *T) size() int {
	n := 1 + len(t.S)
	for i, c := range t.C {
		n += c.size()
		if i < len(t.Keys) && t.Keys[i] != string(rune('a'+i)) && !(t.K == 'x' && t.Keys[i] == "") {
			n += 1 + len(t.Keys[i]) // a neutral key ("a", "b", ...) and a positional slot cost nothing
		}
	}
	return n
}

// toData builds the origami value.
func (t *T) toData() data.Value {
	switch t.K {
	case 'n':
		return data.NewNullValue()
	case 'b':
		return data.NewBoolValue(t.B)
	case 'i':
		return data.NewIntValue(int(t.I))
	case 'f':
		return data.NewFloatValue(t.F)
	case 's':
		return data.NewStringValue(string(t.S))
	case 'l':
		vs := make([]data.Value, len(t.C))
		for i, c := range t.C {
			vs[i] = c.toData()
		}
		return data.NewArrayValue(vs)
	case 'm':
		o := data.NewObjectValue()
		for i, c := range t.C {
			o.SetProperty(t.Keys[i], c.toData())
		}
		return o
	case 'k':
		a := &data.ArrayValue{}
		for i, c := range t.C {
			a.List = append(a.List, data.NewNamedZVal(t.Keys[i], c.toData()))
		}
		return a
	case 'x':
		a := &data.ArrayValue{}
		for i, c := range t.C {
			if t.Keys[i] == "" {
				a.List = append(a.List, data.NewZVal(c.toData()))
			} else {
				a.List = append(a.List, data.NewNamedZVal(t.Keys[i], c.toData()))
			}
		}
		return a
	}
	panic("bad tree kind")
}

func phpStr(b []byte) string {
	var sb strings.Builder
	sb.WriteByte('"')
	for _, c := range b {
		fmt.Fprintf(&sb, "\\x%02x", c)
	}
	sb.WriteByte('"')
	return sb.String()
}

// script returns statements that build the value into variable $name using only literals and
// element assignment.
func (t *T) script(name string) string {
	switch t.K {
	case 'k', 'x':
		var sb strings.Builder
		fmt.Fprintf(&sb, "$%s = [];\n", name)
		for i, c := range t.C {
			sb.WriteString(c.script(name + "_" + strconv.Itoa(i)))
			if t.K == 'x' && t.Keys[i] == "" {
				fmt.Fprintf(&sb, "$%s[] = $%s_%d;\n", name, name, i)
			} else {
				fmt.Fprintf(&sb, "$%s[%s] = $%s_%d;\n", name, phpStr([]byte(t.Keys[i])), name, i)
			}
		}
		return sb.String()
	case 'l', 'm':
		if !t.stepwise() {
			break
		}
		// a literal whose members are built step by step first
		var sb strings.Builder
		parts := make([]string, len(t.C))
		for i, c := range t.C {
			sb.WriteString(c.script(name + "_" + strconv.Itoa(i)))
			parts[i] = fmt.Sprintf("$%s_%d", name, i)
			if t.K == 'm' {
				parts[i] = t.keyLiteral(i) + " => " + parts[i]
			}
		}
		fmt.Fprintf(&sb, "$%s = [%s];\n", name, strings.Join(parts, ", "))
		return sb.String()
	}
	return fmt.Sprintf("$%s = %s;\n", name, t.literal())
}

// stepwise: some descendant has no literal form.
func (t *T) stepwise() bool {
	if t.K == 'k' || t.K == 'x' {
		return true
	}
	for _, c := range t.C {
		if c.stepwise() {
			return true
		}
	}
	return false
}

func (t *T) keyLiteral(i int) string {
	if n, err := strconv.ParseInt(t.Keys[i], 10, 64); err == nil && strconv.FormatInt(n, 10) == t.Keys[i] && n >= 0 {
		return t.Keys[i]
	}
	return phpStr([]byte(t.Keys[i]))
}

// valid: the keys of a mixed array (index of a positional slot, normalised name of a named one)
// are pairwise distinct -- an ArrayValue that carries the same key twice has no meaning as a PHP
// value, so no codec is judged on it.
func (t *T) keysDistinct() bool {
	seen := map[PK]bool{}
	for i := range t.Keys {
		k := PK{Int: true, I: int64(i)}
		if t.Keys[i] != "" {
			k = normKey(t.Keys[i])
		}
		if seen[k] {
			return false
		}
		seen[k] = true
	}
	return true
}

func (t *T) valid() bool {
	if t.K == 'x' && !t.keysDistinct() {
		return false
	}
	for _, c := range t.C {
		if !c.valid() {
			return false
		}
	}
	return true
}

func (t *T) literal() string {
	switch t.K {
	case 'n':
		return "null"
	case 'b':
		if t.B {
			return "true"
		}
		return "false"
	case 'i':
		if t.I == math.MinInt64 {
			return "(-9223372036854775807 - 1)"
		}
		if t.I < 0 {
			return "(" + strconv.FormatInt(t.I, 10) + ")"
		}
		return strconv.FormatInt(t.I, 10)
	case 'f':
		switch {
		case t.F == 0 && math.Signbit(t.F):
			return "(-0.0)"
		case t.F == 1e21:
			return "(1000000000000.0 * 1000000000.0)"
		case t.F == 1e-7:
			return "(1.0 / 10000000.0)"
		}
		s := strconv.FormatFloat(t.F, 'f', -1, 64)
		if !strings.Contains(s, ".") {
			s += ".0"
		}
		if t.F < 0 {
			return "(" + s + ")"
		}
		return s
	case 's':
		return phpStr(t.S)
	case 'l':
		parts := make([]string, len(t.C))
		for i, c := range t.C {
			parts[i] = c.literal()
		}
		return "[" + strings.Join(parts, ", ") + "]"
	case 'm':
		parts := make([]string, len(t.C))
		for i, c := range t.C {
			parts[i] = t.keyLiteral(i) + " => " + c.literal()
		}
		return "[" + strings.Join(parts, ", ") + "]"
	}
	panic("literal: kind " + string(t.K))
}

// ---- canonical PHP value (what a value *means*, independent of representation) ---------

// P is a PHP value: scalars, or an ordered map with normalised keys (decimal-integer strings are
// integer keys, as in PHP). Lists are maps with keys 0..n-1. origami conflates stdClass objects
// and associative arrays (both *data.ObjectValue), so P does not distinguish them either.
type P struct {
	K    byte // n b i f s a, 'x' = something else
	B    bool
	I    int64
	F    float64
	S    string
	Keys []PK
	C    []*P
	X    string
}

type PK struct {
	Int bool
	I   int64
	S   string
}

func (k PK) String() string {
	if k.Int {
		return strconv.FormatInt(k.I, 10)
	}
	return strconv.Quote(k.S)
}

func normKey(s string) PK {
	if n, err := strconv.ParseInt(s, 10, 64); err == nil && strconv.FormatInt(n, 10) == s {
		return PK{Int: true, I: n}
	}
	return PK{S: s}
}

func (p *P) set(k PK, v *P) {
	for i, e := range p.Keys {
		if e == k {
			p.C[i] = v
			return
		}
	}
	p.Keys = append(p.Keys, k)
	p.C = append(p.C, v)
}

// canon gives the meaning of an input tree.
func (t *T) canon() *P {
	switch t.K {
	case 'n':
		return &P{K: 'n'}
	case 'b':
		return &P{K: 'b', B: t.B}
	case 'i':
		return &P{K: 'i', I: t.I}
	case 'f':
		return &P{K: 'f', F: t.F}
	case 's':
		return &P{K: 's', S: string(t.S)}
	case 'l':
		p := &P{K: 'a'}
		for i, c := range t.C {
			p.set(PK{Int: true, I: int64(i)}, c.canon())
		}
		return p
	case 'x':
		p := &P{K: 'a'}
		for i, c := range t.C {
			if t.Keys[i] == "" {
				p.set(PK{Int: true, I: int64(i)}, c.canon())
			} else {
				p.set(normKey(t.Keys[i]), c.canon())
			}
		}
		return p
	default:
		p := &P{K: 'a'}
		for i, c := range t.C {
			p.set(normKey(t.Keys[i]), c.canon())
		}
		return p
	}
}

// fromData reads an origami value back into a P.
func fromData(v data.Value) *P {
	switch x := v.(type) {
	case nil:
		return &P{K: 'x', X: "<nil>"}
	case *data.NullValue:
		return &P{K: 'n'}
	case *data.BoolValue:
		return &P{K: 'b', B: x.Value}
	case *data.IntValue:
		return &P{K: 'i', I: int64(x.Value)}
	case *data.FloatValue:
		return &P{K: 'f', F: x.Value}
	case *data.StringValue:
		return &P{K: 's', S: x.Value}
	case *data.ArrayValue:
		p := &P{K: 'a'}
		for i, z := range x.List {
			if z == nil {
				p.set(PK{Int: true, I: int64(i)}, &P{K: 'x', X: "<nil slot>"})
				continue
			}
			k := PK{Int: true, I: int64(i)}
			if z.Name != "" {
				k = normKey(z.Name)
			}
			p.set(k, fromData(z.Value))
		}
		return p
	case *data.ObjectValue:
		p := &P{K: 'a'}
		x.RangeProperties(func(k string, v data.Value) bool {
			p.set(normKey(k), fromData(v))
			return true
		})
		return p
	}
	return &P{K: 'x', X: fmt.Sprintf("%T", v)}
}

func (p *P) String() string {
	switch p.K {
	case 'n':
		return "null"
	case 'b':
		return fmt.Sprintf("bool(%v)", p.B)
	case 'i':
		return fmt.Sprintf("int(%d)", p.I)
	case 'f':
		return "float(" + strconv.FormatFloat(p.F, 'g', -1, 64) + ")"
	case 's':
		return "string(" + strconv.Quote(p.S) + ")"
	case 'a':
		var sb strings.Builder
		sb.WriteString("[")
		for i, k := range p.Keys {
			if i > 0 {
				sb.WriteString(", ")
			}
			sb.WriteString(k.String() + "=>" + p.C[i].String())
		}
		sb.WriteString("]")
		return sb.String()
	}
	return "other(" + p.X + ")"
}

// diff compares expected and observed: "" equal; otherwise the coarsest description of what is
// different: "kind" (different type of value), "numtype" (int vs float of equal numeric value),
// "value", "keys" (different key set / length), "order" (same entries, different order).
// numStrict=false lets int(1) and float(1.0) pass (JSON has one number type).
func diff(e, g *P, numStrict bool) string {
	if e.K != g.K {
		if (e.K == 'i' && g.K == 'f' && float64(e.I) == g.F && math.Abs(g.F) < 1<<63 && int64(g.F) == e.I) || (e.K == 'f' && g.K == 'i' && float64(g.I) == e.F && (math.Abs(e.F) < 1<<63 && int64(e.F) == g.I)) {
			if numStrict {
				return "numtype"
			}
			return ""
		}
		return "kind"
	}
	switch e.K {
	case 'n':
		return ""
	case 'b':
		if e.B != g.B {
			return "value"
		}
	case 'i':
		if e.I != g.I {
			return "value"
		}
	case 'f':
		if e.F != g.F && !(math.IsNaN(e.F) && math.IsNaN(g.F)) {
			return "value"
		}
	case 's':
		if e.S != g.S {
			return "value"
		}
	case 'x':
		return "kind"
	case 'a':
		if len(e.Keys) != len(g.Keys) {
			return "keys"
		}
		order := false
		worst := ""
		for i, k := range e.Keys {
			j := -1
			if g.Keys[i] == k {
				j = i
			} else {
				for x, gk := range g.Keys {
					if gk == k {
						j = x
						break
					}
				}
				if j < 0 {
					return "keys"
				}
				order = true
			}
			if d := diff(e.C[i], g.C[j], numStrict); d != "" && worst == "" {
				worst = d
			}
		}
		if worst != "" {
			return worst
		}
		if order {
			return "order"
		}
	}
	return ""
}

// ---- classes (for finding keys) -----------------------------------------------------------

func strClass(s []byte) string {
	if len(s) == 0 {
		return "str-empty"
	}
	if !utf8.Valid(s) {
		return "str-badutf8"
	}
	if m := markerIn(string(s)); m != "" {
		return "str-marker(" + m + ")" // contains a literal of the codec sources (dict.go)
	}
	has := func(f func(c byte) bool) bool {
		for _, c := range s {
			if f(c) {
				return true
			}
		}
		return false
	}
	switch {
	case has(func(c byte) bool { return c < 0x20 }):
		return "str-ctrl"
	case has(func(c byte) bool { return c == '"' || c == '\\' }):
		return "str-quote"
	case has(func(c byte) bool { return c == '/' }):
		return "str-slash"
	case has(func(c byte) bool { return c == '<' || c == '>' || c == '&' || c == '\'' }):
		return "str-html"
	case has(func(c byte) bool { return c == 0x7f }):
		return "str-del"
	case has(func(c byte) bool { return c >= 0x80 }):
		return "str-utf8"
	}
	if _, err := strconv.ParseFloat(string(s), 64); err == nil {
		return "str-numeric"
	}
	if has(func(c byte) bool {
		return !(c >= '0' && c <= '9' || c >= 'a' && c <= 'z' || c >= 'A' && c <= 'Z')
	}) {
		return "str-punct"
	}
	return "str-alnum"
}

func (t *T) class() string {
	switch t.K {
	case 'n':
		return "null"
	case 'b':
		return "bool"
	case 'i':
		if t.I > 1<<53 || t.I < -(1<<53) {
			return "int>2^53"
		}
		return "int"
	case 'f':
		a := math.Abs(t.F)
		switch {
		case a >= 1e21 || (a != 0 && a < 1e-6):
			return "float-exp"
		case t.F == math.Trunc(t.F):
			return "float-integral"
		}
		return "float-frac"
	case 's':
		return strClass(t.S)
	}
	name := map[byte]string{'l': "list", 'm': "map", 'k': "keyed-array", 'x': "mixed-array"}[t.K]
	if t.K == 'x' { // a reduced mixed array that kept only one slot kind is named as what it then is
		pos := 0
		for _, k := range t.Keys {
			if k == "" {
				pos++
			}
		}
		if pos == 0 {
			name = "keyed-array"
		} else if pos == len(t.Keys) {
			name = "list"
		}
	}
	if len(t.C) == 0 {
		return name + "[]"
	}
	var parts []string
	seen := map[string]bool{}
	for i, c := range t.C {
		d := c.class()
		if t.K != 'l' {
			kc := "k-" + strings.TrimPrefix(strClass([]byte(t.Keys[i])), "str-")
			if pk := normKey(t.Keys[i]); pk.Int {
				kc = "k-int"
			}
			if t.Keys[i] == "length" {
				kc = "k-length" // ObjectValue answers GetProperty("length") with its size
			}
			if t.K == 'x' && t.Keys[i] == "" {
				kc = "pos"
				if name == "list" {
					kc = "k-alnum"
				}
			}
			if kc != "k-alnum" {
				d = kc + "=>" + d
			}
		}
		if !seen[d] {
			seen[d] = true
			parts = append(parts, d)
		}
	}
	n := ""
	if len(t.C) > 1 {
		n = strconv.Itoa(len(t.C))
	}
	return name + n + "[" + strings.Join(parts, ",") + "]"
}

// ---- reduction ------------------------------------------------------------------------------

// reduceTree shrinks t while fails(t) stays true: hoist a child, drop a child, replace a leaf by
// int 0, replace a key by "a".."c", recurse into children.
func reduceTree(t *T, fails func(*T) bool) *T {
	cur := t
	for changed := true; changed; {
		changed = false
		for _, cand := range shrinks(cur) {
			if cand.size() < cur.size() || simpler(cand, cur) {
				if cand.valid() && fails(cand) {
					cur = cand
					changed = true
					break
				}
			}
		}
	}
	return cur
}

func simpler(a, b *T) bool { return a.size() == b.size() && a.rank() < b.rank() }

// rank orders equally sized trees: neutral leaves / keys rank lower.
func (t *T) rank() int {
	r := 0
	switch t.K {
	case 'i':
		if t.I != 0 {
			r = 1
		}
	case 's':
		r = 2
		for _, c := range t.S {
			if c != 'a' {
				r = 3
			}
		}
	case 'n', 'b':
		r = 2
	case 'f':
		r = 2
		if t.F != 0.5 {
			r = 3
		}
	}
	if t.K == 'l' || t.K == 'm' || t.K == 'k' || t.K == 'x' {
		r = 1
	}
	for i, c := range t.C {
		r += c.rank()
		if i < len(t.Keys) && t.Keys[i] != string(rune('a'+i)) && !(t.K == 'x' && t.Keys[i] == "") {
			r++
		}
	}
	return r
}

func shrinks(t *T) []*T {
	var out []*T
	// hoist
	for _, c := range t.C {
		out = append(out, c.clone())
	}
	// drop one child
	for i := range t.C {
		n := t.clone()
		n.C = append(n.C[:i:i], n.C[i+1:]...)
		if len(n.Keys) > 0 {
			n.Keys = append(n.Keys[:i:i], n.Keys[i+1:]...)
			for j := i; j < len(n.Keys); j++ { // neutral keys stay neutral at their new position
				if n.Keys[j] == string(rune('a'+j+1)) {
					n.Keys[j] = string(rune('a' + j))
				}
			}
		}
		out = append(out, n)
	}
	// anything -> int 0 ; string -> shorter / all-'a'
	switch t.K {
	case 'n', 'b', 'f', 's', 'l', 'm', 'k', 'x':
		out = append(out, tInt(0))
	case 'i':
		if t.I != 0 {
			out = append(out, tInt(0))
		}
	}
	if t.K == 'f' && t.F != 0.5 {
		out = append(out, tFloat(0.5))
	}
	if t.K == 's' {
		for i := range t.S {
			n := t.clone()
			n.S = append(n.S[:i:i], n.S[i+1:]...)
			out = append(out, n)
		}
		for i, c := range t.S {
			if c != 'a' {
				n := t.clone()
				n.S[i] = 'a'
				out = append(out, n)
			}
		}
	}
	// keys -> neutral
	for i := range t.Keys {
		want := string(rune('a' + i))
		if t.Keys[i] != want && !(t.K == 'x' && t.Keys[i] == "") {
			dup := false
			for _, k := range t.Keys {
				if k == want {
					dup = true
				}
			}
			if !dup {
				n := t.clone()
				n.Keys[i] = want
				out = append(out, n)
			}
		}
	}
	// recurse
	for i, c := range t.C {
		for _, s := range shrinks(c) {
			n := t.clone()
			n.C[i] = s
			out = append(out, n)
		}
	}
	return out
}
