package main

import "os"

func main() {
	if len(os.Args) > 1 && os.Args[1] == "probe" {
		probeMain(os.Args[2:])
		return
	}
}
