// C06: arrays are values — writes through a copy never show through the original.
//
// Form H over a complete matrix: shape (8) x aliasing route (20) x mutation (23) x mutated side
// (copy | original), and every chain of two routes x mutation x mutated name; thorough adds
// sequences of two mutations. Every case
// is one script on a fresh parser + VM that prints a json_encode+serialize snapshot of every live
// name before and after each mutation.
//
//	deciding oracle   the snapshot of every name that was NOT mutated is identical before and after
//	                  (observed vs. observed inside the same run; no model involved)
//	vacuity guard     the mutated name did change, and equals an independent Go model of PHP arrays
//	                  (model.go) where the mutation's effect is modelled
//	controls          `$b = &$a`, `function f(&$p)`, `$q = $o` (object handle): here the write MUST
//	                  show through, which proves the snapshot oracle can see a shared write
//	object half       handles share scalar and array-valued properties, `clone` separates them
//
// Finding key = leak:<route>:<mutation class>; shape, concrete mutation and side are reported in
// the detail but are not part of the key (one copy mechanism x one kind of write = one root cause).
package main

import (
	"encoding/json"
	"fmt"
	"os"
	"sort"
	"strings"
	"time"

	"verif/engine/ev"
	"verif/engine/pool"
	"verif/engine/runner"
)

// ---- judging one case ---------------------------------------------------------------------------

type leak struct {
	Step   int    `json:"step"`
	From   int    `json:"from"` // mutated name
	To     int    `json:"to"`   // name whose snapshot changed
	Class  string `json:"class"`
	Before string `json:"before"`
	After  string `json:"after"`
}

type outcome struct {
	Evaluable bool
	Reason    string
	Snaps     [][]string
	Errored   []bool
	Effective []bool
	Agree     []int // 1 model agrees, 0 differs, -1 not modelled
	Leaks     []leak
	NoThrough []int // control cases: steps whose write did not show through
	OuterLeak bool  // param route: caller-side names changed although only the parameter was written
	CopyDiff  bool  // a copy did not equal the original right after the route
	B         built
}

func jsonPart(s string) string {
	if i := strings.Index(s, "~"); i >= 0 {
		return s[:i]
	}
	return s
}

func judge(k kase) outcome {
	b := k.build()
	o := outcome{B: b}
	if !b.ok {
		o.Reason = "not-applicable"
		return o
	}
	res := runner.Run(b.script, runner.Opts{})
	var pLine, fLine []string
	o.Errored = make([]bool, len(k.Steps))
	for _, ln := range strings.Split(res.Out, "\n") {
		f := strings.Split(ln, "|")
		switch f[0] {
		case "S":
			o.Snaps = append(o.Snaps, f[1:])
		case "P":
			pLine = f[1:]
		case "F":
			fLine = f[1:]
		case "E":
			var j int
			if len(f) > 1 {
				fmt.Sscan(f[1], &j)
				if j >= 0 && j < len(o.Errored) {
					o.Errored[j] = true
				}
			}
		}
	}
	if res.Kind != "ok" {
		o.Reason = "script:" + res.Kind
		if res.PanicKey != "" {
			o.Reason += ":" + res.PanicKey
		} else if res.Msg != "" {
			o.Reason += ":" + res.Msg
		}
		return o
	}
	if len(o.Snaps) != len(k.Steps)+1 {
		o.Reason = fmt.Sprintf("snapshots:%d/%d", len(o.Snaps), len(k.Steps)+1)
		return o
	}
	for _, s := range o.Snaps {
		if len(s) != b.names {
			o.Reason = "snapshot-arity"
			return o
		}
	}
	for _, s := range o.Snaps[0][1:] {
		if s != o.Snaps[0][0] {
			// the route did not produce a copy equal to the original (e.g. a store that spreads its
			// argument): the premise of the case is gone, nothing is judged
			o.CopyDiff = true
			o.Reason = "route-result-differs-from-original"
			return o
		}
	}
	o.Evaluable = true
	ctl := ""
	for _, n := range k.Routes {
		if r, _ := routeByName(n); r.control != "" {
			ctl = r.control
		}
	}
	onlyInner := true
	for j, st := range k.Steps {
		prev, cur := o.Snaps[j], o.Snaps[j+1]
		eff := prev[st.Target] != cur[st.Target]
		o.Effective = append(o.Effective, eff)
		switch {
		case b.models[j] == "":
			o.Agree = append(o.Agree, -1)
		case jsonPart(cur[st.Target]) == b.models[j]:
			o.Agree = append(o.Agree, 1)
		default:
			o.Agree = append(o.Agree, 0)
		}
		if st.Target != b.names-1 {
			onlyInner = false
		}
		for u := range cur {
			if u == st.Target {
				continue
			}
			if ctl != "" {
				// aliases: both names must show the same value after the write
				if eff && cur[u] != cur[st.Target] {
					o.NoThrough = append(o.NoThrough, j)
				}
				continue
			}
			if cur[u] != prev[u] {
				o.Leaks = append(o.Leaks, leak{Step: j, From: st.Target, To: u, Class: b.classes[j], Before: prev[u], After: cur[u]})
			}
		}
	}
	if ctl == "" && pLine != nil && fLine != nil && onlyInner && strings.Join(pLine, "|") != strings.Join(fLine, "|") {
		o.OuterLeak = true
	}
	return o
}

// explainRef re-classes the leaks of writes through an element reference (class ref): when the plain
// write to the same slot (the mutation's sibling) leaks between the same two names in the same case,
// the cell is simply shared (the shallow-copy cause) and the leak is class interior; the class stays
// ref only when plain writes are separate and just the reference reaches the other name.
func explainRef(k kase, o *outcome, jc *judgeCache) {
	if !o.Evaluable {
		return
	}
	for j, st := range k.Steps {
		if j >= len(o.B.classes) || o.B.classes[j] != "ref" {
			continue
		}
		need := o.OuterLeak
		for _, l := range o.Leaks {
			if l.Step == j && l.Class == "ref" {
				need = true
			}
		}
		if !need {
			continue
		}
		m, _ := mutByName(st.Mut)
		// twin 1: the plain write in the same history; twin 2 (histories of several steps): the plain
		// write alone — does this route share the cells of this shape for plain writes at all
		twins := []kase{{Shape: k.Shape, Routes: k.Routes, Rot: k.Rot, Steps: append([]step{}, k.Steps...)}}
		twins[0].Steps[j].Mut = m.sibling
		at := []int{j}
		if len(k.Steps) > 1 {
			twins = append(twins, kase{Shape: k.Shape, Routes: k.Routes, Rot: k.Rot, Steps: []step{{Mut: m.sibling, Target: st.Target}}})
			at = append(at, 0)
		}
		outer := false
		for ti, k2 := range twins {
			o2 := jc.get(k2)
			if !o2.Evaluable {
				continue
			}
			for i := range o.Leaks {
				l := &o.Leaks[i]
				if l.Step != j || l.Class != "ref" {
					continue
				}
				for _, l2 := range o2.Leaks {
					if l2.Step == at[ti] && l2.From == l.From && l2.To == l.To {
						l.Class = "interior"
						break
					}
				}
			}
			outer = outer || o2.OuterLeak
		}
		o2 := outcome{OuterLeak: outer}
		if o.OuterLeak && o2.OuterLeak {
			o.B.classes = append([]string{}, o.B.classes...)
			o.B.classes[j] = "interior"
		}
	}
}

// routeBetween names the copy mechanism that separates names i and j.
func routeBetween(k kase, i, j int) string {
	if i > j {
		i, j = j, i
	}
	return strings.Join(k.Routes[i:j], "+")
}

// ---- keys ---------------------------------------------------------------------------------------

type finding struct {
	Key, Clause, Detail string
	Size                int
	Case                kase
}

type judgeCache struct {
	m    map[string]outcome
	runs int64
}

func (c *judgeCache) get(k kase) outcome {
	s := k.String() + fmt.Sprint(k.Rot)
	if o, ok := c.m[s]; ok {
		return o
	}
	if len(c.m) > 50000 {
		c.m = map[string]outcome{}
	}
	c.runs++
	o := judge(k)
	explainRef(k, &o, c)
	o.Snaps, o.B.script = nil, ""
	c.m[s] = o
	return o
}

func hasLeak(o outcome, route func(l leak) string, rt, class string) bool {
	for _, l := range o.Leaks {
		if route(l) == rt && l.Class == class {
			return true
		}
	}
	return false
}

// cellWitness answers: does the plain matrix cell (route r alone, one mutation of class `class`)
// leak? It returns the smallest such 1x1 case. This is the reduction target of every composite case
// (route chains, mutation sequences): if the cell itself leaks, the composite is the same root
// cause and gets the cell's key. Results are memoised for the life of the worker process.
var cellMemo = map[string]*kase{}

func cellWitness(r, class, preferShape string, rot int, jc *judgeCache) *kase {
	order := []string{preferShape}
	for _, s := range shapes() {
		if s.name != preferShape {
			order = append(order, s.name)
		}
	}
	for _, sh := range order {
		mk := r + "|" + class + "|" + sh
		w, done := cellMemo[mk]
		if !done {
			for _, steps := range stepsFor("1x1", 2) {
				c := kase{Shape: sh, Routes: []string{r}, Steps: steps, Rot: rot}
				if !c.build().ok {
					continue
				}
				o := jc.get(c)
				if o.Evaluable && hasLeak(o, func(x leak) string { return r }, r, class) {
					cc := c
					w = &cc
					break
				}
			}
			cellMemo[mk] = w
		}
		if w != nil {
			return w
		}
	}
	return nil
}

// findings reduces the leaks of a case to finding keys: leak:<route between the two names>:<class
// of the leaking write>. Composite context (chain, earlier mutations) stays in the key only when
// the plain cell (that route alone, a single mutation of that class) does not leak.
func findings(k kase, o outcome, jc *judgeCache) []finding {
	var out []finding
	seen := map[string]bool{}
	add := func(key, clause string, c kase, size int) {
		if seen[key] {
			return
		}
		seen[key] = true
		d := "case: " + c.String() + "\n" + describe(c)
		out = append(out, finding{Key: key, Clause: clause, Detail: d, Size: size, Case: c})
	}
	report := func(rt, class string, step int) {
		ctx := ""
		if len(k.Steps) > 1 && step > 0 {
			pre := []string{}
			for j := range k.Steps[:step] {
				pre = append(pre, o.B.classes[j])
			}
			ctx += ":after(" + strings.Join(pre, ",") + ")"
		}
		if len(k.Routes) > 1 {
			ctx += ":in(" + strings.Join(k.Routes, ">") + ")"
		}
		parts := strings.Split(rt, "+")
		explained := true
		for _, r := range parts {
			if cellWitness(r, class, k.Shape, k.Rot, jc) == nil {
				explained = false
			}
		}
		if explained {
			// every link of the path leaks this class on its own: same root cause(s) as the plain cells
			for _, r := range parts {
				w := cellWitness(r, class, k.Shape, k.Rot, jc)
				add("leak:"+r+":"+class, "leak", *w, 11)
			}
			return
		}
		if ctx == "" {
			add("leak:"+rt+":"+class, "leak", k, 11)
			return
		}
		add("leak:"+rt+":"+class+ctx, "leak", k, 10*len(k.Routes)+len(k.Steps)+10)
	}
	for _, l := range o.Leaks {
		// a leak to an adjacent name explains the leaks of the same write to names further away
		if d := l.From - l.To; d > 1 || d < -1 {
			adj := false
			for _, m := range o.Leaks {
				if m.Step == l.Step && m.From == l.From && (m.To-m.From == 1 || m.From-m.To == 1) {
					adj = true
				}
			}
			if adj {
				continue
			}
		}
		report(routeBetween(k, l.From, l.To), l.Class, l.Step)
	}
	if o.OuterLeak && len(o.Leaks) == 0 {
		// only the caller-side snapshots (taken around the call) saw the write to the parameter
		class := o.B.classes[0]
		for _, c := range o.B.classes {
			if c == "interior" {
				class = "interior"
			}
		}
		for _, r := range k.Routes {
			if rr, _ := routeByName(r); rr.scope && rr.control == "" {
				report(r, class, 0)
			}
		}
	}
	for range o.NoThrough {
		r := k.Routes[len(k.Routes)-1]
		if rr, _ := routeByName(r); rr.control == "handle" {
			add("handle-not-shared:"+o.B.classes[0], "handle", k, 3)
		}
	}
	return out
}

// describe re-runs a case and writes out script, snapshots and the verdict.
func describe(k kase) string {
	o := judge(k)
	var sb strings.Builder
	if !o.Evaluable {
		return "not evaluable: " + o.Reason
	}
	for j, st := range k.Steps {
		fmt.Fprintf(&sb, "step %d: %s   (mutates name %d, class %s)\n", j, o.B.stmts[j], st.Target, o.B.classes[j])
		for u := range o.Snaps[j] {
			mark := "  "
			if u == st.Target {
				mark = "* "
			} else if o.Snaps[j][u] != o.Snaps[j+1][u] {
				mark = "! "
			}
			fmt.Fprintf(&sb, "  %sname %d: %s  ->  %s\n", mark, u, jsonPart(o.Snaps[j][u]), jsonPart(o.Snaps[j+1][u]))
		}
	}
	sb.WriteString("(* = mutated name, ! = another name changed: the write leaked)")
	return sb.String()
}

// ---- enumeration --------------------------------------------------------------------------------

type shardArg struct {
	Shape  string   `json:"shape"`
	Routes []string `json:"routes"`
	Mode   string   `json:"mode"` // "1x1" | "1x2" | "2x1" | "2x2r" | "objects"
	Rot    int      `json:"rot"`
}

var classReps = []string{"set-first", "append", "unset-first", "m-push", "m-sort", "nested-set", "ref-param", "ref-param-nested"}

func stepsFor(mode string, names int) [][]step {
	var all, reps []step
	for t := 0; t < names; t++ {
		for _, m := range mutations() {
			all = append(all, step{Mut: m.name, Target: t})
		}
		for _, m := range classReps {
			reps = append(reps, step{Mut: m, Target: t})
		}
	}
	var out [][]step
	switch mode {
	case "1x1", "2x1":
		for _, s := range all {
			out = append(out, []step{s})
		}
	case "1x2":
		for _, s := range all {
			for _, t := range all {
				out = append(out, []step{s, t})
			}
		}
	case "2x1r":
		for _, s := range reps {
			out = append(out, []step{s})
		}
	case "2x2r":
		for _, s := range reps {
			for _, t := range reps {
				out = append(out, []step{s, t})
			}
		}
	}
	return out
}

// siteMatrix: site kind x mutation group -> cases / effective / leaked (site family, sites.go)
var siteMatrix = map[string]*cell{}

type cell struct {
	Cases, Effective, Leaked int64
}

type rec struct {
	Kind     string               `json:"kind"`
	N        int64                `json:"n,omitempty"`
	NA       int64                `json:"na,omitempty"`
	Runs     int64                `json:"runs,omitempty"`
	Uneval   map[string]int64     `json:"uneval,omitempty"`
	Matrix   map[string]*cell     `json:"matrix,omitempty"`   // route|class
	MutStat  map[string]*[4]int64 `json:"mutstat,omitempty"`  // mutation -> steps, effective, model-agree, model-differ
	Controls map[string]*[2]int64 `json:"controls,omitempty"` // control route -> effective writes, of which shown through
	CopyDiff int64                `json:"copydiff,omitempty"`
	Counts   map[string]int64     `json:"counts,omitempty"`
	Key      string               `json:"key,omitempty"`
	Clause   string               `json:"clause,omitempty"`
	Size     int                  `json:"size,omitempty"`
	Case     any                  `json:"case,omitempty"`
	Detail   string               `json:"detail,omitempty"`
	Sample   any                  `json:"sample,omitempty"`
	Diverge  map[string]string    `json:"diverge,omitempty"` // mutation -> one written-out divergence from the model
	LeakBy   map[string]int64     `json:"leakby,omitempty"`  // mutation -> leaking steps
}

func caseJSON(k kase) map[string]any {
	return map[string]any{"kind": "matrix", "case": k, "text": k.String(), "script": k.build().script}
}

func matrixWorker(w *pool.W, arg json.RawMessage) {
	var sh shardArg
	json.Unmarshal(arg, &sh)
	if sh.Mode == "objects" {
		objectWorker(w, sh)
		return
	}
	jc := &judgeCache{m: map[string]outcome{}}
	r := rec{Kind: "count", Uneval: map[string]int64{}, Matrix: map[string]*cell{}, MutStat: map[string]*[4]int64{}, Controls: map[string]*[2]int64{}, Diverge: map[string]string{}, LeakBy: map[string]int64{}}
	keyCount := map[string]int64{}
	names := len(sh.Routes) + 1
	sampled := false
	passing := 0
	for _, steps := range stepsFor(sh.Mode, names) {
		k := kase{Shape: sh.Shape, Routes: sh.Routes, Steps: steps, Rot: sh.Rot}
		if !k.build().ok {
			r.NA++
			continue
		}
		if !w.Item(k.String()) {
			continue
		}
		r.N++
		r.Runs++
		o := judge(k)
		explainRef(k, &o, jc)
		if !o.Evaluable {
			r.Uneval[strings.Join(sh.Routes, ">")+" "+o.Reason]++
			if o.CopyDiff {
				r.CopyDiff++
			}
			continue
		}
		ctl := ""
		if rr, _ := routeByName(sh.Routes[len(sh.Routes)-1]); rr.control != "" {
			ctl = rr.name
		}
		for j, st := range steps {
			ms := r.MutStat[st.Mut]
			if ms == nil {
				ms = &[4]int64{}
				r.MutStat[st.Mut] = ms
			}
			ms[0]++
			if o.Effective[j] {
				ms[1]++
			}
			if o.Agree[j] == 1 {
				ms[2]++
			} else if o.Agree[j] == 0 {
				ms[3]++
				if _, ok := r.Diverge[st.Mut]; !ok && len(sh.Routes) == 1 && sh.Routes[0] == "assign" {
					r.Diverge[st.Mut] = fmt.Sprintf("%s on %s: %s gives %s, PHP model %s", o.B.stmts[j], sh.Shape, jsonPart(o.Snaps[j][st.Target]), jsonPart(o.Snaps[j+1][st.Target]), o.B.models[j])
				}
			}
			for _, l := range o.Leaks {
				if l.Step == j {
					r.LeakBy[st.Mut]++
					break
				}
			}
			if ctl != "" {
				cs := r.Controls[ctl]
				if cs == nil {
					cs = &[2]int64{}
					r.Controls[ctl] = cs
				}
				if o.Effective[j] {
					cs[0]++
					through := true
					for _, x := range o.NoThrough {
						if x == j {
							through = false
						}
					}
					if through {
						cs[1]++
					}
				}
				continue
			}
			// matrix cell of every (route adjacent to the mutated name, class)
			for u := 0; u < names; u++ {
				if u == st.Target || (u-st.Target != 1 && st.Target-u != 1) {
					continue
				}
				ck := routeBetween(k, st.Target, u) + "|" + o.B.classes[j]
				c := r.Matrix[ck]
				if c == nil {
					c = &cell{}
					r.Matrix[ck] = c
				}
				c.Cases++
				if o.Effective[j] {
					c.Effective++
				}
				for _, l := range o.Leaks {
					if l.Step == j && l.To == u {
						c.Leaked++
					}
				}
			}
		}
		fs := findings(k, o, jc)
		for _, f := range fs {
			if keyCount[f.Key] == 0 {
				w.Emit(rec{Kind: "fail", Key: f.Key, Clause: f.Clause, Size: f.Size, Case: caseJSON(f.Case), Detail: f.Detail})
			}
			keyCount[f.Key]++
		}
		if len(fs) == 0 && !sampled && ctl == "" && o.Effective[0] && o.Agree[0] == 1 && len(steps) == 1 {
			passing++
		}
		if len(fs) == 0 && !sampled && ctl == "" && o.Effective[0] && o.Agree[0] == 1 && len(steps) == 1 && len(sh.Routes) == 1 && passing == 1+(len(sh.Routes[0])+len(sh.Shape))%7 {
			sampled = true
			w.Emit(rec{Kind: "sample", Sample: map[string]any{"case": k.String(), "statement": o.B.stmts[0], "other_name_before": jsonPart(o.Snaps[0][1-steps[0].Target%2]), "other_name_after": jsonPart(o.Snaps[1][1-steps[0].Target%2]), "mutated_after": jsonPart(o.Snaps[1][steps[0].Target]), "verdict": "independent"}})
		}
	}
	r.Runs += jc.runs
	r.Counts = keyCount
	w.Emit(r)
}

// ---- object half ------------------------------------------------------------------------------------

type objCase struct {
	Link string `json:"link"` // "handle" | "clone"
	Op   string `json:"op"`
	Side int    `json:"side"` // 0 = write through the first name, 1 = through the second
}

var objOps = map[string]string{
	"set-scalar":  "%s->q = 5;",
	"incr-scalar": "%s->q += 2;",
	"set-array":   "%s->p = [7];",
	"set-dynamic": "%s->p = \"s\";",
}

func (c objCase) script() string {
	link := "$n1 = $n0;"
	if c.Link == "clone" {
		link = "$n1 = clone $n0;"
	}
	names := []string{"$n0", "$n1"}
	snap := "echo \"S\"; echo \"|\", json_encode($n0->q), \"~\", json_encode($n0->p); echo \"|\", json_encode($n1->q), \"~\", json_encode($n1->p); echo \"\\n\";\n"
	return prelude + "$n0 = new O();\n$n0->p = [3, 1, 2];\n$n0->q = 1;\n" + link + "\n" + snap +
		fmt.Sprintf("try { "+objOps[c.Op]+" } catch (Throwable $e) { echo \"E|0\\n\"; }\n", names[c.Side]) + snap
}

// judgeObj returns "" or the violated clause.
func judgeObj(c objCase) (clause, detail string, effective bool) {
	res := runner.Run(c.script(), runner.Opts{})
	var snaps [][]string
	for _, ln := range strings.Split(res.Out, "\n") {
		if f := strings.Split(ln, "|"); f[0] == "S" && len(f) == 3 {
			snaps = append(snaps, f[1:])
		}
	}
	if res.Kind != "ok" || len(snaps) != 2 {
		return "uneval", res.Kind + " " + res.Msg + res.PanicKey, false
	}
	t, u := c.Side, 1-c.Side
	effective = snaps[0][t] != snaps[1][t]
	detail = fmt.Sprintf("%s\nwritten name: %s -> %s\nother name:   %s -> %s", c.script(), snaps[0][t], snaps[1][t], snaps[0][u], snaps[1][u])
	if c.Link == "handle" {
		if snaps[1][u] != snaps[1][t] {
			return "handle", detail, effective
		}
		return "", detail, effective
	}
	if snaps[1][u] != snaps[0][u] {
		return "leak", detail, effective
	}
	return "", detail, effective
}

func objectCases() []objCase {
	var out []objCase
	ops := []string{}
	for o := range objOps {
		ops = append(ops, o)
	}
	sort.Strings(ops)
	for _, l := range []string{"handle", "clone"} {
		for _, o := range ops {
			for s := 0; s < 2; s++ {
				out = append(out, objCase{Link: l, Op: o, Side: s})
			}
		}
	}
	return out
}

func objKey(c objCase, clause string) string {
	if clause == "handle" {
		return "handle-not-shared:" + c.Op
	}
	return "leak:cloneobj:property-" + c.Op
}

func objectWorker(w *pool.W, sh shardArg) {
	r := rec{Kind: "count", Uneval: map[string]int64{}, Counts: map[string]int64{}, Controls: map[string]*[2]int64{}}
	for _, c := range objectCases() {
		if !w.Item(fmt.Sprint("obj", c)) {
			continue
		}
		r.N++
		r.Runs++
		cl, detail, eff := judgeObj(c)
		if cl == "uneval" {
			r.Uneval["objects "+detail]++
			continue
		}
		if c.Link == "handle" && eff {
			cs := r.Controls["handle-property"]
			if cs == nil {
				cs = &[2]int64{}
				r.Controls["handle-property"] = cs
			}
			cs[0]++
			if cl == "" {
				cs[1]++
			}
		}
		if cl != "" {
			key := objKey(c, cl)
			if r.Counts[key] == 0 {
				w.Emit(rec{Kind: "fail", Key: key, Clause: cl, Size: 2, Case: map[string]any{"kind": "object", "case": c, "script": c.script()}, Detail: detail})
			}
			r.Counts[key]++
		}
	}
	w.Emit(r)
}

// ---- parent -------------------------------------------------------------------------------------------

func main() {
	if len(os.Args) > 1 && os.Args[1] == "probe" {
		probeMain(os.Args[2:])
		return
	}
	if len(os.Args) > 1 && os.Args[1] == "show" {
		showMain(os.Args[2:])
		return
	}
	if pool.IsWorker() {
		pool.Serve(map[string]pool.Handler{"matrix": matrixWorker, "lib": libWorker, "site": siteWorker})
	}
	c := ev.New("C06")
	defer runner.Cleanup()
	if c.Replay != "" {
		replay(c)
		return
	}
	c.SetBudget(4*time.Minute, 40*time.Minute)
	rot := int(c.Seed % 5)
	if rot < 0 {
		rot = -rot
	}
	// waves: each wave is a complete sub-space; a wave is only started while the budget lasts
	waves := map[string][]pool.Shard{}
	order := []string{"1x1", "lib", "site", "2x1", "2x1r", "1x2", "2x2r"}
	for _, k := range siteKinds() {
		for _, st := range siteStores() {
			waves["site"] = append(waves["site"], pool.Shard{Kind: "site", Arg: siteShard{Kind: k.name, Store: st.name, Rot: rot, Quick: c.Quick()}})
		}
	}
	for _, f := range libFns() {
		waves["lib"] = append(waves["lib"], pool.Shard{Kind: "lib", Arg: libShard{Fn: f.Name}})
	}
	add := func(shape string, rs []string, mode string) {
		waves[mode] = append(waves[mode], pool.Shard{Kind: "matrix", Arg: shardArg{Shape: shape, Routes: rs, Mode: mode, Rot: rot}})
	}
	chains := 0
	for _, s := range shapes() {
		for _, r := range routes() {
			add(s.name, []string{r.name}, "1x1")
			if !c.Quick() {
				add(s.name, []string{r.name}, "1x2")
			}
		}
		for _, r := range controls() {
			add(s.name, []string{r.name}, "1x1")
		}
		for _, r1 := range routes() {
			for _, r2 := range routes() {
				if !r2.general || (r1.name == "param" && r2.name == "param") || (c.Quick() && r2.late) {
					continue
				}
				if c.Quick() && (r1.ext || r2.ext) {
					add(s.name, []string{r1.name, r2.name}, "2x1r")
				} else {
					add(s.name, []string{r1.name, r2.name}, "2x1")
				}
				if !c.Quick() && !(r1.ext || r2.ext) {
					add(s.name, []string{r1.name, r2.name}, "2x2r")
				}
				chains++
			}
		}
	}
	chains /= len(shapes())
	waves["1x1"] = append(waves["1x1"], pool.Shard{Kind: "matrix", Arg: shardArg{Mode: "objects"}})

	var total, na, runs, copyDiff int64
	uneval := map[string]int64{}
	matrix := map[string]*cell{}
	mutStat := map[string]*[4]int64{}
	ctrl := map[string]*[2]int64{}
	diverge := map[string]string{}
	leakBy := map[string]int64{}
	var done []string
	for _, wave := range order {
		shards := waves[wave]
		if len(shards) == 0 {
			continue
		}
		if c.Expired() {
			c.NotExhaustive("budget expired; completed waves: " + strings.Join(done, ", ") + " (1x1 = one route x one mutation, site = repeated evaluation of one array-producing site, 2x1 / 2x1r = route chains, 1x2 / 2x2r = mutation sequences)")
			break
		}
		runWave(c, shards, &total, &na, &runs, &copyDiff, uneval, matrix, mutStat, ctrl, diverge, leakBy)
		done = append(done, wave)
	}
	c.Set("waves_completed", done)

	// evidence: the route x class matrix, per-mutation guard statistics, controls
	mrows := map[string]string{}
	var unevalTotal int64
	for k, v := range matrix {
		mrows[k] = fmt.Sprintf("cases=%d effective=%d leaked=%d", v.Cases, v.Effective, v.Leaked)
		if v.Leaked > 0 {
			c.Outcome("leak " + k)
		} else {
			c.Outcome("independent " + k)
		}
	}
	for _, n := range uneval {
		unevalTotal += n
	}
	ms := map[string]string{}
	var ineffective []string
	for k, v := range mutStat {
		ms[k] = fmt.Sprintf("steps=%d changed_mutated_name=%d model_agrees=%d model_differs=%d", v[0], v[1], v[2], v[3])
		if v[1] == 0 {
			ineffective = append(ineffective, k)
		}
	}
	sort.Strings(ineffective)
	cs := map[string]string{}
	var through int64
	for k, v := range ctrl {
		cs[k] = fmt.Sprintf("effective_writes=%d shown_through=%d", v[0], v[1])
		through += v[1]
	}
	srows := map[string]string{}
	for k, v := range siteMatrix {
		srows[k] = fmt.Sprintf("cases=%d effective=%d leaked=%d", v.Cases, v.Effective, v.Leaked)
		if v.Leaked > 0 {
			c.Outcome("leak " + k)
		} else {
			c.Outcome("independent " + k)
		}
	}
	for _, k := range siteKinds() {
		var eff int64
		for ck, v := range siteMatrix {
			if strings.HasPrefix(ck, "site."+k.name+"|") {
				eff += v.Effective
			}
		}
		if eff == 0 && strings.Contains(" "+strings.Join(done, " ")+" ", " site ") {
			c.HarnessError("vacuous: site kind %s has no evaluable case in which the written holder changed", k.name)
		}
	}
	c.Set("site_matrix_kind_x_group", srows)
	c.Set("site_kinds", len(siteKinds()))
	c.Set("site_stores", len(siteStores()))
	c.Set("matrix_route_x_class", mrows)
	c.Set("mutation_guard", ms)
	c.Set("model_divergence_samples", diverge)
	c.Set("leaking_steps_by_mutation", leakBy)
	c.Set("mutations_without_any_effect_today", ineffective)
	c.Set("controls", cs)
	c.Set("cases_not_applicable", na)
	c.Set("cases_not_evaluable", uneval)
	c.Set("copies_unequal_to_original_after_route", copyDiff)
	c.Set("shapes", len(shapes()))
	c.Set("routes", len(routes()))
	c.Set("mutations", len(mutations()))
	c.Set("library_functions", len(libFns()))
	c.Set("route_chains", chains)
	c.Assume("closure capture: by-value `use ($v)` and arrow-function auto-capture bind through the same copy-on-assignment mechanism as `$b = $a` on this tree (node/lambda.go) and are enumerated as routes; `use (&$v)` is an explicit reference and is not")
	c.Assume("snapshots are json_encode + serialize of each live name; a leak that neither encoder can show is not seen")
	c.Assume("mutations whose own effect differs from PHP (mutation_guard.model_differs) are still checked for leaks; their semantics belong to other properties")
	c.Assume("reference controls are sensitivity controls: a missing write-through of `&` is reported in coverage.controls, not as a violation (the statement does not demand it); object handles are asserted")
	// vacuity guards
	if through == 0 {
		c.HarnessError("vacuous: no control case showed a write through a reference/handle — the snapshot oracle may be blind")
	}
	for _, r := range routes() {
		var eff int64
		for k, v := range matrix {
			if strings.HasPrefix(k, r.name+"|") {
				eff += v.Effective
			}
		}
		if eff == 0 {
			c.HarnessError("vacuous: route %s has no evaluable case in which the mutated name changed", r.name)
		}
	}
	if unevalTotal*5 > total {
		c.HarnessError("more than 20%% of the cases could not be evaluated (%d of %d)", unevalTotal, total)
	}
	c.Finish(total-unevalTotal, runs, total-unevalTotal, fmt.Sprintf("complete matrix shape(%d) x route(%d) x mutation(%d) x mutated side, + %d reference/handle control routes, + object table, + library family (array functions x argument-shape tuples: call must not change its arguments, result and arguments independent), + site family (%d array-producing site kinds x shape x loop|call repetition x %d stores x mutation: repeated evaluations of one site are independent), + %d two-route chains (thorough: + two-mutation sequences); oracle: snapshot of every non-mutated name identical before/after inside the same run", len(shapes()), len(routes()), len(mutations()), len(controls()), len(siteKinds()), len(siteStores()), chains))
}

func runWave(c *ev.Check, shards []pool.Shard, total, na, runs, copyDiff *int64, uneval map[string]int64, matrix map[string]*cell, mutStat map[string]*[4]int64, ctrl map[string]*[2]int64, diverge map[string]string, leakBy map[string]int64) {
	pool.Run(shards, pool.Options{}, func(si int, rb json.RawMessage) {
		var r rec
		json.Unmarshal(rb, &r)
		switch r.Kind {
		case "libcount":
			*total += r.N
			*runs += r.Runs
			c.Add("library_cases", r.N)
			c.Add("library_writes_judged", r.NA)
			for k, n := range r.Uneval {
				uneval[k] += n
			}
			for k, n := range r.Counts {
				for i := int64(1); i < n; i++ {
					c.Fail(k, "", 1<<30, nil, "")
				}
			}
		case "sitecount":
			*total += r.N
			*na += r.NA
			*runs += r.Runs
			c.Add("site_cases", r.N)
			for k, n := range r.Uneval {
				uneval[k] += n
			}
			for k, v := range r.Matrix {
				k = "site." + k
				if siteMatrix[k] == nil {
					siteMatrix[k] = &cell{}
				}
				siteMatrix[k].Cases += v.Cases
				siteMatrix[k].Effective += v.Effective
				siteMatrix[k].Leaked += v.Leaked
			}
			for k, n := range r.Counts {
				for i := int64(1); i < n; i++ {
					c.Fail(k, "", 1<<30, nil, "")
				}
			}
		case "count":
			*total += r.N
			*na += r.NA
			*runs += r.Runs
			*copyDiff += r.CopyDiff
			for k, n := range r.Uneval {
				uneval[k] += n
			}
			for k, v := range r.Matrix {
				if matrix[k] == nil {
					matrix[k] = &cell{}
				}
				matrix[k].Cases += v.Cases
				matrix[k].Effective += v.Effective
				matrix[k].Leaked += v.Leaked
			}
			for k, v := range r.MutStat {
				if mutStat[k] == nil {
					mutStat[k] = &[4]int64{}
				}
				for i := range v {
					mutStat[k][i] += v[i]
				}
			}
			for k, v := range r.Diverge {
				if _, ok := diverge[k]; !ok {
					diverge[k] = v
				}
			}
			for k, v := range r.LeakBy {
				leakBy[k] += v
			}
			for k, v := range r.Controls {
				if ctrl[k] == nil {
					ctrl[k] = &[2]int64{}
				}
				ctrl[k][0] += v[0]
				ctrl[k][1] += v[1]
			}
			for k, n := range r.Counts {
				for i := int64(1); i < n; i++ {
					c.Fail(k, "", 1<<30, nil, "")
				}
			}
		case "fail":
			c.Fail(r.Key, r.Clause, r.Size, r.Case, r.Detail)
		case "sample":
			c.Sample(r.Sample)
		}
	}, func(d pool.Death) {
		c.Fail("worker-death:"+runner.FatalFrame(d.Stderr), "crash", 0, map[string]any{"item": d.Item, "reason": d.Reason}, d.Stderr)
	})

}

func replay(c *ev.Check) {
	var cs struct {
		Kind string          `json:"kind"`
		Case json.RawMessage `json:"case"`
	}
	key, err := ev.LoadReplay(c.Replay, &cs)
	if err != nil {
		c.HarnessError("replay: %v", err)
		c.Finish(1, 1, 1, "replay")
	}
	if cs.Kind == "lib" {
		var lc libCase
		json.Unmarshal(cs.Case, &lc)
		o := judgeLib(lc)
		fmt.Println(o.Script)
		if !o.Evaluable {
			fmt.Println("not evaluable:", o.Reason)
		}
		for _, f := range o.Findings {
			fmt.Println(f.Key, "\n", f.Detail)
			c.Fail(f.Key, "leak", 0, map[string]any{"kind": "lib", "case": lc}, f.Detail)
		}
		c.Finish(1, 1, 1, "replay")
	}
	if cs.Kind == "site" {
		var sc siteCase
		json.Unmarshal(cs.Case, &sc)
		o := judgeSite(sc)
		fmt.Println(o.B.script)
		if !o.Evaluable {
			fmt.Println("not evaluable:", o.Reason)
		}
		fmt.Println(o.Detail)
		if o.Holder || o.Fresh {
			k, _ := siteKey(sc, o, &judgeCache{m: map[string]outcome{}})
			c.Fail(k, "leak", 0, map[string]any{"kind": "site", "case": sc}, o.Detail)
		}
		c.Finish(1, 1, 1, "replay")
	}
	if cs.Kind == "object" {
		var oc objCase
		json.Unmarshal(cs.Case, &oc)
		cl, detail, _ := judgeObj(oc)
		fmt.Println(detail)
		if cl != "" {
			c.Fail(key, cl, 0, oc, detail)
		}
		c.Finish(1, 1, 1, "replay")
	}
	var k kase
	json.Unmarshal(cs.Case, &k)
	fmt.Println(k.build().script)
	fmt.Println(describe(k))
	o := judge(k)
	jc := &judgeCache{m: map[string]outcome{}}
	explainRef(k, &o, jc)
	for _, f := range findings(k, o, jc) {
		c.Fail(f.Key, f.Clause, 0, caseJSON(f.Case), f.Detail)
	}
	_ = key
	c.Finish(1, 1, 1, "replay")
}
