package main

// Aliasing routes of C06 and the script printer.
//
// A route turns a live lvalue `src` that holds an array into a second live lvalue `dst` that must
// be an independent by-value copy. Routes whose original lives in a special place (an object
// property that is read, an array element that is read or iterated, a cloned object) provide their
// own origin; the others ("general") accept any src and can therefore also be the second route of a
// chain.

import (
	"fmt"
	"strings"
)

type route struct {
	name    string
	general bool
	scope   bool   // the body runs inside a function: cannot follow / be followed by another scope route
	control string // "" normal (copy must be independent) | "ref" | "handle" (write-through expected)
	// exprBody: the copy lives inside a single-expression body (arrow function): snapshots and
	// mutations are printed as elements of one list expression instead of statements
	exprBody bool
	// ext: route of the extension families (further stores, static properties, closures, methods). In the
	// quick tier a chain that contains an ext route gets one representative mutation per class and name
	// (classReps) instead of all 23; thorough applies all.
	// late: ext route that is the SECOND link of a chain only in the thorough tier.
	ext, late bool
	origin    func(u int) (setup, lv string)
	// originBuild: the original lives where only the route's own code can build it (a static local);
	// lv is then a read-only expression (a call), snapshotted but never mutated
	originBuild func(u int, build func(lv string) string) (setup, lv string)
	apply       func(u int, live []string, src int) (pre, post string, inner []string)
}

const prelude = `class O { public $p = null; public $q = 0; }
class H { public $p = null; public function get() { return $this->p; } }
function idf($x) { return $x; }
function bumpr(&$x) { $x = 90; return 0; }
function bumpn(&$x) { $x = 94; return 0; }
class SP { public static $o1 = null; public static $q1 = null; public static $q2 = null; public static $q3 = null; }
function snapx($tag, $vals) { echo $tag; foreach ($vals as $v) { echo "|", json_encode($v), "~", serialize($v); } echo "\n"; return 0; }
`

func snapLine(tag string, live []string) string {
	var sb strings.Builder
	fmt.Fprintf(&sb, "echo \"%s\";", tag)
	for _, l := range live {
		fmt.Fprintf(&sb, " echo \"|\", json_encode(%s), \"~\", serialize(%s);", l, l)
	}
	sb.WriteString(" echo \"\\n\";\n")
	return sb.String()
}

func flat(name string, general bool, origin func(u int) (string, string), stmt func(u int, src string) (code, dst string)) route {
	return route{name: name, general: general, origin: origin, apply: func(u int, live []string, src int) (string, string, []string) {
		code, dst := stmt(u, live[src])
		return code, "", append(append([]string{}, live...), dst)
	}}
}

// snapExpr is snapLine as one expression (an element of an arrow function's list body).
func snapExpr(tag string, live []string) string {
	return fmt.Sprintf("snapx(\"%s\", [%s]),\n", tag, strings.Join(live, ", "))
}

// isStatic: a static property is reachable by the same text from every scope.
func isStatic(lv string) bool { return strings.HasPrefix(lv, "SP::") }

// baseVar returns the variable an lvalue starts with ("$c1[1]" -> "$c1"), "" if it does not start with one.
func baseVar(l string) string {
	if !strings.HasPrefix(l, "$") {
		return ""
	}
	for i := 1; i < len(l); i++ {
		if !(l[i] == '_' || l[i] >= 'a' && l[i] <= 'z' || l[i] >= '0' && l[i] <= '9') {
			return l[:i]
		}
	}
	return l
}

// isRO: a live name that is a call expression (original reachable only through a function) can be
// snapshotted but not written or bound by reference.
func isRO(lv string) bool { return strings.HasSuffix(lv, ")") }

func paramRoute(name string, byRef bool) route {
	r := route{name: name, general: true, scope: true}
	if byRef {
		r.control = "ref"
	}
	r.apply = func(u int, live []string, src int) (string, string, []string) {
		amp := ""
		if byRef {
			amp = "&"
		}
		params := []string{fmt.Sprintf("%s$p%d", amp, u)}
		var inner []string
		args := []string{live[src]}
		for i := range live {
			if isRO(live[i]) || isStatic(live[i]) {
				inner = append(inner, live[i]) // functions / static properties are global: the same text works inside f
				continue
			}
			params = append(params, fmt.Sprintf("&$r%d_%d", u, i))
			inner = append(inner, fmt.Sprintf("$r%d_%d", u, i))
			args = append(args, live[i])
		}
		inner = append(inner, fmt.Sprintf("$p%d", u))
		pre := snapLine("P", live) + fmt.Sprintf("function f%d(%s) {\n", u, strings.Join(params, ", "))
		post := fmt.Sprintf("return 0;\n}\nf%d(%s);\n", u, strings.Join(args, ", ")) + snapLine("F", live)
		return pre, post, inner
	}
	return r
}

// callRoute: by-value parameter of a plain function that has ONLY plain parameters (no & / variadic),
// reached through a particular call form. The caller's names are visible inside through `global`
// declarations (so the callee's signature stays plain); the caller also snapshots around the call.
// call(u, src) returns the statements that perform the call of f<u>.
// form: "func" plain function | "method" / "smethod": f<u> is an instance / static method of class PM<u>.
func callRoute(name string, general bool, origin func(u int) (string, string), nparams int, call func(u int, src string) string, form string) route {
	return route{name: name, general: general, scope: true, origin: origin, apply: func(u int, live []string, src int) (string, string, []string) {
		bases := map[string]bool{}
		var decl []string
		for _, l := range live {
			if isRO(l) || isStatic(l) {
				continue
			}
			b := baseVar(l)
			if !bases[b] {
				bases[b] = true
				decl = append(decl, b)
			}
		}
		params := []string{fmt.Sprintf("$p%d", u)}
		for i := 1; i < nparams; i++ {
			params = append(params, fmt.Sprintf("$z%d_%d = 0", u, i))
		}
		inner := append(append([]string{}, live...), fmt.Sprintf("$p%d", u))
		head := fmt.Sprintf("function f%d(%s) {\n", u, strings.Join(params, ", "))
		tail := "return 0;\n}\n"
		switch form {
		case "method":
			head = fmt.Sprintf("class PM%d {\npublic function f%d(%s) {\n", u, u, strings.Join(params, ", "))
			tail += "}\n"
		case "smethod":
			head = fmt.Sprintf("class PM%d {\npublic static function f%d(%s) {\n", u, u, strings.Join(params, ", "))
			tail += "}\n"
		}
		if len(decl) > 0 {
			head += "global " + strings.Join(decl, ", ") + ";\n"
		}
		pre := snapLine("P", live) + head
		post := tail + call(u, live[src]) + snapLine("F", live)
		return pre, post, inner
	}}
}

// closureRoute: the copy lives in the scope of a closure.
//
//	capture, !arrow   function() use ($v) { ... }     by-value `use`
//	capture, arrow    fn() => [ ... ]                  automatic by-value capture
//	!capture          function($p) { ... } / fn($p) => [ ... ]   by-value parameter of a closure
//
// via "call": $f(); via "map": array_map($f, [0]) (capture only). Names of the defining scope are
// seen inside through peek functions (`function gpk() { global $a; return $a; }`, read-only), the
// defining scope also snapshots around the call (P / F). Capturing needs a plain variable: after a
// route whose copy is a property / element the chain is not applicable.
func closureRoute(name string, arrow, capture bool, via string, late bool) route {
	return route{name: name, general: true, scope: true, exprBody: arrow, late: late, ext: true, apply: func(u int, live []string, src int) (string, string, []string) {
		if capture && baseVar(live[src]) != live[src] {
			return "", "", nil
		}
		var decl strings.Builder
		var inner []string
		for i, l := range live {
			if isRO(l) || isStatic(l) {
				inner = append(inner, l)
				continue
			}
			fmt.Fprintf(&decl, "function gpk%d_%d() { global %s; return %s; }\n", u, i, baseVar(l), l)
			inner = append(inner, fmt.Sprintf("gpk%d_%d()", u, i))
		}
		param, use, arg := fmt.Sprintf("$z%d = 0", u), "", ""
		if capture {
			inner = append(inner, live[src])
			use = " use (" + live[src] + ")"
		} else {
			param, arg = fmt.Sprintf("$p%d", u), live[src]
			inner = append(inner, fmt.Sprintf("$p%d", u))
		}
		head := fmt.Sprintf("$f%d = function(%s)%s {\n", u, param, use)
		tail := "return 0;\n};\n"
		if arrow {
			head = fmt.Sprintf("$f%d = fn(%s) => [\n", u, param)
			tail = "0];\n"
		}
		call := fmt.Sprintf("$f%d(%s);\n", u, arg)
		if via == "map" {
			call = fmt.Sprintf("array_map($f%d, [0]);\n", u)
		}
		return snapLine("P", live) + decl.String() + head, tail + call + snapLine("F", live), inner
	}}
}

func routes() []route {
	objOrigin := func(u int) (string, string) { return fmt.Sprintf("$o%d = new O();\n", u), fmt.Sprintf("$o%d->p", u) }
	return []route{
		flat("assign", true, nil, func(u int, src string) (string, string) {
			return fmt.Sprintf("$b%d = %s;\n", u, src), fmt.Sprintf("$b%d", u)
		}),
		paramRoute("param", false),
		flat("idcall", true, nil, func(u int, src string) (string, string) {
			return fmt.Sprintf("$b%d = idf(%s);\n", u, src), fmt.Sprintf("$b%d", u)
		}),
		flat("getter", false, func(u int) (string, string) {
			return fmt.Sprintf("$h%d = new H();\n", u), fmt.Sprintf("$h%d->p", u)
		}, func(u int, src string) (string, string) {
			return fmt.Sprintf("$b%d = $h%d->get();\n", u, u), fmt.Sprintf("$b%d", u)
		}),
		flat("propstore", true, nil, func(u int, src string) (string, string) {
			return fmt.Sprintf("$s%d = new O();\n$s%d->p = %s;\n", u, u, src), fmt.Sprintf("$s%d->p", u)
		}),
		flat("propread", false, objOrigin, func(u int, src string) (string, string) {
			return fmt.Sprintf("$b%d = $o%d->p;\n", u, u), fmt.Sprintf("$b%d", u)
		}),
		flat("elemstore", true, nil, func(u int, src string) (string, string) {
			return fmt.Sprintf("$c%d = [0, 0];\n$c%d[1] = %s;\n", u, u, src), fmt.Sprintf("$c%d[1]", u)
		}),
		flat("elemread", false, func(u int) (string, string) {
			return fmt.Sprintf("$e%d = [0];\n", u), fmt.Sprintf("$e%d[0]", u)
		}, func(u int, src string) (string, string) {
			return fmt.Sprintf("$b%d = $e%d[0];\n", u, u), fmt.Sprintf("$b%d", u)
		}),
		flat("arrlit", true, nil, func(u int, src string) (string, string) {
			return fmt.Sprintf("$l%d = [%s];\n", u, src), fmt.Sprintf("$l%d[0]", u)
		}),
		flat("fpushstore", true, nil, func(u int, src string) (string, string) {
			return fmt.Sprintf("$y%d = [0];\narray_push($y%d, %s);\n", u, u, src), fmt.Sprintf("$y%d[1]", u)
		}),
		// further stores into an array / a static property
		late(flat("appendstore", true, nil, func(u int, src string) (string, string) {
			return fmt.Sprintf("$d%d = [0];\n$d%d[] = %s;\n", u, u, src), fmt.Sprintf("$d%d[1]", u)
		})),
		late(flat("skeystore", true, nil, func(u int, src string) (string, string) { // string key into a list container
			return fmt.Sprintf("$k%d = [0];\n$k%d[\"s\"] = %s;\n", u, u, src), fmt.Sprintf("$k%d[\"s\"]", u)
		})),
		late(flat("okeystore", true, nil, func(u int, src string) (string, string) { // string key into a keyed container
			return fmt.Sprintf("$j%d = [\"j\" => 0];\n$j%d[\"s\"] = %s;\n", u, u, src), fmt.Sprintf("$j%d[\"s\"]", u)
		})),
		late(flat("kvlit", true, nil, func(u int, src string) (string, string) {
			return fmt.Sprintf("$t%d = [\"j\" => 0, \"v\" => %s];\n", u, src), fmt.Sprintf("$t%d[\"v\"]", u)
		})),
		late(flat("spropstore", true, nil, func(u int, src string) (string, string) {
			return fmt.Sprintf("SP::$q%d = %s;\n", u, src), fmt.Sprintf("SP::$q%d", u)
		})),
		ext(flat("spropread", false, func(u int) (string, string) { return "", "SP::$o1" }, func(u int, src string) (string, string) {
			return fmt.Sprintf("$b%d = SP::$o1;\n", u), fmt.Sprintf("$b%d", u)
		})),
		// the copy lives in a closure: by-value `use`, arrow-function capture, closure parameter
		closureRoute("capuse", false, true, "call", false),
		closureRoute("caparrow", true, true, "call", false),
		closureRoute("caparrowmap", true, true, "map", true),
		closureRoute("pclosure", false, false, "call", true),
		closureRoute("parrow", true, false, "call", true),
		// by-value parameter of a method
		late(callRoute("pmethod", true, nil, 1, func(u int, src string) string {
			return fmt.Sprintf("$pm%d = new PM%d();\n$pm%d->f%d(%s);\n", u, u, u, u, src)
		}, "method")),
		late(callRoute("pstaticm", true, nil, 1, func(u int, src string) string {
			return fmt.Sprintf("PM%d::f%d(%s);\n", u, u, src)
		}, "smethod")),
		// by-value parameter reached through other call forms (callee has plain parameters only)
		callRoute("pspread", true, nil, 2, func(u int, src string) string {
			return fmt.Sprintf("$x%d = [0];\nf%d(%s, ...$x%d);\n", u, u, src, u)
		}, "func"),
		callRoute("pspreadelem", false, func(u int) (string, string) {
			return fmt.Sprintf("$x%d = [0, 0];\n", u), fmt.Sprintf("$x%d[0]", u)
		}, 2, func(u int, src string) string { return fmt.Sprintf("f%d(...$x%d);\n", u, u) }, "func"),
		callRoute("pnamed", true, nil, 2, func(u int, src string) string {
			return fmt.Sprintf("f%d(p%d: %s);\n", u, u, src)
		}, "func"),
		callRoute("pmap", false, func(u int) (string, string) {
			return fmt.Sprintf("$x%d = [0];\n", u), fmt.Sprintf("$x%d[0]", u)
		}, 1, func(u int, src string) string { return fmt.Sprintf("array_map(\"f%d\", $x%d);\n", u, u) }, "func"),
		// `$x = f(...)` where f hands back an array that is STORED somewhere (not a fresh local)
		{name: "fstatic", originBuild: func(u int, build func(lv string) string) (string, string) {
			return fmt.Sprintf("function sget%d() {\nstatic $s = null;\nif ($s === null) {\n%s}\nreturn $s;\n}\n", u, build("$s")), fmt.Sprintf("sget%d()", u)
		}, apply: func(u int, live []string, src int) (string, string, []string) {
			return fmt.Sprintf("$b%d = sget%d();\n", u, u), "", append(append([]string{}, live...), fmt.Sprintf("$b%d", u))
		}},
		flat("fglobal", false, func(u int) (string, string) { return "", fmt.Sprintf("$g%d", u) }, func(u int, src string) (string, string) {
			return fmt.Sprintf("function gget%d() { global $g%d; return $g%d; }\n$b%d = gget%d();\n", u, u, u, u, u), fmt.Sprintf("$b%d", u)
		}),
		flat("fprop", false, objOrigin, func(u int, src string) (string, string) {
			return fmt.Sprintf("function pget%d($o) { return $o->p; }\n$b%d = pget%d($o%d);\n", u, u, u, u), fmt.Sprintf("$b%d", u)
		}),
		flat("fend", false, func(u int) (string, string) {
			return fmt.Sprintf("$m%d = [0, 0];\n", u), fmt.Sprintf("$m%d[1]", u)
		}, func(u int, src string) (string, string) {
			return fmt.Sprintf("$b%d = end($m%d);\n", u, u), fmt.Sprintf("$b%d", u)
		}),
		{name: "foreach", origin: func(u int) (string, string) {
			return fmt.Sprintf("$w%d = [0];\n", u), fmt.Sprintf("$w%d[0]", u)
		}, apply: func(u int, live []string, src int) (string, string, []string) {
			return fmt.Sprintf("foreach ($w%d as $v%d) {\n", u, u), "break;\n}\n", append(append([]string{}, live...), fmt.Sprintf("$v%d", u))
		}},
		flat("cloneobj", false, objOrigin, func(u int, src string) (string, string) {
			return fmt.Sprintf("$q%d = clone $o%d;\n", u, u), fmt.Sprintf("$q%d->p", u)
		}),
	}
}

func late(r route) route { r.late, r.ext = true, true; return r }
func ext(r route) route  { r.ext = true; return r }

// controls: an explicit reference / a shared object handle — the write MUST show through.
func controls() []route {
	refAssign := flat("ref-assign", true, nil, func(u int, src string) (string, string) {
		return fmt.Sprintf("$b%d = &%s;\n", u, src), fmt.Sprintf("$b%d", u)
	})
	refAssign.control = "ref"
	handle := flat("handle", false, func(u int) (string, string) {
		return fmt.Sprintf("$o%d = new O();\n", u), fmt.Sprintf("$o%d->p", u)
	}, func(u int, src string) (string, string) {
		return fmt.Sprintf("$q%d = $o%d;\n", u, u), fmt.Sprintf("$q%d->p", u)
	})
	handle.control = "handle"
	return []route{refAssign, paramRoute("ref-param", true), handle}
}

func routeByName(n string) (route, bool) {
	for _, r := range append(routes(), controls()...) {
		if r.name == n {
			return r, true
		}
	}
	return route{}, false
}

func shapeByName(n string) (shape, bool) {
	for _, s := range shapes() {
		if s.name == n {
			return s, true
		}
	}
	return shape{}, false
}

func mutByName(n string) (mutation, bool) {
	for _, m := range allMutations() {
		if m.name == n {
			return m, true
		}
	}
	return mutation{}, false
}

// ---- cases ---------------------------------------------------------------------------------------

type step struct {
	Mut    string `json:"mut"`
	Target int    `json:"target"` // index of the mutated name: 0 = original, i = copy made by route i
}

type kase struct {
	Shape  string   `json:"shape"`
	Routes []string `json:"routes"`
	Steps  []step   `json:"steps"`
	Rot    int      `json:"rot"`
}

func (k kase) String() string {
	p := []string{}
	for _, s := range k.Steps {
		p = append(p, fmt.Sprintf("%s@%d", s.Mut, s.Target))
	}
	return k.Shape + " " + strings.Join(k.Routes, ">") + " " + strings.Join(p, ",")
}

type built struct {
	script  string
	names   int
	classes []string // mutation class per step ("" = not applicable)
	models  []string // expected json of the mutated name after each step ("" = not modelled)
	stmts   []string
	ok      bool // every step applicable
}

// build prints the script of a case and computes the model side.
func (k kase) build() built {
	sh, ok := shapeByName(k.Shape)
	if !ok || len(k.Routes) == 0 {
		return built{}
	}
	var rs []route
	for _, n := range k.Routes {
		r, ok := routeByName(n)
		if !ok {
			return built{}
		}
		rs = append(rs, r)
	}
	var sb strings.Builder
	sb.WriteString(prelude)
	lv0 := "$a"
	switch {
	case rs[0].originBuild != nil:
		setup, lv := rs[0].originBuild(1, func(l string) string { return sh.build(l, k.Rot) })
		sb.WriteString(setup)
		lv0 = lv
	case rs[0].origin != nil:
		setup, lv := rs[0].origin(1)
		sb.WriteString(setup)
		lv0 = lv
		sb.WriteString(sh.build(lv0, k.Rot))
	default:
		sb.WriteString(sh.build(lv0, k.Rot))
	}
	live := []string{lv0}
	var posts []string
	for i, r := range rs {
		if i > 0 && !r.general {
			return built{}
		}
		if i > 0 && r.scope && rs[0].scope {
			return built{}
		}
		if r.exprBody && i != len(rs)-1 {
			return built{} // nothing can follow inside a single-expression body
		}
		pre, post, inner := r.apply(i+1, live, len(live)-1)
		if inner == nil {
			return built{}
		}
		sb.WriteString(pre)
		posts = append([]string{post}, posts...)
		live = inner
	}
	b := built{names: len(live), ok: true}
	models := make([]*parr, len(live))
	known := make([]bool, len(live))
	for i := range models {
		models[i] = sh.mk(k.Rot)
		known[i] = true
	}
	expr := rs[len(rs)-1].exprBody
	snap := func() string {
		if expr {
			return snapExpr("S", live)
		}
		return snapLine("S", live)
	}
	sb.WriteString(snap())
	for j, st := range k.Steps {
		m, ok := mutByName(st.Mut)
		if !ok || st.Target < 0 || st.Target >= len(live) || isRO(live[st.Target]) {
			return built{}
		}
		src := m.src(live[st.Target], models[st.Target])
		if src == "" {
			return built{}
		}
		b.stmts = append(b.stmts, src)
		b.classes = append(b.classes, classify(m, models[st.Target]))
		if known[st.Target] && m.apply(models[st.Target]) {
			b.models = append(b.models, av(models[st.Target]).json())
		} else {
			known[st.Target] = false
			b.models = append(b.models, "")
		}
		if expr {
			if strings.HasPrefix(src, "unset(") || strings.HasPrefix(src, "foreach") || strings.Contains(src, "; ") {
				return built{} // a statement / several statements, not one expression
			}
			sb.WriteString(strings.TrimSuffix(src, ";") + ",\n")
		} else {
			fmt.Fprintf(&sb, "try { %s } catch (Throwable $e) { echo \"E|%d\\n\"; }\n", src, j)
		}
		sb.WriteString(snap())
	}
	for _, p := range posts {
		sb.WriteString(p)
	}
	b.script = sb.String()
	return b
}
