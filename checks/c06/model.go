package main

// Independent model of PHP array values (ordered map, int/string keys, value semantics) used as the
// vacuity guard of C06: after a mutation the *mutated* name is compared with this model (did the
// mutation really happen, and is it the documented one), while the deciding oracle — the other
// name's snapshot must not change — never consults the model.

import (
	"fmt"
	"sort"
	"strconv"
	"strings"
)

type pval struct {
	arr *parr
	str bool
	n   int
	s   string
}

type pent struct {
	str bool
	ki  int
	ks  string
	v   pval
}

type parr struct {
	e    []pent
	next int
}

func iv(n int) pval    { return pval{n: n} }
func sv(s string) pval { return pval{str: true, s: s} }
func av(a *parr) pval  { return pval{arr: a} }
func list(vs ...pval) *parr {
	a := &parr{}
	for _, v := range vs {
		a.push(v)
	}
	return a
}

func (a *parr) clone() *parr {
	if a == nil {
		return nil
	}
	c := &parr{next: a.next, e: make([]pent, len(a.e))}
	for i, e := range a.e {
		c.e[i] = e
		if e.v.arr != nil {
			c.e[i].v.arr = e.v.arr.clone()
		}
	}
	return c
}

func (a *parr) find(k pent) int {
	for i, e := range a.e {
		if e.str == k.str && e.ki == k.ki && e.ks == k.ks {
			return i
		}
	}
	return -1
}

func ik(i int) pent    { return pent{ki: i} }
func sk(s string) pent { return pent{str: true, ks: s} }

func (a *parr) set(k pent, v pval) {
	if i := a.find(k); i >= 0 {
		a.e[i].v = v
		return
	}
	k.v = v
	a.e = append(a.e, k)
	if !k.str && k.ki >= a.next {
		a.next = k.ki + 1
	}
}

func (a *parr) push(v pval) { a.set(ik(a.next), v) }

func (a *parr) unset(k pent) {
	if i := a.find(k); i >= 0 {
		a.e = append(a.e[:i:i], a.e[i+1:]...)
	}
}

func (a *parr) renumber() {
	n := 0
	for i := range a.e {
		if !a.e[i].str {
			a.e[i].ki = n
			n++
		}
	}
	a.next = n
}

func (a *parr) isList() bool {
	for i, e := range a.e {
		if e.str || e.ki != i {
			return false
		}
	}
	return true
}

func (a *parr) allScalarInt() bool {
	for _, e := range a.e {
		if e.v.arr != nil || e.v.str {
			return false
		}
	}
	return true
}

func (k pent) lit() string {
	if k.str {
		return strconv.Quote(k.ks)
	}
	return strconv.Itoa(k.ki)
}

// lit prints PHP source for the value (explicit keys unless it is a list).
func (v pval) lit() string {
	switch {
	case v.arr != nil:
		l := v.arr.isList()
		p := make([]string, len(v.arr.e))
		for i, e := range v.arr.e {
			if l {
				p[i] = e.v.lit()
			} else {
				p[i] = e.lit() + " => " + e.v.lit()
			}
		}
		return "[" + strings.Join(p, ", ") + "]"
	case v.str:
		return strconv.Quote(v.s)
	}
	return strconv.Itoa(v.n)
}

// json renders like PHP's json_encode.
func (v pval) json() string {
	switch {
	case v.arr != nil:
		p := make([]string, len(v.arr.e))
		if v.arr.isList() {
			for i, e := range v.arr.e {
				p[i] = e.v.json()
			}
			return "[" + strings.Join(p, ",") + "]"
		}
		for i, e := range v.arr.e {
			k := e.ks
			if !e.str {
				k = strconv.Itoa(e.ki)
			}
			p[i] = strconv.Quote(k) + ":" + e.v.json()
		}
		return "{" + strings.Join(p, ",") + "}"
	case v.str:
		return strconv.Quote(v.s)
	}
	return strconv.Itoa(v.n)
}

func (a *parr) keySig() string {
	var sb strings.Builder
	for _, e := range a.e {
		sb.WriteString(e.lit())
		sb.WriteByte(',')
	}
	return sb.String()
}

// ---- shapes ------------------------------------------------------------------------------------

type shape struct {
	name  string
	class string // shape class (reported, not part of finding keys)
	mk    func(r int) *parr
	// build returns statements that leave the shape in lvalue lv (literal where the literal form works)
	stmts bool // build by statements (mixed keys: the literal form does not terminate in today's parser)
}

// r rotates the literal pool (seed); values stay unsorted so that sort is effective.
func shapes() []shape {
	return []shape{
		{name: "list", class: "list", mk: func(r int) *parr { return list(iv(3+r), iv(1+r), iv(2+r)) }},
		{name: "strkeys", class: "string-keyed", mk: func(r int) *parr {
			a := &parr{}
			a.set(sk("x"), iv(3+r))
			a.set(sk("y"), iv(1+r))
			return a
		}},
		{name: "mixed", class: "mixed", stmts: true, mk: func(r int) *parr {
			a := list(iv(3+r), iv(1+r))
			a.set(sk("k"), iv(2+r))
			return a
		}},
		{name: "sparse", class: "sparse", mk: func(r int) *parr {
			a := &parr{}
			a.set(ik(5), iv(3+r))
			a.set(ik(9), iv(1+r))
			return a
		}},
		{name: "nested2", class: "nested", mk: func(r int) *parr {
			return list(av(list(iv(3+r), iv(1+r))), av(list(iv(2+r), iv(4+r))))
		}},
		{name: "nested3", class: "nested", mk: func(r int) *parr {
			return list(av(list(av(list(iv(3+r), iv(1+r))), av(list(iv(2+r))))), av(list(av(list(iv(4+r))))))
		}},
		{name: "listofmaps", class: "nested", mk: func(r int) *parr {
			m1 := &parr{}
			m1.set(sk("x"), iv(3+r))
			m1.set(sk("y"), iv(1+r))
			m2 := &parr{}
			m2.set(sk("x"), iv(2+r))
			return list(av(m1), av(m2))
		}},
		{name: "empty", class: "empty", mk: func(r int) *parr { return &parr{} }},
	}
}

func (s shape) build(lv string, r int) string {
	a := s.mk(r)
	if !s.stmts {
		return lv + " = " + av(a).lit() + ";\n"
	}
	// int-keyed prefix as a literal, the string keys by element stores
	var sb strings.Builder
	pre := &parr{}
	for _, e := range a.e {
		if !e.str {
			pre.set(e, e.v)
		}
	}
	sb.WriteString(lv + " = " + av(pre).lit() + ";\n")
	for _, e := range a.e {
		if e.str {
			fmt.Fprintf(&sb, "%s[%s] = %s;\n", lv, e.lit(), e.v.lit())
		}
	}
	return sb.String()
}

// ---- mutations ---------------------------------------------------------------------------------

type mutation struct {
	name string
	// src returns the statement applied to lvalue lv for an array currently shaped like a ("" = not applicable)
	src func(lv string, a *parr) string
	// apply performs the documented effect on the model; ok=false: effect not modelled (JS-style
	// method on a keyed array etc.) — then only "did it change" is recorded.
	apply func(a *parr) (ok bool)
	class string // fixed mutation kind: cell | struct | order | nested | ref  ("" = derive from the model), see classify
	// sibling (class ref only): the plain write to the same slot. A leaking ref write whose sibling
	// leaks too is the same shared cell (class interior); only when the plain write stays separate is
	// the leak specific to the reference (class ref).
	sibling string
	hidden  bool // twin of a ref write: used by explainRef only, never enumerated
}

func firstKey(a *parr) (pent, bool) {
	if len(a.e) == 0 {
		return pent{}, false
	}
	return a.e[0], true
}

func firstInner(a *parr) (*parr, pent, bool) {
	k, ok := firstKey(a)
	if !ok || k.v.arr == nil {
		return nil, pent{}, false
	}
	return k.v.arr, k, true
}

// mutations: the enumerated alphabet (allMutations without the hidden twins).
func mutations() []mutation {
	var out []mutation
	for _, m := range allMutations() {
		if !m.hidden {
			out = append(out, m)
		}
	}
	return out
}

// allMutations additionally contains the plain twins of the reference writes: the same slot is written
// with a value no other mutation uses, so the twin is effective in every history (a second `= 90` is not).
func allMutations() []mutation {
	needScalarFirst := func(a *parr) (pent, bool) {
		k, ok := firstKey(a)
		if !ok || k.v.arr != nil {
			return k, false
		}
		return k, true
	}
	return []mutation{
		{name: "set-first", src: func(lv string, a *parr) string {
			k, ok := firstKey(a)
			if !ok {
				k = ik(0)
			}
			return fmt.Sprintf("%s[%s] = 90;", lv, k.lit())
		}, apply: func(a *parr) bool {
			k, ok := firstKey(a)
			if !ok {
				k = ik(0)
			}
			a.set(pent{str: k.str, ki: k.ki, ks: k.ks}, iv(90))
			return true
		}},
		{name: "set-strkey", src: func(lv string, a *parr) string { return lv + `["x"] = 91;` },
			apply: func(a *parr) bool { a.set(sk("x"), iv(91)); return true }},
		{name: "append", src: func(lv string, a *parr) string { return lv + "[] = 92;" },
			apply: func(a *parr) bool { a.push(iv(92)); return true }},
		{name: "set-newint", src: func(lv string, a *parr) string { return lv + "[17] = 93;" },
			apply: func(a *parr) bool { a.set(ik(17), iv(93)); return true }},
		{name: "nested-set", class: "nested", src: func(lv string, a *parr) string {
			in, k, ok := firstInner(a)
			if !ok {
				return ""
			}
			k1, ok := firstKey(in)
			if !ok {
				return ""
			}
			return fmt.Sprintf("%s[%s][%s] = 94;", lv, k.lit(), k1.lit())
		}, apply: func(a *parr) bool {
			in, _, _ := firstInner(a)
			k1, _ := firstKey(in)
			in.set(pent{str: k1.str, ki: k1.ki, ks: k1.ks}, iv(94))
			return true
		}},
		{name: "nested-append", class: "nested", src: func(lv string, a *parr) string {
			_, k, ok := firstInner(a)
			if !ok {
				return ""
			}
			return fmt.Sprintf("%s[%s][] = 95;", lv, k.lit())
		}, apply: func(a *parr) bool { in, _, _ := firstInner(a); in.push(iv(95)); return true }},
		{name: "nested-unset", class: "nested", src: func(lv string, a *parr) string {
			in, k, ok := firstInner(a)
			if !ok {
				return ""
			}
			k1, ok := firstKey(in)
			if !ok {
				return ""
			}
			return fmt.Sprintf("unset(%s[%s][%s]);", lv, k.lit(), k1.lit())
		}, apply: func(a *parr) bool {
			in, _, _ := firstInner(a)
			k1, _ := firstKey(in)
			in.unset(k1)
			return true
		}},
		{name: "nested-push", class: "nested", src: func(lv string, a *parr) string {
			_, k, ok := firstInner(a)
			if !ok {
				return ""
			}
			return fmt.Sprintf("%s[%s]->push(99);", lv, k.lit())
		}, apply: func(a *parr) bool { in, _, _ := firstInner(a); in.push(iv(99)); return true }},
		{name: "unset-first", src: func(lv string, a *parr) string {
			k, ok := firstKey(a)
			if !ok {
				return ""
			}
			return fmt.Sprintf("unset(%s[%s]);", lv, k.lit())
		}, apply: func(a *parr) bool { k, _ := firstKey(a); a.unset(k); return true }},
		{name: "m-push", src: func(lv string, a *parr) string { return lv + "->push(96);" },
			apply: func(a *parr) bool { a.push(iv(96)); return true }},
		{name: "m-pop", src: func(lv string, a *parr) string {
			if len(a.e) == 0 {
				return ""
			}
			return lv + "->pop();"
		}, apply: func(a *parr) bool { a.e = a.e[:len(a.e)-1]; return true }},
		{name: "m-shift", src: func(lv string, a *parr) string {
			if len(a.e) == 0 {
				return ""
			}
			return lv + "->shift();"
		}, apply: func(a *parr) bool { a.e = a.e[1:]; a.renumber(); return true }},
		{name: "m-unshift", src: func(lv string, a *parr) string { return lv + "->unshift(97);" },
			apply: func(a *parr) bool {
				a.e = append([]pent{{ki: -1, v: iv(97)}}, a.e...)
				a.renumber()
				return true
			}},
		{name: "m-sort", class: "order", src: func(lv string, a *parr) string {
			if len(a.e) < 2 {
				return ""
			}
			return lv + "->sort();"
		}, apply: func(a *parr) bool {
			if !a.isList() || !a.allScalarInt() {
				return false
			}
			sort.SliceStable(a.e, func(i, j int) bool { return a.e[i].v.n < a.e[j].v.n })
			a.renumber()
			return true
		}},
		{name: "m-reverse", class: "order", src: func(lv string, a *parr) string {
			if len(a.e) < 2 {
				return ""
			}
			return lv + "->reverse();"
		}, apply: func(a *parr) bool {
			if !a.isList() {
				return false
			}
			for i, j := 0, len(a.e)-1; i < j; i, j = i+1, j-1 {
				a.e[i].v, a.e[j].v = a.e[j].v, a.e[i].v
			}
			return true
		}},
		{name: "m-splice", src: func(lv string, a *parr) string {
			if len(a.e) < 2 {
				return ""
			}
			return lv + "->splice(1, 1);"
		}, apply: func(a *parr) bool {
			a.e = append(a.e[:1:1], a.e[2:]...)
			a.renumber()
			return true
		}},
		{name: "incr", class: "cell", src: func(lv string, a *parr) string {
			k, ok := needScalarFirst(a)
			if !ok {
				return ""
			}
			return fmt.Sprintf("%s[%s]++;", lv, k.lit())
		}, apply: func(a *parr) bool { a.e[0].v.n++; return true }},
		{name: "plus-eq", class: "cell", src: func(lv string, a *parr) string {
			k, ok := needScalarFirst(a)
			if !ok {
				return ""
			}
			return fmt.Sprintf("%s[%s] += 5;", lv, k.lit())
		}, apply: func(a *parr) bool { a.e[0].v.n += 5; return true }},
		{name: "dot-eq", class: "cell", src: func(lv string, a *parr) string {
			k, ok := needScalarFirst(a)
			if !ok {
				return ""
			}
			return fmt.Sprintf("%s[%s] .= \"z\";", lv, k.lit())
		}, apply: func(a *parr) bool {
			a.e[0].v = sv(strconv.Itoa(a.e[0].v.n) + "z")
			return true
		}},
		{name: "f-sort", class: "order", src: func(lv string, a *parr) string {
			if len(a.e) < 2 {
				return ""
			}
			return "sort(" + lv + ");"
		}, apply: func(a *parr) bool {
			if !a.allScalarInt() {
				return false
			}
			sort.SliceStable(a.e, func(i, j int) bool { return a.e[i].v.n < a.e[j].v.n })
			for i := range a.e {
				a.e[i].str, a.e[i].ks = false, ""
			}
			a.renumber()
			return true
		}},
		{name: "f-push", src: func(lv string, a *parr) string { return "array_push(" + lv + ", 98);" },
			apply: func(a *parr) bool { a.push(iv(98)); return true }},
		{name: "f-pop", src: func(lv string, a *parr) string {
			if len(a.e) == 0 {
				return ""
			}
			return "array_pop(" + lv + ");"
		}, apply: func(a *parr) bool { a.e = a.e[:len(a.e)-1]; return true }},
		{name: "set-first-alt", hidden: true, class: "cell", src: func(lv string, a *parr) string {
			k, ok := firstKey(a)
			if !ok {
				return ""
			}
			return fmt.Sprintf("%s[%s] = 190;", lv, k.lit())
		}, apply: func(a *parr) bool {
			k, _ := firstKey(a)
			a.set(pent{str: k.str, ki: k.ki, ks: k.ks}, iv(190))
			return true
		}},
		{name: "nested-set-alt", hidden: true, class: "nested", src: func(lv string, a *parr) string {
			in, k, ok := firstInner(a)
			if !ok {
				return ""
			}
			k1, ok := firstKey(in)
			if !ok {
				return ""
			}
			return fmt.Sprintf("%s[%s][%s] = 194;", lv, k.lit(), k1.lit())
		}, apply: func(a *parr) bool {
			in, _, _ := firstInner(a)
			k1, _ := firstKey(in)
			in.set(pent{str: k1.str, ki: k1.ki, ks: k1.ks}, iv(194))
			return true
		}},
		// ---- writes through an explicit reference taken on an ELEMENT of the written name ----
		{name: "ref-param", class: "ref", sibling: "set-first-alt", src: func(lv string, a *parr) string {
			k, ok := firstKey(a)
			if !ok {
				return ""
			}
			return fmt.Sprintf("bumpr(%s[%s]);", lv, k.lit())
		}, apply: func(a *parr) bool {
			k, _ := firstKey(a)
			a.set(pent{str: k.str, ki: k.ki, ks: k.ks}, iv(90))
			return true
		}},
		{name: "ref-param-nested", class: "ref", sibling: "nested-set-alt", src: func(lv string, a *parr) string {
			in, k, ok := firstInner(a)
			if !ok {
				return ""
			}
			k1, ok := firstKey(in)
			if !ok {
				return ""
			}
			return fmt.Sprintf("bumpn(%s[%s][%s]);", lv, k.lit(), k1.lit())
		}, apply: func(a *parr) bool {
			in, _, _ := firstInner(a)
			k1, _ := firstKey(in)
			in.set(pent{str: k1.str, ki: k1.ki, ks: k1.ks}, iv(94))
			return true
		}},
		{name: "ref-local", class: "ref", sibling: "set-first-alt", src: func(lv string, a *parr) string {
			k, ok := firstKey(a)
			if !ok {
				return ""
			}
			return fmt.Sprintf("$r9 = &%s[%s]; $r9 = 90; unset($r9);", lv, k.lit())
		}, apply: func(a *parr) bool {
			k, _ := firstKey(a)
			a.set(pent{str: k.str, ki: k.ki, ks: k.ks}, iv(90))
			return true
		}},
		{name: "ref-foreach", class: "ref", sibling: "set-first-alt", src: func(lv string, a *parr) string {
			if _, ok := firstKey(a); !ok {
				return ""
			}
			return fmt.Sprintf("foreach (%s as &$v9) { $v9 = 90; break; } unset($v9);", lv)
		}, apply: func(a *parr) bool {
			k, _ := firstKey(a)
			a.set(pent{str: k.str, ki: k.ki, ks: k.ks}, iv(90))
			return true
		}},
		{name: "ref-closure", class: "ref", sibling: "set-first-alt", src: func(lv string, a *parr) string {
			k, ok := firstKey(a)
			if !ok {
				return ""
			}
			return fmt.Sprintf("$r9 = &%s[%s]; $g9 = function() use (&$r9) { $r9 = 90; return 0; }; $g9(); unset($r9);", lv, k.lit())
		}, apply: func(a *parr) bool {
			k, _ := firstKey(a)
			a.set(pent{str: k.str, ki: k.ki, ks: k.ks}, iv(90))
			return true
		}},
		{name: "ref-nested-sort", class: "ref", sibling: "nested-set-alt", src: func(lv string, a *parr) string {
			in, k, ok := firstInner(a)
			if !ok || len(in.e) < 2 {
				return ""
			}
			return fmt.Sprintf("sort(%s[%s]);", lv, k.lit())
		}, apply: func(a *parr) bool {
			in, _, _ := firstInner(a)
			if !in.allScalarInt() {
				return false
			}
			sort.SliceStable(in.e, func(i, j int) bool { return in.e[i].v.n < in.e[j].v.n })
			for i := range in.e {
				in.e[i].str, in.e[i].ks = false, ""
			}
			in.renumber()
			return true
		}},
		{name: "ref-nested-push", class: "ref", sibling: "nested-append", src: func(lv string, a *parr) string {
			_, k, ok := firstInner(a)
			if !ok {
				return ""
			}
			return fmt.Sprintf("array_push(%s[%s], 99);", lv, k.lit())
		}, apply: func(a *parr) bool { in, _, _ := firstInner(a); in.push(iv(99)); return true }},
		{name: "f-shift", src: func(lv string, a *parr) string {
			if len(a.e) == 0 {
				return ""
			}
			return "array_shift(" + lv + ");"
		}, apply: func(a *parr) bool { a.e = a.e[1:]; a.renumber(); return true }},
	}
}

// family groups the mutations of class toplevel by the kind of structural change; it is part of the
// finding key (leak:<route>:toplevel:<family>) so that one known structural leak on a route (e.g.
// unset renaming shared cells) does not mask another (e.g. appends reaching the original).
func family(name string) string {
	switch name {
	case "set-first", "set-strkey", "set-newint":
		return "store"
	case "append", "m-push", "f-push", "m-unshift":
		return "append"
	case "unset-first":
		return "unset"
	case "m-pop", "f-pop", "m-shift", "f-shift":
		return "remove"
	case "m-sort", "f-sort", "m-reverse":
		return "sort"
	case "m-splice":
		return "splice"
	}
	return "other"
}

// classify returns the mutation class for the finding key: which part of the value the write touches.
//
//	interior          — the write lands inside something the shallow top-level slot list points to:
//	                    an existing top-level slot gets a new value (key sequence unchanged) or the
//	                    write goes through an inner array
//	toplevel:<family> — the top-level slot list itself changes: insert / delete / renumber / permute
func classify(m mutation, before *parr) string {
	switch m.class {
	case "nested", "cell":
		return "interior"
	case "ref":
		return "ref"
	case "order", "struct":
		return "toplevel:" + family(m.name)
	}
	after := before.clone()
	if ok := m.apply(after); !ok {
		return "toplevel:" + family(m.name)
	}
	if after.keySig() == before.keySig() {
		return "interior"
	}
	return "toplevel:" + family(m.name)
}
