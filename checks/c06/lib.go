package main

// Library family of C06: array functions that take arrays and return an array must neither mutate
// nor alias their arguments.
//
// For every function template x every tuple of argument shapes (complete product over the pool):
//
//	S0  snapshot all arguments
//	    $r = fn(args)
//	S1  arguments must equal S0                          -> libcall.<fn>:argument-changed
//	    mutate $r: top-level store / append, then a store and an append inside every nested
//	    container of the result (paths found in the result's own json, depth <= 3)
//	Sk  after each: arguments unchanged                  -> leak:lib.<fn>:interior | :toplevel:<family>
//	    mutate each argument the same way
//	Sk  after each: $r (and the other arguments) unchanged -> same keys
//
// Two runs per case: the first only prints json_encode of the arguments and the result so that the
// mutation paths can be derived from the real structure; the second is the judged script.

import (
	"bytes"
	"encoding/json"
	"fmt"
	"strconv"
	"strings"

	"verif/engine/pool"
	"verif/engine/runner"
)

type libFn struct {
	Name  string // key label, e.g. array_merge/3
	Arity int
	Call  string // template with {0} {1} {2}
}

func libFns() []libFn {
	fns := []libFn{
		{"array_slice/len", 1, "array_slice({0}, 0, 2)"},
		{"array_slice/off", 1, "array_slice({0}, 1)"},
		{"array_values", 1, "array_values({0})"},
		{"array_reverse", 1, "array_reverse({0})"},
		{"array_filter", 1, "array_filter({0})"},
		{"array_filter/cb", 1, "array_filter({0}, function($v) { return true; })"},
		{"array_map", 1, "array_map(function($v) { return $v; }, {0})"},
		{"array_combine", 1, "array_combine(array_keys({0}), {0})"},
		{"array_pad", 1, "array_pad({0}, 5, 0)"},
		{"array_unique", 1, "array_unique({0})"},
		{"array_fill_keys", 1, "array_fill_keys([\"a\", \"b\"], {0})"},
		{"array_flip", 1, "array_flip({0})"},
		{"iterator_to_array", 1, "iterator_to_array({0})"},
		{"array_diff", 2, "array_diff({0}, {1})"},
		{"array_intersect", 2, "array_intersect({0}, {1})"},
		{"array_intersect_key", 2, "array_intersect_key({0}, {1})"},
		{"array_map/2", 2, "array_map(function($v, $w) { return [$v, $w]; }, {0}, {1})"},
		{"op+", 2, "{0} + {1}"},
	}
	for _, f := range []string{"array_merge", "array_merge_recursive", "array_replace", "array_replace_recursive"} {
		fns = append(fns, libFn{f + "/1", 1, f + "({0})"}, libFn{f + "/2", 2, f + "({0}, {1})"}, libFn{f + "/3", 3, f + "({0}, {1}, {2})"})
	}
	return fns
}

// argument shapes: lists and keyed arrays nested up to 3 levels; the K* shapes overlap partially
// (keys missing from one, present in another, overridden deeper in a third)
var libShapes = []struct{ Name, Lit string }{
	{"list", `[3, 1, 2]`},
	{"nested2", `[[3, 1], [2, 4]]`},
	{"listofmaps", `[["x" => 3, "y" => 1], ["x" => 2]]`},
	{"K1", `["app" => ["name" => 1, "debug" => 2]]`},
	{"K2", `["db" => ["m" => ["h" => 3, "p" => 4]]]`},
	{"K3", `["db" => ["m" => ["h" => 5]], "app" => ["debug" => 6]]`},
	{"K4", `["db" => ["m" => ["q" => [7, 8]]], "k" => [9]]`},
}

type libCase struct {
	Fn     string   `json:"fn"`
	Shapes []string `json:"shapes"`
}

func (c libCase) String() string { return "lib " + c.Fn + "(" + strings.Join(c.Shapes, ", ") + ")" }

func (c libCase) fn() (libFn, bool) {
	for _, f := range libFns() {
		if f.Name == c.Fn {
			return f, true
		}
	}
	return libFn{}, false
}

func (c libCase) head() (string, []string) {
	f, _ := c.fn()
	var sb strings.Builder
	call := f.Call
	var names []string
	for i, sn := range c.Shapes {
		lit := ""
		for _, s := range libShapes {
			if s.Name == sn {
				lit = s.Lit
			}
		}
		n := fmt.Sprintf("$x%d", i)
		names = append(names, n)
		fmt.Fprintf(&sb, "%s = %s;\n", n, lit)
		call = strings.ReplaceAll(call, fmt.Sprintf("{%d}", i), n)
	}
	return sb.String() + "\x00$r = " + call + ";\n", names
}

// ---- ordered json -> container paths -----------------------------------------------------------------

type jnode struct {
	keys []string // PHP index literals
	kids []*jnode // nil for scalars
}

func parseJSON(s string) *jnode {
	dec := json.NewDecoder(bytes.NewReader([]byte(s)))
	dec.UseNumber()
	var rd func() *jnode
	rd = func() *jnode {
		t, err := dec.Token()
		if err != nil {
			return nil
		}
		d, ok := t.(json.Delim)
		if !ok {
			return nil
		}
		n := &jnode{}
		switch d {
		case '[':
			for i := 0; dec.More(); i++ {
				n.keys = append(n.keys, strconv.Itoa(i))
				n.kids = append(n.kids, rd())
			}
			dec.Token()
			return n
		case '{':
			for dec.More() {
				kt, _ := dec.Token()
				k, _ := kt.(string)
				if _, err := strconv.Atoi(k); err == nil && (k == "0" || !strings.HasPrefix(k, "0")) {
					n.keys = append(n.keys, k)
				} else {
					n.keys = append(n.keys, strconv.Quote(k))
				}
				n.kids = append(n.kids, rd())
			}
			dec.Token()
			return n
		}
		return nil
	}
	root := rd()
	if root == nil {
		return &jnode{}
	}
	return root
}

type libMut struct {
	Stmt  string
	Class string
}

// mutsFor lists the writes applied to variable v whose value has structure n.
func mutsFor(v string, n *jnode) []libMut {
	var out []libMut
	if len(n.keys) > 0 {
		out = append(out, libMut{fmt.Sprintf("%s[%s] = 90;", v, n.keys[0]), "interior"})
	}
	out = append(out, libMut{v + "[] = 92;", "toplevel:append"})
	var walk func(path string, n *jnode, depth int)
	walk = func(path string, n *jnode, depth int) {
		seen := 0
		for i, k := range n.kids {
			if k == nil {
				continue
			}
			if seen++; seen > 2 {
				break
			}
			p := path + "[" + n.keys[i] + "]"
			if len(k.keys) > 0 {
				out = append(out, libMut{fmt.Sprintf("%s[%s] = 94;", p, k.keys[0]), "interior"})
			}
			out = append(out, libMut{p + "[] = 95;", "interior"})
			if depth < 3 {
				walk(p, k, depth+1)
			}
		}
	}
	walk(v, n, 1)
	return out
}

// ---- judging -----------------------------------------------------------------------------------------

type libFinding struct {
	Key, Detail string
}

type libOutcome struct {
	Evaluable bool
	Reason    string
	Findings  []libFinding
	Script    string
	Muts      int
}

func judgeLib(c libCase) libOutcome {
	f, ok := c.fn()
	if !ok || len(c.Shapes) != f.Arity {
		return libOutcome{Reason: "bad-case"}
	}
	head, names := c.head()
	parts := strings.SplitN(head, "\x00", 2)
	setup, call := parts[0], parts[1]
	// run 1: structures
	var p1 strings.Builder
	p1.WriteString(setup + call)
	for _, n := range append(append([]string{}, names...), "$r") {
		fmt.Fprintf(&p1, "echo \"J|\", json_encode(%s), \"\\n\";\n", n)
	}
	r1 := runner.Run(p1.String(), runner.Opts{})
	var js []string
	for _, ln := range strings.Split(r1.Out, "\n") {
		if strings.HasPrefix(ln, "J|") {
			js = append(js, ln[2:])
		}
	}
	if r1.Kind != "ok" || len(js) != len(names)+1 {
		return libOutcome{Reason: "call:" + r1.Kind + ":" + r1.Msg + r1.PanicKey}
	}
	resNode := parseJSON(js[len(names)])
	if !strings.HasPrefix(js[len(names)], "[") && !strings.HasPrefix(js[len(names)], "{") {
		return libOutcome{Reason: "result-not-array"}
	}
	// run 2: the judged script
	all := append(append([]string{}, names...), "$r")
	type stepT struct {
		target int
		m      libMut
	}
	var steps []stepT
	for _, m := range mutsFor("$r", resNode) {
		steps = append(steps, stepT{len(names), m})
	}
	for i, n := range names {
		for _, m := range mutsFor(n, parseJSON(js[i])) {
			steps = append(steps, stepT{i, m})
		}
	}
	var sb strings.Builder
	sb.WriteString(setup)
	sb.WriteString(snapLine("S", names))
	sb.WriteString(call)
	sb.WriteString(snapLine("S", all))
	for j, st := range steps {
		fmt.Fprintf(&sb, "try { %s } catch (Throwable $e) { echo \"E|%d\\n\"; }\n", st.m.Stmt, j)
		sb.WriteString(snapLine("S", all))
	}
	o := libOutcome{Script: sb.String(), Muts: len(steps)}
	r2 := runner.Run(o.Script, runner.Opts{})
	var snaps [][]string
	for _, ln := range strings.Split(r2.Out, "\n") {
		if fs := strings.Split(ln, "|"); fs[0] == "S" {
			snaps = append(snaps, fs[1:])
		}
	}
	if r2.Kind != "ok" || len(snaps) != len(steps)+2 {
		o.Reason = fmt.Sprintf("script:%s snapshots %d/%d %s", r2.Kind, len(snaps), len(steps)+2, r2.Msg+r2.PanicKey)
		return o
	}
	o.Evaluable = true
	seen := map[string]bool{}
	add := func(key, detail string) {
		if !seen[key] {
			seen[key] = true
			o.Findings = append(o.Findings, libFinding{key, c.String() + "\n" + detail})
		}
	}
	for i := range names {
		if snaps[0][i] != snaps[1][i] {
			add("libcall."+c.Fn+":argument-changed", fmt.Sprintf("the call itself changed argument %d (%s):\n  before %s\n  after  %s", i, c.Shapes[i], jsonPart(snaps[0][i]), jsonPart(snaps[1][i])))
		}
	}
	for j, st := range steps {
		prev, cur := snaps[j+1], snaps[j+2]
		for u := range all {
			if u == st.target || prev[u] == cur[u] {
				continue
			}
			add("leak:lib."+c.Fn+":"+st.m.Class, fmt.Sprintf("%s   (written: %s, class %s)\n  %s changed too: %s -> %s", st.m.Stmt, all[st.target], st.m.Class, all[u], jsonPart(prev[u]), jsonPart(cur[u])))
		}
	}
	return o
}

// ---- worker -----------------------------------------------------------------------------------------------

type libShard struct {
	Fn string `json:"fn"`
}

func libWorker(w *pool.W, arg json.RawMessage) {
	var sh libShard
	json.Unmarshal(arg, &sh)
	var f libFn
	for _, x := range libFns() {
		if x.Name == sh.Fn {
			f = x
		}
	}
	r := rec{Kind: "libcount", Uneval: map[string]int64{}, Counts: map[string]int64{}}
	idx := make([]int, f.Arity)
	for {
		c := libCase{Fn: f.Name}
		for _, i := range idx {
			c.Shapes = append(c.Shapes, libShapes[i].Name)
		}
		if w.Item(c.String()) {
			r.N++
			o := judgeLib(c)
			r.Runs += 2
			if !o.Evaluable {
				r.Uneval["lib "+f.Name+" "+strings.SplitN(o.Reason, " ", 2)[0]]++
			} else {
				r.NA += int64(o.Muts) // number of judged writes
				for _, fd := range o.Findings {
					if r.Counts[fd.Key] == 0 {
						w.Emit(rec{Kind: "fail", Key: fd.Key, Clause: "leak", Size: 20 + len(c.Shapes), Case: map[string]any{"kind": "lib", "case": c, "script": o.Script}, Detail: fd.Detail})
					}
					r.Counts[fd.Key]++
				}
				if len(o.Findings) == 0 && r.N%17 == 1 {
					w.Emit(rec{Kind: "sample", Sample: map[string]any{"case": c.String(), "writes_judged": o.Muts, "verdict": "arguments and result independent"}})
				}
			}
		}
		k := len(idx) - 1
		for k >= 0 {
			idx[k]++
			if idx[k] < len(libShapes) {
				break
			}
			idx[k] = 0
			k--
		}
		if k < 0 {
			break
		}
	}
	w.Emit(r)
}
