package main

// Site family of C06: an expression that PRODUCES an array (a literal, a function that returns a
// literal, a default parameter value, a property default, a constant ...) is evaluated several times
// at ONE place of the program (one AST node: a loop body, a function called repeatedly). Every
// evaluation is stored through a store form; each holder then holds "its own" array:
//
//	multi-holder stores ($h[] = SITE, $h[$i] = SITE, array_push, [SITE], ["v" => SITE], $o->p = SITE):
//	    3 evaluations -> holders h0 h1 h2;  A = snapshot(h0,h1,h2);  write through h1;  B = snapshot
//	    h0 and h2 must not change                                          (leak between holders)
//	single-holder stores ($t = SITE, SP::$s = SITE, by-value parameter f(SITE)):
//	    evaluation i: store, E_i = snapshot(holder); in evaluation 1 additionally write through it
//	    E_2 must equal E_0                                   (the write shows in a later evaluation)
//
// Premise (else the case is not judged): the evaluations before the write produce equal snapshots.
// Everything is observed vs. observed inside one run. Complete product
// kind x literal shape x repetition (loop | function called three times) x store x mutation.
//
// Keys: fresh kinds (every evaluation builds a new array: literal, return of a literal, default
// value ...) -> leak:site.<kind>:<interior|toplevel>. Stored kinds (constant, static local, static
// property: the site READS one stored array) are a read followed by the store; when the store's own
// matrix cell (route alone, same mutation class) leaks, the case is that root cause and gets the
// cell's key; otherwise leak:site.<kind>:<interior|toplevel>.

import (
	"encoding/json"
	"fmt"
	"strings"

	"verif/engine/pool"
	"verif/engine/runner"
)

type siteKind struct {
	name    string
	stored  bool
	decl    string   // declarations, {L} = the literal
	expr    string   // the site expression, {L} = the literal (inline kinds), may use $i
	globals []string // variables the expression needs when it sits inside a function
	sub     string   // suffix of the holder lvalue that selects the produced array
}

func siteKinds() []siteKind {
	return []siteKind{
		{name: "lit", expr: "{L}"},
		{name: "litinner", expr: `["w" => $i, "v" => {L}]`, sub: `["v"]`},
		{name: "ternary", expr: "($i >= 0 ? {L} : [])"},
		{name: "fnret", decl: "function mk() { return {L}; }\n", expr: "mk()"},
		{name: "fnlocal", decl: "function mk() { $t9 = {L}; return $t9; }\n", expr: "mk()"},
		{name: "methodret", decl: "class MK { public function mk() { return {L}; } }\n$mko = new MK();\n", expr: "$mko->mk()", globals: []string{"$mko"}},
		{name: "smethodret", decl: "class MK { public static function mk() { return {L}; } }\n", expr: "MK::mk()"},
		{name: "closureret", decl: "$mkc = function() { return {L}; };\n", expr: "$mkc()", globals: []string{"$mkc"}},
		{name: "arrowret", decl: "$mka = fn() => {L};\n", expr: "$mka()", globals: []string{"$mka"}},
		{name: "defparam", decl: "function mk($p = {L}) { return $p; }\n", expr: "mk()"},
		{name: "mdefparam", decl: "class MK { public function mk($p = {L}) { return $p; } }\n$mko = new MK();\n", expr: "$mko->mk()", globals: []string{"$mko"}},
		{name: "propdefault", decl: "class DP { public $p = {L}; }\n", expr: "(new DP())->p"},
		{name: "ctorinit", decl: "class CI { public $p = null; public function __construct() { $this->p = {L}; } }\n", expr: "(new CI())->p"},
		{name: "classconst", stored: true, decl: "class KC { const C = {L}; }\n", expr: "KC::C"},
		{name: "const", stored: true, decl: "const GC = {L};\n", expr: "GC"},
		{name: "staticlocal", stored: true, decl: "function mk() { static $s = {L}; return $s; }\n", expr: "mk()"},
		{name: "staticprop", stored: true, decl: "class KS { public static $sp = {L}; }\n", expr: "KS::$sp"},
	}
}

type siteStore struct {
	name   string
	route  string // the matrix route that performs the same store
	init   string
	stmt   string                // {S} = site, {I} = index expression
	holder func(i string) string // lvalue of the array stored by evaluation i (i = "$i" or a digit)
	single bool                  // one holder that every evaluation overwrites
	callee bool                  // the holder is the by-value parameter $p of rcv()
	global string                // variable the store needs inside a function
}

func siteStores() []siteStore {
	h := func(f string) func(string) string { return func(i string) string { return fmt.Sprintf(f, i) } }
	return []siteStore{
		{name: "assign", route: "assign", stmt: "$t = {S};\n", holder: func(string) string { return "$t" }, single: true, global: "$t"},
		{name: "append", route: "appendstore", init: "$h = [];\n", stmt: "$h[] = {S};\n", holder: h("$h[%s]"), global: "$h"},
		{name: "elem", route: "elemstore", init: "$h = [];\n", stmt: "$h[{I}] = {S};\n", holder: h("$h[%s]"), global: "$h"},
		{name: "skey", route: "skeystore", init: "$h = [];\n", stmt: "$h[\"k\" . {I}] = {S};\n", holder: func(i string) string {
			if i == "$i" {
				return `$h["k" . $i]`
			}
			return `$h["k` + i + `"]`
		}, global: "$h"},
		{name: "push", route: "fpushstore", init: "$h = [];\n", stmt: "array_push($h, {S});\n", holder: h("$h[%s]"), global: "$h"},
		{name: "listlit", route: "arrlit", init: "$h = [];\n", stmt: "$h[{I}] = [{S}];\n", holder: h("$h[%s][0]"), global: "$h"},
		{name: "kvlit", route: "kvlit", init: "$h = [];\n", stmt: "$h[{I}] = [\"j\" => 0, \"v\" => {S}];\n", holder: h("$h[%s][\"v\"]"), global: "$h"},
		{name: "prop", route: "propstore", init: "$h = [];\n", stmt: "$ob = new O();\n$ob->p = {S};\n$h[{I}] = $ob;\n", holder: h("$h[%s]->p"), global: "$h"},
		{name: "sprop", route: "spropstore", stmt: "SP::$q1 = {S};\n", holder: func(string) string { return "SP::$q1" }, single: true},
		{name: "param", route: "param", stmt: "rcv({S}, {I});\n", holder: func(string) string { return "$p" }, single: true, callee: true},
	}
}

type siteCase struct {
	Kind  string `json:"kind"`
	Shape string `json:"shape"`
	Rep   string `json:"rep"` // "loop" | "call"
	Store string `json:"store"`
	Mut   string `json:"mut"`
	Rot   int    `json:"rot"`
}

func (c siteCase) String() string {
	return fmt.Sprintf("site %s(%s) %s %s %s", c.Kind, c.Shape, c.Rep, c.Store, c.Mut)
}

func enc(lv string) string { return fmt.Sprintf("json_encode(%s), \"~\", serialize(%s)", lv, lv) }

type siteBuilt struct {
	script, stmt, class string
	ok                  bool
	kind                siteKind
	store               siteStore
}

func (c siteCase) build() siteBuilt {
	var k siteKind
	var st siteStore
	for _, x := range siteKinds() {
		if x.name == c.Kind {
			k = x
		}
	}
	for _, x := range siteStores() {
		if x.name == c.Store {
			st = x
		}
	}
	sh, ok := shapeByName(c.Shape)
	m, ok2 := mutByName(c.Mut)
	if k.name == "" || st.name == "" || !ok || !ok2 || sh.stmts {
		return siteBuilt{}
	}
	model := sh.mk(c.Rot)
	lit := av(model).lit()
	hold := func(i string) string { return st.holder(i) + k.sub }
	mutLV := hold("1")
	src := m.src(mutLV, model)
	if src == "" {
		return siteBuilt{}
	}
	b := siteBuilt{stmt: src, class: classify(m, model), ok: true, kind: k, store: st}
	site := strings.ReplaceAll(k.expr, "{L}", lit)
	// block(i): what happens right after evaluation i was stored; iLit is "$i" inside a loop / rcv
	mutBlock := func() string {
		var sb strings.Builder
		if st.single {
			fmt.Fprintf(&sb, "echo \"A|\", %s, \"\\n\";\n", enc(mutLV))
		} else {
			fmt.Fprintf(&sb, "echo \"A|\", %s, \"|\", %s, \"|\", %s, \"\\n\";\n", enc(hold("0")), enc(hold("1")), enc(hold("2")))
		}
		fmt.Fprintf(&sb, "try { %s } catch (Throwable $e) { echo \"X\\n\"; }\n", src)
		if st.single {
			fmt.Fprintf(&sb, "echo \"B|\", %s, \"\\n\";\n", enc(mutLV))
		} else {
			fmt.Fprintf(&sb, "echo \"B|\", %s, \"|\", %s, \"|\", %s, \"\\n\";\n", enc(hold("0")), enc(hold("1")), enc(hold("2")))
		}
		return sb.String()
	}
	eLine := func(i string) string { return fmt.Sprintf("echo \"E|\", %s, \"\\n\";\n", enc(hold(i))) }
	var sb strings.Builder
	sb.WriteString(prelude)
	sb.WriteString(strings.ReplaceAll(k.decl, "{L}", lit))
	sb.WriteString(st.init)
	if st.callee {
		sb.WriteString("function rcv($p, $i) {\n" + eLine("$i") + "if ($i == 1) {\n" + mutBlock() + "}\nreturn 0;\n}\n")
	}
	stmt := func(i string) string {
		return strings.ReplaceAll(strings.ReplaceAll(st.stmt, "{S}", site), "{I}", i)
	}
	switch c.Rep {
	case "loop":
		sb.WriteString("for ($i = 0; $i < 3; $i++) {\n" + stmt("$i"))
		if !st.callee {
			sb.WriteString(eLine("$i"))
			if st.single {
				sb.WriteString("if ($i == 1) {\n" + mutBlock() + "}\n")
			}
		}
		sb.WriteString("}\n")
	case "call":
		g := append([]string{}, k.globals...)
		if st.global != "" {
			g = append(g, st.global)
		}
		sb.WriteString("function ev($i) {\n")
		if len(g) > 0 {
			sb.WriteString("global " + strings.Join(g, ", ") + ";\n")
		}
		sb.WriteString(stmt("$i") + "return 0;\n}\n")
		for i := 0; i < 3; i++ {
			fmt.Fprintf(&sb, "ev(%d);\n", i)
			if !st.callee {
				sb.WriteString(eLine(fmt.Sprint(i)))
				if st.single && i == 1 {
					sb.WriteString(mutBlock())
				}
			}
		}
	default:
		return siteBuilt{}
	}
	if !st.single {
		sb.WriteString(mutBlock())
	}
	b.script = sb.String()
	return b
}

type siteOutcome struct {
	Evaluable bool
	Reason    string
	Effective bool
	Holder    bool // the write shows through another holder
	Fresh     bool // the write shows in a later evaluation of the site
	Detail    string
	B         siteBuilt
}

func judgeSite(c siteCase) siteOutcome {
	b := c.build()
	o := siteOutcome{B: b}
	if !b.ok {
		o.Reason = "not-applicable"
		return o
	}
	res := runner.Run(b.script, runner.Opts{})
	var e []string
	var a, bb []string
	for _, ln := range strings.Split(res.Out, "\n") {
		f := strings.Split(ln, "|")
		switch f[0] {
		case "E":
			if len(f) == 2 {
				e = append(e, f[1])
			}
		case "A":
			a = f[1:]
		case "B":
			bb = f[1:]
		}
	}
	if res.Kind != "ok" {
		o.Reason = "script:" + res.Kind + ":" + res.Msg + res.PanicKey
		return o
	}
	want := 3
	if b.store.single {
		want = 1
	}
	if len(e) != 3 || len(a) != want || len(bb) != want {
		o.Reason = fmt.Sprintf("lines:E%d/A%d/B%d", len(e), len(a), len(bb))
		return o
	}
	// premise: the evaluations before the write agree
	if e[0] != e[1] || (!b.store.single && (e[2] != e[0] || a[0] != e[0] || a[1] != e[0] || a[2] != e[0])) || (b.store.single && a[0] != e[1]) {
		o.Reason = "site-unstable-before-write"
		return o
	}
	o.Evaluable = true
	var d strings.Builder
	fmt.Fprintf(&d, "case: %s\nwrite: %s   (class %s)\n", c, b.stmt, b.class)
	if b.store.single {
		o.Effective = a[0] != bb[0]
		o.Fresh = e[2] != e[0]
		fmt.Fprintf(&d, "evaluation 0: %s\nevaluation 1: %s  -> written -> %s\nevaluation 2: %s", jsonPart(e[0]), jsonPart(a[0]), jsonPart(bb[0]), jsonPart(e[2]))
		if o.Fresh {
			d.WriteString("   <- differs: the earlier write shows in a new evaluation of the site")
		}
	} else {
		o.Effective = a[1] != bb[1]
		o.Holder = a[0] != bb[0] || a[2] != bb[2]
		for i := 0; i < 3; i++ {
			mark := "  "
			if i == 1 {
				mark = "* "
			} else if a[i] != bb[i] {
				mark = "! "
			}
			fmt.Fprintf(&d, "%sholder %d: %s  ->  %s\n", mark, i, jsonPart(a[i]), jsonPart(bb[i]))
		}
		d.WriteString("(* = written holder, ! = another holder of the same site changed)")
	}
	o.Detail = d.String()
	return o
}

func group(class string) string {
	if strings.HasPrefix(class, "toplevel") {
		return "toplevel"
	}
	return class
}

// siteKey reduces a leaking site case to its finding key (see the header comment).
func siteKey(c siteCase, o siteOutcome, jc *judgeCache) (key string, w *kase) {
	if o.B.kind.stored {
		if w := cellWitness(o.B.store.route, o.B.class, c.Shape, c.Rot, jc); w != nil {
			return "leak:" + o.B.store.route + ":" + o.B.class, w
		}
	}
	return "leak:site." + c.Kind + ":" + group(o.B.class), nil
}

// ---- enumeration / worker ------------------------------------------------------------------------

type siteShard struct {
	Kind  string `json:"kind"`
	Store string `json:"store"`
	Rot   int    `json:"rot"`
	Quick bool   `json:"quick"`
}

// siteMutsQuick: the quick tier applies two writes of every mutation class / family (element store,
// insert, append, nested store / append, unset, remove, in-place sort, compound assign), thorough all.
var siteMutsQuick = map[string]bool{"set-first": true, "set-strkey": true, "append": true, "nested-set": true, "nested-append": true,
	"unset-first": true, "m-push": true, "m-sort": true, "incr": true, "f-sort": true, "f-push": true, "f-pop": true}

var kindDecl = func() map[string]bool {
	m := map[string]bool{}
	for _, k := range siteKinds() {
		m[k.name] = k.decl != ""
	}
	return m
}()

func siteWorker(w *pool.W, arg json.RawMessage) {
	var sh siteShard
	json.Unmarshal(arg, &sh)
	jc := &judgeCache{m: map[string]outcome{}}
	r := rec{Kind: "sitecount", Uneval: map[string]int64{}, Counts: map[string]int64{}, Matrix: map[string]*cell{}}
	sampled := false
	for _, s := range shapes() {
		if s.stmts {
			continue
		}
		for _, rep := range []string{"loop", "call"} {
			if sh.Quick && rep == "call" && kindDecl[sh.Kind] {
				// quick: kinds whose literal already sits in a function / class declaration are repeated
				// by the loop only; the inline kinds (lit, litinner, ternary) run both repetitions
				continue
			}
			for _, m := range mutations() {
				if m.class == "ref" || (sh.Quick && !siteMutsQuick[m.name]) {
					continue // writes through element references are enumerated in the route matrix only
				}
				c := siteCase{Kind: sh.Kind, Shape: s.name, Rep: rep, Store: sh.Store, Mut: m.name, Rot: sh.Rot}
				if !c.build().ok {
					r.NA++
					continue
				}
				if !w.Item(c.String()) {
					continue
				}
				r.N++
				r.Runs++
				o := judgeSite(c)
				if !o.Evaluable {
					r.Uneval["site "+sh.Kind+" "+sh.Store+" "+strings.SplitN(o.Reason, ":", 3)[0]]++
					continue
				}
				ck := sh.Kind + "|" + group(o.B.class)
				cl := r.Matrix[ck]
				if cl == nil {
					cl = &cell{}
					r.Matrix[ck] = cl
				}
				cl.Cases++
				if o.Effective {
					cl.Effective++
				}
				if o.Holder || o.Fresh {
					cl.Leaked++
					key, wit := siteKey(c, o, jc)
					if r.Counts[key] == 0 {
						if wit != nil {
							w.Emit(rec{Kind: "fail", Key: key, Clause: "leak", Size: 11, Case: caseJSON(*wit), Detail: "case: " + wit.String() + "\n" + describe(*wit)})
						} else {
							w.Emit(rec{Kind: "fail", Key: key, Clause: "leak", Size: 15, Case: map[string]any{"kind": "site", "case": c, "script": o.B.script}, Detail: o.Detail})
						}
					}
					r.Counts[key]++
				} else if !sampled && o.Effective && rep == "loop" && m.name == "set-first" {
					sampled = true
					w.Emit(rec{Kind: "sample", Sample: map[string]any{"case": c.String(), "write": o.B.stmt, "verdict": "other evaluations of the site unaffected"}})
				}
			}
		}
	}
	r.Runs += jc.runs
	w.Emit(r)
}
