package main

import (
	"fmt"
	"os"

	"verif/engine/runner"
)

// probeMain runs script files through the in-process runner (fuel-guarded) and prints the outcome.
// Usage: vcheck C06 probe file...   (development aid; not part of the check)
func probeMain(files []string) {
	for _, f := range files {
		b, err := os.ReadFile(f)
		if err != nil {
			fmt.Println(err)
			continue
		}
		res := runner.Run(string(b), runner.Opts{})
		fmt.Printf("== %s kind=%s class=%s msg=%s line=%d %s\n%s\n", f, res.Kind, res.Class, res.Msg, res.Line, res.PanicKey, res.Out)
	}
	runner.Cleanup()
}
