package main

import (
	"fmt"
	"os"
	"strings"

	"verif/engine/runner"
)

// probeMain runs script files through the in-process runner (fuel-guarded) and prints the outcome.
// Usage: vcheck C06 probe file...   (development aid; not part of the check)
func probeMain(files []string) {
	for _, f := range files {
		b, err := os.ReadFile(f)
		if err != nil {
			fmt.Println(err)
			continue
		}
		res := runner.Run(string(b), runner.Opts{})
		fmt.Printf("== %s kind=%s class=%s msg=%s line=%d %s\n%s\n", f, res.Kind, res.Class, res.Msg, res.Line, res.PanicKey, res.Out)
	}
	runner.Cleanup()
}

// showMain prints and judges one matrix case. Usage: vcheck C06 show <shape> <route[>route]> <mut@target[,mut@target]>
func showMain(a []string) {
	if len(a) < 3 {
		fmt.Println("usage: show shape routes steps")
		return
	}
	k := kase{Shape: a[0], Routes: strings.Split(a[1], ">")}
	for _, s := range strings.Split(a[2], ",") {
		var st step
		p := strings.Split(s, "@")
		st.Mut = p[0]
		fmt.Sscan(p[1], &st.Target)
		k.Steps = append(k.Steps, st)
	}
	b := k.build()
	fmt.Println(b.script)
	if !b.ok {
		fmt.Println("not applicable")
		return
	}
	res := runner.Run(b.script, runner.Opts{})
	fmt.Printf("kind=%s msg=%s %s\n%s\n", res.Kind, res.Msg, res.PanicKey, res.Out)
	o := judge(k)
	fmt.Printf("evaluable=%v reason=%s leaks=%+v outer=%v effective=%v\n", o.Evaluable, o.Reason, o.Leaks, o.OuterLeak, o.Effective)
	jc := &judgeCache{m: map[string]outcome{}}
	explainRef(k, &o, jc)
	for _, f := range findings(k, o, jc) {
		fmt.Println("KEY", f.Key)
	}
	runner.Cleanup()
}
