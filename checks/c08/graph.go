package main

// Class/interface graphs, the independent reference relations, and program generation.

import (
	"fmt"
	"sort"
	"strings"
)

type graph struct {
	Parent []int    `json:"parent"` // per class: index of parent (< own index) or -1
	IExt   [][]int  `json:"iext"`   // per interface: earlier interfaces it extends
	Impl   [][]bool `json:"impl"`   // [class][interface]
	Def    []bool   `json:"def"`    // class defines zm() and static zs()
	// AnonK-1 = index of the class that is not declared by name but written as an anonymous class
	// expression (`new class(..) extends P implements I.. { .. }`), 0 = none. Always a leaf: nothing
	// can name it, so nothing extends it and no type refers to it.
	AnonK int `json:"anon_k,omitempty"`
	// NS: the whole program lives in `namespace Vq\Sub;` (type references alternate between the
	// unqualified and the fully qualified spelling, strings are fully qualified)
	NS int `json:"ns,omitempty"` // 0 none, 1 = type references unqualified, 2 = fully qualified at the check sites
}

func (g *graph) anon() int { return g.AnonK - 1 }

// isLeaf: no class extends c
func (g *graph) isLeaf(c int) bool {
	for _, p := range g.Parent {
		if p == c {
			return false
		}
	}
	return true
}

func (g *graph) nc() int { return len(g.Parent) }
func (g *graph) ni() int { return len(g.IExt) }

func (g *graph) clone() *graph {
	h := &graph{Parent: append([]int{}, g.Parent...), Def: append([]bool{}, g.Def...), AnonK: g.AnonK, NS: g.NS}
	for _, e := range g.IExt {
		h.IExt = append(h.IExt, append([]int{}, e...))
	}
	for _, r := range g.Impl {
		h.Impl = append(h.Impl, append([]bool{}, r...))
	}
	return h
}

// ---- reference relations (independent of origami) --------------------------------------------

// ancestors-or-self of class c, nearest first
func (g *graph) chain(c int) []int {
	var r []int
	for x := c; x >= 0; x = g.Parent[x] {
		r = append(r, x)
	}
	return r
}

func (g *graph) isSubclass(c, d int) bool {
	for _, x := range g.chain(c) {
		if x == d {
			return true
		}
	}
	return false
}

// ifaceReach: interfaces reachable from interface i through extends edges (incl. i)
func (g *graph) ifaceReach(i int, seen map[int]bool) {
	if seen[i] {
		return
	}
	seen[i] = true
	for _, p := range g.IExt[i] {
		g.ifaceReach(p, seen)
	}
}

// classIsIface: class c (or an ancestor) implements an interface from which j is reachable
func (g *graph) classIsIface(c, j int) bool {
	seen := map[int]bool{}
	for _, x := range g.chain(c) {
		for i, on := range g.Impl[x] {
			if on {
				g.ifaceReach(i, seen)
			}
		}
	}
	return seen[j]
}

// definer: most-derived class at or above c that defines the method, -1 if none
func (g *graph) definer(c int) int {
	for _, x := range g.chain(c) {
		if g.Def[x] {
			return x
		}
	}
	return -1
}

// ---- type references -------------------------------------------------------------------------------

type tref struct {
	Iface bool `json:"iface"`
	Idx   int  `json:"idx"`
}

func (g *graph) types() []tref {
	var t []tref
	for c := 0; c < g.nc(); c++ {
		if c == g.anon() {
			continue // an anonymous class cannot be named as a type
		}
		t = append(t, tref{false, c})
	}
	for i := 0; i < g.ni(); i++ {
		t = append(t, tref{true, i})
	}
	return t
}

func (g *graph) isA(c int, t tref) bool {
	if t.Iface {
		return g.classIsIface(c, t.Idx)
	}
	return g.isSubclass(c, t.Idx)
}

type names struct{ cpfx, ipfx string }

func (n names) c(i int) string { return fmt.Sprintf("%s%d", n.cpfx, i) }
func (n names) i(i int) string { return fmt.Sprintf("%s%d", n.ipfx, i+1) }
func (n names) t(t tref) string {
	if t.Iface {
		return n.i(t.Idx)
	}
	return n.c(t.Idx)
}

var namePool = []names{{"Cq", "Iq"}, {"Kls", "Ifc"}, {"Zed", "Able"}, {"Node", "Can"}}

func namesOf(seed int64) names {
	if seed < 0 {
		seed = -seed
	}
	return namePool[int(seed)%len(namePool)]
}

// ---- cells -------------------------------------------------------------------------------------------

// A cell is one observation of one construct.
type cellSpec struct {
	Cons string `json:"cons"` // construct id
	Obj  int    `json:"obj"`  // runtime class of the object
	T    *tref  `json:"type,omitempty"`
	K    int    `json:"k"` // class whose helper is used (dispatch cells), -1 otherwise
	Pass int    `json:"pass,omitempty"` // dispatch cells run twice per script: classes ascending (0), then descending (1)
	// Mk: how the object is made when its class is the anonymous one: 0 = by the factory function
	// mk_anon() (one class expression, full member set, evaluated once per cell), 1 = the class
	// expression written out at the cell's own (top-level) site with only the members this cell
	// needs. (A factory that is a method of a helper class was tried and dropped: declared after the
	// graph's classes it becomes the class the parser saw last and hides the stale-currentClass
	// defect of parent:: at every later site.)
	Mk int `json:"mk,omitempty"`
}

func (c cellSpec) id(g *graph) string {
	s := fmt.Sprintf("%s/o%d", c.Cons, c.Obj)
	if c.T != nil {
		if c.T.Iface {
			s += fmt.Sprintf("/i%d", c.T.Idx)
		} else {
			s += fmt.Sprintf("/c%d", c.T.Idx)
		}
	}
	if c.K >= 0 {
		s += fmt.Sprintf("/k%d", c.K)
	}
	if c.Pass > 0 {
		s += fmt.Sprintf("/p%d", c.Pass)
	}
	if c.Mk > 0 {
		s += fmt.Sprintf("/m%d", c.Mk)
	}
	return s
}

// needsClassName: constructs that spell the object's class (`Obj::helper()`)
func needsClassName(cons string) bool {
	return cons == "self-static-ctx" || cons == "static-static-ctx" || cons == "static-chain"
}

// valid: can the cell be written down at all on g?
func (g *graph) valid(c cellSpec) bool {
	a := g.anon()
	if a >= 0 && !g.isLeaf(a) {
		return false
	}
	if c.T != nil && !c.T.Iface && c.T.Idx == a {
		return false
	}
	if c.Obj == a && a >= 0 && needsClassName(c.Cons) {
		return false
	}
	if c.Mk != 0 && c.Obj != a {
		return false
	}
	if c.K >= 0 && (!g.isSubclass(c.Obj, c.K) || (c.Cons == "parent" && g.Parent[c.K] < 0)) {
		return false
	}
	return true
}

// subtype constructs (need obj, type); thrown=true ones exist only in the throwable variant
var subtypeCons = []struct {
	name   string
	thrown bool
}{
	{"instanceof", false},      // $o instanceof T from outside
	{"instanceof-this", false}, // $this instanceof T inside an inherited root method
	{"instanceof-var", false},  // $o instanceof $t, $t a string
	{"param", false},           // function f(T $x) called with $o
	{"param-this", false},      // f($this)
	{"param-method", false},    // $chk->m(T $x): the same type on an instance method's parameter
	{"param-closure", false},   // $cl = function (T $x) {..}: on a closure's parameter
	{"catch", true},            // throw $o; catch (T $e)
	{"instanceof-caught", true}, // $e instanceof T on the caught value
	{"param-caught", true},     // f($e) on the caught value
}

// dispatch constructs
var dispatchCons = []struct {
	name   string
	thrown bool
	helper bool // uses helper of class K
}{
	{"call", false, false},          // $o->zm()
	{"call-this", false, false},     // root method: $this->zm()
	{"call-caught", true, false},    // caught value ->zm()
	{"parent", false, true},         // helper in K: parent::zm(), run on $o
	{"self", false, true},           // helper in K: self::zs() (instance method)
	{"static", false, true},         // helper in K: static::zs() (instance method)
	{"self-static-ctx", false, true}, // static helper in K called as Obj::h(): self::zs()
	{"static-static-ctx", false, true},
	{"call-fn", false, false},          // function f($x) { return $x->zm(); }: one call site for every object
	{"static-chain", false, true},      // Obj::hc_K(): static::hm_K() (only K defines hm_K) -> "L<" . static::zs() . ">"
	{"static-chain-inst", false, true}, // $o->hci_K(): the same 2-level static:: chain from an instance method
}

func (g *graph) cells(throwable bool) []cellSpec {
	var out []cellSpec
	a := g.anon()
	onAnonChain := map[int]bool{}
	if a >= 0 {
		for _, x := range g.chain(a) {
			onAnonChain[x] = true
		}
	}
	for o := 0; o < g.nc(); o++ {
		// a graph with an anonymous class asks about the anonymous object (both ways of making it)
		// and, for dispatch, about its named ancestors too (they share call sites with it); the
		// rest of such a graph is the graph without that class, which is enumerated by itself
		if a >= 0 && !onAnonChain[o] {
			continue
		}
		mks := []int{0}
		if o == a {
			mks = []int{0, 1}
		}
		for _, mk := range mks {
			for _, sc := range subtypeCons {
				if (sc.thrown && !throwable) || (a >= 0 && o != a) {
					continue
				}
				for _, t := range g.types() {
					tt := t
					out = append(out, cellSpec{Cons: sc.name, Obj: o, T: &tt, K: -1, Mk: mk})
				}
			}
			for _, dc := range dispatchCons {
				if dc.thrown && !throwable {
					continue
				}
				if o == a && needsClassName(dc.name) {
					continue
				}
				if !dc.helper {
					out = append(out, cellSpec{Cons: dc.name, Obj: o, K: -1, Mk: mk})
					continue
				}
				for _, k := range g.chain(o) {
					if dc.name == "parent" && g.Parent[k] < 0 {
						continue
					}
					out = append(out, cellSpec{Cons: dc.name, Obj: o, K: k, Mk: mk})
				}
			}
		}
	}
	// second pass: every dispatch probe again, classes in descending order, in the same script -
	// the helper bodies / f_call are single source locations shared by all objects of the graph
	// (the class expressions written out at their own site are not shared: asked once)
	for i := len(out) - 1; i >= 0; i-- {
		if out[i].T == nil && out[i].Mk == 0 {
			c := out[i]
			c.Pass = 1
			out = append(out, c)
		}
	}
	return out
}

// expect returns the reference answer: "y"/"n" for subtype cells, "<Class>::zm" / "<Class>::zs"
// or "none" (no definition reachable: any error is acceptable) for dispatch cells.
func (g *graph) expect(c cellSpec, n names) string {
	if c.T != nil {
		if g.isA(c.Obj, *c.T) {
			return "y"
		}
		return "n"
	}
	d := -1
	m := "zm"
	switch c.Cons {
	case "call", "call-this", "call-caught":
		d = g.definer(c.Obj)
	case "parent":
		d = g.definer(g.Parent[c.K])
	case "self", "self-static-ctx":
		d, m = g.definer(c.K), "zs"
	case "static", "static-static-ctx":
		d, m = g.definer(c.Obj), "zs"
	case "call-fn":
		d = g.definer(c.Obj)
	case "static-chain", "static-chain-inst":
		d = g.definer(c.Obj)
		if d < 0 {
			return "none"
		}
		return "L<" + n.c(d) + "::zs>"
	}
	if d < 0 {
		return "none"
	}
	if m == "zm" {
		// the definition found, then every further definition up the chain (each calls parent::zm())
		var parts []string
		for x := d; x >= 0; {
			parts = append(parts, n.c(x)+"::zm")
			if g.Parent[x] < 0 {
				break
			}
			x = g.definer(g.Parent[x])
		}
		return strings.Join(parts, ">")
	}
	return n.c(d) + "::" + m
}

// ---- program generation -------------------------------------------------------------------------------

const nsName = `Vq\Sub`

// tname: how a check site (instanceof, parameter type, catch) spells type t
func (g *graph) tname(n names, t tref) string {
	if g.NS == 2 {
		return `\` + nsName + `\` + n.t(t)
	}
	return n.t(t)
}

// members of class c as (kind, source line); kinds: def hp hs hl hss hsl hm hc hci ht is:<T> pass:<T>
func (g *graph) members(n names, c int) [][2]string {
	var m [][2]string
	add := func(kind, f string, a ...any) { m = append(m, [2]string{kind, fmt.Sprintf(f, a...)}) }
	if g.Def[c] {
		// every definition continues into the nearest ancestor definition, so a marker shows
		// the whole parent:: chain
		if g.Parent[c] >= 0 && g.definer(g.Parent[c]) >= 0 {
			add("def", "  public function zm() { return \"%s::zm>\" . parent::zm(); }\n", n.c(c))
		} else {
			add("def", "  public function zm() { return \"%s::zm\"; }\n", n.c(c))
		}
		add("def", "  public static function zs() { return \"%s::zs\"; }\n", n.c(c))
	}
	if g.Parent[c] >= 0 {
		add("hp", "  public function hp_%s() { return parent::zm(); }\n", n.c(c))
	}
	add("hs", "  public function hs_%s() { return self::zs(); }\n", n.c(c))
	add("hl", "  public function hl_%s() { return static::zs(); }\n", n.c(c))
	add("hss", "  public static function hss_%s() { return self::zs(); }\n", n.c(c))
	add("hsl", "  public static function hsl_%s() { return static::zs(); }\n", n.c(c))
	add("hm", "  public static function hm_%s() { return \"L<\" . static::zs() . \">\"; }\n", n.c(c))
	add("hc", "  public static function hc_%s() { return static::hm_%s(); }\n", n.c(c), n.c(c))
	add("hci", "  public function hci_%s() { return static::hm_%s(); }\n", n.c(c), n.c(c))
	if g.Parent[c] < 0 {
		add("ht", "  public function ht() { return $this->zm(); }\n")
		for _, t := range g.types() {
			add("is:"+n.t(t), "  public function is_%s() { return ($this instanceof %s) ? \"y\" : \"n\"; }\n", n.t(t), g.tname(n, t))
			add("pass:"+n.t(t), "  public function pass_%s() { return acc_%s($this); }\n", n.t(t), n.t(t))
		}
	}
	return m
}

// header: ` extends P implements I, J` of class c
func (g *graph) header(n names, c int, throwable bool) string {
	s := ""
	if g.Parent[c] >= 0 {
		s += " extends " + n.c(g.Parent[c])
	} else if throwable {
		if g.NS > 0 {
			s += ` extends \Exception`
		} else {
			s += " extends Exception"
		}
	}
	var im []string
	for i, on := range g.Impl[c] {
		if on {
			im = append(im, n.i(i))
		}
	}
	if len(im) > 0 {
		s += " implements " + strings.Join(im, ", ")
	}
	return s
}

// anonExpr: the anonymous class expression; need == nil keeps every member
func (g *graph) anonExpr(n names, throwable bool, need map[string]bool) string {
	a := g.anon()
	var sb strings.Builder
	sb.WriteString("new class")
	if throwable {
		sb.WriteString("(\"msg\")")
	}
	sb.WriteString(g.header(n, a, throwable) + " {\n")
	for _, m := range g.members(n, a) {
		if need == nil || m[0] == "def" || need[m[0]] {
			sb.WriteString(m[1])
		}
	}
	sb.WriteString("}")
	return sb.String()
}

// needOf: the members of the anonymous class that cell c uses (beyond zm/zs)
func (g *graph) needOf(n names, c cellSpec) map[string]bool {
	need := map[string]bool{}
	switch c.Cons {
	case "instanceof-this":
		need["is:"+n.t(*c.T)] = true
	case "param-this":
		need["pass:"+n.t(*c.T)] = true
	case "call-this":
		need["ht"] = true
	case "parent":
		need["hp"] = true
	case "self":
		need["hs"] = true
	case "static":
		need["hl"] = true
	case "static-chain-inst":
		need["hci"], need["hm"] = true, true
	}
	if c.K >= 0 && c.K != g.anon() {
		return map[string]bool{} // the helper is inherited from a named class
	}
	return need
}

func (g *graph) source(n names, throwable bool, cells []cellSpec) string {
	var sb strings.Builder
	thr := "Throwable"
	if g.NS > 0 {
		sb.WriteString("namespace " + nsName + ";\n")
		thr = `\Throwable`
	}
	for i := 0; i < g.ni(); i++ {
		sb.WriteString("interface " + n.i(i))
		if len(g.IExt[i]) > 0 {
			var e []string
			for _, p := range g.IExt[i] {
				e = append(e, n.i(p))
			}
			sb.WriteString(" extends " + strings.Join(e, ", "))
		}
		sb.WriteString(" {}\n")
	}
	sites := func() {
		for _, t := range g.types() {
			fmt.Fprintf(&sb, "function acc_%s(%s $x) { return \"y\"; }\n", n.t(t), g.tname(n, t))
		}
		// the same parameter types on the other kinds of callable: instance method, closure
		sb.WriteString("class Chk {\n")
		for _, t := range g.types() {
			fmt.Fprintf(&sb, "  public function m_%s(%s $x) { return \"y\"; }\n", n.t(t), g.tname(n, t))
		}
		sb.WriteString("}\n$chk = new Chk();\n")
		for _, t := range g.types() {
			fmt.Fprintf(&sb, "$cl_%s = function (%s $x) { return \"y\"; };\n", n.t(t), g.tname(n, t))
		}
	}
	// the typed functions come before the classes they name (forward references); inside a
	// namespace origami resolves an unqualified forward reference to the global name (seen, not a
	// hierarchy matter: see notes), so there they follow the declarations
	if g.NS == 0 {
		sites()
	}
	for c := 0; c < g.nc(); c++ {
		if c == g.anon() {
			continue
		}
		sb.WriteString("class " + n.c(c) + g.header(n, c, throwable) + " {\n")
		for _, m := range g.members(n, c) {
			sb.WriteString(m[1])
		}
		sb.WriteString("}\n")
	}
	if g.NS != 0 {
		sites()
	}
	if g.anon() >= 0 {
		sb.WriteString("function mk_anon() { return " + g.anonExpr(n, throwable, nil) + "; }\n")
	}
	sb.WriteString("function f_call($x) { return $x->zm(); }\n")
	mk := func(c cellSpec) string {
		if c.Obj == g.anon() {
			if c.Mk == 1 {
				return g.anonExpr(n, throwable, g.needOf(n, c))
			}
			return "mk_anon()"
		}
		if throwable {
			return fmt.Sprintf("new %s(\"msg\")", n.c(c.Obj))
		}
		return fmt.Sprintf("new %s()", n.c(c.Obj))
	}
	for _, c := range cells {
		o := mk(c)
		var body string // leaves result in $r; "denied" params are reported by the catch
		tn, fn := "", ""
		if c.T != nil {
			tn, fn = g.tname(n, *c.T), n.t(*c.T)
		}
		switch c.Cons {
		case "instanceof":
			body = fmt.Sprintf("$o = %s; $r = ($o instanceof %s) ? \"y\" : \"n\";", o, tn)
		case "instanceof-this":
			body = fmt.Sprintf("$o = %s; $r = $o->is_%s();", o, fn)
		case "instanceof-var":
			q := fn
			if g.NS > 0 {
				q = strings.ReplaceAll(nsName, `\`, `\\`) + `\\` + fn
			}
			body = fmt.Sprintf("$o = %s; $t = \"%s\"; $r = ($o instanceof $t) ? \"y\" : \"n\";", o, q)
		case "param":
			body = fmt.Sprintf("$o = %s; $r = \"n\"; try { $r = acc_%s($o); } catch (%s $te) { $r = \"n\"; }", o, fn, thr)
		case "param-method":
			body = fmt.Sprintf("$o = %s; $r = \"n\"; try { $r = $chk->m_%s($o); } catch (%s $te) { $r = \"n\"; }", o, fn, thr)
		case "param-closure":
			body = fmt.Sprintf("$o = %s; $r = \"n\"; try { $r = $cl_%s($o); } catch (%s $te) { $r = \"n\"; }", o, fn, thr)
		case "param-this":
			body = fmt.Sprintf("$o = %s; $r = \"n\"; try { $r = $o->pass_%s(); } catch (%s $te) { $r = \"n\"; }", o, fn, thr)
		case "catch":
			body = fmt.Sprintf("$r = \"?\"; try { throw %s; } catch (%s $ce) { $r = \"y\"; } catch (%s $ce) { $r = \"n\"; }", o, tn, thr)
		case "instanceof-caught":
			body = fmt.Sprintf("$r = \"?\"; try { throw %s; } catch (%s $ce) { $r = ($ce instanceof %s) ? \"y\" : \"n\"; }", o, thr, tn)
		case "param-caught":
			body = fmt.Sprintf("$r = \"?\"; try { throw %s; } catch (%s $ce) { try { $r = acc_%s($ce); } catch (%s $te) { $r = \"n\"; } }", o, thr, fn, thr)
		case "call":
			body = fmt.Sprintf("$o = %s; $r = $o->zm();", o)
		case "call-this":
			body = fmt.Sprintf("$o = %s; $r = $o->ht();", o)
		case "call-caught":
			body = fmt.Sprintf("$r = \"?\"; try { throw %s; } catch (%s $ce) { $r = $ce->zm(); }", o, thr)
		case "parent":
			body = fmt.Sprintf("$o = %s; $r = $o->hp_%s();", o, n.c(c.K))
		case "self":
			body = fmt.Sprintf("$o = %s; $r = $o->hs_%s();", o, n.c(c.K))
		case "static":
			body = fmt.Sprintf("$o = %s; $r = $o->hl_%s();", o, n.c(c.K))
		case "self-static-ctx":
			body = fmt.Sprintf("$r = %s::hss_%s();", n.c(c.Obj), n.c(c.K))
		case "static-static-ctx":
			body = fmt.Sprintf("$r = %s::hsl_%s();", n.c(c.Obj), n.c(c.K))
		case "call-fn":
			body = fmt.Sprintf("$o = %s; $r = f_call($o);", o)
		case "static-chain":
			body = fmt.Sprintf("$r = %s::hc_%s();", n.c(c.Obj), n.c(c.K))
		case "static-chain-inst":
			body = fmt.Sprintf("$o = %s; $r = $o->hci_%s();", o, n.c(c.K))
		}
		fmt.Fprintf(&sb, "echo \"@@%s@@\"; try { %s echo $r; } catch (%s $e) { echo \"E|\", get_class($e), \"|\", $e->getMessage(); }\n", c.id(g), body, thr)
	}
	sb.WriteString("echo \"@@END@@\";\n")
	return sb.String()
}

// ---- description / canonical form ----------------------------------------------------------------

// describe renders graph + cell with generic names (for finding keys).
func (g *graph) describe(c cellSpec) string {
	n := names{"C", "I"}
	var cl []string
	for i := 0; i < g.nc(); i++ {
		s := n.c(i)
		if i == g.anon() {
			s += "(anonymous)"
		}
		if g.Parent[i] >= 0 {
			s += "<" + n.c(g.Parent[i])
		}
		var im []string
		for j, on := range g.Impl[i] {
			if on {
				im = append(im, n.i(j))
			}
		}
		if len(im) > 0 {
			s += " impl " + strings.Join(im, "+")
		}
		if g.Def[i] {
			s += " def"
		}
		cl = append(cl, s)
	}
	var il []string
	for i := 0; i < g.ni(); i++ {
		s := n.i(i)
		if len(g.IExt[i]) > 0 {
			var e []string
			for _, p := range g.IExt[i] {
				e = append(e, n.i(p))
			}
			s += "<" + strings.Join(e, "+")
		}
		il = append(il, s)
	}
	d := "{" + strings.Join(cl, "; ") + "}"
	if len(il) > 0 {
		d += " {" + strings.Join(il, "; ") + "}"
	}
	if g.NS == 1 {
		d += " in-namespace"
	} else if g.NS == 2 {
		d += " in-namespace(qualified refs)"
	}
	d += " obj=" + n.c(c.Obj)
	if c.Mk == 1 {
		d += "(class expression at the site)"
	}
	if c.T != nil {
		d += " type=" + n.t(*c.T)
	}
	if c.K >= 0 {
		d += " in=" + n.c(c.K)
	}
	return d
}

// permutations of 0..n-1
func perms(n int) [][]int {
	var out [][]int
	var rec func(cur []int, used []bool)
	rec = func(cur []int, used []bool) {
		if len(cur) == n {
			out = append(out, append([]int{}, cur...))
			return
		}
		for i := 0; i < n; i++ {
			if !used[i] {
				used[i] = true
				rec(append(cur, i), used)
				used[i] = false
			}
		}
	}
	rec(nil, make([]bool, n))
	return out
}

// relabel applies class permutation pc (old -> new) and interface permutation pi; returns nil
// when the result violates "parents / extended interfaces come first".
func (g *graph) relabel(pc, pi []int) *graph {
	h := &graph{Parent: make([]int, g.nc()), Def: make([]bool, g.nc()), IExt: make([][]int, g.ni()), Impl: make([][]bool, g.nc()), NS: g.NS}
	if g.anon() >= 0 {
		h.AnonK = pc[g.anon()] + 1
	}
	for c := 0; c < g.nc(); c++ {
		nc := pc[c]
		if g.Parent[c] >= 0 {
			if pc[g.Parent[c]] >= nc {
				return nil
			}
			h.Parent[nc] = pc[g.Parent[c]]
		} else {
			h.Parent[nc] = -1
		}
		h.Def[nc] = g.Def[c]
		h.Impl[nc] = make([]bool, g.ni())
		for i, on := range g.Impl[c] {
			h.Impl[nc][pi[i]] = on
		}
	}
	for i := 0; i < g.ni(); i++ {
		var e []int
		for _, p := range g.IExt[i] {
			if pi[p] >= pi[i] {
				return nil
			}
			e = append(e, pi[p])
		}
		sort.Ints(e)
		h.IExt[pi[i]] = e
	}
	return h
}

func (g *graph) encode() string {
	var sb strings.Builder
	for c := 0; c < g.nc(); c++ {
		fmt.Fprintf(&sb, "%d", g.Parent[c]+1)
		if g.Def[c] {
			sb.WriteByte('d')
		} else {
			sb.WriteByte('-')
		}
		for _, on := range g.Impl[c] {
			if on {
				sb.WriteByte('1')
			} else {
				sb.WriteByte('0')
			}
		}
		sb.WriteByte(';')
	}
	for i := 0; i < g.ni(); i++ {
		for _, p := range g.IExt[i] {
			fmt.Fprintf(&sb, "%d", p)
		}
		sb.WriteByte('|')
	}
	return sb.String()
}

// isCanonical: g has the smallest encoding among its valid relabelings (symmetry reduction).
func (g *graph) isCanonical(pcs, pis [][]int) bool {
	e := g.encode()
	for _, pc := range pcs {
		for _, pi := range pis {
			h := g.relabel(pc, pi)
			if h != nil && h.encode() < e {
				return false
			}
		}
	}
	return true
}

// canonicalDescribe: smallest description over all relabelings of graph + cell.
func (g *graph) canonicalDescribe(c cellSpec) string {
	best := ""
	for _, pc := range perms(g.nc()) {
		for _, pi := range perms(g.ni()) {
			h := g.relabel(pc, pi)
			if h == nil {
				continue
			}
			cc := c
			cc.Obj = pc[c.Obj]
			if c.K >= 0 {
				cc.K = pc[c.K]
			}
			if c.T != nil {
				t := *c.T
				if t.Iface {
					t.Idx = pi[t.Idx]
				} else {
					t.Idx = pc[t.Idx]
				}
				cc.T = &t
			}
			d := h.describe(cc)
			if best == "" || d < best {
				best = d
			}
		}
	}
	return best
}
