package main

// Class/interface graphs, the independent reference relations, and program generation.

import (
	"fmt"
	"sort"
	"strings"
)

type graph struct {
	Parent []int    `json:"parent"` // per class: index of parent (< own index) or -1
	IExt   [][]int  `json:"iext"`   // per interface: earlier interfaces it extends
	Impl   [][]bool `json:"impl"`   // [class][interface]
	Def    []bool   `json:"def"`    // class defines zm() and static zs()
}

func (g *graph) nc() int { return len(g.Parent) }
func (g *graph) ni() int { return len(g.IExt) }

func (g *graph) clone() *graph {
	h := &graph{Parent: append([]int{}, g.Parent...), Def: append([]bool{}, g.Def...)}
	for _, e := range g.IExt {
		h.IExt = append(h.IExt, append([]int{}, e...))
	}
	for _, r := range g.Impl {
		h.Impl = append(h.Impl, append([]bool{}, r...))
	}
	return h
}

// ---- reference relations (independent of origami) --------------------------------------------

// ancestors-or-self of class c, nearest first
func (g *graph) chain(c int) []int {
	var r []int
	for x := c; x >= 0; x = g.Parent[x] {
		r = append(r, x)
	}
	return r
}

func (g *graph) isSubclass(c, d int) bool {
	for _, x := range g.chain(c) {
		if x == d {
			return true
		}
	}
	return false
}

// ifaceReach: interfaces reachable from interface i through extends edges (incl. i)
func (g *graph) ifaceReach(i int, seen map[int]bool) {
	if seen[i] {
		return
	}
	seen[i] = true
	for _, p := range g.IExt[i] {
		g.ifaceReach(p, seen)
	}
}

// classIsIface: class c (or an ancestor) implements an interface from which j is reachable
func (g *graph) classIsIface(c, j int) bool {
	seen := map[int]bool{}
	for _, x := range g.chain(c) {
		for i, on := range g.Impl[x] {
			if on {
				g.ifaceReach(i, seen)
			}
		}
	}
	return seen[j]
}

// definer: most-derived class at or above c that defines the method, -1 if none
func (g *graph) definer(c int) int {
	for _, x := range g.chain(c) {
		if g.Def[x] {
			return x
		}
	}
	return -1
}

// ---- type references -------------------------------------------------------------------------------

type tref struct {
	Iface bool `json:"iface"`
	Idx   int  `json:"idx"`
}

func (g *graph) types() []tref {
	var t []tref
	for c := 0; c < g.nc(); c++ {
		t = append(t, tref{false, c})
	}
	for i := 0; i < g.ni(); i++ {
		t = append(t, tref{true, i})
	}
	return t
}

func (g *graph) isA(c int, t tref) bool {
	if t.Iface {
		return g.classIsIface(c, t.Idx)
	}
	return g.isSubclass(c, t.Idx)
}

type names struct{ cpfx, ipfx string }

func (n names) c(i int) string { return fmt.Sprintf("%s%d", n.cpfx, i) }
func (n names) i(i int) string { return fmt.Sprintf("%s%d", n.ipfx, i+1) }
func (n names) t(t tref) string {
	if t.Iface {
		return n.i(t.Idx)
	}
	return n.c(t.Idx)
}

var namePool = []names{{"Cq", "Iq"}, {"Kls", "Ifc"}, {"Zed", "Able"}, {"Node", "Can"}}

func namesOf(seed int64) names {
	if seed < 0 {
		seed = -seed
	}
	return namePool[int(seed)%len(namePool)]
}

// ---- cells -------------------------------------------------------------------------------------------

// A cell is one observation of one construct.
type cellSpec struct {
	Cons string `json:"cons"` // construct id
	Obj  int    `json:"obj"`  // runtime class of the object
	T    *tref  `json:"type,omitempty"`
	K    int    `json:"k"` // class whose helper is used (dispatch cells), -1 otherwise
	Pass int    `json:"pass,omitempty"` // dispatch cells run twice per script: classes ascending (0), then descending (1)
}

func (c cellSpec) id(g *graph) string {
	s := fmt.Sprintf("%s/o%d", c.Cons, c.Obj)
	if c.T != nil {
		if c.T.Iface {
			s += fmt.Sprintf("/i%d", c.T.Idx)
		} else {
			s += fmt.Sprintf("/c%d", c.T.Idx)
		}
	}
	if c.K >= 0 {
		s += fmt.Sprintf("/k%d", c.K)
	}
	if c.Pass > 0 {
		s += fmt.Sprintf("/p%d", c.Pass)
	}
	return s
}

// subtype constructs (need obj, type); thrown=true ones exist only in the throwable variant
var subtypeCons = []struct {
	name   string
	thrown bool
}{
	{"instanceof", false},      // $o instanceof T from outside
	{"instanceof-this", false}, // $this instanceof T inside an inherited root method
	{"instanceof-var", false},  // $o instanceof $t, $t a string
	{"param", false},           // function f(T $x) called with $o
	{"param-this", false},      // f($this)
	{"catch", true},            // throw $o; catch (T $e)
	{"instanceof-caught", true}, // $e instanceof T on the caught value
	{"param-caught", true},     // f($e) on the caught value
}

// dispatch constructs
var dispatchCons = []struct {
	name   string
	thrown bool
	helper bool // uses helper of class K
}{
	{"call", false, false},          // $o->zm()
	{"call-this", false, false},     // root method: $this->zm()
	{"call-caught", true, false},    // caught value ->zm()
	{"parent", false, true},         // helper in K: parent::zm(), run on $o
	{"self", false, true},           // helper in K: self::zs() (instance method)
	{"static", false, true},         // helper in K: static::zs() (instance method)
	{"self-static-ctx", false, true}, // static helper in K called as Obj::h(): self::zs()
	{"static-static-ctx", false, true},
	{"call-fn", false, false},          // function f($x) { return $x->zm(); }: one call site for every object
	{"static-chain", false, true},      // Obj::hc_K(): static::hm_K() (only K defines hm_K) -> "L<" . static::zs() . ">"
	{"static-chain-inst", false, true}, // $o->hci_K(): the same 2-level static:: chain from an instance method
}

func (g *graph) cells(throwable bool) []cellSpec {
	var out []cellSpec
	for o := 0; o < g.nc(); o++ {
		for _, sc := range subtypeCons {
			if sc.thrown && !throwable {
				continue
			}
			for _, t := range g.types() {
				tt := t
				out = append(out, cellSpec{Cons: sc.name, Obj: o, T: &tt, K: -1})
			}
		}
		for _, dc := range dispatchCons {
			if dc.thrown && !throwable {
				continue
			}
			if !dc.helper {
				out = append(out, cellSpec{Cons: dc.name, Obj: o, K: -1})
				continue
			}
			for _, k := range g.chain(o) {
				if dc.name == "parent" && g.Parent[k] < 0 {
					continue
				}
				out = append(out, cellSpec{Cons: dc.name, Obj: o, K: k})
			}
		}
	}
	// second pass: every dispatch probe again, classes in descending order, in the same script -
	// the helper bodies / f_call are single source locations shared by all objects of the graph
	for i := len(out) - 1; i >= 0; i-- {
		if out[i].T == nil {
			c := out[i]
			c.Pass = 1
			out = append(out, c)
		}
	}
	return out
}

// expect returns the reference answer: "y"/"n" for subtype cells, "<Class>::zm" / "<Class>::zs"
// or "none" (no definition reachable: any error is acceptable) for dispatch cells.
func (g *graph) expect(c cellSpec, n names) string {
	if c.T != nil {
		if g.isA(c.Obj, *c.T) {
			return "y"
		}
		return "n"
	}
	d := -1
	m := "zm"
	switch c.Cons {
	case "call", "call-this", "call-caught":
		d = g.definer(c.Obj)
	case "parent":
		d = g.definer(g.Parent[c.K])
	case "self", "self-static-ctx":
		d, m = g.definer(c.K), "zs"
	case "static", "static-static-ctx":
		d, m = g.definer(c.Obj), "zs"
	case "call-fn":
		d = g.definer(c.Obj)
	case "static-chain", "static-chain-inst":
		d = g.definer(c.Obj)
		if d < 0 {
			return "none"
		}
		return "L<" + n.c(d) + "::zs>"
	}
	if d < 0 {
		return "none"
	}
	if m == "zm" {
		// the definition found, then every further definition up the chain (each calls parent::zm())
		var parts []string
		for x := d; x >= 0; {
			parts = append(parts, n.c(x)+"::zm")
			if g.Parent[x] < 0 {
				break
			}
			x = g.definer(g.Parent[x])
		}
		return strings.Join(parts, ">")
	}
	return n.c(d) + "::" + m
}

// ---- program generation -------------------------------------------------------------------------------

func (g *graph) source(n names, throwable bool, cells []cellSpec) string {
	var sb strings.Builder
	for i := 0; i < g.ni(); i++ {
		sb.WriteString("interface " + n.i(i))
		if len(g.IExt[i]) > 0 {
			var e []string
			for _, p := range g.IExt[i] {
				e = append(e, n.i(p))
			}
			sb.WriteString(" extends " + strings.Join(e, ", "))
		}
		sb.WriteString(" {}\n")
	}
	for _, t := range g.types() {
		fmt.Fprintf(&sb, "function acc_%s(%s $x) { return \"y\"; }\n", n.t(t), n.t(t))
	}
	for c := 0; c < g.nc(); c++ {
		sb.WriteString("class " + n.c(c))
		if g.Parent[c] >= 0 {
			sb.WriteString(" extends " + n.c(g.Parent[c]))
		} else if throwable {
			sb.WriteString(" extends Exception")
		}
		var im []string
		for i, on := range g.Impl[c] {
			if on {
				im = append(im, n.i(i))
			}
		}
		if len(im) > 0 {
			sb.WriteString(" implements " + strings.Join(im, ", "))
		}
		sb.WriteString(" {\n")
		if g.Def[c] {
			// every definition continues into the nearest ancestor definition, so a marker shows
			// the whole parent:: chain
			if g.Parent[c] >= 0 && g.definer(g.Parent[c]) >= 0 {
				fmt.Fprintf(&sb, "  public function zm() { return \"%s::zm>\" . parent::zm(); }\n", n.c(c))
			} else {
				fmt.Fprintf(&sb, "  public function zm() { return \"%s::zm\"; }\n", n.c(c))
			}
			fmt.Fprintf(&sb, "  public static function zs() { return \"%s::zs\"; }\n", n.c(c))
		}
		if g.Parent[c] >= 0 {
			fmt.Fprintf(&sb, "  public function hp_%s() { return parent::zm(); }\n", n.c(c))
		}
		fmt.Fprintf(&sb, "  public function hs_%s() { return self::zs(); }\n", n.c(c))
		fmt.Fprintf(&sb, "  public function hl_%s() { return static::zs(); }\n", n.c(c))
		fmt.Fprintf(&sb, "  public static function hss_%s() { return self::zs(); }\n", n.c(c))
		fmt.Fprintf(&sb, "  public static function hsl_%s() { return static::zs(); }\n", n.c(c))
		fmt.Fprintf(&sb, "  public static function hm_%s() { return \"L<\" . static::zs() . \">\"; }\n", n.c(c))
		fmt.Fprintf(&sb, "  public static function hc_%s() { return static::hm_%s(); }\n", n.c(c), n.c(c))
		fmt.Fprintf(&sb, "  public function hci_%s() { return static::hm_%s(); }\n", n.c(c), n.c(c))
		if g.Parent[c] < 0 {
			sb.WriteString("  public function ht() { return $this->zm(); }\n")
			for _, t := range g.types() {
				fmt.Fprintf(&sb, "  public function is_%s() { return ($this instanceof %s) ? \"y\" : \"n\"; }\n", n.t(t), n.t(t))
				fmt.Fprintf(&sb, "  public function pass_%s() { return acc_%s($this); }\n", n.t(t), n.t(t))
			}
		}
		sb.WriteString("}\n")
	}
	sb.WriteString("function f_call($x) { return $x->zm(); }\n")
	mk := func(c int) string {
		if throwable {
			return fmt.Sprintf("new %s(\"msg\")", n.c(c))
		}
		return fmt.Sprintf("new %s()", n.c(c))
	}
	for _, c := range cells {
		o := mk(c.Obj)
		var body string // leaves result in $r; "denied" params are reported by the catch
		tn := ""
		if c.T != nil {
			tn = n.t(*c.T)
		}
		switch c.Cons {
		case "instanceof":
			body = fmt.Sprintf("$o = %s; $r = ($o instanceof %s) ? \"y\" : \"n\";", o, tn)
		case "instanceof-this":
			body = fmt.Sprintf("$o = %s; $r = $o->is_%s();", o, tn)
		case "instanceof-var":
			body = fmt.Sprintf("$o = %s; $t = \"%s\"; $r = ($o instanceof $t) ? \"y\" : \"n\";", o, tn)
		case "param":
			body = fmt.Sprintf("$o = %s; $r = \"n\"; try { $r = acc_%s($o); } catch (Throwable $te) { $r = \"n\"; }", o, tn)
		case "param-this":
			body = fmt.Sprintf("$o = %s; $r = \"n\"; try { $r = $o->pass_%s(); } catch (Throwable $te) { $r = \"n\"; }", o, tn)
		case "catch":
			body = fmt.Sprintf("$r = \"?\"; try { throw %s; } catch (%s $ce) { $r = \"y\"; } catch (Throwable $ce) { $r = \"n\"; }", o, tn)
		case "instanceof-caught":
			body = fmt.Sprintf("$r = \"?\"; try { throw %s; } catch (Throwable $ce) { $r = ($ce instanceof %s) ? \"y\" : \"n\"; }", o, tn)
		case "param-caught":
			body = fmt.Sprintf("$r = \"?\"; try { throw %s; } catch (Throwable $ce) { try { $r = acc_%s($ce); } catch (Throwable $te) { $r = \"n\"; } }", o, tn)
		case "call":
			body = fmt.Sprintf("$o = %s; $r = $o->zm();", o)
		case "call-this":
			body = fmt.Sprintf("$o = %s; $r = $o->ht();", o)
		case "call-caught":
			body = fmt.Sprintf("$r = \"?\"; try { throw %s; } catch (Throwable $ce) { $r = $ce->zm(); }", o)
		case "parent":
			body = fmt.Sprintf("$o = %s; $r = $o->hp_%s();", o, n.c(c.K))
		case "self":
			body = fmt.Sprintf("$o = %s; $r = $o->hs_%s();", o, n.c(c.K))
		case "static":
			body = fmt.Sprintf("$o = %s; $r = $o->hl_%s();", o, n.c(c.K))
		case "self-static-ctx":
			body = fmt.Sprintf("$r = %s::hss_%s();", n.c(c.Obj), n.c(c.K))
		case "static-static-ctx":
			body = fmt.Sprintf("$r = %s::hsl_%s();", n.c(c.Obj), n.c(c.K))
		case "call-fn":
			body = fmt.Sprintf("$o = %s; $r = f_call($o);", o)
		case "static-chain":
			body = fmt.Sprintf("$r = %s::hc_%s();", n.c(c.Obj), n.c(c.K))
		case "static-chain-inst":
			body = fmt.Sprintf("$o = %s; $r = $o->hci_%s();", o, n.c(c.K))
		}
		fmt.Fprintf(&sb, "echo \"@@%s@@\"; try { %s echo $r; } catch (Throwable $e) { echo \"E|\", get_class($e), \"|\", $e->getMessage(); }\n", c.id(g), body)
	}
	sb.WriteString("echo \"@@END@@\";\n")
	return sb.String()
}

// ---- description / canonical form ----------------------------------------------------------------

// describe renders graph + cell with generic names (for finding keys).
func (g *graph) describe(c cellSpec) string {
	n := names{"C", "I"}
	var cl []string
	for i := 0; i < g.nc(); i++ {
		s := n.c(i)
		if g.Parent[i] >= 0 {
			s += "<" + n.c(g.Parent[i])
		}
		var im []string
		for j, on := range g.Impl[i] {
			if on {
				im = append(im, n.i(j))
			}
		}
		if len(im) > 0 {
			s += " impl " + strings.Join(im, "+")
		}
		if g.Def[i] {
			s += " def"
		}
		cl = append(cl, s)
	}
	var il []string
	for i := 0; i < g.ni(); i++ {
		s := n.i(i)
		if len(g.IExt[i]) > 0 {
			var e []string
			for _, p := range g.IExt[i] {
				e = append(e, n.i(p))
			}
			s += "<" + strings.Join(e, "+")
		}
		il = append(il, s)
	}
	d := "{" + strings.Join(cl, "; ") + "}"
	if len(il) > 0 {
		d += " {" + strings.Join(il, "; ") + "}"
	}
	d += " obj=" + n.c(c.Obj)
	if c.T != nil {
		d += " type=" + n.t(*c.T)
	}
	if c.K >= 0 {
		d += " in=" + n.c(c.K)
	}
	return d
}

// permutations of 0..n-1
func perms(n int) [][]int {
	var out [][]int
	var rec func(cur []int, used []bool)
	rec = func(cur []int, used []bool) {
		if len(cur) == n {
			out = append(out, append([]int{}, cur...))
			return
		}
		for i := 0; i < n; i++ {
			if !used[i] {
				used[i] = true
				rec(append(cur, i), used)
				used[i] = false
			}
		}
	}
	rec(nil, make([]bool, n))
	return out
}

// relabel applies class permutation pc (old -> new) and interface permutation pi; returns nil
// when the result violates "parents / extended interfaces come first".
func (g *graph) relabel(pc, pi []int) *graph {
	h := &graph{Parent: make([]int, g.nc()), Def: make([]bool, g.nc()), IExt: make([][]int, g.ni()), Impl: make([][]bool, g.nc())}
	for c := 0; c < g.nc(); c++ {
		nc := pc[c]
		if g.Parent[c] >= 0 {
			if pc[g.Parent[c]] >= nc {
				return nil
			}
			h.Parent[nc] = pc[g.Parent[c]]
		} else {
			h.Parent[nc] = -1
		}
		h.Def[nc] = g.Def[c]
		h.Impl[nc] = make([]bool, g.ni())
		for i, on := range g.Impl[c] {
			h.Impl[nc][pi[i]] = on
		}
	}
	for i := 0; i < g.ni(); i++ {
		var e []int
		for _, p := range g.IExt[i] {
			if pi[p] >= pi[i] {
				return nil
			}
			e = append(e, pi[p])
		}
		sort.Ints(e)
		h.IExt[pi[i]] = e
	}
	return h
}

func (g *graph) encode() string {
	var sb strings.Builder
	for c := 0; c < g.nc(); c++ {
		fmt.Fprintf(&sb, "%d", g.Parent[c]+1)
		if g.Def[c] {
			sb.WriteByte('d')
		} else {
			sb.WriteByte('-')
		}
		for _, on := range g.Impl[c] {
			if on {
				sb.WriteByte('1')
			} else {
				sb.WriteByte('0')
			}
		}
		sb.WriteByte(';')
	}
	for i := 0; i < g.ni(); i++ {
		for _, p := range g.IExt[i] {
			fmt.Fprintf(&sb, "%d", p)
		}
		sb.WriteByte('|')
	}
	return sb.String()
}

// isCanonical: g has the smallest encoding among its valid relabelings (symmetry reduction).
func (g *graph) isCanonical(pcs, pis [][]int) bool {
	e := g.encode()
	for _, pc := range pcs {
		for _, pi := range pis {
			h := g.relabel(pc, pi)
			if h != nil && h.encode() < e {
				return false
			}
		}
	}
	return true
}

// canonicalDescribe: smallest description over all relabelings of graph + cell.
func (g *graph) canonicalDescribe(c cellSpec) string {
	best := ""
	for _, pc := range perms(g.nc()) {
		for _, pi := range perms(g.ni()) {
			h := g.relabel(pc, pi)
			if h == nil {
				continue
			}
			cc := c
			cc.Obj = pc[c.Obj]
			if c.K >= 0 {
				cc.K = pc[c.K]
			}
			if c.T != nil {
				t := *c.T
				if t.Iface {
					t.Idx = pi[t.Idx]
				} else {
					t.Idx = pc[t.Idx]
				}
				cc.T = &t
			}
			d := h.describe(cc)
			if best == "" || d < best {
				best = d
			}
		}
	}
	return best
}
