// C08: instanceof, type hints, catch and dispatch follow the declared class hierarchy;
// parent:: / self:: / static::; `like`.
//
// Form P, all small graphs: every class forest x interface DAG x implements relation x override
// set inside the bound is rendered as a program (plain, and with the roots extending Exception
// so that objects can be thrown); every (object, type) pair is asked through 8 constructs and
// every (object, helper class) dispatch pair through 8 constructs; answers are compared with
// reachability / most-derived-definer computed on the generated graph. `like`: all pairs of
// (object method table over a 2-level chain) x (target signature) up to 3 methods, arities 0..2.
package main

import (
	"encoding/json"
	"flag"
	"fmt"
	"os"
	"regexp"
	"strings"
	"syscall"
	"time"

	"verif/engine/ev"
	"verif/engine/pool"
	"verif/engine/runner"
)

type rec struct {
	Kind     string           `json:"kind"`
	N        int64            `json:"n,omitempty"`
	Runs     int64            `json:"runs,omitempty"`
	Graphs   int64            `json:"graphs,omitempty"`
	Key      string           `json:"key,omitempty"`
	Clause   string           `json:"clause,omitempty"`
	Case     any              `json:"case,omitempty"`
	Detail   string           `json:"detail,omitempty"`
	Size     int              `json:"size,omitempty"`
	Outcomes map[string]int64 `json:"outcomes,omitempty"`
	Err      string           `json:"err,omitempty"`
}

type caseDesc struct {
	Family    string    `json:"family"` // graph | like
	G         *graph    `json:"graph,omitempty"`
	Cell      *cellSpec `json:"cell,omitempty"`
	Throwable bool      `json:"throwable,omitempty"`
	Full      bool      `json:"whole_program,omitempty"` // the cell fails only after the other cells of the program ran
	Like      *likeCase `json:"like,omitempty"`
	Nominal   *nominalCase `json:"nominal,omitempty"`
	BT        *btCase   `json:"builtin_throwable,omitempty"`
	Script    string    `json:"script,omitempty"`
	Want      string    `json:"want,omitempty"`
	Got       string    `json:"got,omitempty"`
}

var reCell = regexp.MustCompile(`@@([^@]+)@@`)

func parseOut(out string) (map[string]string, bool) {
	res := map[string]string{}
	idx := reCell.FindAllStringSubmatchIndex(out, -1)
	ended := false
	for i, m := range idx {
		tag := out[m[2]:m[3]]
		if tag == "END" {
			ended = true
			continue
		}
		end := len(out)
		if i+1 < len(idx) {
			end = idx[i+1][0]
		}
		res[tag] = out[m[1]:end]
	}
	return res, ended
}

type stats struct {
	cells, runs, graphs int64
	outcomes            map[string]int64
}

func (s *stats) run(src string) runner.Result {
	s.runs++
	return runner.Run(src, runner.Opts{Fuel: 100_000_000})
}

func isPanicMsg(s string) bool {
	return strings.Contains(s, "panic(") || strings.Contains(s, "go作用域异常退出")
}

// norm reduces an observed cell value to y / n / <Class>::zx / error / crash / missing.
func norm(v string, present bool) string {
	if !present {
		return "missing"
	}
	if strings.HasPrefix(v, "E|") {
		if isPanicMsg(v) {
			return "crash"
		}
		return "error"
	}
	return v
}

// verdict: "" when got satisfies want.
func verdict(want, got string) string {
	if got == "crash" || got == "missing" || got == "hang" {
		return got
	}
	if want == "none" {
		// no definition reachable: the statement does not say what happens; anything but a
		// crash or a made-up definition
		if strings.Contains(got, "::") {
			return "phantom-definition"
		}
		return ""
	}
	if want == got {
		return ""
	}
	return "mismatch"
}

// evalCell runs one cell alone on graph g.
func evalCell(st *stats, g *graph, c cellSpec, throwable bool, n names) (want, got string, script string, res runner.Result) {
	return evalCellMode(st, g, c, throwable, n, false)
}

// evalCellMode: full=false runs the cell alone; full=true runs the whole program of the graph
// (every cell, in the batch order) and reads the one cell - for failures that depend on what
// ran earlier in the same script.
func evalCellMode(st *stats, g *graph, c cellSpec, throwable bool, n names, full bool) (want, got string, script string, res runner.Result) {
	cells := []cellSpec{c}
	if full {
		cells = g.cells(throwable)
	}
	script = g.source(n, throwable, cells)
	res = st.run(script)
	out, _ := parseOut(res.Out)
	v, ok := out[c.id(g)]
	got = norm(v, ok)
	if res.Kind == "panic" {
		got = "crash"
	}
	if res.Kind == "fuel" && !ok {
		got = "hang"
	}
	return g.expect(c, n), got, script, res
}

// ---- graph minimisation ------------------------------------------------------------------------

func removeClass(g *graph, x int, c cellSpec) (*graph, cellSpec, bool) {
	if c.Obj == x || c.K == x || (c.T != nil && !c.T.Iface && c.T.Idx == x) {
		return nil, c, false
	}
	h := &graph{IExt: g.clone().IExt, NS: g.NS}
	mp := make([]int, g.nc())
	k := 0
	for i := 0; i < g.nc(); i++ {
		if i == x {
			mp[i] = -1
			continue
		}
		mp[i] = k
		k++
	}
	for i := 0; i < g.nc(); i++ {
		if i == x {
			continue
		}
		p := g.Parent[i]
		if p == x {
			p = g.Parent[x]
		}
		if p >= 0 {
			p = mp[p]
		}
		h.Parent = append(h.Parent, p)
		h.Def = append(h.Def, g.Def[i])
		h.Impl = append(h.Impl, append([]bool{}, g.Impl[i]...))
	}
	if g.anon() >= 0 && g.anon() != x {
		h.AnonK = mp[g.anon()] + 1
	}
	cc := c
	cc.Obj = mp[c.Obj]
	if c.K >= 0 {
		cc.K = mp[c.K]
	}
	if c.T != nil && !c.T.Iface {
		t := tref{false, mp[c.T.Idx]}
		cc.T = &t
	}
	return h, cc, true
}

func removeIface(g *graph, x int, c cellSpec) (*graph, cellSpec, bool) {
	if c.T != nil && c.T.Iface && c.T.Idx == x {
		return nil, c, false
	}
	h := &graph{Parent: append([]int{}, g.Parent...), Def: append([]bool{}, g.Def...), AnonK: g.AnonK, NS: g.NS}
	mp := func(i int) int {
		if i > x {
			return i - 1
		}
		return i
	}
	for i := 0; i < g.ni(); i++ {
		if i == x {
			continue
		}
		var e []int
		for _, p := range g.IExt[i] {
			if p != x {
				e = append(e, mp(p))
			}
		}
		h.IExt = append(h.IExt, e)
	}
	for _, row := range g.Impl {
		var r []bool
		for i, on := range row {
			if i != x {
				r = append(r, on)
			}
		}
		h.Impl = append(h.Impl, r)
	}
	cc := c
	if c.T != nil && c.T.Iface {
		t := tref{true, mp(c.T.Idx)}
		cc.T = &t
	}
	return h, cc, true
}

// minimise deletes classes, interfaces, edges and definitions while the cell keeps failing the
// same way (same verdict, same normalised got-kind).
func minimise(st *stats, g *graph, c cellSpec, throwable bool, n names, full bool) (*graph, cellSpec) {
	kind := func(want, got string) string {
		v := verdict(want, got)
		if v == "" {
			return ""
		}
		gk := got
		if strings.Contains(got, "::") {
			gk = "def"
		}
		wk := want
		if strings.Contains(want, "::") {
			wk = "def"
		}
		return v + ":" + wk + ":" + gk
	}
	w0, g0, _, _ := evalCellMode(st, g, c, throwable, n, full)
	target := kind(w0, g0)
	if target == "" {
		return g, c
	}
	try := func(h *graph, cc cellSpec) bool {
		if !h.valid(cc) {
			return false
		}
		w, gt, _, _ := evalCellMode(st, h, cc, throwable, n, full)
		return kind(w, gt) == target
	}
	// first of all: is the special way the program is written needed at all? (no namespace, the
	// anonymous class declared by name, the object made by the factory) - a failure that survives
	// this is the same finding as on the plain family and gets the same key
	if g.NS != 0 {
		h := g.clone()
		h.NS = 0
		if try(h, c) {
			g = h
		} else if g.NS == 2 {
			h.NS = 1
			if try(h, c) {
				g = h
			}
		}
	}
	if g.AnonK != 0 {
		h, cc := g.clone(), c
		h.AnonK, cc.Mk = 0, 0
		if try(h, cc) {
			g, c = h, cc
		}
	}
	if c.Mk != 0 {
		cc := c
		cc.Mk = 0
		if try(g, cc) {
			c = cc
		}
	}
	for changed := true; changed; {
		changed = false
		// cell-level shrinking: the reflexive pair (type := the object's own class), then the
		// object's parent as object, then the helper nearer to the object
		if c.T != nil && w0 == "y" && (c.T.Iface || c.T.Idx != c.Obj) {
			cc := c
			cc.T = &tref{false, c.Obj}
			if try(g, cc) {
				c, changed = cc, true
			}
		}
		if !changed && g.Parent[c.Obj] >= 0 && c.K != c.Obj {
			cc := c
			cc.Obj = g.Parent[c.Obj]
			if try(g, cc) {
				c, changed = cc, true
			}
		}
		for x := g.nc() - 1; x >= 0 && !changed; x-- {
			if h, cc, ok := removeClass(g, x, c); ok && try(h, cc) {
				g, c, changed = h, cc, true
			}
		}
		for x := g.ni() - 1; x >= 0 && !changed; x-- {
			if h, cc, ok := removeIface(g, x, c); ok && try(h, cc) {
				g, c, changed = h, cc, true
			}
		}
		for ci := 0; ci < g.nc() && !changed; ci++ {
			for ii := 0; ii < g.ni() && !changed; ii++ {
				if g.Impl[ci][ii] {
					h := g.clone()
					h.Impl[ci][ii] = false
					if try(h, c) {
						g, changed = h, true
					}
				}
			}
		}
		for ii := 0; ii < g.ni() && !changed; ii++ {
			for k := range g.IExt[ii] {
				h := g.clone()
				h.IExt[ii] = append(append([]int{}, g.IExt[ii][:k]...), g.IExt[ii][k+1:]...)
				if try(h, c) {
					g, changed = h, true
					break
				}
			}
		}
		for ci := 0; ci < g.nc() && !changed; ci++ {
			// cut an extends edge (the class becomes a root)
			if g.Parent[ci] >= 0 {
				h := g.clone()
				h.Parent[ci] = -1
				if try(h, c) {
					g, changed = h, true
				}
			}
		}
		for ci := 0; ci < g.nc() && !changed; ci++ {
			if g.Def[ci] {
				h := g.clone()
				h.Def[ci] = false
				if try(h, c) {
					g, changed = h, true
				}
			}
		}
	}
	return g, c
}

// canonical returns the relabeling of (g, c) with the smallest description.
func canonical(g *graph, c cellSpec) (*graph, cellSpec) {
	var bg *graph
	var bc cellSpec
	best := ""
	for _, pc := range perms(g.nc()) {
		for _, pi := range perms(g.ni()) {
			h := g.relabel(pc, pi)
			if h == nil {
				continue
			}
			cc := c
			cc.Obj = pc[c.Obj]
			if c.K >= 0 {
				cc.K = pc[c.K]
			}
			if c.T != nil {
				t := *c.T
				if t.Iface {
					t.Idx = pi[t.Idx]
				} else {
					t.Idx = pc[t.Idx]
				}
				cc.T = &t
			}
			d := h.describe(cc)
			if best == "" || d < best {
				best, bg, bc = d, h, cc
			}
		}
	}
	return bg, bc
}

var generic = names{"C", "I"}

// report reduces a failing cell to its finding key and emits it.
func report(w *pool.W, st *stats, seen map[string]bool, g *graph, c cellSpec, throwable bool, n names, bwant, bgot string) {
	// does the failure show when the cell runs alone? if not it depends on what ran before it in
	// the same script: reduce and report it in whole-program mode
	full := false
	if w0, g0, _, _ := evalCellMode(st, g, c, throwable, n, false); verdict(w0, g0) == "" {
		full = true
	}
	remark := ""
	if full {
		remark = "\nNOT STABLE ACROSS RE-RUNS: the cell conforms when it runs alone and fails after the earlier checks of the same script (history-dependent answer)"
	}
	mg, mc := minimise(st, g, c, throwable, n, full)
	cg, cc := canonical(mg, mc)
	want, got, script, res := evalCellMode(st, cg, cc, throwable, generic, full)
	v := verdict(want, got)
	if v == "" {
		// does not reproduce under generic names: keep the seed names
		cg, cc = mg, mc
		want, got, script, res = evalCellMode(st, cg, cc, throwable, n, full)
		v = verdict(want, got)
	}
	if v == "" {
		// not reproducible at all: still a violation, under the key of the first observation
		want, got, v = bwant, bgot, verdict(bwant, bgot)
		wk, gk := want, got
		if strings.Contains(wk, "::") {
			wk = "def"
		}
		if strings.Contains(gk, "::") {
			gk = "def"
		}
		key := fmt.Sprintf("%s: unstable answer (%s) want=%s got=%s", c.Cons, localShape(g, c), wk, gk)
		if seen[key] {
			return
		}
		seen[key] = true
		script = g.source(n, throwable, g.cells(throwable))
		cc0 := c
		w.Emit(rec{Kind: "fail", Key: key, Clause: c.Cons + ":" + v, Size: len(script),
			Case:   caseDesc{Family: "graph", G: g, Cell: &cc0, Throwable: throwable, Full: true, Script: script, Want: want, Got: got},
			Detail: fmt.Sprintf("construct %s on %s\nreference: %s; origami in the batch run: %s\nNOT STABLE ACROSS RE-RUNS: neither the cell alone nor a second whole-program run reproduced the answer", c.Cons, g.describe(c), want, got)})
		return
	}
	var key string
	if got == "crash" {
		k := res.PanicKey
		if k == "" {
			// converted by try: re-run the construct bare to name the frame
			k = "caught-panic"
		}
		key = "crash:" + c.Cons + ":" + k
	} else if cg.AnonK != 0 && cc.T == nil && cc.Obj == cg.anon() && !full {
		// A dispatch failure that needs the class to be anonymous (the minimiser first tries the
		// same class declared by name). What a broken self:: / parent:: / method lookup of an
		// anonymous class answers depends on classes unrelated to the object (origami resolves
		// through whatever named class the parser saw last), so the reduced graph and the wrong
		// marker vary with the surroundings: the key names construct and verdict only, the
		// reduced graph is in the detail and the replay file.
		key = anonOnlyKey(cc.Cons, v)
		seen["anon-only|"+cc.Cons+"|"+v] = true
	} else {
		key = fmt.Sprintf("%s: %s want=%s got=%s", cc.Cons, cg.describe(cc), want, got)
		if full {
			key += " [after earlier checks in the same script]"
		}
	}
	if seen[key] {
		return
	}
	seen[key] = true
	w.Emit(rec{Kind: "fail", Key: key, Clause: cc.Cons + ":" + v, Size: len(script),
		Case:   caseDesc{Family: "graph", G: cg, Cell: &cc, Throwable: throwable, Full: full, Script: script, Want: want, Got: got},
		Detail: fmt.Sprintf("construct %s on %s\nreference (reachability / most-derived definer): %s; origami: %s%s\n%s", cc.Cons, cg.describe(cc), want, got, remark, trunc(res.Out, 300))})
}

func anonOnlyKey(cons, verdict string) string {
	return fmt.Sprintf("%s: wrong only when the object's class is an anonymous class (%s)", cons, verdict)
}

func trunc(s string, n int) string {
	if len(s) > n {
		return s[:n] + "..."
	}
	return s
}

// checkGraph runs both variants of one graph and judges every cell.
func checkGraph(w *pool.W, st *stats, seen map[string]bool, g *graph, n names, variants []bool) {
	st.graphs++
	for _, throwable := range variants {
		cells := g.cells(throwable)
		res := st.run(g.source(n, throwable, cells))
		out, ended := parseOut(res.Out)
		for _, c := range cells {
			st.cells++
			v, ok := out[c.id(g)]
			got := norm(v, ok)
			if !ok && !ended {
				// the batch stopped early (a cell ran out of fuel or crashed the run): judge the
				// cells it did not reach one by one
				st.outcomes["~cells-run-alone-after-aborted-batch"]++
				_, got, _, _ = evalCellMode(st, g, c, throwable, n, false)
			}
			want := g.expect(c, n)
			vd := verdict(want, got)
			wk := want
			if strings.Contains(want, "::") {
				wk = "def"
			}
			gk := got
			if strings.Contains(got, "::") {
				gk = "def"
			}
			st.outcomes[c.Cons+"/"+wk+"/"+gk]++
			if vd == "" {
				continue
			}
			// dedup before the (expensive) reduction: same construct, same want/got kind and the
			// same local shape of the pair are reduced only once per shard
			sig := fmt.Sprintf("%s|%s|%s|%v|%s|a%v|m%d|ns%d", c.Cons, wk, gk, throwable, localShape(g, c), c.Obj == g.anon(), c.Mk, g.NS)
			if c.T == nil && c.Obj == g.anon() {
				// dispatch on the anonymous object: one reduction per construct and verdict when
				// the failure needs the class to be anonymous (see anonOnlyKey)
				if ak := "anon-only|" + c.Cons + "|" + vd; seen[ak] {
					continue
				}
			}
			if seen[sig] {
				continue
			}
			seen[sig] = true
			report(w, st, seen, g, c, throwable, n, want, got)
		}
	}
}

// localShape summarises how obj relates to the type / helper class (dedup of reductions only).
func localShape(g *graph, c cellSpec) string {
	if c.T != nil {
		if !c.T.Iface {
			d := 0
			for _, x := range g.chain(c.Obj) {
				if x == c.T.Idx {
					return fmt.Sprintf("class-up%d", d)
				}
				d++
			}
			return "class-unrelated"
		}
		// distance (classes up, interface hops) of the first implementing ancestor
		for d, x := range g.chain(c.Obj) {
			for i, on := range g.Impl[x] {
				if on {
					seen := map[int]bool{}
					g.ifaceReach(i, seen)
					if seen[c.T.Idx] {
						direct := i == c.T.Idx
						return fmt.Sprintf("iface-up%d-direct%v-multi%v", d, direct, len(g.IExt[i]) > 1)
					}
				}
			}
		}
		return "iface-unrelated"
	}
	d := 0
	for _, x := range g.chain(c.Obj) {
		if x == c.K {
			break
		}
		d++
	}
	return fmt.Sprintf("k-up%d-def%d", d, g.definer(c.Obj))
}

// ---- enumeration -----------------------------------------------------------------------------------

func forests(nc int) [][]int {
	var out [][]int
	var rec func(cur []int)
	rec = func(cur []int) {
		if len(cur) == nc {
			out = append(out, append([]int{}, cur...))
			return
		}
		for p := -1; p < len(cur); p++ {
			rec(append(cur, p))
		}
	}
	rec(nil)
	return out
}

func ifaceGraphs(ni int) [][][]int {
	var out [][][]int
	var rec func(cur [][]int)
	rec = func(cur [][]int) {
		i := len(cur)
		if i == ni {
			cp := make([][]int, ni)
			for k := range cur {
				cp[k] = append([]int{}, cur[k]...)
			}
			out = append(out, cp)
			return
		}
		for mask := 0; mask < 1<<i; mask++ {
			var e []int
			for b := 0; b < i; b++ {
				if mask&(1<<b) != 0 {
					e = append(e, b)
				}
			}
			rec(append(cur, e))
		}
	}
	rec(nil)
	return out
}

type shardArg struct {
	NC, NI   int
	Forest   int
	IG       int
	DefMode  string // all | each (every override set) | fixed-all
	ImplFrom int    // range of implements masks [ImplFrom, ImplTo)
	ImplTo   int
	Sym      bool // symmetry reduction
	Seed     int64
	Variants string // "both" | "plain" | "throwable"
	Anon     string // "" | "last" (the last class, a leaf, also as an anonymous class: complete up to renaming when every labelled graph is enumerated) | "leaves" (every leaf in turn)
	AnonVar  string // variants run on the graphs with an anonymous class ("" = Variants)
	NS       bool   // every program also inside a namespace (unqualified and fully qualified references)
	Deadline int64  // unix seconds; 0 = none
}

func graphWorker(w *pool.W, arg json.RawMessage) {
	var a shardArg
	json.Unmarshal(arg, &a)
	st := &stats{outcomes: map[string]int64{}}
	n := namesOf(a.Seed)
	fs := forests(a.NC)
	igs := ifaceGraphs(a.NI)
	parent := fs[a.Forest]
	iext := igs[a.IG]
	pcs, pis := perms(a.NC), perms(a.NI)
	seen := map[string]bool{}
	variants := []bool{false, true}
	if a.Variants == "plain" {
		variants = []bool{false}
	}
	if a.Variants == "throwable" {
		variants = []bool{true}
	}
	anonVariants := variants
	if a.AnonVar == "throwable" {
		anonVariants = []bool{true}
	}
	expired := false
	var skipped int64
	for im := a.ImplFrom; im < a.ImplTo; im++ {
		defMasks := []int{1<<a.NC - 1}
		if a.DefMode == "each" {
			defMasks = nil
			for d := 0; d < 1<<a.NC; d++ {
				defMasks = append(defMasks, d)
			}
		}
		for _, dm := range defMasks {
			g := &graph{Parent: parent, IExt: iext}
			for c := 0; c < a.NC; c++ {
				row := make([]bool, a.NI)
				for i := 0; i < a.NI; i++ {
					row[i] = im&(1<<(c*a.NI+i)) != 0
				}
				g.Impl = append(g.Impl, row)
				g.Def = append(g.Def, dm&(1<<c) != 0)
			}
			if a.Sym && !g.isCanonical(pcs, pis) {
				skipped++
				continue
			}
			if a.Deadline > 0 && time.Now().Unix() > a.Deadline {
				expired = true
				break
			}
			if !w.Item(fmt.Sprintf("g/%d/%d/%d/%d/%d/%d", a.NC, a.NI, a.Forest, a.IG, im, dm)) {
				continue
			}
			checkGraph(w, st, seen, g, n, variants)
			forms := []*graph{g}
			for x := 0; x < a.NC; x++ {
				if (a.Anon == "last" && x == a.NC-1) || (a.Anon == "leaves" && g.isLeaf(x)) {
					h := g.clone()
					h.AnonK = x + 1
					st.outcomes["~graphs-with-anonymous-class"]++
					checkGraph(w, st, seen, h, n, anonVariants)
					forms = append(forms, h)
				}
			}
			if a.NS {
				for _, f := range forms {
					for ns := 1; ns <= 2; ns++ {
						if ns == 2 && f.AnonK != 0 {
							continue // qualified references: on the all-named form only
						}
						h := f.clone()
						h.NS = ns
						st.outcomes["~graphs-in-namespace"]++
						checkGraph(w, st, seen, h, n, variants)
					}
				}
			}
		}
	}
	st.outcomes["~symmetry-skipped"] += skipped
	if expired {
		st.outcomes["~shards-cut-by-deadline"]++
	}
	w.Emit(rec{Kind: "count", N: st.cells, Runs: st.runs, Graphs: st.graphs, Outcomes: st.outcomes})
}

// ---- main ---------------------------------------------------------------------------------------------

func main() {
	if pool.IsWorker() {
		pool.Serve(map[string]pool.Handler{"graph": graphWorker, "like": likeWorker, "nominal": nominalWorker, "bt": btWorker})
	}
	if len(os.Args) > 1 && os.Args[1] == "countsym" {
		// development aid: size of the symmetry-reduced 4x3 family
		fs, igs := forests(4), ifaceGraphs(3)
		pcs, pis := perms(4), perms(3)
		kept, total := 0, 0
		for _, f := range fs {
			for _, ig := range igs {
				for im := 0; im < 1<<12; im++ {
					g := &graph{Parent: f, IExt: ig, Def: []bool{true, true, true, true}}
					for c := 0; c < 4; c++ {
						row := make([]bool, 3)
						for i := 0; i < 3; i++ {
							row[i] = im&(1<<(c*3+i)) != 0
						}
						g.Impl = append(g.Impl, row)
					}
					total++
					if g.isCanonical(pcs, pis) {
						kept++
					}
				}
			}
		}
		fmt.Println("4x3 labelled:", total, "kept after symmetry reduction:", kept)
		return
	}
	if len(os.Args) > 1 && os.Args[1] == "btonly" {
		os.Setenv("C08_BT_ONLY", "1")
		os.Args = append(os.Args[:1], os.Args[2:]...)
	}
	if len(os.Args) > 1 && os.Args[1] == "bench" {
		bench()
		return
	}
	if len(os.Args) > 2 && os.Args[1] == "probe" {
		// development aid: every cell of one graph (JSON file), both variants; prints the cells
		// that do not conform
		var g graph
		b, _ := os.ReadFile(os.Args[2])
		if err := json.Unmarshal(b, &g); err != nil {
			fmt.Println(err)
			return
		}
		st := &stats{outcomes: map[string]int64{}}
		for _, thr := range []bool{false, true} {
			cells := g.cells(thr)
			res := st.run(g.source(generic, thr, cells))
			out, ended := parseOut(res.Out)
			bad := 0
			for _, c := range cells {
				v, ok := out[c.id(&g)]
				got, want := norm(v, ok), g.expect(c, generic)
				if vd := verdict(want, got); vd != "" {
					bad++
					fmt.Printf("  %s %s: want=%s got=%s (%s)\n", c.id(&g), g.describe(c), want, got, vd)
				}
			}
			fmt.Printf("throwable=%v cells=%d failing=%d ended=%v kind=%s\n", thr, len(cells), bad, ended, res.Kind)
		}
		return
	}
	c := ev.New("C08")
	defer runner.Cleanup()
	if c.Replay != "" {
		replay(c)
		return
	}
	c.SetBudget(12*time.Minute, 45*time.Minute)
	// safety net only (quick needs ~25 s of 16 idle cores, thorough ~6 min)
	budget := 12 * time.Minute
	if !c.Quick() {
		budget = 45 * time.Minute
	}
	if f := flag.Lookup("budget"); f != nil {
		// --budget (parsed by ev) also moves the deadline handed to the shards
		if d, err := time.ParseDuration(f.Value.String()); err == nil && d > 0 {
			budget = d
		}
	}
	deadline := time.Now().Add(budget).Unix()
	var shards []pool.Shard
	// built-in throwable hierarchy + user classes named like built-ins (cheap: first)
	btShards(c, &shards)
	addFamily := func(nc, ni int, defMode string, sym bool, variants string, split int, anon string, ns bool, anonVar string) {
		nf := len(forests(nc))
		nig := len(ifaceGraphs(ni))
		total := 1 << (nc * ni)
		step := total / split
		if step < 1 {
			step = 1
		}
		for f := 0; f < nf; f++ {
			for ig := 0; ig < nig; ig++ {
				for from := 0; from < total; from += step {
					to := from + step
					if to > total {
						to = total
					}
					shards = append(shards, pool.Shard{Kind: "graph", Arg: shardArg{NC: nc, NI: ni, Forest: f, IG: ig, DefMode: defMode, ImplFrom: from, ImplTo: to, Sym: sym, Seed: c.Seed, Variants: variants, Deadline: deadline, Anon: anon, NS: ns, AnonVar: anonVar}})
				}
			}
		}
	}
	// complete cross product up to 3 classes + 2 interfaces (6144 graphs at 3+2)
	// every family also with its last class written as an anonymous class expression; the small
	// families also inside a namespace
	addFamily(1, 2, "each", false, "both", 1, "last", true, "")
	addFamily(2, 2, "each", false, "both", 1, "last", true, "")
	// dispatch over all 4-class forests x all override sets
	addFamily(4, 0, "each", false, "both", 1, "last", false, "")
	// interfaces with two parents: 2 classes x 3 interfaces (I3 extends any subset of {I1,I2})
	addFamily(2, 3, "all", false, "both", 1, "last", !c.Quick(), "")
	// 3 classes x 2 interfaces is the bulk: quick runs its anonymous-class forms in the throwable
	// variant only (which has every construct of the plain one plus catch), thorough in both
	anonVar32 := "throwable"
	if !c.Quick() {
		anonVar32 = ""
	}
	addFamily(3, 2, "each", false, "both", 8, "last", !c.Quick(), anonVar32)
	bound := "all graphs with <=3 classes x 2 interfaces (I2 extends subset of {I1}) x implements x override sets; all 4-class forests x override sets; all 2-class x 3-interface (multiple extends) graphs"
	if !c.Quick() {
		// 4 classes x 3 interfaces with multiple extends, every class defining the method,
		// reduced by class / interface renaming
		addFamily(4, 3, "all", true, "throwable", 16, "leaves", false, "")
		bound += "; all 4-class forests x 3-interface DAGs (multiple extends) x implements relations up to renaming"
	}
	likeShards(c, &shards)
	if os.Getenv("C08_BT_ONLY") != "" {
		// development aid (`c08 btonly --tier ..`): only the built-in throwable family
		var keep []pool.Shard
		for _, sh := range shards {
			if sh.Kind == "bt" {
				keep = append(keep, sh)
			}
		}
		shards = keep
	}
	var cells, runs, graphs int64
	outcomes := map[string]int64{}
	pool.Run(shards, pool.Options{}, func(si int, rb json.RawMessage) {
		var r rec
		json.Unmarshal(rb, &r)
		switch r.Kind {
		case "count":
			cells += r.N
			runs += r.Runs
			graphs += r.Graphs
			for k, v := range r.Outcomes {
				outcomes[k] += v
			}
		case "fail":
			c.Fail(r.Key, r.Clause, r.Size, r.Case, r.Detail)
		case "sample":
			c.Sample(r.Case)
		case "harness":
			c.HarnessError("%s", r.Err)
		}
	}, func(d pool.Death) {
		c.Fail("worker-death:"+runner.FatalFrame(d.Stderr), "crash", 0, map[string]any{"item": d.Item, "reason": d.Reason}, d.Stderr)
	})
	for k := range outcomes {
		if !strings.HasPrefix(k, "~") {
			c.Outcome(k)
		}
	}
	if outcomes["~shards-cut-by-deadline"] > 0 {
		c.NotExhaustive(fmt.Sprintf("%d shards stopped at the internal deadline; completed: %d graphs", outcomes["~shards-cut-by-deadline"], graphs))
	}
	c.Set("outcome_cell_counts", outcomes)
	c.Set("graphs", graphs)
	c.Set("cells", cells)
	c.Set("bound", bound)
	// a written-out sample
	g := &graph{Parent: []int{-1, 0, 1}, IExt: [][]int{{}, {0}}, Impl: [][]bool{{false, true}, {false, false}, {false, false}}, Def: []bool{true, false, true}}
	sc := cellSpec{Cons: "instanceof", Obj: 2, T: &tref{true, 0}, K: -1}
	c.Sample(map[string]any{"graph": g.describe(sc), "expect": g.expect(sc, generic), "program": g.source(generic, false, []cellSpec{sc, {Cons: "parent", Obj: 2, K: 2}})})
	c.Assume("objects are made throwable by letting the root classes extend Exception (constructed with a message argument)")
	c.Assume("a call with no reachable definition may fail in any catchable way; `like` targets declare their methods directly; overrides in the `like` chain keep the arity")
	c.Assume("graphs beyond 4 classes / 3 interfaces, traits, enums, abstract classes, namespaces and autoloaded classes are outside the bound")
	if os.Getenv("C08_BT_ONLY") != "" {
		outcomes["instanceof/y/y"], outcomes["instanceof/n/n"], outcomes["catch/y/y"], outcomes["parent/def/def"] = 1, 1, 1, 1
	}
	if outcomes["instanceof/y/y"] == 0 || outcomes["instanceof/n/n"] == 0 || outcomes["catch/y/y"] == 0 || outcomes["parent/def/def"] == 0 {
		c.HarnessError("vacuous: the basic constructs never produced a conforming positive and negative answer")
	}
	if outcomes["bt-catch/y/y"] == 0 || outcomes["bt-catch/n/n"] == 0 || outcomes["bt-param/n/n"] == 0 {
		c.HarnessError("vacuous: the built-in throwable family never produced a conforming positive and negative answer")
	}
	c.Finish(graphs, runs, cells, bound+"; like: see like_* keys in coverage")
}

func replay(c *ev.Check) {
	var cs caseDesc
	key, err := ev.LoadReplay(c.Replay, &cs)
	if err != nil {
		fmt.Println("replay:", err)
		os.Exit(2)
	}
	st := &stats{outcomes: map[string]int64{}}
	if cs.Family == "like-nominal" {
		want, got, script := evalNominal(st, *cs.Nominal, "L")
		fmt.Println(script)
		fmt.Printf("want=%v got=%s\n", want, got)
		if nominalVerdict(want, got) != "" {
			c.Fail(key, "like", 0, cs, fmt.Sprintf("want=%v got=%s", want, got))
		}
		c.Finish(1, st.runs, 1, "replay")
		return
	}
	if cs.Family == "bt" {
		want, got, script := btEval(st, *cs.BT)
		fmt.Println(script)
		fmt.Printf("want=%s got=%s\n", want, got)
		if _, v := btVerdict(*cs.BT, got); v != "" {
			c.Fail(key, cs.BT.Cons+":"+v, 0, cs, fmt.Sprintf("want=%s got=%s", want, got))
		}
		c.Finish(1, st.runs, 1, "replay")
		return
	}
	if cs.Family == "like" {
		want, got, script := evalLike(st, *cs.Like)
		fmt.Println(script)
		fmt.Printf("want=%v got=%s\n", want, got)
		if likeVerdict(want, got) != "" {
			c.Fail(key, "like", 0, cs, fmt.Sprintf("want=%v got=%s", want, got))
		}
		c.Finish(1, st.runs, 1, "replay")
		return
	}
	n := generic
	want, got, script, _ := evalCellMode(st, cs.G, *cs.Cell, cs.Throwable, n, cs.Full)
	fmt.Println(script)
	fmt.Printf("want=%s got=%s\n", want, got)
	if v := verdict(want, got); v != "" {
		c.Fail(key, cs.Cell.Cons+":"+v, 0, cs, fmt.Sprintf("want=%s got=%s", want, got))
	}
	c.Finish(1, st.runs, 1, "replay")
}

// bench (development aid, decides nothing): CPU seconds of the script runs per family and form,
// measured on every 16th graph of the family and scaled up.
func bench() {
	cpu := func() float64 {
		var ru syscall.Rusage
		syscall.Getrusage(syscall.RUSAGE_SELF, &ru)
		return float64(ru.Utime.Sec) + float64(ru.Utime.Usec)/1e6 + float64(ru.Stime.Sec) + float64(ru.Stime.Usec)/1e6
	}
	st := &stats{outcomes: map[string]int64{}}
	n := generic
	for _, fam := range [][3]int{{1, 2, 1}, {2, 2, 1}, {4, 0, 1}, {2, 3, 0}, {3, 2, 1}} {
		nc, ni := fam[0], fam[1]
		tot := map[string]float64{}
		cnt, k := 0, 0
		for _, parent := range forests(nc) {
			for _, iext := range ifaceGraphs(ni) {
				for im := 0; im < 1<<(nc*ni); im++ {
					dms := []int{1<<nc - 1}
					if fam[2] == 1 {
						dms = nil
						for d := 0; d < 1<<nc; d++ {
							dms = append(dms, d)
						}
					}
					for _, dm := range dms {
						cnt++
						if k++; k%16 != 0 {
							continue
						}
						g := &graph{Parent: parent, IExt: iext}
						for c := 0; c < nc; c++ {
							row := make([]bool, ni)
							for i := 0; i < ni; i++ {
								row[i] = im&(1<<(c*ni+i)) != 0
							}
							g.Impl = append(g.Impl, row)
							g.Def = append(g.Def, dm&(1<<c) != 0)
						}
						meas := func(name string, h *graph, thr bool) {
							t0 := cpu()
							st.run(h.source(n, thr, h.cells(thr)))
							tot[name] += cpu() - t0
							tot[name+"#cells"] += float64(len(h.cells(thr)))
						}
						meas("named/plain", g, false)
						meas("named/throwable", g, true)
						h := g.clone()
						h.AnonK = nc
						meas("anon/plain", h, false)
						meas("anon/throwable", h, true)
						h1 := g.clone()
						h1.NS = 1
						meas("ns1/plain", h1, false)
						meas("ns1/throwable", h1, true)
					}
				}
			}
		}
		fmt.Printf("family %dx%d: %d graphs\n", nc, ni, cnt)
		for _, k := range []string{"named/plain", "named/throwable", "anon/plain", "anon/throwable", "ns1/plain", "ns1/throwable"} {
			fmt.Printf("  %-16s %7.1f CPU-s for the family, %9.0f cells\n", k, tot[k]*16, tot[k+"#cells"]*16)
		}
	}
}
