package main

// Family "bt": the built-in throwable hierarchy as part of the graph, and user classes whose
// names collide with built-in throwable names inside a namespace.
//
// A program = up to U user classes (in `namespace Lib;` or global), each with a name from a pool
// (Exception, Error, Throwable, RuntimeException, LogicException, TypeError, Zed in the namespace;
// non-colliding names globally) and a parent: none, an earlier user class, or one of the built-ins
// \Exception, \RuntimeException, \LogicException, \InvalidArgumentException. Objects: every user
// class and every built-in. Types: every user class (unqualified and fully qualified), every
// built-in and \Throwable (qualified), and the name \Error, which origami does not declare
// (nothing is an instance of it). Constructs: instanceof, T-typed parameter of a function
// and of a closure; for throwable objects catch (T), instanceof and parameter on the caught value.
// Reference: T is on the object's parent chain (user part, then built-in part), or T is \Throwable
// and the chain reaches a built-in.

import (
	"encoding/json"
	"fmt"
	"strings"

	"verif/engine/ev"
	"verif/engine/pool"
)

type btBuiltin struct {
	name   string
	parent int
}

var btBuiltins = []btBuiltin{{"Exception", -1}, {"RuntimeException", 0}, {"LogicException", 0}, {"InvalidArgumentException", 2}}
var btUndeclared = []string{"Error"} // (TypeError is not declared either: as a user class name it is just another name)
var btNamesNS = []string{"Exception", "Error", "Throwable", "RuntimeException", "LogicException", "TypeError", "Zed"}
var btNamesGlobal = []string{"Zed", "Yak", "Wolf"}

const btParentBuiltin = 100 // Parent = btParentBuiltin + index of the built-in

type btUser struct {
	Name   string `json:"name"`
	Parent int    `json:"parent"` // -1 none, < len(users): earlier user class, >= 100: built-in
}

type btRef struct {
	Kind string `json:"kind"` // user | builtin | throwable | undeclared
	Idx  int    `json:"idx"`
	Qual bool   `json:"qualified,omitempty"` // user types: spelled \Lib\Name instead of Name
}

type btProg struct {
	NS    bool     `json:"ns"`
	Users []btUser `json:"users"`
}

type btCase struct {
	P    btProg `json:"prog"`
	Cons string `json:"cons"`
	Obj  btRef  `json:"obj"`
	T    btRef  `json:"type"`
}

var btCons = []struct {
	name   string
	thrown bool
}{{"instanceof", false}, {"param", false}, {"param-closure", false}, {"catch", true}, {"instanceof-caught", true}, {"param-caught", true}}

// ---- reference -------------------------------------------------------------------------------------

// chain of obj: user indices (nearest first), then built-in indices
func (p *btProg) chain(o btRef) (users []int, builtins []int) {
	b := -1
	if o.Kind == "user" {
		x := o.Idx
		for {
			users = append(users, x)
			pa := p.Users[x].Parent
			if pa >= btParentBuiltin {
				b = pa - btParentBuiltin
				break
			}
			if pa < 0 {
				break
			}
			x = pa
		}
	} else {
		b = o.Idx
	}
	for ; b >= 0; b = btBuiltins[b].parent {
		builtins = append(builtins, b)
	}
	return
}

func (p *btProg) throwable(o btRef) bool {
	_, b := p.chain(o)
	return len(b) > 0
}

func (p *btProg) isA(o, t btRef) bool {
	us, bs := p.chain(o)
	switch t.Kind {
	case "user":
		for _, u := range us {
			if u == t.Idx {
				return true
			}
		}
	case "builtin":
		for _, b := range bs {
			if b == t.Idx {
				return true
			}
		}
	case "throwable":
		return len(bs) > 0
	}
	return false
}

func (p *btProg) objects() []btRef {
	var o []btRef
	for i := range p.Users {
		o = append(o, btRef{Kind: "user", Idx: i})
	}
	for b := range btBuiltins {
		o = append(o, btRef{Kind: "builtin", Idx: b})
	}
	return o
}

func (p *btProg) types() []btRef {
	var t []btRef
	for i := range p.Users {
		t = append(t, btRef{Kind: "user", Idx: i}, btRef{Kind: "user", Idx: i, Qual: true})
	}
	for b := range btBuiltins {
		t = append(t, btRef{Kind: "builtin", Idx: b})
	}
	t = append(t, btRef{Kind: "throwable"})
	for u := range btUndeclared {
		t = append(t, btRef{Kind: "undeclared", Idx: u})
	}
	return t
}

func (p *btProg) cases() []btCase {
	var out []btCase
	for _, o := range p.objects() {
		thr := p.throwable(o)
		for _, c := range btCons {
			if c.thrown && !thr {
				continue
			}
			for _, t := range p.types() {
				out = append(out, btCase{P: *p, Cons: c.name, Obj: o, T: t})
			}
		}
	}
	return out
}

// ---- rendering ---------------------------------------------------------------------------------------

func (p *btProg) full(name string) string {
	if p.NS {
		return `Lib\` + name
	}
	return name
}

// spelling of a type at a check site
func (p *btProg) spell(t btRef) string {
	switch t.Kind {
	case "user":
		if t.Qual {
			return `\` + p.full(p.Users[t.Idx].Name)
		}
		return p.Users[t.Idx].Name
	case "builtin":
		return `\` + btBuiltins[t.Idx].name
	case "throwable":
		return `\Throwable`
	}
	return `\` + btUndeclared[t.Idx]
}

// human description of a class reference
func (p *btProg) desc(t btRef) string {
	switch t.Kind {
	case "user":
		s := p.full(p.Users[t.Idx].Name)
		if t.Qual {
			s += "(qualified ref)"
		}
		return s
	case "builtin":
		return `\` + btBuiltins[t.Idx].name
	case "throwable":
		return `\Throwable`
	}
	return `\` + btUndeclared[t.Idx] + "(not declared)"
}

func (p *btProg) describe() string {
	var parts []string
	for _, u := range p.Users {
		s := p.full(u.Name)
		switch {
		case u.Parent >= btParentBuiltin:
			s += `<\` + btBuiltins[u.Parent-btParentBuiltin].name
		case u.Parent >= 0:
			s += "<" + p.full(p.Users[u.Parent].Name)
		}
		parts = append(parts, s)
	}
	return "{" + strings.Join(parts, "; ") + "}"
}

func btID(ci int) string { return fmt.Sprintf("b%d", ci) }

func (p *btProg) tIndex(t btRef) int {
	for i, x := range p.types() {
		if x == t {
			return i
		}
	}
	return -1
}

func (p *btProg) source(cases []btCase) string {
	var sb strings.Builder
	if p.NS {
		sb.WriteString("namespace Lib;\n")
	}
	for _, u := range p.Users {
		sb.WriteString("class " + u.Name)
		switch {
		case u.Parent >= btParentBuiltin:
			sb.WriteString(` extends \` + btBuiltins[u.Parent-btParentBuiltin].name)
		case u.Parent >= 0:
			sb.WriteString(" extends " + p.Users[u.Parent].Name)
		}
		sb.WriteString(" {}\n")
	}
	// typed functions / closures after the classes (see notes: forward references in a namespace)
	for i, t := range p.types() {
		fmt.Fprintf(&sb, "function acc_t%d(%s $x) { return \"y\"; }\n", i, p.spell(t))
		fmt.Fprintf(&sb, "$cl_t%d = function (%s $x) { return \"y\"; };\n", i, p.spell(t))
	}
	for ci, c := range cases {
		var o string
		switch {
		case c.Obj.Kind == "builtin":
			o = `new \` + btBuiltins[c.Obj.Idx].name + `("m")`
		case p.throwable(c.Obj):
			o = "new " + p.Users[c.Obj.Idx].Name + `("m")`
		default:
			o = "new " + p.Users[c.Obj.Idx].Name + "()"
		}
		tn, ti := p.spell(c.T), p.tIndex(c.T)
		var body string
		switch c.Cons {
		case "instanceof":
			body = fmt.Sprintf("$o = %s; $r = ($o instanceof %s) ? \"y\" : \"n\";", o, tn)
		case "param":
			body = fmt.Sprintf("$o = %s; $r = \"n\"; try { $r = acc_t%d($o); } catch (\\Throwable $te) { $r = \"n\"; }", o, ti)
		case "param-closure":
			body = fmt.Sprintf("$o = %s; $r = \"n\"; try { $r = $cl_t%d($o); } catch (\\Throwable $te) { $r = \"n\"; }", o, ti)
		case "catch":
			body = fmt.Sprintf("$r = \"?\"; try { throw %s; } catch (%s $ce) { $r = \"y\"; } catch (\\Throwable $ce) { $r = \"n\"; }", o, tn)
		case "instanceof-caught":
			body = fmt.Sprintf("$r = \"?\"; try { throw %s; } catch (\\Throwable $ce) { $r = ($ce instanceof %s) ? \"y\" : \"n\"; }", o, tn)
		case "param-caught":
			body = fmt.Sprintf("$r = \"?\"; try { throw %s; } catch (\\Throwable $ce) { try { $r = acc_t%d($ce); } catch (\\Throwable $te) { $r = \"n\"; } }", o, ti)
		}
		fmt.Fprintf(&sb, "echo \"@@%s@@\"; try { %s echo $r; } catch (\\Throwable $e) { echo \"E|\", get_class($e), \"|\", $e->getMessage(); }\n", btID(ci), body)
	}
	sb.WriteString("echo \"@@END@@\";\n")
	return sb.String()
}

// btVerdict: "" when got satisfies the reference
func btVerdict(c btCase, got string) (want string, v string) {
	want = "n"
	if c.P.isA(c.Obj, c.T) {
		want = "y"
	}
	if got == "crash" || got == "missing" || got == "hang" {
		return want, got
	}
	if got == want {
		return want, ""
	}
	if c.T.Kind == "undeclared" && got == "error" {
		// naming a class that does not exist may fail instead of answering no
		return want, ""
	}
	return want, "mismatch"
}

func btEval(st *stats, c btCase) (want, got, script string) {
	script = c.P.source([]btCase{c})
	res := st.run(script)
	out, _ := parseOut(res.Out)
	v, ok := out[btID(0)]
	got = norm(v, ok)
	if res.Kind == "panic" {
		got = "crash"
	}
	if res.Kind == "fuel" && !ok {
		got = "hang"
	}
	want, _ = btVerdict(c, got)
	return
}

// ---- reduction ---------------------------------------------------------------------------------------

func (p btProg) clone() btProg {
	return btProg{NS: p.NS, Users: append([]btUser{}, p.Users...)}
}

// btRemoveUser drops user class x (children are spliced onto its parent); nil if x is obj or type
func btRemoveUser(c btCase, x int) *btCase {
	if (c.Obj.Kind == "user" && c.Obj.Idx == x) || (c.T.Kind == "user" && c.T.Idx == x) {
		return nil
	}
	d := btCase{Cons: c.Cons, Obj: c.Obj, T: c.T, P: btProg{NS: c.P.NS}}
	mp := func(i int) int {
		if i > x {
			return i - 1
		}
		return i
	}
	for i, u := range c.P.Users {
		if i == x {
			continue
		}
		if u.Parent == x {
			u.Parent = c.P.Users[x].Parent
		}
		if u.Parent >= 0 && u.Parent < btParentBuiltin {
			u.Parent = mp(u.Parent)
		}
		d.P.Users = append(d.P.Users, u)
	}
	if d.Obj.Kind == "user" {
		d.Obj.Idx = mp(d.Obj.Idx)
	}
	if d.T.Kind == "user" {
		d.T.Idx = mp(d.T.Idx)
	}
	return &d
}

func btReduce(st *stats, c btCase) btCase {
	w0, g0, _ := btEval(st, c)
	if _, v := btVerdict(c, g0); v == "" {
		return c
	}
	same := func(d btCase) bool {
		w, g, _ := btEval(st, d)
		return w == w0 && g == g0
	}
	for changed := true; changed; {
		changed = false
		for x := len(c.P.Users) - 1; x >= 0 && !changed; x-- {
			if d := btRemoveUser(c, x); d != nil && same(*d) {
				c, changed = *d, true
			}
		}
		// the object one step up its chain
		if !changed {
			d := c
			d.P = c.P.clone()
			ok := false
			if c.Obj.Kind == "user" {
				pa := c.P.Users[c.Obj.Idx].Parent
				if pa >= btParentBuiltin {
					d.Obj, ok = btRef{Kind: "builtin", Idx: pa - btParentBuiltin}, true
				} else if pa >= 0 {
					d.Obj, ok = btRef{Kind: "user", Idx: pa}, true
				}
			} else if pb := btBuiltins[c.Obj.Idx].parent; pb >= 0 {
				d.Obj, ok = btRef{Kind: "builtin", Idx: pb}, true
			}
			if ok && same(d) {
				c, changed = d, true
			}
		}
		// a user class detached from its parent / moved up to the parent's parent
		for i := 0; i < len(c.P.Users) && !changed; i++ {
			pa := c.P.Users[i].Parent
			var cands []int
			if pa >= btParentBuiltin {
				if pb := btBuiltins[pa-btParentBuiltin].parent; pb >= 0 {
					cands = append(cands, btParentBuiltin+pb)
				}
			}
			if pa >= 0 {
				cands = append(cands, -1)
			}
			for _, np := range cands {
				d := c
				d.P = c.P.clone()
				d.P.Users[i].Parent = np
				thrownCons := c.Cons == "catch" || c.Cons == "instanceof-caught" || c.Cons == "param-caught"
				if (!thrownCons || d.P.throwable(d.Obj)) && same(d) {
					c, changed = d, true
					break
				}
			}
		}
		// names that collide with nothing
		for i := 0; i < len(c.P.Users) && !changed; i++ {
			for _, nn := range btNamesGlobal {
				if c.P.Users[i].Name == nn {
					break
				}
				taken := false
				for _, u := range c.P.Users {
					if u.Name == nn {
						taken = true
					}
				}
				if taken {
					continue
				}
				d := c
				d.P = c.P.clone()
				d.P.Users[i].Name = nn
				if same(d) {
					c, changed = d, true
				}
				break
			}
		}
		if !changed && c.T.Qual {
			d := c
			d.T.Qual = false
			if same(d) {
				c, changed = d, true
			}
		}
		if !changed && c.P.NS {
			coll := false
			for _, u := range c.P.Users {
				for _, b := range btBuiltins {
					if u.Name == b.name {
						coll = true
					}
				}
				for _, nm := range btUndeclared {
					if u.Name == nm {
						coll = true // global, a class of that name IS the built-in name
					}
				}
				if u.Name == "Throwable" {
					coll = true
				}
			}
			if !coll {
				d := c
				d.P = c.P.clone()
				d.P.NS = false
				if same(d) {
					c, changed = d, true
				}
			}
		}
	}
	return c
}

func btKey(c btCase, want, got string) string {
	return fmt.Sprintf("bt-%s: %s obj=%s type=%s want=%s got=%s", c.Cons, c.P.describe(), c.P.desc(c.Obj), c.P.desc(c.T), want, got)
}

// ---- enumeration -------------------------------------------------------------------------------------

func btPrograms(u int, ns bool) []btProg {
	pool := btNamesGlobal
	if ns {
		pool = btNamesNS
	}
	var out []btProg
	var rec func(cur []btUser)
	rec = func(cur []btUser) {
		if len(cur) > 0 {
			out = append(out, btProg{NS: ns, Users: append([]btUser{}, cur...)})
		}
		if len(cur) == u {
			return
		}
		for ni, nm := range pool {
			used := false
			for _, x := range cur {
				if x.Name == nm {
					used = true
				}
			}
			if used {
				continue
			}
			if !ns && ni != len(cur) {
				continue // global names do not matter: Zed, Yak, Wolf in this order
			}
			var parents []int
			parents = append(parents, -1)
			for i := range cur {
				parents = append(parents, i)
			}
			for b := range btBuiltins {
				parents = append(parents, btParentBuiltin+b)
			}
			for _, pa := range parents {
				rec(append(append([]btUser{}, cur...), btUser{Name: nm, Parent: pa}))
			}
		}
	}
	rec(nil)
	return out
}

func btAll(u int) []btProg {
	return append(btPrograms(u, true), btPrograms(u, false)...)
}

type btArg struct {
	U        int
	From, To int
}

func btWorker(w *pool.W, arg json.RawMessage) {
	var a btArg
	json.Unmarshal(arg, &a)
	st := &stats{outcomes: map[string]int64{}}
	progs := btAll(a.U)
	seen := map[string]bool{}
	for i := a.From; i < a.To && i < len(progs); i++ {
		if !w.Item(fmt.Sprintf("bt/%d/%d", a.U, i)) {
			continue
		}
		p := progs[i]
		st.graphs++
		cases := p.cases()
		res := st.run(p.source(cases))
		out, ended := parseOut(res.Out)
		for ci, c := range cases {
			st.cells++
			v, ok := out[btID(ci)]
			got := norm(v, ok)
			if !ok && !ended {
				st.outcomes["~cells-run-alone-after-aborted-batch"]++
				_, got, _ = btEval(st, c)
			}
			want, vd := btVerdict(c, got)
			st.outcomes["bt-"+c.Cons+"/"+want+"/"+got]++
			if vd == "" {
				continue
			}
			_, bs := p.chain(c.Obj)
			sig := fmt.Sprintf("%s|%s|%s|%s|%s|%v|%d", c.Cons, want, got, c.Obj.Kind, c.T.Kind, c.T.Qual, len(bs))
			if c.T.Kind == "user" {
				sig += "|" + p.Users[c.T.Idx].Name
			}
			if seen[sig] {
				continue
			}
			seen[sig] = true
			r := btReduce(st, c)
			rw, rg, script := btEval(st, r)
			if _, v := btVerdict(r, rg); v == "" {
				// conforms alone: history-dependent; report the first observation unreduced
				key := "bt-" + c.Cons + ": unstable answer " + sig
				if !seen[key] {
					seen[key] = true
					cc := c
					w.Emit(rec{Kind: "fail", Key: key, Clause: c.Cons + ":" + vd, Size: 1 << 20, Case: caseDesc{Family: "bt", BT: &cc, Script: p.source(cases), Want: want, Got: got},
						Detail: "NOT STABLE ACROSS RE-RUNS: fails in the batch script of " + p.describe() + ", conforms when the cell runs alone"})
				}
				continue
			}
			key := btKey(r, rw, rg)
			if seen[key] {
				continue
			}
			seen[key] = true
			rr := r
			w.Emit(rec{Kind: "fail", Key: key, Clause: r.Cons + ":" + vd, Size: len(script), Case: caseDesc{Family: "bt", BT: &rr, Script: script, Want: rw, Got: rg},
				Detail: fmt.Sprintf("construct %s, classes %s (namespace Lib: %v), object %s, type spelled %s\nreference (parent chain through user and built-in classes): %s; origami: %s", r.Cons, r.P.describe(), r.P.NS, r.P.desc(r.Obj), r.P.spell(r.T), rw, rg)})
		}
	}
	w.Emit(rec{Kind: "count", N: st.cells, Runs: st.runs, Graphs: st.graphs, Outcomes: st.outcomes})
}

func btShards(c *ev.Check, shards *[]pool.Shard) {
	u := 2
	if !c.Quick() {
		u = 3
	}
	n := len(btAll(u))
	step := (n + 63) / 64
	for i := 0; i < n; i += step {
		*shards = append(*shards, pool.Shard{Kind: "bt", Arg: btArg{U: u, From: i, To: i + step}})
	}
	c.Set("bt_programs", n)
	c.Set("bt_user_classes_max", u)
	c.Set("bt_builtins", "Throwable; Exception; RuntimeException<Exception; LogicException<Exception; InvalidArgumentException<LogicException; not declared: Error")
}
