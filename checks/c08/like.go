package main

// `like`: all pairs (object method table over a 2-level chain) x (target signature).

import (
	"encoding/json"
	"fmt"
	"strings"

	"verif/engine/ev"
	"verif/engine/pool"
)

var likeMethods = []string{"za", "zb", "zc"}

type likeCase struct {
	Base   []int `json:"base"`   // per method: -1 absent, else arity (declared in the base class)
	Obj    []int `json:"obj"`    // per method: -1 absent, else arity (declared in the object's class)
	Target []int `json:"target"` // per method: -1 absent, else arity
	TIface bool  `json:"target_is_interface"`
	Anon   bool  `json:"obj_anonymous,omitempty"` // the object's class is an anonymous class extending Base
}

func likeWant(c likeCase) bool {
	for m, a := range c.Target {
		if a < 0 {
			continue
		}
		p := c.Obj[m]
		if p < 0 {
			p = c.Base[m]
		}
		if p != a {
			return false
		}
	}
	return true
}

func params(n int) string {
	var p []string
	for i := 0; i < n; i++ {
		p = append(p, fmt.Sprintf("$p%d", i+1))
	}
	return strings.Join(p, ", ")
}

func classBody(ar []int, owner string) string {
	var sb strings.Builder
	for m, a := range ar {
		if a >= 0 {
			fmt.Fprintf(&sb, " public function %s(%s) { return \"%s\"; }", likeMethods[m], params(a), owner)
		}
	}
	return sb.String()
}

func ifaceBody(ar []int) string {
	var sb strings.Builder
	for m, a := range ar {
		if a >= 0 {
			fmt.Fprintf(&sb, " public function %s(%s);", likeMethods[m], params(a))
		}
	}
	return sb.String()
}

// likeScript: one object configuration against a list of targets.
func likeScript(base, obj []int, targets [][]int, pfx string) string {
	var sb strings.Builder
	fmt.Fprintf(&sb, "class %sBase {%s }\n", pfx, classBody(base, "base"))
	fmt.Fprintf(&sb, "class %sObj extends %sBase {%s }\n", pfx, pfx, classBody(obj, "obj"))
	for i, t := range targets {
		fmt.Fprintf(&sb, "class %sTC%d {%s }\n", pfx, i, classBody(t, "t"))
		fmt.Fprintf(&sb, "interface %sTI%d {%s }\n", pfx, i, ifaceBody(t))
	}
	fmt.Fprintf(&sb, "$o = new %sObj();\n", pfx)
	// the same method table on an anonymous class (not registered under a name)
	fmt.Fprintf(&sb, "$a = new class extends %sBase {%s };\n", pfx, classBody(obj, "obj"))
	for i := range targets {
		for _, k := range []string{"TC", "TI"} {
			fmt.Fprintf(&sb, "echo \"@@%s%d@@\"; try { echo ($o like %s%s%d) ? \"y\" : \"n\"; } catch (Throwable $e) { echo \"E|\", get_class($e), \"|\", $e->getMessage(); }\n", k, i, pfx, k, i)
			fmt.Fprintf(&sb, "echo \"@@A%s%d@@\"; try { echo ($a like %s%s%d) ? \"y\" : \"n\"; } catch (Throwable $e) { echo \"E|\", get_class($e), \"|\", $e->getMessage(); }\n", k, i, pfx, k, i)
		}
	}
	sb.WriteString("echo \"@@END@@\";\n")
	return sb.String()
}

func likeVerdict(want bool, got string) string {
	w := "n"
	if want {
		w = "y"
	}
	if got == w {
		return ""
	}
	if got == "crash" || got == "missing" {
		return got
	}
	return "mismatch"
}

func evalLike(st *stats, c likeCase) (bool, string, string) {
	script := likeScript(c.Base, c.Obj, [][]int{c.Target}, "L")
	res := st.run(script)
	out, _ := parseOut(res.Out)
	tag := "TC0"
	if c.TIface {
		tag = "TI0"
	}
	if c.Anon {
		tag = "A" + tag
	}
	v, ok := out[tag]
	got := norm(v, ok)
	if res.Kind == "panic" {
		got = "crash"
	}
	return likeWant(c), got, script
}

func tuples(n int, vals []int) [][]int {
	out := [][]int{{}}
	for i := 0; i < n; i++ {
		var nx [][]int
		for _, t := range out {
			for _, v := range vals {
				nx = append(nx, append(append([]int{}, t...), v))
			}
		}
		out = nx
	}
	return out
}

// objConfigs: per method (base, obj) in {absent, base only, obj only, both with the same arity}
func objConfigs(m int) [][2][]int {
	type pr struct{ b, o int }
	var opts []pr
	opts = append(opts, pr{-1, -1})
	for a := 0; a <= 2; a++ {
		opts = append(opts, pr{a, -1}, pr{-1, a}, pr{a, a})
	}
	out := [][2][]int{{{}, {}}}
	for i := 0; i < m; i++ {
		var nx [][2][]int
		for _, t := range out {
			for _, o := range opts {
				nx = append(nx, [2][]int{append(append([]int{}, t[0]...), o.b), append(append([]int{}, t[1]...), o.o)})
			}
		}
		out = nx
	}
	return out
}

func fmtSig(ar []int) string {
	var p []string
	for m, a := range ar {
		if a >= 0 {
			p = append(p, fmt.Sprintf("%s/%d", likeMethods[m], a))
		}
	}
	return "{" + strings.Join(p, ",") + "}"
}

// reduceLike drops methods while the verdict stays the same, then renames the remaining
// methods in order.
func reduceLike(st *stats, c likeCase) likeCase {
	w0, g0, _ := evalLike(st, c)
	target := fmt.Sprint(w0, g0)
	cp := func(c likeCase) likeCase {
		return likeCase{append([]int{}, c.Base...), append([]int{}, c.Obj...), append([]int{}, c.Target...), c.TIface, c.Anon}
	}
	// is the anonymous class needed? if not, this is the finding of the named family
	if c.Anon {
		d := cp(c)
		d.Anon = false
		if w, g, _ := evalLike(st, d); fmt.Sprint(w, g) == target && likeVerdict(w, g) != "" {
			c = d
		}
	}
	for changed := true; changed; {
		changed = false
		for _, sel := range []int{0, 1, 2} {
			for m := range c.Target {
				d := cp(c)
				arr := [][]int{d.Base, d.Obj, d.Target}[sel]
				if arr[m] < 0 {
					continue
				}
				arr[m] = -1
				w, g, _ := evalLike(st, d)
				if fmt.Sprint(w, g) == target && likeVerdict(w, g) != "" {
					c, changed = d, true
				}
			}
		}
	}
	// interface target -> class target, arities lowered consistently, while it keeps failing
	if c.TIface {
		d := cp(c)
		d.TIface = false
		if w, g, _ := evalLike(st, d); fmt.Sprint(w, g) == target && likeVerdict(w, g) != "" {
			c = d
		}
	}
	for m := range c.Target {
		for lowered := true; lowered; {
			lowered = false
			d := cp(c)
			ok := true
			for _, arr := range [][]int{d.Base, d.Obj, d.Target} {
				if arr[m] == 0 {
					ok = false
				}
			}
			if !ok {
				break
			}
			any := false
			for _, arr := range [][]int{d.Base, d.Obj, d.Target} {
				if arr[m] > 0 {
					arr[m]--
					any = true
				}
			}
			if !any {
				break
			}
			if w, g, _ := evalLike(st, d); fmt.Sprint(w, g) == target && likeVerdict(w, g) != "" {
				c, lowered = d, true
			}
		}
	}
	// compact: move used methods to the front
	var used []int
	for m := range c.Target {
		if c.Base[m] >= 0 || c.Obj[m] >= 0 || c.Target[m] >= 0 {
			used = append(used, m)
		}
	}
	d := likeCase{TIface: c.TIface, Anon: c.Anon}
	for range c.Target {
		d.Base, d.Obj, d.Target = append(d.Base, -1), append(d.Obj, -1), append(d.Target, -1)
	}
	for i, m := range used {
		d.Base[i], d.Obj[i], d.Target[i] = c.Base[m], c.Obj[m], c.Target[m]
	}
	return d
}

type likeArg struct {
	M        int
	From, To int
	Seed     int64
}

func likeWorker(w *pool.W, arg json.RawMessage) {
	var a likeArg
	json.Unmarshal(arg, &a)
	st := &stats{outcomes: map[string]int64{}}
	cfgs := objConfigs(a.M)
	targets := tuples(a.M, []int{-1, 0, 1, 2})
	pad := func(x []int) []int {
		for len(x) < len(likeMethods) {
			x = append(x, -1)
		}
		return x
	}
	seen := map[string]bool{}
	pfx := namesOf(a.Seed).cpfx
	for i := a.From; i < a.To && i < len(cfgs); i++ {
		if !w.Item(fmt.Sprintf("like/%d/%d", a.M, i)) {
			continue
		}
		base, obj := cfgs[i][0], cfgs[i][1]
		res := st.run(likeScript(base, obj, targets, pfx))
		out, _ := parseOut(res.Out)
		for ti, t := range targets {
			for q := 0; q < 4; q++ { // named obj x {class, interface} target, then the anonymous obj
				isI, anon := q%2 == 1, q >= 2
				st.cells++
				tag := fmt.Sprintf("TC%d", ti)
				if isI {
					tag = fmt.Sprintf("TI%d", ti)
				}
				if anon {
					tag = "A" + tag
				}
				c := likeCase{pad(append([]int{}, base...)), pad(append([]int{}, obj...)), pad(append([]int{}, t...)), isI, anon}
				v, ok := out[tag]
				got := norm(v, ok)
				want := likeWant(c)
				st.outcomes[fmt.Sprintf("like/%v/%s", want, got)]++
				if likeVerdict(want, got) == "" {
					continue
				}
				// cheap pre-dedup: which tables carry the deciding method
				sig := fmt.Sprintf("%v|%s|%v|%v", want, got, isI, anon)
				for m, ta := range c.Target {
					if ta >= 0 {
						sig += fmt.Sprintf("|%v%v", c.Base[m] >= 0, c.Obj[m] >= 0)
					}
				}
				if seen[sig] {
					continue
				}
				seen[sig] = true
				r := reduceLike(st, c)
				rw, rg, script := evalLike(st, r)
				if likeVerdict(rw, rg) == "" {
					// history-dependent answer: still a violation, under the first observation
					key := fmt.Sprintf("like: unstable answer want=%v got=%s (%s)", want, got, sig)
					if !seen[key] {
						seen[key] = true
						cc := c
						w.Emit(rec{Kind: "fail", Key: key, Clause: "like", Size: 1 << 20, Case: caseDesc{Family: "like", Like: &cc}, Detail: "NOT STABLE ACROSS RE-RUNS: `like` answered " + got + " in the batch script and conforms when the pair runs alone"})
					}
					continue
				}
				tk := "class"
				if r.TIface {
					tk = "interface"
				}
				ok2 := "obj"
				if r.Anon {
					ok2 = "obj(anonymous)"
				}
				key := fmt.Sprintf("like: base%s %s%s target-%s%s want=%v got=%s", fmtSig(r.Base), ok2, fmtSig(r.Obj), tk, fmtSig(r.Target), map[bool]string{true: "y", false: "n"}[rw], rg)
				if seen[key] {
					continue
				}
				seen[key] = true
				rr := r
				w.Emit(rec{Kind: "fail", Key: key, Clause: "like", Size: len(script), Case: caseDesc{Family: "like", Like: &rr, Script: script}, Detail: fmt.Sprintf("object of class Obj extends Base; Base declares %s, Obj declares %s; `$o like T` with T a %s declaring %s\nreference: %v; origami: %s", fmtSig(r.Base), fmtSig(r.Obj), tk, fmtSig(r.Target), rw, rg)})
			}
		}
	}
	w.Emit(rec{Kind: "count", N: st.cells, Runs: st.runs, Outcomes: st.outcomes})
}

func likeShards(c *ev.Check, shards *[]pool.Shard) {
	m := 2
	if !c.Quick() {
		m = 3
	}
	n := len(objConfigs(m))
	step := (n + 63) / 64
	for i := 0; i < n; i += step {
		*shards = append(*shards, pool.Shard{Kind: "like", Arg: likeArg{M: m, From: i, To: i + step, Seed: c.Seed}})
	}
	nn := len(allNominal(m))
	nstep := (nn + 31) / 32
	for i := 0; i < nn; i += nstep {
		*shards = append(*shards, pool.Shard{Kind: "nominal", Arg: likeArg{M: m, From: i, To: i + nstep, Seed: c.Seed}})
	}
	c.Set("like_nominal_pairs", nn)
	c.Set("like_methods", m)
	c.Set("like_object_tables", n)
	c.Set("like_targets", len(tuples(m, []int{-1, 0, 1, 2}))*2)
	c.Set("like_object_kinds", "class Obj extends Base; anonymous class extends Base (same method table)")
}

// ---- nominal pairs: the object's class extends / implements the target and redeclares methods ----

// nominalCase: target T declares Target[m] parameters for method m (-1 absent); class Obj
// `extends T` (class target) or `implements T` (interface target) and redeclares method m with
// Obj[m] parameters (-1: not redeclared - inherited from a class target).
type nominalCase struct {
	Target []int `json:"target"`
	Obj    []int `json:"obj"`
	TIface bool  `json:"target_is_interface"`
}

// paramsOpt: n parameters, those beyond `required` optional (what PHP demands of a wider override)
func paramsOpt(n, required int) string {
	var p []string
	for i := 0; i < n; i++ {
		if i >= required && required >= 0 {
			p = append(p, fmt.Sprintf("$p%d = null", i+1))
		} else {
			p = append(p, fmt.Sprintf("$p%d", i+1))
		}
	}
	return strings.Join(p, ", ")
}

func nominalScript(c nominalCase, pfx string) string {
	var sb strings.Builder
	T, O := pfx+"NT", pfx+"NO"
	if c.TIface {
		fmt.Fprintf(&sb, "interface %s {%s }\n", T, ifaceBody(c.Target))
	} else {
		fmt.Fprintf(&sb, "class %s {%s }\n", T, classBody(c.Target, "t"))
	}
	var body strings.Builder
	for m, a := range c.Obj {
		if a >= 0 {
			fmt.Fprintf(&body, " public function %s(%s) { return \"obj\"; }", likeMethods[m], paramsOpt(a, c.Target[m]))
		}
	}
	rel := "extends"
	if c.TIface {
		rel = "implements"
	}
	fmt.Fprintf(&sb, "class %s %s %s {%s }\n", O, rel, T, body.String())
	fmt.Fprintf(&sb, "echo \"@@N@@\"; try { $o = new %s(); echo ($o like %s) ? \"y\" : \"n\"; } catch (Throwable $e) { echo \"E|\", get_class($e), \"|\", $e->getMessage(); }\n", O, T)
	sb.WriteString("echo \"@@END@@\";\n")
	return sb.String()
}

func nominalWant(c nominalCase) bool {
	for m, t := range c.Target {
		if t < 0 {
			continue
		}
		p := c.Obj[m]
		if p < 0 {
			p = t // inherited unchanged from the class target
		}
		if p != t {
			return false
		}
	}
	return true
}

// evalNominal: got is y / n / error (origami refused the redeclaration or the class: accepted as
// "not like") / crash / missing.
func evalNominal(st *stats, c nominalCase, pfx string) (bool, string, string) {
	script := nominalScript(c, pfx)
	res := st.run(script)
	out, _ := parseOut(res.Out)
	v, ok := out["N"]
	got := norm(v, ok)
	if res.Kind == "panic" {
		got = "crash"
	} else if !ok && (res.Kind == "throw" || res.Kind == "parse") {
		got = "error"
	}
	return nominalWant(c), got, script
}

func nominalVerdict(want bool, got string) string {
	if got == "error" {
		// the override / class was rejected: nothing to compare; only a false "y" is impossible then
		return ""
	}
	return likeVerdict(want, got)
}

func allNominal(m int) []nominalCase {
	var out []nominalCase
	for _, isI := range []bool{false, true} {
		for _, t := range tuples(m, []int{-1, 0, 1, 2}) {
			for _, o := range tuples(m, []int{-1, 0, 1, 2}) {
				ok := true
				for k := range t {
					if isI && t[k] >= 0 && o[k] < 0 {
						ok = false // an implementer must define the interface's methods
					}
				}
				if ok {
					out = append(out, nominalCase{append([]int{}, t...), append([]int{}, o...), isI})
				}
			}
		}
	}
	return out
}

func nominalWorker(w *pool.W, arg json.RawMessage) {
	var a likeArg
	json.Unmarshal(arg, &a)
	st := &stats{outcomes: map[string]int64{}}
	cases := allNominal(a.M)
	pfx := namesOf(a.Seed).cpfx
	seen := map[string]bool{}
	for i := a.From; i < a.To && i < len(cases); i++ {
		if !w.Item(fmt.Sprintf("nominal/%d/%d", a.M, i)) {
			continue
		}
		c := cases[i]
		st.cells++
		want, got, _ := evalNominal(st, c, pfx)
		st.outcomes[fmt.Sprintf("like-nominal/%v/%s", want, got)]++
		if nominalVerdict(want, got) == "" {
			continue
		}
		// reduce: drop methods (from both tables) while the same answer persists; interface -> class
		target := fmt.Sprint(want, got)
		same := func(d nominalCase) bool {
			w2, g2, _ := evalNominal(st, d, "L")
			return fmt.Sprint(w2, g2) == target && nominalVerdict(w2, g2) != ""
		}
		for changed := true; changed; {
			changed = false
			for m := range c.Target {
				if c.Target[m] < 0 && c.Obj[m] < 0 {
					continue
				}
				d := nominalCase{append([]int{}, c.Target...), append([]int{}, c.Obj...), c.TIface}
				d.Target[m], d.Obj[m] = -1, -1
				if same(d) {
					c, changed = d, true
				}
			}
		}
		var parts []string
		for m := range c.Target {
			if c.Target[m] >= 0 || c.Obj[m] >= 0 {
				parts = append(parts, fmt.Sprintf("%d->%d", c.Target[m], c.Obj[m]))
			}
		}
		rel := "extends target-class"
		if c.TIface {
			rel = "implements target-interface"
		}
		_, rg, script := evalNominal(st, c, "L")
		shape := "same parameter counts"
		for m := range c.Target {
			if c.Target[m] >= 0 && c.Obj[m] >= 0 && c.Target[m] != c.Obj[m] {
				shape = "a method redeclared with a different parameter count"
			}
		}
		_ = parts
		key := fmt.Sprintf("like: obj %s, %s want=%s got=%s", rel, shape, map[bool]string{true: "y", false: "n"}[nominalWant(c)], rg)
		if seen[key] {
			continue
		}
		seen[key] = true
		cc := c
		w.Emit(rec{Kind: "fail", Key: key, Clause: "like", Size: len(script), Case: caseDesc{Family: "like-nominal", Nominal: &cc, Script: script},
			Detail: fmt.Sprintf("class NO %s NT; NT declares %s, NO redeclares %s (-1 = not redeclared); `new NO like NT`\nreference (same parameter count for every method NT declares): %v; origami: %s", rel, fmtSig(c.Target), fmtSig(c.Obj), nominalWant(c), rg)})
	}
	w.Emit(rec{Kind: "count", N: st.cells, Runs: st.runs, Outcomes: st.outcomes})
}
