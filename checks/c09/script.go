package main

// Script-level layer of C09: the same producer / consumer / closer roles written as an origami
// script that uses `new Channel(n)`, `spawn(function() use ($ch) {...})` and the script-facing
// methods (channel_methods.go). spawn's `go func(){…}()` is rewritten by govis to vshim.Go, so every
// coroutine is a thread of the controlled scheduler and the interleavings of the *script* are
// explored exactly like those of the Go-level harness. The oracle is the same check().

import (
	"fmt"
	"strings"
	"sync"

	"github.com/php-any/origami/data"
	"github.com/php-any/origami/node"
	"github.com/php-any/origami/parser"
	ort "github.com/php-any/origami/runtime"
	"github.com/php-any/origami/std"
	"github.com/php-any/origami/std/channel"
	"github.com/php-any/origami/utils/vshim"

	"verif/engine/sched"
)

func scriptOf(sc scenario) string {
	var sb strings.Builder
	fmt.Fprintf(&sb, "$ch = new Channel(%d);\n", sc.Cap)
	// "S<k>" roles: producers spawned from ONE closure value, so that all of them execute the very
	// same AST nodes (the same `$ch->send(...)` call site, the same loop); cid() hands each its id
	sharedDone := false
	for i, r := range sc.Roles {
		switch r[0] {
		case 'S', 'G':
			if sharedDone {
				sb.WriteString("spawn($producer);\n")
				continue
			}
			sharedDone = true
			n := int(r[1] - '0')
			// 'G': a second (ignored) argument whose evaluation yields to the scheduler, so that another
			// producer can pass through the same call site between the evaluation of the value and the call
			extra := ""
			if r[0] == 'G' {
				extra = ", cgate()"
			}
			fmt.Fprintf(&sb, "$producer = function() use ($ch) {\n  $id = cid();\n  for ($k = 0; $k < %d; $k++) { cmark($id); $ok = $ch->send($id * 10 + $k%s); csent($id, $id * 10 + $k, $ok); }\n};\nspawn($producer);\n", n, extra)
			_ = i
		case 'P':
			n := int(r[1] - '0')
			fmt.Fprintf(&sb, "spawn(function() use ($ch) {\n")
			for k := 0; k < n; k++ {
				fmt.Fprintf(&sb, "  cmark(%d); $ok = $ch->send(%d); csent(%d, %d, $ok);\n", i, i*10+k, i, i*10+k)
			}
			sb.WriteString("});\n")
		case 'C':
			n := int(r[1] - '0')
			fmt.Fprintf(&sb, "spawn(function() use ($ch) {\n  for ($k = 0; $k < %d; $k++) { $v = $ch->receive(); if ($v === null) { cnull(%d); break; } crecv(%d, $v); }\n});\n", n, i, i)
		case 'X':
			fmt.Fprintf(&sb, "spawn(function() use ($ch) {\n")
			for k := 0; k < len(r); k++ {
				fmt.Fprintf(&sb, "  cmark(%d); $ch->close(); cclosed(%d);\n", i, i)
			}
			sb.WriteString("});\n")
		case 'O':
			fmt.Fprintf(&sb, "spawn(function() use ($ch) {\n  $a = $ch->isClosed(); $l = $ch->len(); $b = $ch->isClosed(); cobs($a, $l, $b);\n});\n")
		}
	}
	sb.WriteString("$drain = function() use ($ch) { $n = $ch->len(); for ($k = 0; $k < $n; $k++) { cdrain($ch->receive()); } return $ch->isClosed(); };\n")
	return sb.String()
}

type scriptState struct {
	*state
	uncaught []string
	setupErr string
}

func buildScript(sc scenario) (func() []sched.Body, func() *scriptState) {
	var st *scriptState
	src := scriptOf(sc)
	setup := func() []sched.Body {
		st = &scriptState{state: &state{ch: channel.NewChannel()}}
		marks := map[int]int{}
		var hmu sync.Mutex // harness records are touched from several goroutines during teardown
		p := parser.NewParser()
		vm := ort.NewVM(p)
		std.Load(vm)
		rv := vm.(*ort.VM)
		nextID := 0
		rv.RegisterFunction("cid", func() int {
			hmu.Lock()
			defer hmu.Unlock()
			// ids of the shared-closure producers: the indexes of the S roles, in arrival order
			k := 0
			for i, r := range sc.Roles {
				if r[0] == 'S' || r[0] == 'G' {
					if k == nextID {
						nextID++
						return i
					}
					k++
				}
			}
			return 99
		})
		rv.RegisterFunction("cgate", func() int { vshim.Yield("cgate"); return 0 })

		rv.RegisterFunction("cmark", func(t int) int { hmu.Lock(); defer hmu.Unlock(); marks[t] = sched.Now(); return 0 })
		rv.RegisterFunction("csent", func(t int, v int, ok bool) int {
			hmu.Lock()
			defer hmu.Unlock()
			st.sends = append(st.sends, sendRec{t, v, marks[t], sched.Now(), ok})
			return 0
		})
		rv.RegisterFunction("crecv", func(t int, v int) int {
			hmu.Lock()
			defer hmu.Unlock()
			st.recvs = append(st.recvs, recvRec{t, v, sched.Now()})
			return 0
		})
		rv.RegisterFunction("cnull", func(t int) int {
			hmu.Lock()
			defer hmu.Unlock()
			st.recvs = append(st.recvs, recvRec{t, -1, sched.Now()})
			return 0
		})
		rv.RegisterFunction("cclosed", func(t int) int {
			hmu.Lock()
			defer hmu.Unlock()
			st.closeBegin = append(st.closeBegin, marks[t])
			st.closeEnd = append(st.closeEnd, sched.Now())
			return 0
		})
		rv.RegisterFunction("cobs", func(a bool, l int, b bool) int {
			hmu.Lock()
			defer hmu.Unlock()
			st.obs = append(st.obs, fmt.Sprintf("%v,%d,%v", a, l, b))
			if a && !b {
				st.obs = append(st.obs, "REOPENED")
			}
			return 0
		})
		rv.RegisterFunction("cdrain", func(v int) int { hmu.Lock(); defer hmu.Unlock(); st.left = append(st.left, v); return 0 })
		vm.SetThrowControl(func(acl data.Control) { st.uncaught = append(st.uncaught, acl.AsString()) })
		prog, acl := p.ParseString(src, "c09.zy")
		if acl != nil {
			st.setupErr = "parse: " + acl.AsString()
			return []sched.Body{func(t *sched.Thread) {}}
		}
		ctx := vm.CreateContext(p.GetVariables())
		var drainFn *data.FuncValue
		main := func(t *sched.Thread) {
			if _, acl := prog.GetValue(ctx); acl != nil {
				st.uncaught = append(st.uncaught, acl.AsString())
			}
		}
		st.drain = func() {
			for _, v := range p.GetVariables() {
				if v != nil && v.GetName() == "drain" {
					val, _ := ctx.GetIndexValue(v.GetIndex())
					drainFn, _ = val.(*data.FuncValue)
				}
			}
			if drainFn == nil {
				st.setupErr = "drain closure not found"
				return
			}
			r, acl := drainFn.Call(ctx.CreateContext(drainFn.Value.GetVariables()))
			if acl != nil {
				st.uncaught = append(st.uncaught, "drain: "+acl.AsString())
			}
			if b, ok := r.(*data.BoolValue); ok {
				st.closedEnd = b.Value
			}
		}
		return []sched.Body{main}
	}
	_ = node.NewNode
	return setup, func() *scriptState { return st }
}
