// C09: Channel delivers each value exactly once, in sender order, under any schedule.
//
// Form S: the real std/channel.Channel is driven by 2–5 controlled goroutines (producers,
// consumers, closers, an observer). Every interleaving at the instrumented points of
// Send/Receive/Close/IsClosed (field accesses, mutex operations, the Go channel operations
// themselves) is enumerated — unbounded for <= 3 threads, preemption-bounded for 4–5 — and the
// oracle is evaluated on every execution.
package main

import (
	"encoding/json"
	"fmt"
	"os"
	"sort"
	"strings"
	"time"

	"github.com/php-any/origami/data"
	"github.com/php-any/origami/std/channel"
	"github.com/php-any/origami/utils/vshim"

	"verif/engine/ev"
	"verif/engine/pool"
	"verif/engine/sched"
)

// thread roles: "P<k>" producer sending k values, "C<k>" consumer doing up to k receives (stops at null),
// "X" closer, "XX" closer calling Close twice, "O" observer (isClosed, len, isClosed).
type scenario struct {
	Cap     int      `json:"cap"`
	Roles   []string `json:"roles"`
	Bound   int      `json:"bound"`            // -1 unbounded
	Script  bool     `json:"script,omitempty"` // roles written as an origami script using spawn + Channel methods
	Choices []int    `json:"choices,omitempty"`
	Sites   []string `json:"sites,omitempty"`
}

func (s scenario) String() string {
	l := ""
	if s.Script {
		l = "script:"
	}
	return fmt.Sprintf("%scap=%d %s pb=%d", l, s.Cap, strings.Join(s.Roles, "+"), s.Bound)
}

type sendRec struct {
	prod, val  int
	begin, end int
	ok         bool
}
type recvRec struct {
	cons  int
	val   int // -1 for null
	stamp int
}
type state struct {
	drain      func() // script layer: fills left / closedEnd through the script's own drain closure
	left       []int
	closedEnd  bool
	finished   bool
	ch         *channel.Channel
	sends      []sendRec
	recvs      []recvRec
	closeBegin []int
	closeEnd   []int
	obs        []string
}

func (st *state) closedAtEnd() bool { st.finish(); return st.closedEnd }

// finish drains what is left in the channel after all threads are done (hooks are off then).
func (st *state) finish() {
	if st.finished {
		return
	}
	st.finished = true
	if st.drain != nil {
		st.drain()
		return
	}
	st.closedEnd = st.ch.IsClosed()
	if st.closedEnd {
		for {
			v, ok := st.ch.Receive()
			if !ok {
				break
			}
			iv, _ := v.(*data.IntValue).AsInt()
			st.left = append(st.left, iv)
		}
	} else {
		for st.ch.Len() > 0 {
			v, _ := st.ch.Receive()
			iv, _ := v.(*data.IntValue).AsInt()
			st.left = append(st.left, iv)
		}
	}
}

func build(sc scenario) (func() []sched.Body, func() *state) {
	var st *state
	setup := func() []sched.Body {
		st = &state{ch: channel.NewChannel()}
		st.ch.Construct(nil, data.NewIntValue(sc.Cap))
		var bodies []sched.Body
		for i, r := range sc.Roles {
			i, r := i, r
			switch r[0] {
			case 'P':
				n := int(r[1] - '0')
				bodies = append(bodies, func(t *sched.Thread) {
					for k := 0; k < n; k++ {
						v := i*10 + k
						b := t.Stamp()
						ok := st.ch.Send(data.NewIntValue(v))
						st.sends = append(st.sends, sendRec{i, v, b, t.Stamp(), ok})
					}
				})
			case 'C':
				n := int(r[1] - '0')
				bodies = append(bodies, func(t *sched.Thread) {
					for k := 0; k < n; k++ {
						v, ok := st.ch.Receive()
						if !ok {
							st.recvs = append(st.recvs, recvRec{i, -1, t.Stamp()})
							return
						}
						iv, _ := v.(*data.IntValue).AsInt()
						st.recvs = append(st.recvs, recvRec{i, iv, t.Stamp()})
					}
				})
			case 'X':
				times := len(r)
				bodies = append(bodies, func(t *sched.Thread) {
					for k := 0; k < times; k++ {
						st.closeBegin = append(st.closeBegin, t.Stamp())
						st.ch.Close()
						st.closeEnd = append(st.closeEnd, t.Stamp())
					}
				})
			case 'R':
				// re-construct (Go API): closes the old Go channel and installs a fresh open one
				bodies = append(bodies, func(t *sched.Thread) {
					st.ch.Construct(nil, data.NewIntValue(sc.Cap))
				})
			case 'O':
				bodies = append(bodies, func(t *sched.Thread) {
					a := st.ch.IsClosed()
					l := st.ch.Len()
					b := st.ch.IsClosed()
					st.obs = append(st.obs, fmt.Sprintf("%v,%d,%v", a, l, b))
					if a && !b {
						st.obs = append(st.obs, "REOPENED")
					}
				})
			}
		}
		return bodies
	}
	return setup, func() *state { return st }
}

type failure struct {
	clause, key, detail string
}

// shape abstracts a schedule to the sync/shared steps around the interference: the sequence of
// (role, op) for channel ops and accesses of the flag, sites dropped.
func shape(sc scenario, x *sched.Exec) string {
	var parts []string
	for _, e := range x.Events {
		if e.Kind < 0 {
			continue
		}
		role := sc.Roles[e.Thread%len(sc.Roles)][:1]
		switch e.Kind {
		case vshim.KChanSend, vshim.KChanRecv, vshim.KChanClose:
			parts = append(parts, role+"."+sched.KindName(e.Kind))
		}
	}
	return strings.Join(parts, ";")
}

func check(sc scenario, x *sched.Exec, st *state) []failure {
	var fs []failure
	add := func(clause, key, detail string) { fs = append(fs, failure{clause, key, detail}) }
	if x.Stuck != "" {
		add("harness", "stuck", x.Stuck)
		return fs
	}
	for _, t := range x.Threads {
		if t.Panic != "" {
			add("no-crash", t.PanicKey, fmt.Sprintf("thread %s (%s) panicked: %s", t.Name, sc.Roles[t.ID%len(sc.Roles)], t.Panic))
		}
	}
	for _, r := range x.Races {
		add("no-data-race", "race:"+stripLine(r.SiteA)+"/"+stripLine(r.SiteB), fmt.Sprintf("%s race between %s and %s", r.Kind, r.SiteA, r.SiteB))
	}
	if x.Deadlock {
		// receivers (and senders) waiting on an open channel nobody will serve are legitimate;
		// anything else parked — or anything parked on a closed channel — is a deadlock
		legit := !st.closedAtEnd()
		for _, p := range x.Parked {
			if p.Kind != vshim.KChanRecv && p.Kind != vshim.KChanSend {
				legit = false
			}
		}
		if !legit {
			var ps []string
			for _, p := range x.Parked {
				ps = append(ps, fmt.Sprintf("T%d:%s@%s", p.Thread, sched.KindName(p.Kind), p.Site))
			}
			add("no-deadlock", "deadlock", "threads left parked: "+strings.Join(ps, " "))
		}
	}
	if x.Horizon {
		add("termination", "horizon", "execution exceeded the step horizon")
	}
	if len(fs) > 0 {
		return fs // delivery accounting is meaningless after a crash
	}
	for _, r := range sc.Roles {
		if r == "R" {
			// A re-construct discards what the old channel held, so delivery accounting does not
			// apply; what must hold is that the fresh channel works: a value sent now is received.
			if sc.Cap > 0 && !sc.Script {
				// drain what the producers put into the fresh channel first (never block here)
				for st.ch.Len() > 0 {
					st.ch.Receive()
				}
				ok := st.ch.Send(data.NewIntValue(777))
				got, rok := -1, false
				if st.ch.Len() > 0 {
					var v data.Value
					v, rok = st.ch.Receive()
					if iv, isInt := v.(*data.IntValue); rok && isInt {
						got, _ = iv.AsInt()
					}
				}
				if !ok || got != 777 {
					add("fresh-channel-after-reconstruct", "reconstructed-channel-unusable", fmt.Sprintf("after Construct() ran concurrently with the other threads: Send(777)=%v, Receive()=%d,%v", ok, got, rok))
				}
			}
			return fs
		}
	}
	st.finish()
	left := st.left
	sent := map[int]int{}
	for _, s := range st.sends {
		if s.ok {
			sent[s.val]++
		}
	}
	got := map[int]int{}
	for _, r := range st.recvs {
		if r.val >= 0 {
			got[r.val]++
		}
	}
	for _, v := range left {
		got[v]++
	}
	for v, n := range sent {
		if got[v] != n {
			add("exactly-once", "lost-or-duplicated", fmt.Sprintf("value %d sent ok %d times, received %d times", v, n, got[v]))
		}
	}
	for v, n := range got {
		if sent[v] == 0 {
			add("nothing-invented", "invented", fmt.Sprintf("value %d received %d times but no send of it reported success", v, n))
		}
	}
	// Position of every receive = index of the scheduler step that performed it (the k-th record of a
	// consumer belongs to the k-th receive step of its thread; a rendez-vous is recorded on the
	// sender's step with the receiver as partner). Record order alone is not dequeue order: a
	// consumer may be scheduled out between its receive and its log line.
	off := 0
	if sc.Script {
		off = 1 // thread 0 is the script's main flow; role i runs as spawned thread i+1
	}
	steps := map[int][]int{}
	for i, e := range x.Events {
		if e.Kind == vshim.KChanRecv {
			steps[e.Thread] = append(steps[e.Thread], i)
		} else if e.Kind == vshim.KChanSend && e.Joint >= 0 {
			steps[e.Joint] = append(steps[e.Joint], i)
		}
	}
	nth := map[int]int{}
	for i := range st.recvs {
		r := &st.recvs[i]
		tid := r.cons + off
		if k := nth[tid]; k < len(steps[tid]) {
			r.stamp = steps[tid][k]
		}
		nth[tid]++
	}
	lastOf := map[int]int{}
	seq := append([]recvRec{}, st.recvs...)
	sort.SliceStable(seq, func(a, b int) bool { return seq[a].stamp < seq[b].stamp })
	for _, v := range left {
		seq = append(seq, recvRec{-1, v, 1 << 30})
	}
	for _, r := range seq {
		if r.val < 0 {
			continue
		}
		p := r.val / 10
		if last, ok := lastOf[p]; ok && r.val < last {
			add("sender-order", "reordered", fmt.Sprintf("value %d of producer %d dequeued after %d", r.val, p, last))
		}
		lastOf[p] = r.val
	}
	// null receive only after close, with everything sent-before already dequeued
	firstCloseStep := -1
	for i, e := range x.Events {
		if e.Kind == vshim.KChanClose {
			firstCloseStep = i
			break
		}
	}
	for _, r := range st.recvs {
		if r.val < 0 {
			if firstCloseStep < 0 || firstCloseStep > r.stamp {
				add("null-only-after-close", "null-before-close", fmt.Sprintf("consumer %d got null at step %d, close step %d", r.cons, r.stamp, firstCloseStep))
			}
		}
	}
	// a send that begins after a Close has returned reports failure
	firstCloseEnd := -1
	if len(st.closeEnd) > 0 {
		firstCloseEnd = st.closeEnd[0]
		for _, e := range st.closeEnd {
			if e < firstCloseEnd {
				firstCloseEnd = e
			}
		}
	}
	for _, s := range st.sends {
		if firstCloseEnd >= 0 && s.begin >= firstCloseEnd && s.ok {
			add("send-after-close-fails", "send-ok-after-close", fmt.Sprintf("send of %d began at step %d after Close returned at %d and reported success", s.val, s.begin, firstCloseEnd))
		}
	}
	for _, o := range st.obs {
		if o == "REOPENED" {
			add("closed-is-stable", "reopened", "isClosed() went from true to false")
		}
	}
	return fs
}

func runnerClass(msg string) string {
	if i := strings.Index(msg, "\n"); i >= 0 {
		msg = msg[:i]
	}
	if len(msg) > 60 {
		msg = msg[:60]
	}
	return strings.ReplaceAll(msg, " ", "-")
}

func stripLine(site string) string { return sched.SiteStable(site) }

type rec struct {
	Kind     string         `json:"kind"`
	Scenario scenario       `json:"scenario"`
	Execs    int64          `json:"execs,omitempty"`
	Steps    int64          `json:"steps,omitempty"`
	Complete bool           `json:"complete,omitempty"`
	Stop     string         `json:"stop,omitempty"`
	Outcomes map[string]int `json:"outcomes,omitempty"`
	Key      string         `json:"key,omitempty"`
	Clause   string         `json:"clause,omitempty"`
	Detail   string         `json:"detail,omitempty"`
	Size     int            `json:"size,omitempty"`
	Case     any            `json:"case,omitempty"`
	Relevant []string       `json:"relevant,omitempty"`
	MaxDepth int            `json:"max_depth,omitempty"`
}

func outcomeOf(st *state, x *sched.Exec) string {
	var p []string
	for _, s := range st.sends {
		p = append(p, fmt.Sprintf("s%d=%v", s.val, s.ok))
	}
	sort.Strings(p)
	var q []string
	for _, r := range st.recvs {
		q = append(q, fmt.Sprintf("c%d:%d", r.cons, r.val))
	}
	o := strings.Join(p, ",") + " / " + strings.Join(q, ",") + " / " + strings.Join(st.obs, ";")
	for _, t := range x.Threads {
		if t.Panic != "" {
			o += " !" + t.PanicKey
		}
	}
	if x.Deadlock {
		o += " BLOCKED"
	}
	return o
}

func explore(w *pool.W, arg json.RawMessage) {
	var sc scenario
	json.Unmarshal(arg, &sc)
	if !w.Item(sc.String()) {
		return
	}
	setup, get := build(sc)
	var getScript func() *scriptState
	if sc.Script {
		setup, getScript = buildScript(sc)
		get = func() *state { return getScript().state }
	}
	outcomes := map[string]int{}
	seen := map[string]bool{}
	var deadline time.Time
	if d := sc.deadlineSec(); d > 0 {
		deadline = time.Now().Add(time.Duration(d) * time.Second)
	}
	cfg := &sched.Config{Name: sc.String(), Bound: sc.Bound, Setup: setup, Deadline: deadline}
	cfg.Check = func(x *sched.Exec) {
		st := get()
		fails := check(sc, x, st)
		if sc.Script {
			ss := getScript()
			if ss.setupErr != "" {
				fails = append(fails, failure{"harness", "script-setup", ss.setupErr})
			}
			for _, u := range ss.uncaught {
				fails = append(fails, failure{"no-crash", "script-error:" + runnerClass(u), "uncaught in script: " + u})
			}
		}
		outcomes[outcomeOf(st, x)]++
		for _, f := range fails {
			k := f.key
			if f.clause == "no-crash" || f.clause == "exactly-once" || f.clause == "sender-order" || f.clause == "nothing-invented" {
				k += " [" + shape(sc, x) + "]"
			}
			// keep one representative per (key) — the first found by DFS has the fewest deviations
			if seen[f.key] {
				continue
			}
			seen[f.key] = true
			cs := sc
			cs.Choices = x.Choices()
			cs.Sites = sched.RelevantSites()
			w.Emit(rec{Kind: "fail", Scenario: sc, Key: f.key, Clause: f.clause, Size: len(sc.Roles)*1000 + len(x.Events), Detail: f.detail + "\nscenario: " + sc.String() + "\nschedule: " + strings.Join(x.Schedule(), " "), Case: cs})
		}
	}
	st := sched.Explore(cfg)
	if len(outcomes) > 200 {
		// keep evidence small
		n := len(outcomes)
		outcomes = map[string]int{fmt.Sprintf("(%d distinct outcomes)", n): n}
	}
	w.Emit(rec{Kind: "done", Scenario: sc, Execs: st.Execs, Steps: st.Steps, Complete: st.Complete, Stop: st.StopReason, Outcomes: outcomes, Relevant: st.Relevant, MaxDepth: st.MaxDepth})
}

var budgetSec int

func (s scenario) deadlineSec() int { return budgetSec }

func scenarios(quick bool) []scenario {
	var out []scenario
	caps := []int{0, 1, 2}
	if !quick {
		caps = []int{0, 1, 2, 3, 4}
	}
	add := func(bound int, roles ...string) {
		for _, c := range caps {
			out = append(out, scenario{Cap: c, Roles: roles, Bound: bound})
		}
	}
	// 2 threads: unbounded; 3 threads: unbounded when small, else preemption-bounded
	pb3, pb4, pb5 := 2, 1, 0
	if !quick {
		pb3, pb4, pb5 = -1, 3, 2
	}
	add(-1, "P1", "C1")
	add(-1, "P2", "C2")
	add(-1, "P2", "X")
	add(-1, "P1", "XX")
	add(-1, "X", "X")
	add(-1, "C1", "X")
	add(-1, "C2", "X")
	add(-1, "X", "O")
	add(-1, "P1", "O")
	add(-1, "C1", "R")
	add(-1, "C2", "R")
	add(-1, "P1", "R")
	add(pb3, "P1", "C2", "R")
	add(pb3, "C1", "C1", "R")
	add(-1, "P1", "C2", "X")
	add(pb3, "P2", "C3", "X")
	add(pb3, "P1", "P1", "C2")
	add(pb3, "P1", "X", "X")
	add(pb3, "P1", "X", "O")
	add(-1, "C1", "C1", "X")
	add(pb3, "P2", "XX", "C3")
	add(pb3, "P2", "P2", "X")
	// 4–5 threads: preemption bounded
	add(pb4, "P1", "P1", "C3", "X")
	add(pb4, "P2", "C2", "C2", "X")
	add(pb4, "P1", "C2", "X", "X")
	add(pb5, "P1", "P1", "C1", "C1", "X")
	// script layer: the same roles through spawn + the script-facing Channel methods
	spb := 2
	if !quick {
		spb = 3
	}
	for _, roles := range [][]string{{"P1", "C1"}, {"P2", "C3", "X"}, {"P2", "X"}, {"X", "X"}, {"P1", "O", "X"}, {"P1", "P1", "C3", "X"},
		{"S2", "S2"}, {"S2", "S2", "C3"}, {"S1", "S1", "S1", "X"}, {"G2", "G2"}, {"G1", "G1", "C2"}} {
		for _, c := range caps {
			b := spb
			if quick && len(roles) >= 4 {
				b = 1 // 5 script threads (main + 4): PB 2 does not finish inside the quick deadline
			}
			out = append(out, scenario{Cap: c, Roles: roles, Bound: b, Script: true})
		}
	}
	if !quick {
		add(1, "P2", "P2", "C3", "C3", "X")
		add(0, "P2", "P2", "P2", "C3", "C3", "C3", "X")
		add(3, "P3", "C3", "C3", "X")
	}
	return out
}

func main() {
	if pool.IsWorker() {
		fmt.Sscan(getenv("C09_BUDGET"), &budgetSec)
		pool.Serve(map[string]pool.Handler{"explore": explore})
	}
	c := ev.New("C09")
	if c.Replay != "" {
		replay(c)
		return
	}
	budget := 150
	if !c.Quick() {
		budget = 900
	}
	var shards []pool.Shard
	scs := scenarios(c.Quick())
	// biggest scenarios first
	sort.SliceStable(scs, func(i, j int) bool { return len(scs[i].Roles) > len(scs[j].Roles) })
	for _, s := range scs {
		shards = append(shards, pool.Shard{Kind: "explore", Arg: s})
	}
	var execs, steps int64
	complete, incomplete := 0, 0
	outcomes := 0
	perScenario := map[string]any{}
	pool.Run(shards, pool.Options{Env: []string{fmt.Sprintf("C09_BUDGET=%d", budget)}, HangTimeout: time.Duration(budget+120) * time.Second}, func(si int, rb json.RawMessage) {
		var r rec
		json.Unmarshal(rb, &r)
		switch r.Kind {
		case "fail":
			c.Fail(r.Key, r.Clause, r.Size, r.Case, r.Detail)
		case "done":
			execs += r.Execs
			steps += r.Steps
			if r.Complete {
				complete++
			} else {
				incomplete++
				c.NotExhaustive(fmt.Sprintf("scenario %s stopped (%s) after %d executions", r.Scenario, r.Stop, r.Execs))
			}
			outcomes += len(r.Outcomes)
			for o := range r.Outcomes {
				c.Outcome(r.Scenario.String() + " :: " + o)
			}
			perScenario[r.Scenario.String()] = map[string]any{"executions": r.Execs, "distinct_outcomes": len(r.Outcomes), "complete": r.Complete, "max_depth": r.MaxDepth, "choice_sites": r.Relevant}
			if len(r.Scenario.Roles) == 3 && r.Scenario.Cap == 1 {
				c.Sample(map[string]any{"scenario": r.Scenario.String(), "executions": r.Execs, "outcomes": r.Outcomes})
			}
		}
	}, func(d pool.Death) {
		c.Fail("worker-death", "no-crash", 0, map[string]any{"item": d.Item, "reason": d.Reason}, d.Stderr)
	})
	c.Set("scenarios", len(scs))
	c.Set("scenarios_complete", complete)
	c.Set("scenarios_stopped_by_deadline", incomplete)
	c.Set("per_scenario", perScenario)
	c.Assume("interleavings are explored at the instrumented points (struct-field accesses of std/channel, mutex and Go channel operations); Go memory-model effects below them are not modelled")
	c.Assume("configurations larger than 7 threads / 3 operations per thread are outside the bound")
	if outcomes < len(scs) {
		c.HarnessError("vacuous: %d outcomes over %d scenarios", outcomes, len(scs))
	}
	c.Finish(int64(outcomes), execs, execs, "every interleaving (unbounded for <=3 threads, preemption-bounded beyond) of producer/consumer/closer/observer threads over the real Channel at instrumented points; states = distinct (scenario, observed outcome)")
}

func getenv(k string) string {
	for _, e := range os.Environ() {
		if strings.HasPrefix(e, k+"=") {
			return e[len(k)+1:]
		}
	}
	return "0"
}

func replay(c *ev.Check) {
	var sc scenario
	key, err := ev.LoadReplay(c.Replay, &sc)
	if err != nil {
		fmt.Println("replay:", err)
		return
	}
	setup, get := build(sc)
	cfg := &sched.Config{Name: sc.String(), Bound: -1, Setup: setup, AllPoints: false}
	var first string
	for i := 0; i < 2; i++ {
		x, err := sched.Replay(cfg, sc.Choices, sc.Sites)
		if err != nil {
			c.HarnessError("%v", err)
			break
		}
		o := outcomeOf(get(), x)
		if i == 0 {
			first = o
			fmt.Println("schedule:", strings.Join(x.Schedule(), " "))
			fmt.Println("outcome:", o)
			for _, f := range check(sc, x, get()) {
				fmt.Printf("  %s: %s — %s\n", f.clause, f.key, f.detail)
				c.Fail(f.key, f.clause, 0, sc, f.detail)
			}
		} else if o != first {
			c.HarnessError("replay is not deterministic: %q vs %q", first, o)
		}
	}
	_ = key
	c.Finish(1, 2, 2, "replay")
}
