// C07: visibility and declared types are enforced at every access path and boundary; abstract
// classes / interfaces cannot be instantiated; a concrete class implements every inherited
// abstract method.
//
// Form P, complete matrices (see /verif/notes/C07.md):
//
//	vis    member kind x modifier x static-ness x site x receiver x path x op over 2 class graphs
//	type   declared type x runtime value kind x boundary
//	inst   abstract/interface kinds x `new` forms
//	chain  which of 2 abstract methods are implemented where in a 3-level chain
//	gtype  typed store into a T-typed property of a generic class x type argument x value kind x
//	       0..2 earlier operations on a raw / differently instantiated object of the class (gtype.go)
//	oblig  by which route (interface extends-DAG, implements at C/P/G, abstract parent/grandparent,
//	       instance/static) an abstract method reaches a concrete class (oblig.go)
//
// One script per (shape, site) / (boundary, type) prints one marker per cell, every cell inside
// its own try/catch(Throwable). Every failing cell is re-run alone (isolation), every denial is
// re-run in the bare top-level form (must surface as an uncaught Throwable, never a Go panic).
package main

import (
	"encoding/json"
	"fmt"
	"os"
	"sort"
	"strconv"
	"strings"
	"time"

	"verif/engine/ev"
	"verif/engine/pool"
	"verif/engine/runner"
)

var prefixes = []string{"Vq", "Zk", "Mw", "Ty", "Hx"}

// bareNames is the pseudo-seed of the concretisation with the bare role names (one-letter
// class names A, I, D, S ...), always run next to the seed-selected prefix.
const bareNames = int64(-1)

// obligShard: configurations of the oblig family per shard.
const obligShard = 1024

func pfxOf(seed int64) string {
	if seed == bareNames {
		return ""
	}
	if seed < 0 {
		seed = -seed
	}
	return prefixes[int(seed)%len(prefixes)]
}

type rec struct {
	Kind     string           `json:"kind"` // count | fail | sample
	N        int64            `json:"n,omitempty"`
	Runs     int64            `json:"runs,omitempty"`
	Key      string           `json:"key,omitempty"`
	Clause   string           `json:"clause,omitempty"`
	Case     any              `json:"case,omitempty"`
	Detail   string           `json:"detail,omitempty"`
	Size     int              `json:"size,omitempty"`
	Outcomes map[string]int64 `json:"outcomes,omitempty"`
	Counters map[string]int64 `json:"counters,omitempty"`
	Err      string           `json:"err,omitempty"`
	VF       *visFail         `json:"vf,omitempty"`
}

// visFail is one failing visibility cell reduced to what identifies the defect.
type visFail struct {
	Tag, Fam, Op, Mod, Rel, Clause string
}

// pathFamily groups syntactic paths that are one access path of the language.
func pathFamily(p string) string {
	switch p {
	case "->$n", "->{}":
		return "->dyn"
	case "cuf[]", "[]()":
		return "callable-array"
	case "C::", "Sub::", "$cn::", "$o::":
		return "Class::"
	case "cuf::", "cuf[C]":
		return "cuf-static"
	}
	return p
}

// relClass: where the accessing code stands: own class, the declaring class's lineage
// (ancestor or descendant), or outside (unrelated class or no class).
func relClass(rel string) string {
	switch rel {
	case "own":
		return "own"
	case "ancestor", "descendant":
		return rel
	}
	return "outside"
}

type shardArg struct {
	Family string `json:"family"`
	A      int    `json:"a"`
	B      int    `json:"b"`
	Seed   int64  `json:"seed"`
	Quick  bool   `json:"quick,omitempty"` // oblig: which bound of the family
}

// replay/case description, enough to regenerate the single cell
type caseDesc struct {
	Family string    `json:"family"`
	Seed   int64     `json:"seed"`
	Shape  string    `json:"shape,omitempty"`
	Site   *site     `json:"site,omitempty"`
	SiteS  string    `json:"site_s,omitempty"`
	Recv   string    `json:"recv,omitempty"`
	Member string    `json:"member,omitempty"`
	Path   string    `json:"path,omitempty"`
	Op     string    `json:"op,omitempty"`
	Exec   string    `json:"exec,omitempty"` // shared-site cells: class executing the trait method
	Step   int       `json:"step,omitempty"` // ... as the Step-th execution of that source location
	Bound  string    `json:"boundary,omitempty"`
	Type   string    `json:"type,omitempty"`
	Val    string    `json:"value,omitempty"`
	IKind  string    `json:"inst_kind,omitempty"`
	IPath  string    `json:"inst_path,omitempty"`
	Chain  *chainCfg `json:"chain,omitempty"`
	Oblig  *obCfg    `json:"oblig,omitempty"`
	GHist  *gHist    `json:"ghist,omitempty"`
	Cls    string    `json:"cls,omitempty"`
	Script string    `json:"script,omitempty"`
	Expect string    `json:"expect,omitempty"`
}

// site needs exported fields for JSON
func (s site) MarshalJSON() ([]byte, error) {
	return json.Marshal(map[string]string{"kind": s.kind, "lex": s.lex, "this": s.thisR})
}
func (s *site) UnmarshalJSON(b []byte) error {
	var m map[string]string
	if err := json.Unmarshal(b, &m); err != nil {
		return err
	}
	s.kind, s.lex, s.thisR = m["kind"], m["lex"], m["this"]
	return nil
}

type stats struct {
	cells, runs int64
	outcomes    map[string]int64
	counters    map[string]int64
}

func newStats() *stats { return &stats{outcomes: map[string]int64{}, counters: map[string]int64{}} }

func (s *stats) run(src string) runner.Result {
	s.runs++
	return runner.Run(src, runner.Opts{Fuel: 400_000_000})
}

// bareVerdict classifies the bare top-level form: "" fine, else a crash key.
func bareVerdict(res runner.Result) (string, string) {
	switch res.Kind {
	case "panic":
		return "crash", res.PanicKey
	case "fuel":
		return "crash", "fuel-exhausted"
	case "throw", "parse", "ok", "exit":
		return "", ""
	}
	return "", ""
}

// ---------------------------------------------------------------- vis family

func shapeByName(n string) *shapeDef {
	for i := range shapes {
		if shapes[i].name == n {
			return &shapes[i]
		}
	}
	return nil
}

func cnFor(seed int64) func(string) string {
	p := pfxOf(seed)
	return func(r string) string { return p + r }
}

// evalVisCell runs one cell alone (try form, then bare form if it was denied).
// pre: the earlier executions of the same shared site (trait cells), run before the cell in the
// same script.
func evalVisCell(st *stats, sh *shapeDef, s site, pre []cell, c cell, seed int64) (clause, detail, script string, o obsCell) {
	group := append(append([]cell{}, pre...), c)
	cn := cnFor(seed)
	script = visScript(sh, s, group, cn, false)
	res := st.run(script)
	obs, _ := parseCells(res.Out)
	o = obs[c.ID]
	if res.Kind == "panic" {
		return "crash", res.PanicKey, script, o
	}
	clause = judge(sh, s, &c, o)
	if clause == "crash" {
		// a Go panic converted by try: the bare form names the frame
		bres := st.run(visScript(sh, s, group, cn, true))
		if bres.Kind == "panic" {
			return "crash", bres.PanicKey, script, o
		}
		return "crash", "caught-panic:" + runner.PanicClass(o.Msg), script, o
	}
	if clause == "" && o.Status == "denied" {
		bres := st.run(visScript(sh, s, group, cn, true))
		if cl, k := bareVerdict(bres); cl != "" {
			return cl, k, script, o
		}
		if bres.Kind != "throw" {
			return "bare-mismatch", fmt.Sprintf("try form: denied %s; bare form: kind=%s out=%q", o.Class, bres.Kind, trunc(bres.Out, 200)), script, o
		}
	}
	return clause, fmt.Sprintf("observed %s", obsString(o)), script, o
}

func obsString(o obsCell) string {
	b, _ := json.Marshal(o)
	return string(b)
}

func trunc(s string, n int) string {
	if len(s) > n {
		return s[:n] + "..."
	}
	return s
}

func visWorker(w *pool.W, arg json.RawMessage) {
	var a shardArg
	json.Unmarshal(arg, &a)
	sh := &shapes[a.A]
	sites := sitesOf(sh)
	s := sites[a.B]
	cn := cnFor(a.Seed)
	st := newStats()
	cells := cellsOf(sh, s, cn)
	id := fmt.Sprintf("vis/%s/%s", sh.name, s)
	if !w.Item(id) {
		return
	}
	script := visScript(sh, s, cells, cn, false)
	res := st.run(script)
	obs, ended := parseCells(res.Out)
	if res.Kind != "ok" || !ended {
		// the batch did not complete: fall back to cell-by-cell below, and say so
		st.counters["batch_incomplete"]++
	}
	// public controls: (recv,path,op,category) -> conforming
	control := map[string]bool{}
	ck := func(c *cell) string {
		return fmt.Sprint(c.M.tag(), "|", c.Recv, "|", c.Path, "|", c.Op, "|", c.Exec, "|", c.Step)
	}
	// earlier executions of the same shared site
	preOf := func(c *cell) []cell {
		if s.kind != "trait" {
			return nil
		}
		var pre []cell
		for _, x := range cells {
			if x.Base == c.Base && x.Step < c.Step {
				pre = append(pre, x)
			}
		}
		return pre
	}
	for i := range cells {
		c := &cells[i]
		if c.M.mod == "public" {
			o := obs[c.ID]
			if !o.Present {
				_, _, _, o = evalVisCell(st, sh, s, preOf(c), *c, a.Seed)
				obs[c.ID] = o
			}
			control[ck(c)] = judge(sh, s, c, o) == ""
		}
	}
	failed := map[string]bool{}
	for i := range cells {
		c := &cells[i]
		st.cells++
		o := obs[c.ID]
		exp := allowed(sh, c.M.mod, lexOf(s, c))
		if c.M.mod == "public" {
			if !control[ck(c)] {
				st.counters["path-unsupported:"+c.M.tag()+":"+c.Path+":"+c.Op]++
			}
			st.outcomes["public/"+o.Status]++
			continue
		}
		if exp == "allow" && !control[ck(c)] {
			st.counters["allow-cells-skipped(public control failed)"]++
			continue
		}
		cl := judge(sh, s, c, o)
		if cl == "no-error" && !control[ck(c)] {
			// the path does not reach even the public member here (e.g. a silent no-op): it says
			// nothing about this member
			st.counters["deny-cells-skipped(no effect, public control failed too)"]++
			continue
		}
		st.outcomes[exp+"/"+c.Op+"/"+o.Status+"/"+cl]++
		tk := c.M.tag() + "|" + pathFamily(c.Path) + "|" + c.Op
		if exp == "deny" && c.Op != "isset" && control[ck(c)] {
			st.counters["denytotal|"+tk]++
		}
		needIso := cl != "" || o.Status == "denied"
		if !needIso {
			continue
		}
		icl, det, iscript, io := evalVisCell(st, sh, s, preOf(c), *c, a.Seed)
		if icl == "wrong-allow" && control[ck(c)] {
			st.counters["denywrong|"+tk]++
		}
		if icl != cl {
			st.counters["batch-vs-isolated-differs"]++
			if icl == "" {
				continue
			}
		}
		if icl == "" {
			continue
		}
		if icl == "bare-mismatch" {
			w.Emit(rec{Kind: "harness", Err: id + " cell " + c.Body + ": " + det})
			continue
		}
		st.counters["failing-cells"]++
		sz := len(iscript)
		if sh.name == "flat" {
			sz /= 2
		}
		ss := s
		cs := caseDesc{Family: "vis", Seed: a.Seed, Shape: sh.name, Site: &ss, SiteS: s.String(), Recv: c.Recv, Member: c.M.name, Path: c.Path, Op: c.Op, Exec: c.Exec, Step: c.Step, Script: iscript, Expect: exp}
		detail := fmt.Sprintf("site %s (lexical class %s: %s w.r.t. the declaring class), %s %s member %s, receiver %s, `%s`\nexpected %s by the rule table; %s", s, orNone(lexOf(s, c)), relation(sh, lexOf(s, c)), c.M.mod, c.M.tag(), c.M.name, c.Recv, c.Body, exp, obsString(io))
		if s.kind == "trait" {
			_, seq := traitUsers(sh)
			detail += fmt.Sprintf("\nshared source location: the access is one trait method, executed in this script by %v in that order; this is execution #%d, by class %s", seq, c.Step+1, c.Exec)
		}
		if icl == "crash" {
			key := "crash:" + det
			if !failed[key] {
				failed[key] = true
				w.Emit(rec{Kind: "fail", Key: key, Clause: icl, Size: sz, Case: cs, Detail: detail})
			}
			continue
		}
		vf := visFail{Tag: c.M.tag(), Fam: pathFamily(c.Path), Op: c.Op, Mod: c.M.mod, Rel: relClass(relation(sh, lexOf(s, c))), Clause: icl}
		k := fmt.Sprint(vf)
		if failed[k] {
			continue
		}
		failed[k] = true
		w.Emit(rec{Kind: "vfail", Clause: icl, Size: sz, VF: &vf, Case: cs, Detail: detail})
	}
	if a.A == 0 && a.B == 3 && len(cells) > 0 {
		w.Emit(rec{Kind: "sample", Case: map[string]any{"family": "vis", "site": s.String(), "cells": len(cells), "first_cell": cells[0].Body, "first_observed": obs[cells[0].ID]}})
	}
	w.Emit(rec{Kind: "count", N: st.cells, Runs: st.runs, Outcomes: st.outcomes, Counters: st.counters})
}

func orNone(s string) string {
	if s == "" {
		return "(none)"
	}
	return s
}

// ---------------------------------------------------------------- type family

func skipType(b boundary, t declType) bool {
	// static typed properties need a constant initialiser; a class-typed non-nullable static
	// property has none that is valid, so those combinations are left out (documented)
	if strings.Contains(b.hdecl, "static {T}") {
		isrc, _ := initFor(t)
		if strings.HasPrefix(isrc, "new ") {
			null := false
			for _, a := range t.alts {
				if a == "null" {
					null = true
				}
			}
			return !null
		}
	}
	return false
}

func evalTypeCell(st *stats, b boundary, t declType, vi int, seed int64) (clause, detail, script string, o obsCell) {
	n := typeNames{pfxOf(seed)}
	script = typeScript(b, t, []int{vi}, n, false)
	res := st.run(script)
	obs, _ := parseCells(res.Out)
	o = obs[vi]
	if res.Kind == "panic" {
		return "crash", res.PanicKey, script, o
	}
	clause = judgeType(b, t, valKinds[vi], o, n)
	if clause == "crash" {
		bres := st.run(typeScript(b, t, []int{vi}, n, true))
		if bres.Kind == "panic" {
			return "crash", bres.PanicKey, script, o
		}
		return "crash", "caught-panic:" + runner.PanicClass(o.Msg), script, o
	}
	if clause == "" && o.Status == "denied" {
		bres := st.run(typeScript(b, t, []int{vi}, n, true))
		if cl, k := bareVerdict(bres); cl != "" {
			return cl, k, script, o
		}
		if bres.Kind != "throw" {
			return "bare-mismatch", fmt.Sprintf("try form: denied %s; bare form: kind=%s out=%q", o.Class, bres.Kind, trunc(bres.Out, 200)), script, o
		}
	}
	return clause, "observed " + obsString(o), script, o
}

type typeFail struct {
	B, T, V int
	Clause  string
}

func typeWorker(w *pool.W, arg json.RawMessage) {
	var a shardArg
	json.Unmarshal(arg, &a)
	b := boundaries[a.A]
	st := newStats()
	n := typeNames{pfxOf(a.Seed)}
	for ti, t := range declTypes {
		if skipType(b, t) {
			st.counters["type-combos-skipped(no valid static initialiser)"]++
			continue
		}
		id := fmt.Sprintf("type/%s/%s", b.name, t.src)
		if !w.Item(id) {
			continue
		}
		var vals []int
		for i := range valKinds {
			vals = append(vals, i)
		}
		res := st.run(typeScript(b, t, vals, n, false))
		obs, ended := parseCells(res.Out)
		if res.Kind != "ok" || !ended {
			st.counters["batch_incomplete"]++
		}
		for _, vi := range vals {
			st.cells++
			v := valKinds[vi]
			o := obs[vi]
			cl := judgeType(b, t, v, o, n)
			st.outcomes[fmt.Sprintf("%s/accept=%v/%s/%s", b.group, accepts(t, v), o.Status, cl)]++
			if cl == "" && o.Status != "denied" {
				continue
			}
			icl, det, iscript, io := evalTypeCell(st, b, t, vi, a.Seed)
			if icl != cl {
				st.counters["batch-vs-isolated-differs"]++
			}
			if icl == "" {
				continue
			}
			if icl == "bare-mismatch" {
				w.Emit(rec{Kind: "harness", Err: id + " value " + v.name + ": " + det})
				continue
			}
			st.counters["failing-cells"]++
			if icl == "crash" {
				w.Emit(rec{Kind: "fail", Key: "crash:" + det, Clause: "crash", Size: len(iscript), Case: caseDesc{Family: "type", Seed: a.Seed, Bound: b.name, Type: t.src, Val: v.name, Script: iscript}, Detail: obsString(io)})
				continue
			}
			// emitted raw; the parent summarises type failures into keys
			w.Emit(rec{Kind: "tfail", Clause: icl, Case: typeFail{a.A, ti, vi, icl}, Detail: obsString(io)})
		}
	}
	if a.A == 0 {
		w.Emit(rec{Kind: "sample", Case: map[string]any{"family": "type", "boundary": b.name, "type": declTypes[0].src, "script": typeScript(b, declTypes[0], []int{0, 5, 10}, n, false)}})
	}
	w.Emit(rec{Kind: "count", N: st.cells, Runs: st.runs, Outcomes: st.outcomes, Counters: st.counters})
}

// ---------------------------------------------------------------- inst + chain families

func evalInst(st *stats, k instKind, p instPath, seed int64) (clause, detail, script string) {
	x := pfxOf(seed) + "X"
	script = instScript(k, p, x, false)
	res := st.run(script)
	if res.Kind == "panic" {
		return "crash", res.PanicKey, script
	}
	obs, _ := parseCells(res.Out)
	bareDone := false
	for a := 0; a < attempts; a++ {
		o := obs[a]
		retry := ""
		if a > 0 {
			retry = "-on-retry" // the first attempt conformed, a later one in the same script does not
		}
		detail = fmt.Sprintf("attempt %d of %d in one script: observed %s", a+1, attempts, obsString(o))
		if o.Panic {
			return "crash", "caught:" + trunc(o.Msg, 80), script
		}
		if k.abs {
			// must not yield an object: a catchable error at `new`, or an error for the whole script
			if o.Status == "ok" {
				return "instantiated" + retry, detail, script
			}
			if o.Status == "denied" && !bareDone {
				bareDone = true
				bres := st.run(instScript(k, p, x, true))
				if cl, key := bareVerdict(bres); cl != "" {
					return cl, key, script
				}
			}
			continue
		}
		if o.Status != "ok" || o.Val != "object:"+x {
			return "control-not-instantiable" + retry, detail, script
		}
	}
	return "", detail, script
}

func instWorker(w *pool.W, arg json.RawMessage) {
	var a shardArg
	json.Unmarshal(arg, &a)
	k := instKinds[a.A]
	st := newStats()
	for _, p := range instPaths {
		if p.cls && strings.HasPrefix(k.name, "interface") {
			continue
		}
		if !w.Item("inst/" + k.name + "/" + p.name) {
			continue
		}
		st.cells++
		cl, det, script := evalInst(st, k, p, a.Seed)
		st.outcomes[fmt.Sprintf("inst/abs=%v/%s", k.abs, cl)]++
		if cl == "" {
			continue
		}
		key := fmt.Sprintf("inst:%s:%s:%s", k.name, p.name, cl)
		if cl == "crash" {
			key = "crash:" + det
		}
		w.Emit(rec{Kind: "fail", Key: key, Clause: cl, Size: len(script), Case: caseDesc{Family: "inst", Seed: a.Seed, IKind: k.name, IPath: p.name, Script: script}, Detail: det})
	}
	w.Emit(rec{Kind: "count", N: st.cells, Runs: st.runs, Outcomes: st.outcomes, Counters: st.counters})
}

func evalChain(st *stats, c chainCfg, idx int, seed int64) (clause, detail, script string) {
	pfx := pfxOf(seed)
	only := []string{"Y", "Z"}[idx]
	script = chainScript(c, pfx, only, false)
	res := st.run(script)
	if res.Kind == "panic" {
		return "crash", res.PanicKey, script
	}
	exp := chainExpect(c, pfx, idx)
	obs, _ := parseCells(res.Out)
	bareDone := false
	for a := 0; a < attempts; a++ {
		o, seen := obs[idx*10+a]
		retry := ""
		if a > 0 {
			retry = "-on-retry"
		}
		detail = fmt.Sprintf("attempt %d of %d in one script; expected %s; run kind=%s %s observed %s", a+1, attempts, exp, res.Kind, trunc(res.Msg, 120), obsString(o))
		if o.Panic {
			return "crash", "caught:" + trunc(o.Msg, 80), script
		}
		scriptErr := !seen && (res.Kind == "throw" || res.Kind == "parse") // rejected at declaration
		switch {
		case exp == "open":
		case exp == "deny":
			if strings.Contains(o.Pre, "<inst>") {
				// `new` returned an object; a later failure of the method call does not count
				return "instantiated" + retry, detail, script
			}
			if scriptErr || o.Status == "denied" {
				if o.Status == "denied" && !bareDone {
					bareDone = true
					bres := st.run(chainScript(c, pfx, only, true))
					if cl, key := bareVerdict(bres); cl != "" {
						return cl, key, script
					}
				}
				continue
			}
			return "instantiated" + retry, detail, script
		default:
			if scriptErr || o.Status != "ok" {
				return "complete-class-rejected" + retry, detail, script
			}
			if "ok:"+o.Val != exp {
				return "wrong-dispatch" + retry, detail, script
			}
		}
	}
	return "", detail, script
}

func chainKey(c chainCfg, idx int, clause string) string {
	// coarse: which class, its own abstract-ness, what is missing for it, where the abstract
	// methods come from
	cls := []string{"Y", "Z"}[idx]
	have := c.YImpl
	abs := c.YAbs
	if idx == 1 {
		have |= c.ZImpl
		abs = c.ZAbs
	}
	_ = have
	kind := "concrete"
	if abs {
		kind = "abstract"
	}
	if strings.HasSuffix(clause, "-on-retry") {
		// order-dependent answers do not depend on where the abstract methods come from
		return fmt.Sprintf("chain:%s:%s-%s", clause, kind, cls)
	}
	return fmt.Sprintf("chain:%s:%s-%s:methods-from-%s", clause, kind, cls, c.Src)
}

func chainWorker(w *pool.W, arg json.RawMessage) {
	var a shardArg
	json.Unmarshal(arg, &a)
	cfgs := allChainCfgs()
	st := newStats()
	seen := map[string]bool{}
	for i := a.A; i < a.B && i < len(cfgs); i++ {
		c := cfgs[i]
		for idx := 0; idx < 2; idx++ {
			if !w.Item(fmt.Sprintf("chain/%d/%d", i, idx)) {
				continue
			}
			st.cells++
			cl, det, script := evalChain(st, c, idx, a.Seed)
			st.outcomes["chain/"+strings.SplitN(chainExpect(c, "", idx), ":", 2)[0]+"/"+cl]++
			if cl == "" {
				continue
			}
			key := chainKey(c, idx, cl)
			if cl == "crash" {
				key = "crash:" + det
			}
			if seen[key] {
				continue
			}
			seen[key] = true
			cc := c
			w.Emit(rec{Kind: "fail", Key: key, Clause: cl, Size: len(script), Case: caseDesc{Family: "chain", Seed: a.Seed, Chain: &cc, Cls: []string{"Y", "Z"}[idx], Script: script}, Detail: det})
		}
	}
	if a.A == 0 {
		w.Emit(rec{Kind: "sample", Case: map[string]any{"family": "chain", "cfg": cfgs[5], "script": chainScript(cfgs[5], pfxOf(a.Seed), "", false), "expect_Y": chainExpect(cfgs[5], pfxOf(a.Seed), 0), "expect_Z": chainExpect(cfgs[5], pfxOf(a.Seed), 1)}})
	}
	w.Emit(rec{Kind: "count", N: st.cells, Runs: st.runs, Outcomes: st.outcomes, Counters: st.counters})
}

// ---------------------------------------------------------------- type-failure summarisation

// summariseTypes turns raw failing (boundary, type, value) cells into finding keys:
//
//	type:<boundary>:unchecked                    every value that must be rejected is accepted
//	type:<boundary>:accepts-<base>-for-any-type  all cells of one value base (null, float, ...) are wrongly accepted
//	type:<boundary>:<clause>:<type><-<value>     anything else, cell by cell
//
// and merges boundaries of one group that fail identically into "<group>*".
func summariseTypes(fails []typeFail, c *ev.Check, seed int64) {
	type cellK struct{ t, v int }
	perB := map[int]map[cellK]string{}
	for _, f := range fails {
		if perB[f.B] == nil {
			perB[f.B] = map[cellK]string{}
		}
		perB[f.B][cellK{f.T, f.V}] = f.Clause
	}
	st := newStats()
	type sk struct{ group, clause, sum string }
	type repT struct{ b, t, v int }
	bnds := map[sk][]string{}
	rep := map[sk]repT{}
	add := func(group, clause, sum string, b, t, v int) {
		k := sk{group, clause, sum}
		bnds[k] = append(bnds[k], boundaries[b].name)
		if _, ok := rep[k]; !ok {
			rep[k] = repT{b, t, v}
		}
	}
	for b := range boundaries {
		fs := perB[b]
		if len(fs) == 0 {
			continue
		}
		bd := boundaries[b]
		rejTotal, rejWrong := 0, 0
		baseTotal, baseWrong := map[string]int{}, map[string]int{}
		for ti, t := range declTypes {
			if skipType(bd, t) {
				continue
			}
			for vi, v := range valKinds {
				if accepts(t, v) {
					continue
				}
				rejTotal++
				baseTotal[v.base]++
				if fs[cellK{ti, vi}] == "wrong-accept" {
					rejWrong++
					baseWrong[v.base]++
				}
			}
		}
		done := map[cellK]bool{}
		first := func(base string) (int, int) {
			rt, rv := -1, -1
			for ti := range declTypes {
				for vi := range valKinds {
					k := cellK{ti, vi}
					if fs[k] == "wrong-accept" && (base == "" || valKinds[vi].base == base) {
						done[k] = true
						if rt < 0 {
							rt, rv = ti, vi
						}
					}
				}
			}
			return rt, rv
		}
		if rejWrong == rejTotal {
			t, v := first("")
			add(bd.group, "wrong-accept", "unchecked", b, t, v)
		} else {
			for _, base := range sortedKeys(baseTotal) {
				if baseWrong[base] == baseTotal[base] && baseTotal[base] > 0 {
					t, v := first(base)
					add(bd.group, "wrong-accept", "accepts-"+base+"-for-any-type", b, t, v)
				}
			}
		}
		// declared types that reject every (non-null) value they must accept
		var unusable []string
		ut, uv := -1, -1
		for ti, t := range declTypes {
			tot, wr := 0, 0
			for vi, v := range valKinds {
				if accepts(t, v) && v.base != "null" {
					tot++
					if fs[cellK{ti, vi}] == "wrong-reject" {
						wr++
					}
				}
			}
			if tot > 0 && wr == tot {
				unusable = append(unusable, t.src)
				for vi := range valKinds {
					if fs[cellK{ti, vi}] == "wrong-reject" {
						done[cellK{ti, vi}] = true
						if ut < 0 {
							ut, uv = ti, vi
						}
					}
				}
			}
		}
		if len(unusable) > 0 {
			add(bd.group, "wrong-reject", "rejects-every-value-of("+strings.Join(unusable, " ")+")", b, ut, uv)
		}
		// everything else: grouped by clause and value base, the declared types listed
		type lk struct{ cl, base string }
		left := map[lk][]string{}
		lrep := map[lk][2]int{}
		for ti := range declTypes {
			for vi := range valKinds {
				k := cellK{ti, vi}
				cl, ok := fs[k]
				if !ok || done[k] {
					continue
				}
				g := lk{cl, valKinds[vi].base}
				if _, ok := lrep[g]; !ok {
					lrep[g] = [2]int{ti, vi}
				}
				if n := len(left[g]); n == 0 || left[g][n-1] != declTypes[ti].src {
					left[g] = append(left[g], declTypes[ti].src)
				}
			}
		}
		for g, ts := range left {
			add(bd.group, g.cl, fmt.Sprintf("%s:%s-for(%s)", g.cl, g.base, strings.Join(ts, " ")), b, lrep[g][0], lrep[g][1])
		}
	}
	for k, bs := range bnds {
		sort.Strings(bs)
		key := fmt.Sprintf("type:%s:%s[%s]", k.group, k.sum, strings.Join(bs, ","))
		r := rep[k]
		_, _, script, io := evalTypeCell(st, boundaries[r.b], declTypes[r.t], r.v, seed)
		c.Fail(key, k.clause, len(script), caseDesc{Family: "type", Seed: seed, Bound: boundaries[r.b].name, Type: declTypes[r.t].src, Val: valKinds[r.v].name, Script: script},
			fmt.Sprintf("boundary %s, declared type %s, value %s (%s): reference rule says accept=%v; observed %s", boundaries[r.b].name, declTypes[r.t].src, valKinds[r.v].name, valKinds[r.v].src, accepts(declTypes[r.t], valKinds[r.v]), obsString(io)))
	}
}

// summariseVis turns failing visibility cells into finding keys. Per (member category, path
// family, op, clause) the failing (modifier @ site class) set is named:
//
//	no-check              every cell that must be denied is allowed (the path has no check)
//	unchecked             protected and private members are reachable from outside the lineage
//	private-unchecked     private members are reachable from outside, protected are not
//	private-as-protected  only private members leak, only to ancestors/descendants
//	<clause>[mod@site,..] anything else
//
// and groups with the same name are merged per member category: vis:<category>:<name>[<family>:<ops>,...]
func summariseVis(fails []rec, counters map[string]int64, c *ev.Check) {
	type gk struct{ tag, fam, op, clause string }
	groups := map[gk]map[string]bool{}
	reps := map[gk]rec{}
	better := func(a, b rec) bool { return a.Size < b.Size || (a.Size == b.Size && a.Detail < b.Detail) }
	for _, r := range fails {
		f := r.VF
		k := gk{f.Tag, f.Fam, f.Op, f.Clause}
		if groups[k] == nil {
			groups[k] = map[string]bool{}
		}
		groups[k][f.Mod+"@"+f.Rel] = true
		if old, ok := reps[k]; !ok || better(r, old) {
			reps[k] = r
		}
	}
	type mk struct{ tag, clause, sum string }
	merged := map[mk]map[string][]string{} // -> family -> ops
	mrep := map[mk]rec{}
	for k, set := range groups {
		sum := k.clause + "[" + strings.Join(sortedKeys(set), ",") + "]"
		if k.clause == "wrong-allow" {
			tk := k.tag + "|" + k.fam + "|" + k.op
			switch {
			case counters["denytotal|"+tk] > 0 && counters["denytotal|"+tk] == counters["denywrong|"+tk]:
				sum = "no-check"
			case set["private@outside"] && set["protected@outside"]:
				sum = "unchecked"
			case set["private@outside"]:
				sum = "private-unchecked"
			case !set["protected@outside"] && !set["protected@ancestor"] && !set["private@own"] && (set["private@ancestor"] || set["private@descendant"]):
				sum = "private-as-protected"
			}
		}
		m := mk{k.tag, k.clause, sum}
		if merged[m] == nil {
			merged[m] = map[string][]string{}
		}
		merged[m][k.fam] = append(merged[m][k.fam], k.op)
		if old, ok := mrep[m]; !ok || better(reps[k], old) {
			mrep[m] = reps[k]
		}
	}
	for m, fams := range merged {
		var parts []string
		for _, f := range sortedKeys(fams) {
			ops := fams[f]
			sort.Strings(ops)
			parts = append(parts, f+":"+strings.Join(ops, "+"))
		}
		key := fmt.Sprintf("vis:%s:%s[%s]", m.tag, m.sum, strings.Join(parts, ","))
		r := mrep[m]
		c.Fail(key, m.clause, r.Size, r.Case, r.Detail)
	}
}

// ---------------------------------------------------------------- main

func main() {
	if len(os.Args) > 2 && os.Args[1] == "probe" {
		probe(os.Args[2])
		return
	}
	if len(os.Args) > 2 && os.Args[1] == "dumpcontrols" {
		a, _ := strconv.Atoi(os.Args[2])
		dumpControls(a)
		runner.Cleanup()
		return
	}
	if len(os.Args) > 3 && os.Args[1] == "dumpvis" {
		a, _ := strconv.Atoi(os.Args[2])
		b, _ := strconv.Atoi(os.Args[3])
		if os.Getenv("PROBE_BARE") != "" {
			probeSeed = bareNames
		}
		dumpVis(a, b, len(os.Args) > 4)
		runner.Cleanup()
		return
	}
	if pool.IsWorker() {
		pool.Serve(map[string]pool.Handler{"vis": visWorker, "type": typeWorker, "inst": instWorker, "chain": chainWorker, "oblig": obligWorker, "gtype": gtypeWorker})
	}
	c := ev.New("C07")
	defer runner.Cleanup()
	if c.Replay != "" {
		replay(c)
		return
	}
	c.SetBudget(5*time.Minute, 30*time.Minute)
	// quick: seed-selected names; thorough: the same matrices under every name prefix (the
	// matrices themselves are already complete in quick)
	if c.Seed < 0 {
		c.Seed = -c.Seed
	}
	seeds := []int64{c.Seed, bareNames}
	if !c.Quick() {
		seeds = nil
		for i := range prefixes {
			seeds = append(seeds, c.Seed+int64(i))
		}
		seeds = append(seeds, bareNames)
	}
	var shards []pool.Shard
	for _, sd := range seeds {
		for si := range shapes {
			for i := range sitesOf(&shapes[si]) {
				shards = append(shards, pool.Shard{Kind: "vis", Arg: shardArg{Family: "vis", A: si, B: i, Seed: sd}})
			}
		}
		for bi := range boundaries {
			shards = append(shards, pool.Shard{Kind: "type", Arg: shardArg{Family: "type", A: bi, Seed: sd}})
		}
		for ki := range instKinds {
			shards = append(shards, pool.Shard{Kind: "inst", Arg: shardArg{Family: "inst", A: ki, Seed: sd}})
		}
		n := len(allChainCfgs())
		for i := 0; i < n; i += 16 {
			shards = append(shards, pool.Shard{Kind: "chain", Arg: shardArg{Family: "chain", A: i, B: i + 16, Seed: sd}})
		}
	}
	shards = append(shards, obligShards(c.Quick(), seeds)...)
	shards = append(shards, gtypeShards(seeds)...)
	var cells, runs int64
	outcomes := map[string]int64{}
	counters := map[string]int64{}
	tfails := map[int64][]typeFail{}
	var vfails []rec
	var gfails []gFail
	gseeds := map[int]int64{}
	pool.Run(shards, pool.Options{}, func(si int, rb json.RawMessage) {
		var r rec
		json.Unmarshal(rb, &r)
		switch r.Kind {
		case "count":
			cells += r.N
			runs += r.Runs
			for k, v := range r.Outcomes {
				outcomes[k] += v
			}
			for k, v := range r.Counters {
				counters[k] += v
			}
		case "fail":
			c.Fail(r.Key, r.Clause, r.Size, r.Case, r.Detail)
		case "vfail":
			vfails = append(vfails, r)
		case "gfail":
			b, _ := json.Marshal(r.Case)
			var gf gFail
			json.Unmarshal(b, &gf)
			gseeds[len(gfails)] = shards[si].Arg.(shardArg).Seed
			gfails = append(gfails, gf)
		case "tfail":
			b, _ := json.Marshal(r.Case)
			var tf typeFail
			json.Unmarshal(b, &tf)
			sd := shards[si].Arg.(shardArg).Seed
			tfails[sd] = append(tfails[sd], tf)
		case "sample":
			c.Sample(r.Case)
		case "harness":
			c.HarnessError("%s", r.Err)
		}
	}, func(d pool.Death) {
		c.Fail("worker-death:"+runner.FatalFrame(d.Stderr), "crash", 0, map[string]any{"item": d.Item, "reason": d.Reason}, d.Stderr)
	})
	for _, sd := range seeds {
		summariseTypes(tfails[sd], c, sd)
	}
	summariseVis(vfails, counters, c)
	summariseG(gfails, gseeds, c)
	for k, v := range outcomes {
		for i := int64(0); i < 1; i++ {
			c.Outcome(k)
		}
		_ = v
	}
	c.Set("outcome_cell_counts", outcomes)
	shown := map[string]int64{}
	for k, v := range counters {
		if !strings.HasPrefix(k, "denytotal|") && !strings.HasPrefix(k, "denywrong|") {
			shown[k] = v
		}
	}
	c.Set("counters", shown)
	c.Set("cells", cells)
	c.Set("shapes", []string{"deep: PP<-P<-D<-S<-G, B extends P, U", "flat: D<-S, U"})
	c.Set("declared_types", len(declTypes))
	c.Set("value_kinds", len(valKinds))
	c.Set("boundaries", len(boundaries))
	c.Set("chain_configs", len(allChainCfgs()))
	c.Set("gtype_histories_per_boundary_and_type_argument", 1+4*31)
	c.Set("oblig_configs", len(allObligCfgs(c.Quick())))
	c.Set("oblig_bounds(depth,interfaces)", obligBounds(c.Quick()))
	c.Set("name_prefixes", len(seeds))
	c.Assume("visibility rule = lexical class of the accessing code vs. declaring class; public members are only controls (a path that cannot reach the public member at a site makes no claim about allowed protected/private access there)")
	c.Assume("protected member reached from ancestor-class code is left open (statement: denied, PHP: allowed); isset() is held only to the no-crash / no-effect clauses")
	c.Assume("float and bool declarations, int->float widening, default values, by-reference and variadic parameters, traits, enums, readonly, magic __get/__set/__call are outside the matrix")
	if len(outcomes) < 12 {
		c.HarnessError("vacuous: only %d distinct outcome classes", len(outcomes))
	}
	if outcomes["deny/read/denied/"] == 0 || outcomes["allow/read/ok/"] == 0 {
		c.HarnessError("vacuous: the visibility matrix never produced both a correct denial and a correct allowed read")
	}
	var obDeny, obOk int64
	for k, v := range outcomes {
		if strings.HasPrefix(k, "oblig/deny/") {
			obDeny += v
		}
		if strings.HasPrefix(k, "oblig/ok/") {
			obOk += v
		}
	}
	var gAcc, gRej int64
	for k, v := range outcomes {
		if strings.HasPrefix(k, "gtype/accept=true/") {
			gAcc += v
		}
		if strings.HasPrefix(k, "gtype/accept=false/") {
			gRej += v
		}
	}
	if gAcc == 0 || gRej == 0 {
		c.HarnessError("vacuous: the generic typed-store family did not contain both acceptable and unacceptable values")
	}
	if obDeny == 0 || obOk == 0 {
		c.HarnessError("vacuous: the obligation-route family did not contain both incomplete and complete concrete classes")
	}
	c.Finish(cells, runs, cells, "every cell of the visibility, declared-type, instantiation and abstract-chain matrices, judged against an independent rule table; failing cells re-run alone, denials re-run bare")
}

// ---------------------------------------------------------------- replay

func replay(c *ev.Check) {
	var cs caseDesc
	key, err := ev.LoadReplay(c.Replay, &cs)
	if err != nil {
		fmt.Println("replay:", err)
		os.Exit(2)
	}
	st := newStats()
	var cl, det string
	switch cs.Family {
	case "vis":
		sh := shapeByName(cs.Shape)
		cn := cnFor(cs.Seed)
		var found *cell
		var pre []cell
		all := cellsOf(sh, *cs.Site, cn)
		for _, cc := range all {
			if cc.Recv == cs.Recv && cc.M.name == cs.Member && cc.Path == cs.Path && cc.Op == cs.Op && cc.Exec == cs.Exec && cc.Step == cs.Step {
				x := cc
				found = &x
			}
		}
		if found != nil && cs.Site.kind == "trait" {
			for _, cc := range all {
				if cc.Base == found.Base && cc.Step < found.Step {
					pre = append(pre, cc)
				}
			}
		}
		if found == nil {
			fmt.Println("replay: cell not found")
			os.Exit(2)
		}
		var script string
		cl, det, script, _ = evalVisCell(st, sh, *cs.Site, pre, *found, cs.Seed)
		fmt.Println(script)
		if cl != "" && cl != "crash" {
			k := visKey(sh, *cs.Site, found, cl)
			fmt.Println("key now:", k)
		}
	case "type":
		bi, ti, vi := -1, -1, -1
		for i, b := range boundaries {
			if b.name == cs.Bound {
				bi = i
			}
		}
		for i, t := range declTypes {
			if t.src == cs.Type {
				ti = i
			}
		}
		for i, v := range valKinds {
			if v.name == cs.Val {
				vi = i
			}
		}
		if bi < 0 || ti < 0 || vi < 0 {
			fmt.Println("replay: cell not found")
			os.Exit(2)
		}
		var script string
		cl, det, script, _ = evalTypeCell(st, boundaries[bi], declTypes[ti], vi, cs.Seed)
		fmt.Println(script)
	case "inst":
		for _, k := range instKinds {
			for _, p := range instPaths {
				if k.name == cs.IKind && p.name == cs.IPath {
					var script string
					cl, det, script = evalInst(st, k, p, cs.Seed)
					fmt.Println(script)
				}
			}
		}
	case "chain":
		idx := 0
		if cs.Cls == "Z" {
			idx = 1
		}
		var script string
		cl, det, script = evalChain(st, *cs.Chain, idx, cs.Seed)
		fmt.Println(script)
	case "gtype":
		bi, ti, vi := -1, -1, -1
		for i, b := range gBoundaries {
			if b.name == cs.Bound {
				bi = i
			}
		}
		for i, t := range declTypes[:nGArgs] {
			if t.src == cs.Type {
				ti = i
			}
		}
		for i, v := range valKinds {
			if v.name == cs.Val {
				vi = i
			}
		}
		if bi < 0 || ti < 0 || vi < 0 || cs.GHist == nil {
			fmt.Println("replay: cell not found")
			os.Exit(2)
		}
		var script string
		cl, det, script = evalGCell(st, gBoundaries[bi], declTypes[ti], *cs.GHist, vi, cs.Seed, true)
		fmt.Println(script)
	case "oblig":
		var script string
		cl, det, script = evalOblig(st, *cs.Oblig, cs.Seed, map[string]bool{})
		fmt.Println(script)
		if cl != "" && cl != "crash" {
			fmt.Println("key now:", obligKey(*cs.Oblig, cl))
		}
	}
	fmt.Printf("clause=%q %s\n", cl, det)
	if cl != "" {
		c.Fail(key, cl, 0, cs, det)
	}
	c.Finish(1, st.runs, 1, "replay")
}
