package main

// Abstract / interface instantiation and missing-abstract-method tables.

import (
	"fmt"
	"strings"
)

// ---- (1) instantiation of abstract classes and interfaces through every `new` form ---------

type instKind struct {
	name string
	decl string // declaration of {X}
	abs  bool   // must not be instantiable
}

var instKinds = []instKind{
	{"abstract-with-abstract-method", "abstract class {X} { abstract public function m(); public static function mk() { return new static(); } public static function mks() { return new self(); } }", true},
	{"abstract-no-abstract-method", "abstract class {X} { public function m() { return 1; } public static function mk() { return new static(); } public static function mks() { return new self(); } }", true},
	{"abstract-with-constructor", "abstract class {X} { public function __construct() { echo \"<ctor>\"; } public static function mk() { return new static(); } public static function mks() { return new self(); } }", true},
	{"abstract-extends-concrete", "class {X}Base { public function m() { return 1; } }\nabstract class {X} extends {X}Base { public static function mk() { return new static(); } public static function mks() { return new self(); } }", true},
	{"abstract-extends-abstract", "abstract class {X}Base { abstract public function m(); }\nabstract class {X} extends {X}Base { public static function mk() { return new static(); } public static function mks() { return new self(); } }", true},
	{"interface-with-method", "interface {X} { public function m(); }", true},
	{"interface-empty", "interface {X} { }", true},
	{"interface-extends", "interface {X}Base { public function m(); }\ninterface {X} extends {X}Base { }", true},
	{"concrete-declares-abstract-method", "class {X} { abstract public function m(); public static function mk() { return new static(); } public static function mks() { return new self(); } }", true},
	{"concrete-declares-abstract-static-method", "class {X} { abstract public static function m(); public static function mk() { return new static(); } public static function mks() { return new self(); } }", true},
	{"concrete-control", "class {X} { public function m() { return 1; } public static function mk() { return new static(); } public static function mks() { return new self(); } }", false},
	{"concrete-child-of-abstract-control", "abstract class {X}Base { abstract public function m(); }\nclass {X} extends {X}Base { public function m() { return 1; } public static function mk() { return new static(); } public static function mks() { return new self(); } }", false},
}

type instPath struct {
	name string
	src  string
	cls  bool   // needs a class (static factory)
	pre  string // declared once before the attempts
}

// attempts: every instantiation is tried this many times in the same script, each in its own
// try: a rejection must not depend on having been the first attempt.
const attempts = 3

var instPaths = []instPath{
	{"new", "$r = new {X}();", false, ""},
	{"new-noparens", "$r = new {X};", false, ""},
	{"new-dynamic", "$n = \"{X}\"; $r = new $n();", false, ""},
	{"new-static", "$r = {X}::mk();", true, ""},
	{"new-self", "$r = {X}::mks();", true, ""},
	{"new-in-function", "$r = mkx();", false, "function mkx() { return new {X}(); }"},
}

func instScript(k instKind, p instPath, x string, bare bool) string {
	rep := func(s string) string { return strings.ReplaceAll(s, "{X}", x) }
	var sb strings.Builder
	sb.WriteString(prelude)
	sb.WriteString(rep(k.decl) + "\n")
	if p.pre != "" {
		sb.WriteString(rep(p.pre) + "\n")
	}
	if bare {
		fmt.Fprintf(&sb, "echo \"@@0@@\"; %s echo \"~R~ok|\", sh($r);\n", rep(p.src))
	} else {
		for a := 0; a < attempts; a++ {
			fmt.Fprintf(&sb, "$r = null; echo \"@@%d@@\"; try { %s echo \"~R~ok|\", sh($r); } catch (Throwable $e) { echo \"~R~denied|\", get_class($e), \"|\", $e->getMessage(); }\n", a, rep(p.src))
		}
	}
	sb.WriteString("echo \"@@END@@\";\n")
	return sb.String()
}

// ---- (2) missing abstract methods over a 3-level chain ------------------------------------------

// chainCfg: X declares abstract m1 (and m2 unless m2InY); Y and Z each abstract or concrete and
// implementing a subset of {m1, m2}.
type chainCfg struct {
	Src   string `json:"src"`     // "abstract" (X abstract class) | "interface" (X interface, Y implements) | "mixed" (m1 from interface, m2 from abstract class)
	M2InY bool   `json:"m2_in_y"` // m2 is declared abstract by Y instead of X
	YAbs  bool   `json:"y_abs"`
	ZAbs  bool   `json:"z_abs"`
	YImpl int    `json:"y_impl"` // bit0 = m1, bit1 = m2
	ZImpl int    `json:"z_impl"`
}

func (c chainCfg) valid() bool {
	if c.M2InY {
		if c.Src == "interface" {
			return false
		}
		if c.YImpl&2 != 0 {
			return false // Y cannot both declare m2 abstract and implement it
		}
	}
	return true
}

func allChainCfgs() []chainCfg {
	var out []chainCfg
	for _, src := range []string{"abstract", "interface", "mixed"} {
		for _, m2y := range []bool{false, true} {
			for ya := 0; ya < 2; ya++ {
				for za := 0; za < 2; za++ {
					for yi := 0; yi < 4; yi++ {
						for zi := 0; zi < 4; zi++ {
							c := chainCfg{src, m2y, ya == 1, za == 1, yi, zi}
							if c.valid() {
								out = append(out, c)
							}
						}
					}
				}
			}
		}
	}
	return out
}

func chainScript(c chainCfg, pfx string, only string, bare bool) string {
	X, Y, Z, J := pfx+"X", pfx+"Y", pfx+"Z", pfx+"J"
	var sb strings.Builder
	sb.WriteString(prelude)
	m2 := "abstract public function m2();"
	im2 := "public function m2();"
	if c.M2InY {
		m2, im2 = "", ""
	}
	yext := " extends " + X
	switch c.Src {
	case "abstract":
		fmt.Fprintf(&sb, "abstract class %s { abstract public function m1(); %s }\n", X, m2)
	case "interface":
		fmt.Fprintf(&sb, "interface %s { public function m1(); %s }\n", X, im2)
		yext = " implements " + X
	case "mixed":
		fmt.Fprintf(&sb, "interface %s { public function m1(); }\n", J)
		fmt.Fprintf(&sb, "abstract class %s implements %s { %s }\n", X, J, m2)
	}
	impl := func(cls string, bits int) string {
		s := ""
		if bits&1 != 0 {
			s += fmt.Sprintf(" public function m1() { return \"%s::m1\"; }", cls)
		}
		if bits&2 != 0 {
			s += fmt.Sprintf(" public function m2() { return \"%s::m2\"; }", cls)
		}
		return s
	}
	abs := func(b bool) string {
		if b {
			return "abstract "
		}
		return ""
	}
	ym2 := ""
	if c.M2InY {
		ym2 = " abstract public function m2();"
	}
	fmt.Fprintf(&sb, "%sclass %s%s {%s%s }\n", abs(c.YAbs), Y, yext, ym2, impl(Y, c.YImpl))
	fmt.Fprintf(&sb, "%sclass %s extends %s {%s }\n", abs(c.ZAbs), Z, Y, impl(Z, c.ZImpl))
	for i, cls := range []string{Y, Z} {
		if only != "" && only != []string{"Y", "Z"}[i] {
			continue
		}
		body := fmt.Sprintf("$o = new %s(); echo \"<inst>\"; $r = $o->m1() . \",\" . $o->m2();", cls)
		if bare {
			fmt.Fprintf(&sb, "echo \"@@%d@@\"; %s echo \"~R~ok|\", sh($r);\n", i*10, body)
		} else {
			for a := 0; a < attempts; a++ {
				fmt.Fprintf(&sb, "$r = null; echo \"@@%d@@\"; try { %s echo \"~R~ok|\", sh($r); } catch (Throwable $e) { echo \"~R~denied|\", get_class($e), \"|\", $e->getMessage(); }\n", i*10+a, body)
			}
		}
	}
	sb.WriteString("echo \"@@END@@\";\n")
	return sb.String()
}

// chainExpect returns for class index (0=Y,1=Z): "ok:<m1 definer>,<m2 definer>", "deny" or "open".
func chainExpect(c chainCfg, pfx string, idx int) string {
	Y, Z := pfx+"Y", pfx+"Z"
	yBroken := !c.YAbs && (c.YImpl != 3 || c.M2InY) // concrete Y that lacks a method or declares an abstract one
	if idx == 0 {
		if c.YAbs || yBroken {
			return "deny"
		}
		return "ok:string:" + Y + "::m1," + Y + "::m2"
	}
	if c.ZAbs {
		return "deny"
	}
	have := c.YImpl | c.ZImpl
	if have != 3 {
		return "deny"
	}
	if yBroken {
		return "open" // PHP stops at the declaration of Y; nothing is fixed for its descendants
	}
	d := func(bit int, n string) string {
		if c.ZImpl&bit != 0 {
			return Z + "::" + n
		}
		return Y + "::" + n
	}
	return "ok:string:" + d(1, "m1") + "," + d(2, "m2")
}
