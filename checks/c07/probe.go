package main

import (
	"encoding/json"
	"fmt"
	"os"

	"verif/engine/runner"
)

// probe runs one source file through the runner and prints the reduced result (development aid:
// `./vcheck C07 probe file.zy`).
func probe(path string) {
	b, err := os.ReadFile(path)
	if err != nil {
		fmt.Println(err)
		os.Exit(2)
	}
	res := runner.Run(string(b), runner.Opts{})
	out := res.Out
	res.Out = ""
	j, _ := json.Marshal(res)
	fmt.Print(out)
	fmt.Println("\n--", string(j))
	runner.Cleanup()
}

var probeSeed int64

// dumpVis prints the batch script of one (shape, site index) and its raw result.
func dumpVis(shape, siteIdx int, run bool) {
	sh := &shapes[shape]
	sites := sitesOf(sh)
	if siteIdx < 0 {
		for i, s := range sites {
			cn := cnFor(probeSeed)
			cells := cellsOf(sh, s, cn)
			res := runner.Run(visScript(sh, s, cells, cn, false), runner.Opts{Fuel: 400_000_000})
			_, ended := parseCells(res.Out)
			fmt.Printf("%d %s cells=%d kind=%s ended=%v msg=%s fuel=%d\n", i, s, len(cells), res.Kind, ended, res.Msg, res.FuelUsed)
		}
		return
	}
	s := sites[siteIdx]
	cn := cnFor(probeSeed)
	cells := cellsOf(sh, s, cn)
	src := visScript(sh, s, cells, cn, false)
	fmt.Println(src)
	if run {
		res := runner.Run(src, runner.Opts{})
		fmt.Println(res.Out)
		fmt.Println("--", res.Kind, res.Class, res.Msg, res.Line, res.PanicKey)
	}
}

// dumpControls lists the public control cells that do not conform, per site.
func dumpControls(shape int) {
	sh := &shapes[shape]
	cn := cnFor(probeSeed)
	for _, s := range sitesOf(sh) {
		cells := cellsOf(sh, s, cn)
		res := runner.Run(visScript(sh, s, cells, cn, false), runner.Opts{Fuel: 400_000_000})
		obs, _ := parseCells(res.Out)
		for i := range cells {
			c := &cells[i]
			if c.M.mod == "public" && (c.Path == "->" || c.Path == "->$n" || c.Path == "static::" || c.Path == "self::") {
				if j := judge(sh, s, c, obs[c.ID]); j != "" {
					fmt.Printf("%s recv=%s %s %s -> %s %s\n", s, c.Recv, c.Body, c.Op, j, obsString(obs[c.ID]))
				}
			}
		}
	}
}
