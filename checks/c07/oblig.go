package main

// "oblig": by which ROUTE an abstract-method obligation reaches a concrete class.
//
// The chain family varies which methods are implemented where, but the abstract methods always
// sit directly in the one interface / abstract class the chain starts from. Here the source side
// is enumerated: up to 3 interfaces I1..I3 with every extends-DAG between them (later may extend
// earlier: 8 graphs, incl. aggregate/marker interfaces without own methods, two-hop chains,
// multiple extends, diamonds), a class chain C [extends abstract P [extends abstract G]], every
// interface attached (`implements`) at one of the levels or nowhere, two methods m1, m2 each
// declared in one interface or as an abstract method of P / G (m2 may be absent, may be static),
// and each implemented in C, P, G or nowhere.
//
// Reference model: the obligations of C are the methods declared by an interface reachable from
// any class of the chain through implements + the transitive closure of extends, plus the
// abstract methods of P and G. `new C()` yields an object iff every obligation has a concrete
// implementation in C, P or G; then every implemented method dispatches to its definer.

import (
	"encoding/json"
	"fmt"
	"sort"
	"strings"

	"verif/engine/pool"
)

const (
	declP    = 3
	declG    = 4
	declNone = 5
)

type obCfg struct {
	NI     int    `json:"ni"`     // number of interfaces declared (I1..)
	Ext    int    `json:"ext"`    // bit0 I2 extends I1, bit1 I3 extends I1, bit2 I3 extends I2
	Depth  int    `json:"depth"`  // 1: C; 2: C extends P; 3: C extends P extends G (P, G abstract)
	Decl   [2]int `json:"decl"`   // declarer of m1, m2: 0..2 interface, 3 abstract in P, 4 abstract in G, 5 not declared
	Att    [3]int `json:"att"`    // per interface: 0 nowhere, 1 C implements, 2 P implements, 3 G implements
	Impl   [2]int `json:"impl"`   // per method: 0 nowhere, 1 in C, 2 in P, 3 in G
	Static bool   `json:"static"` // m2 is a static method (declaration and implementation)
}

var extEdges = [3][2]int{{1, 0}, {2, 0}, {2, 1}} // bit -> (child, parent)

// valid: the configuration is a well-formed program with a definite expectation.
// m1None: m1 may be absent too (only configurations produced by reduction).
func (c obCfg) valid(m1None bool) bool {
	if c.NI < 0 || c.NI > 3 || c.Depth < 1 || c.Depth > 3 {
		return false
	}
	for b, e := range extEdges {
		if c.Ext&(1<<b) != 0 && e[0] >= c.NI {
			return false
		}
	}
	for i := 0; i < 2; i++ {
		d, im := c.Decl[i], c.Impl[i]
		switch {
		case d < 3:
			if d >= c.NI {
				return false
			}
		case d == declP:
			// an abstract method of P implemented in P itself is invalid; implemented above P
			// (re-abstracting a concrete method) is left out: the statement does not settle it
			if c.Depth < 2 || im > 1 {
				return false
			}
		case d == declG:
			if c.Depth < 3 || im > 2 {
				return false
			}
		case d == declNone:
			if im != 0 || (i == 0 && !m1None) {
				return false
			}
		default:
			return false
		}
		if im < 0 || im > c.Depth {
			return false
		}
	}
	for j, a := range c.Att {
		if a < 0 || a > c.Depth || (j >= c.NI && a != 0) {
			return false
		}
	}
	if c.Static && c.Decl[1] == declNone {
		return false
	}
	return true
}

// obligBounds: (depth, number of interfaces) blocks of the tier.
func obligBounds(quick bool) [][2]int {
	if quick {
		return [][2]int{{1, 3}, {2, 3}, {3, 2}}
	}
	return [][2]int{{1, 3}, {2, 3}, {3, 3}}
}

func allObligCfgs(quick bool) []obCfg {
	var out []obCfg
	for _, b := range obligBounds(quick) {
		for ext := 0; ext < 8; ext++ {
			for d1 := 0; d1 < declNone; d1++ {
				for d2 := 0; d2 <= declNone; d2++ {
					for att := 0; att < 64; att++ {
						for impl := 0; impl < 16; impl++ {
							for s := 0; s < 2; s++ {
								c := obCfg{NI: b[1], Ext: ext, Depth: b[0], Decl: [2]int{d1, d2},
									Att: [3]int{att & 3, (att >> 2) & 3, att >> 4}, Impl: [2]int{impl & 3, impl >> 2}, Static: s == 1}
								if c.valid(false) {
									out = append(out, c)
								}
							}
						}
					}
				}
			}
		}
	}
	return out
}

// reach: interfaces whose methods bind C.
func (c obCfg) reach() [3]bool {
	var r [3]bool
	for j := 0; j < c.NI; j++ {
		if c.Att[j] != 0 {
			r[j] = true
		}
	}
	for changed := true; changed; {
		changed = false
		for b, e := range extEdges {
			if c.Ext&(1<<b) != 0 && r[e[0]] && !r[e[1]] {
				r[e[1]] = true
				changed = true
			}
		}
	}
	return r
}

func (c obCfg) obligated(i int) bool {
	d := c.Decl[i]
	if d < 3 {
		return c.reach()[d]
	}
	return d == declP || d == declG
}

var obLevel = []string{"", "C", "P", "G"}

// obligExpect: "deny" or "ok:<sh() of the joined definers of the implemented methods>".
func obligExpect(c obCfg, pfx string) string {
	for i := 0; i < 2; i++ {
		if c.obligated(i) && c.Impl[i] == 0 {
			return "deny"
		}
	}
	var parts []string
	for i := 0; i < 2; i++ {
		if c.Impl[i] != 0 {
			parts = append(parts, fmt.Sprintf("%s%s::m%d", pfx, obLevel[c.Impl[i]], i+1))
		}
	}
	return "ok:string:" + strings.Join(parts, ",")
}

func obligScript(c obCfg, pfx string, bare bool) string {
	var sb strings.Builder
	sb.WriteString(prelude)
	iname := func(j int) string { return fmt.Sprintf("%sI%d", pfx, j+1) }
	cname := func(l int) string { return pfx + obLevel[l] }
	st := func(i int) string {
		if i == 1 && c.Static {
			return "static "
		}
		return ""
	}
	for j := 0; j < c.NI; j++ {
		var ext []string
		for b, e := range extEdges {
			if c.Ext&(1<<b) != 0 && e[0] == j {
				ext = append(ext, iname(e[1]))
			}
		}
		fmt.Fprintf(&sb, "interface %s", iname(j))
		if len(ext) > 0 {
			sb.WriteString(" extends " + strings.Join(ext, ", "))
		}
		sb.WriteString(" {")
		for i := 0; i < 2; i++ {
			if c.Decl[i] == j {
				fmt.Fprintf(&sb, " public %sfunction m%d();", st(i), i+1)
			}
		}
		sb.WriteString(" }\n")
	}
	for l := c.Depth; l >= 1; l-- {
		if l > 1 {
			sb.WriteString("abstract ")
		}
		sb.WriteString("class " + cname(l))
		if l < c.Depth {
			sb.WriteString(" extends " + cname(l+1))
		}
		var imp []string
		for j := 0; j < c.NI; j++ {
			if c.Att[j] == l {
				imp = append(imp, iname(j))
			}
		}
		if len(imp) > 0 {
			sb.WriteString(" implements " + strings.Join(imp, ", "))
		}
		sb.WriteString(" {")
		for i := 0; i < 2; i++ {
			if (c.Decl[i] == declP && l == 2) || (c.Decl[i] == declG && l == 3) {
				fmt.Fprintf(&sb, " abstract public %sfunction m%d();", st(i), i+1)
			}
			if c.Impl[i] == l {
				fmt.Fprintf(&sb, " public %sfunction m%d() { return \"%s::m%d\"; }", st(i), i+1, cname(l), i+1)
			}
		}
		sb.WriteString(" }\n")
	}
	var calls []string
	for i := 0; i < 2; i++ {
		if c.Impl[i] == 0 {
			continue
		}
		if i == 1 && c.Static {
			calls = append(calls, fmt.Sprintf("%s::m2()", cname(1)))
		} else {
			calls = append(calls, fmt.Sprintf("$o->m%d()", i+1))
		}
	}
	call := "\"\""
	if len(calls) > 0 {
		call = strings.Join(calls, " . \",\" . ")
	}
	body := fmt.Sprintf("$o = new %s(); echo \"<inst>\"; $r = %s;", cname(1), call)
	if bare {
		fmt.Fprintf(&sb, "echo \"@@0@@\"; %s echo \"~R~ok|\", sh($r);\n", body)
	} else {
		for a := 0; a < attempts; a++ {
			fmt.Fprintf(&sb, "$r = null; echo \"@@%d@@\"; try { %s echo \"~R~ok|\", sh($r); } catch (Throwable $e) { echo \"~R~denied|\", get_class($e), \"|\", $e->getMessage(); }\n", a, body)
		}
	}
	sb.WriteString("echo \"@@END@@\";\n")
	return sb.String()
}

// bareSig: the class of a rejection for the bare top-level re-run: chain depth, static-ness and,
// per method, where it is declared (interface / P / G / not) and whether it is the missing one.
// The bare form is run once per class and shard (nil map: never), not once per configuration.
func bareSig(c obCfg) string {
	s := fmt.Sprint(c.Depth, c.Static)
	for i := 0; i < 2; i++ {
		d := c.Decl[i]
		if d < 3 {
			d = 0
		}
		s += fmt.Sprint("|", d, c.obligated(i) && c.Impl[i] == 0)
	}
	return s
}

// evalOblig judges one configuration (all attempts of its script). bare != nil: a correct
// rejection whose class (bareSig) was not yet seen is re-run in the bare top-level form.
func evalOblig(st *stats, c obCfg, seed int64, bare map[string]bool) (clause, detail, script string) {
	pfx := pfxOf(seed)
	script = obligScript(c, pfx, false)
	res := st.run(script)
	if res.Kind == "panic" {
		return "crash", res.PanicKey, script
	}
	exp := obligExpect(c, pfx)
	obs, _ := parseCells(res.Out)
	bareDone := bare == nil || bare[bareSig(c)]
	for a := 0; a < attempts; a++ {
		o, seen := obs[a]
		retry := ""
		if a > 0 {
			retry = "-on-retry"
		}
		detail = fmt.Sprintf("attempt %d of %d in one script; expected %s; run kind=%s %s observed %s", a+1, attempts, exp, res.Kind, trunc(res.Msg, 120), obsString(o))
		if o.Panic {
			return "crash", "caught:" + trunc(o.Msg, 80), script
		}
		scriptErr := !seen && (res.Kind == "throw" || res.Kind == "parse") // rejected at declaration
		if exp == "deny" {
			if strings.Contains(o.Pre, "<inst>") {
				return "instantiated" + retry, detail, script
			}
			if scriptErr || o.Status == "denied" {
				if o.Status == "denied" && !bareDone {
					bareDone = true
					bare[bareSig(c)] = true
					bres := st.run(obligScript(c, pfx, true))
					if cl, key := bareVerdict(bres); cl != "" {
						return cl, key, script
					}
				}
				continue
			}
			return "instantiated" + retry, detail, script
		}
		if scriptErr || o.Status != "ok" {
			return "complete-class-rejected" + retry, detail, script
		}
		if "ok:"+o.Val != exp {
			return "wrong-dispatch" + retry, detail, script
		}
	}
	return "", detail, script
}

// ---- reduction to a minimal failing configuration ------------------------------------------------

var implRank = [4]int{3, 0, 1, 2} // implemented in C < P < G < nowhere

// obligSimpler lists the one-step simplifications of c, most drastic first.
func obligSimpler(c obCfg) []obCfg {
	var out []obCfg
	add := func(x obCfg) {
		if x != c && x.valid(true) {
			out = append(out, x)
		}
	}
	for i := 0; i < 2; i++ { // drop a method
		if c.Decl[i] != declNone {
			x := c
			x.Decl[i], x.Impl[i] = declNone, 0
			if i == 1 {
				x.Static = false
			}
			add(x)
		}
	}
	if c.Static {
		x := c
		x.Static = false
		add(x)
	}
	if c.Depth > 1 {
		x := c
		x.Depth--
		add(x)
	}
	if c.NI > 0 {
		x := c
		x.NI--
		add(x)
	}
	for b, e := range extEdges { // shorten a route: attach the extended interface instead of the extending one
		if c.Ext&(1<<b) != 0 && c.Att[e[0]] != 0 && c.Att[e[1]] == 0 {
			x := c
			x.Att[e[1]], x.Att[e[0]] = c.Att[e[0]], 0
			add(x)
		}
	}
	for b := 0; b < 3; b++ {
		if c.Ext&(1<<b) != 0 {
			x := c
			x.Ext &^= 1 << b
			add(x)
		}
	}
	for j := 0; j < 3; j++ {
		for a := 0; a < c.Att[j]; a++ {
			x := c
			x.Att[j] = a
			add(x)
		}
	}
	for i := 0; i < 2; i++ {
		if c.Decl[i] == declNone {
			continue
		}
		for d := 0; d < c.Decl[i]; d++ {
			x := c
			x.Decl[i] = d
			add(x)
		}
	}
	for i := 0; i < 2; i++ {
		for _, im := range []int{1, 2, 3} {
			if implRank[im] < implRank[c.Impl[i]] {
				x := c
				x.Impl[i] = im
				add(x)
			}
		}
	}
	return out
}

type obligMemo map[obCfg]string

func (m obligMemo) clause(st *stats, c obCfg, seed int64) string {
	if cl, ok := m[c]; ok {
		return cl
	}
	cl, _, _ := evalOblig(st, c, seed, nil)
	m[c] = cl
	return cl
}

func reduceOblig(st *stats, memo obligMemo, c obCfg, clause string, seed int64) obCfg {
	for again := true; again; {
		again = false
		for _, x := range obligSimpler(c) {
			if memo.clause(st, x, seed) == clause {
				c, again = x, true
				break
			}
		}
	}
	return c
}

// obligKey renders a (reduced) configuration canonically: interfaces are named a, b, c in the
// order in which they are met from C upwards, unused ones are dropped, methods are named x, y.
func obligKey(c obCfg, clause string) string {
	label := map[int]string{}
	var order []int
	meet := func(j int) {
		if _, ok := label[j]; !ok {
			label[j] = string(rune('a' + len(order)))
			order = append(order, j)
		}
	}
	for l := 1; l <= c.Depth; l++ {
		for j := 0; j < c.NI; j++ {
			if c.Att[j] == l {
				meet(j)
			}
		}
	}
	for k := 0; k < len(order); k++ {
		for b, e := range extEdges {
			if c.Ext&(1<<b) != 0 && e[0] == order[k] {
				meet(e[1])
			}
		}
	}
	for i := 0; i < 2; i++ { // declaring but unreachable interfaces
		if c.Decl[i] < 3 {
			meet(c.Decl[i])
			for k := 0; k < len(order); k++ {
				for b, e := range extEdges {
					if c.Ext&(1<<b) != 0 && e[0] == order[k] {
						meet(e[1])
					}
				}
			}
		}
	}
	// methods, sorted by description
	type md struct {
		i    int
		desc string
	}
	var ms []md
	for i := 0; i < 2; i++ {
		if c.Decl[i] == declNone {
			continue
		}
		d := ""
		if i == 1 && c.Static {
			d = "static"
		}
		switch {
		case c.Decl[i] < 3:
			d += "@" + label[c.Decl[i]]
		case c.Decl[i] == declP:
			d += "@P"
		default:
			d += "@G"
		}
		if c.Impl[i] == 0 {
			d += ":unimplemented"
		} else {
			d += ":in-" + obLevel[c.Impl[i]]
		}
		ms = append(ms, md{i, d})
	}
	sort.Slice(ms, func(a, b int) bool { return ms[a].desc < ms[b].desc })
	mname := map[int]string{}
	var mparts []string
	for k, m := range ms {
		mname[m.i] = string(rune('x' + k))
		mparts = append(mparts, mname[m.i]+m.desc)
	}
	var cls []string
	for l := 1; l <= c.Depth; l++ {
		s := obLevel[l]
		var imp []string
		for _, j := range order {
			if c.Att[j] == l {
				imp = append(imp, label[j])
			}
		}
		if len(imp) > 0 {
			s += "(" + strings.Join(imp, ",") + ")"
		}
		cls = append(cls, s)
	}
	var ifs []string
	for _, j := range order {
		var own, ext []string
		for _, m := range ms {
			if c.Decl[m.i] == j {
				own = append(own, mname[m.i])
			}
		}
		for b, e := range extEdges {
			if c.Ext&(1<<b) != 0 && e[0] == j {
				ext = append(ext, label[e[1]])
			}
		}
		sort.Strings(ext)
		s := label[j] + "{" + strings.Join(own, ",") + "}"
		if len(ext) > 0 {
			s += ">" + strings.Join(ext, ",")
		}
		ifs = append(ifs, s)
	}
	return fmt.Sprintf("oblig:%s:%s|%s|%s", clause, strings.Join(cls, "<"), strings.Join(ifs, ";"), strings.Join(mparts, ","))
}

func obligWorker(w *pool.W, arg json.RawMessage) {
	var a shardArg
	json.Unmarshal(arg, &a)
	cfgs := allObligCfgs(a.Quick)
	st := newStats()
	memo := obligMemo{}
	seen := map[string]bool{}
	bare := map[string]bool{}
	for i := a.A; i < a.B && i < len(cfgs); i++ {
		c := cfgs[i]
		if !w.Item(fmt.Sprintf("oblig/%d", i)) {
			continue
		}
		st.cells++
		cl, det, script := evalOblig(st, c, a.Seed, bare)
		st.outcomes["oblig/"+strings.SplitN(obligExpect(c, ""), ":", 2)[0]+"/"+cl]++
		if cl == "" {
			continue
		}
		st.counters["failing-cells"]++
		if cl == "crash" {
			key := "crash:" + det
			if !seen[key] {
				seen[key] = true
				cc := c
				w.Emit(rec{Kind: "fail", Key: key, Clause: cl, Size: len(script), Case: caseDesc{Family: "oblig", Seed: a.Seed, Oblig: &cc, Script: script}, Detail: det})
			}
			continue
		}
		memo[c] = cl
		r := reduceOblig(st, memo, c, cl, a.Seed)
		key := obligKey(r, cl)
		if seen[key] {
			continue
		}
		seen[key] = true
		_, rdet, rscript := evalOblig(st, r, a.Seed, nil)
		w.Emit(rec{Kind: "fail", Key: key, Clause: cl, Size: len(rscript), Case: caseDesc{Family: "oblig", Seed: a.Seed, Oblig: &r, Script: rscript},
			Detail: fmt.Sprintf("reduced from configuration %+v\n%s", c, rdet)})
	}
	if a.A == 0 {
		s := cfgs[len(cfgs)/2]
		w.Emit(rec{Kind: "sample", Case: map[string]any{"family": "oblig", "cfg": s, "script": obligScript(s, pfxOf(a.Seed), false), "expect": obligExpect(s, pfxOf(a.Seed))}})
	}
	w.Emit(rec{Kind: "count", N: st.cells, Runs: st.runs, Outcomes: st.outcomes, Counters: st.counters})
}

// obligShards: the blocks of the tier under the name concretisations. quick: seed-selected names over all blocks, bare one-letter names over the
// depth-1 block; thorough: every naming over the depth-1 and depth-2 blocks, the first prefix and
// the bare names over the depth-3 block.
func obligShards(quick bool, seeds []int64) []pool.Shard {
	cfgs := allObligCfgs(quick)
	var shards []pool.Shard
	for si, sd := range seeds {
		off := 0
		for k, b := range obligBounds(quick) {
			n := 0
			for off+n < len(cfgs) && cfgs[off+n].Depth == b[0] && cfgs[off+n].NI == b[1] {
				n++
			}
			take := k < 2 || si == 0 || sd == bareNames
			if quick {
				take = sd != bareNames || k == 0
			}
			if take {
				for i := off; i < off+n; i += obligShard {
					e := i + obligShard
					if e > off+n {
						e = off + n
					}
					shards = append(shards, pool.Shard{Kind: "oblig", Arg: shardArg{Family: "oblig", A: i, B: e, Seed: sd, Quick: quick}})
				}
			}
			off += n
		}
	}
	return shards
}
