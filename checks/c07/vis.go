package main

// Visibility matrix: member kind x modifier x static-ness x access site x access path x operation.
//
// The fixture is a class graph ("shape"); all members are declared in one class (the declaring
// class, role D). For every site (a place where code can be written: top level, function,
// closure created outside / inside a class, instance or static method of every class of the
// shape, executed with every possible runtime class of $this) one script is generated that
// holds every (receiver, member, path, op) cell of that site, each cell isolated by
// try/catch(Throwable) at top level. The oracle (allowed()) only looks at the *lexical* class
// of the accessing code and the declaring class: that is the rule of the statement.

import (
	"fmt"
	"regexp"
	"sort"
	"strconv"
	"strings"
)

type classDef struct {
	role   string // stable role id used in keys (PP,P,D,S,G,B,U)
	parent string // role of parent or ""
}

type shapeDef struct {
	name    string
	classes []classDef // parents first
	decl    string     // role of the declaring class
}

var shapes = []shapeDef{
	{name: "deep", decl: "D", classes: []classDef{{"PP", ""}, {"P", "PP"}, {"D", "P"}, {"S", "D"}, {"G", "S"}, {"B", "P"}, {"U", ""}}},
	{name: "flat", decl: "D", classes: []classDef{{"D", ""}, {"S", "D"}, {"U", ""}}},
}

func (s *shapeDef) parentOf(r string) string {
	for _, c := range s.classes {
		if c.role == r {
			return c.parent
		}
	}
	return ""
}

// isDesc: a is a strict descendant of b.
func (s *shapeDef) isDesc(a, b string) bool {
	for p := s.parentOf(a); p != ""; p = s.parentOf(p) {
		if p == b {
			return true
		}
	}
	return false
}

func (s *shapeDef) descOrSelf(b string) []string {
	var r []string
	for _, c := range s.classes {
		if c.role == b || s.isDesc(c.role, b) {
			r = append(r, c.role)
		}
	}
	return r
}

// has: class r owns or inherits the members (it is the declaring class or a descendant).
func (s *shapeDef) has(r string) bool { return r == s.decl || s.isDesc(r, s.decl) }

type member struct {
	kind   string // prop | method | const
	static bool
	mod    string // public | protected | private
	name   string
}

func (m member) tag() string {
	st := "inst"
	if m.static {
		st = "static"
	}
	if m.kind == "const" {
		st = "const"
	}
	return m.kind + "." + st
}

func members() []member {
	var ms []member
	for _, mod := range []string{"public", "protected", "private"} {
		sfx := map[string]string{"public": "pu", "protected": "po", "private": "pi"}[mod]
		ms = append(ms,
			member{"prop", false, mod, "ip" + sfx},
			member{"prop", true, mod, "sp" + sfx},
			member{"method", false, mod, "im" + sfx},
			member{"method", true, mod, "sm" + sfx},
			member{"const", true, mod, "K" + strings.ToUpper(sfx)},
		)
	}
	return ms
}

type site struct {
	kind  string // top | func | closure-out | closure-in | method | smethod
	lex   string // lexical class role ("" = no class scope)
	thisR string // runtime class of $this (method, closure-in) or called class (smethod)
}

func (s site) String() string {
	switch s.kind {
	case "method", "smethod", "closure-in":
		return fmt.Sprintf("%s[%s,this=%s]", s.kind, s.lex, s.thisR)
	}
	return s.kind
}

func sitesOf(sh *shapeDef) []site {
	out := []site{{kind: "top"}, {kind: "func"}, {kind: "closure-out"}, {kind: "trait"}}
	for _, c := range sh.classes {
		for _, r := range sh.descOrSelf(c.role) {
			out = append(out, site{"method", c.role, r})
		}
	}
	for _, c := range sh.classes {
		for _, r := range sh.descOrSelf(c.role) {
			out = append(out, site{"smethod", c.role, r})
		}
	}
	for _, c := range sh.classes {
		if c.role == "U" || sh.has(c.role) || sh.isDesc(sh.decl, c.role) {
			out = append(out, site{"closure-in", c.role, c.role})
		}
	}
	return out
}

type cell struct {
	ID   int    `json:"id"`
	Recv string `json:"recv"` // this | o:<role> | "" (static paths without receiver)
	M    member `json:"-"`
	Path string `json:"path"`
	Op   string `json:"op"` // read | write | isset | call
	Body string `json:"body"`
	Name string `json:"member"`
	// shared-site cells (site kind "trait"): the access is written once (trait method c<Base>)
	// and executed Step-th by an object of class Exec, which uses the trait
	Base int    `json:"base,omitempty"`
	Exec string `json:"exec,omitempty"`
	Step int    `json:"step,omitempty"`
}

// lexOf is the lexical class of the code of a cell: a trait method belongs to the class using it.
func lexOf(st site, c *cell) string {
	if st.kind == "trait" {
		return c.Exec
	}
	return st.lex
}

// traitUsers: the classes that `use` the shared trait, and the order in which they execute each
// access: stranger cold, owner, stranger warm, other stranger, owner again, stranger again.
func traitUsers(sh *shapeDef) (users, seq []string) {
	users = []string{sh.decl, "U"}
	seq = []string{"U", sh.decl, "U", sh.decl, "U"}
	for _, c := range sh.classes {
		if c.role == "B" {
			users = append(users, "B")
			seq = []string{"U", sh.decl, "U", "B", sh.decl, "U"}
		}
	}
	return
}

const newVal = "NEW"

// body builds the statement list that performs the operation and leaves the result in $r.
// cn maps a role to the concrete class name.
func (c *cell) build(cn func(string) string, sh *shapeDef) bool {
	m := c.M
	rcv := "$o"
	if c.Recv == "this" {
		rcv = "$this"
	}
	n := m.name
	var b string
	switch {
	case m.kind == "prop" && !m.static:
		var lv string
		switch c.Path {
		case "->":
			lv = rcv + "->" + n
		case "->$n":
			lv = rcv + "->$n"
			b = `$n = "` + n + `"; `
		case "->{}":
			lv = rcv + `->{"` + n + `"}`
		case "[]":
			lv = rcv + `["` + n + `"]`
		default:
			return false
		}
		switch c.Op {
		case "read":
			b += "$r = " + lv + ";"
		case "write":
			b += lv + " = $v; $r = \"w\";"
		case "isset":
			b += "$r = isset(" + lv + ");"
		default:
			return false
		}
	case m.kind == "method" && !m.static:
		switch c.Path {
		case "->()":
			b = "$r = " + rcv + "->" + n + "();"
		case "->$m()":
			b = `$n = "` + n + `"; $r = ` + rcv + "->$n();"
		case "cuf[]":
			b = "$r = call_user_func([" + rcv + `, "` + n + `"]);`
		case "[]()":
			b = "$f = [" + rcv + `, "` + n + `"]; $r = $f();`
		case "fcc":
			b = "$f = " + rcv + "->" + n + "(...); $r = $f();"
		default:
			return false
		}
	default: // static prop, static method, const
		var q string // qualifier
		switch c.Path {
		case "C::":
			q = cn(sh.decl)
		case "Sub::":
			q = cn("S")
		case "self::":
			q = "self"
		case "static::":
			q = "static"
		case "parent::":
			q = "parent"
		case "$o::":
			q = "$o"
		case "$cn::":
			q = "$cn"
			b = `$cn = "` + cn(sh.decl) + `"; `
		case "$o->()":
			if m.kind != "method" {
				return false
			}
			b = "$r = " + rcv + "->" + n + "();"
			c.Body = b
			return true
		case "cuf::":
			if m.kind != "method" {
				return false
			}
			b = `$r = call_user_func("` + cn(sh.decl) + "::" + n + `");`
			c.Body = b
			return true
		case "cuf[C]":
			if m.kind != "method" {
				return false
			}
			b = `$r = call_user_func(["` + cn(sh.decl) + `", "` + n + `"]);`
			c.Body = b
			return true
		default:
			return false
		}
		switch m.kind {
		case "prop":
			lv := q + "::$" + n
			switch c.Op {
			case "read":
				b += "$r = " + lv + ";"
			case "write":
				b += lv + " = $v; $r = \"w\";"
			case "isset":
				b += "$r = isset(" + lv + ");"
			}
		case "method":
			b += "$r = " + q + "::" + n + "();"
		case "const":
			b += "$r = " + q + "::" + n + ";"
		}
	}
	c.Body = b
	return true
}

var instPropPaths = []string{"->", "->$n", "->{}", "[]"}
var instMethPaths = []string{"->()", "->$m()", "cuf[]", "[]()", "fcc"}
var staticPaths = []string{"C::", "Sub::", "self::", "static::", "parent::", "$o::", "$cn::", "$o->()", "cuf::", "cuf[C]"}

// cellsOf enumerates every (receiver, member, path, op) of a site that PHP name resolution maps
// onto the declared member.
func cellsOf(sh *shapeDef, st site, cn func(string) string) []cell {
	var out []cell
	hasThis := st.kind == "method" || st.kind == "closure-in"
	var recvs []string
	if hasThis && sh.has(st.thisR) {
		recvs = append(recvs, "this")
	}
	recvs = append(recvs, "o:"+sh.decl, "o:S")
	add := func(c cell) {
		if c.build(cn, sh) {
			c.ID = len(out)
			c.Name = c.M.name
			out = append(out, c)
		}
	}
	for _, m := range members() {
		switch {
		case m.kind == "prop" && !m.static:
			for _, rv := range recvs {
				for _, p := range instPropPaths {
					for _, op := range []string{"read", "write", "isset"} {
						add(cell{Recv: rv, M: m, Path: p, Op: op})
					}
				}
			}
		case m.kind == "method" && !m.static:
			for _, rv := range recvs {
				for _, p := range instMethPaths {
					add(cell{Recv: rv, M: m, Path: p, Op: "call"})
				}
			}
		default:
			ops := []string{"read"}
			if m.kind == "prop" {
				ops = []string{"read", "write", "isset"}
			}
			if m.kind == "method" {
				ops = []string{"call"}
			}
			for _, p := range staticPaths {
				var rvs []string
				switch p {
				case "self::":
					if !sh.has(st.lex) || st.lex == "" {
						continue
					}
					rvs = []string{""}
				case "parent::":
					if st.lex == "" || !sh.has(sh.parentOf(st.lex)) {
						continue
					}
					rvs = []string{""}
				case "static::":
					if st.lex == "" || !sh.has(st.thisR) {
						continue
					}
					rvs = []string{""}
				case "$o::", "$o->()":
					rvs = recvs
				default:
					rvs = []string{""}
				}
				for _, rv := range rvs {
					if rv == "this" && p == "$o::" {
						continue
					}
					for _, op := range ops {
						add(cell{Recv: rv, M: m, Path: p, Op: op})
					}
				}
			}
		}
	}
	if st.kind == "trait" {
		_, seq := traitUsers(sh)
		var exp []cell
		for _, b := range out {
			for i, ex := range seq {
				c := b
				c.Base, c.Exec, c.Step = b.ID, ex, i
				c.ID = len(exp)
				exp = append(exp, c)
			}
		}
		return exp
	}
	return out
}

// allowed is the independent rule table. lex = lexical class of the accessing code ("" none).
// Returns "allow", "deny" or "open" (statement and PHP disagree / statement silent).
func allowed(sh *shapeDef, mod, lex string) string {
	if mod == "public" {
		return "allow"
	}
	if lex == "" {
		return "deny"
	}
	if lex == sh.decl {
		return "allow"
	}
	if mod == "private" {
		return "deny"
	}
	if sh.isDesc(lex, sh.decl) {
		return "allow"
	}
	if sh.isDesc(sh.decl, lex) {
		// protected member of a descendant reached from ancestor code: the statement says "its
		// class and descendants" only, PHP (zend_check_protected) allows it because both share the
		// lineage; both answers are accepted.
		return "open"
	}
	return "deny"
}

// relation of the lexical class to the declaring class, for finding keys.
func relation(sh *shapeDef, lex string) string {
	switch {
	case lex == "":
		return "noclass"
	case lex == sh.decl:
		return "own"
	case sh.isDesc(lex, sh.decl):
		return "descendant"
	case sh.isDesc(sh.decl, lex):
		return "ancestor"
	}
	return "foreign"
}

// ---- script generation ---------------------------------------------------------------

const prelude = `function sh($v) {
  if (is_null($v)) return "null";
  if (is_bool($v)) return $v ? "bool:true" : "bool:false";
  if (is_int($v)) return "int:" . $v;
  if (is_float($v)) return "float:" . $v;
  if (is_string($v)) return "string:" . $v;
  if (is_array($v)) return "array:" . count($v) . ":" . json_encode($v);
  if (is_object($v)) return "object:" . get_class($v);
  return "other";
}
`

func initOf(m member) string { return m.name + "0" }

// visScript renders the fixture with the given cells of one site. bare = no try/catch around
// the LAST cell (earlier cells - the earlier executions of a shared site - keep theirs).
func visScript(sh *shapeDef, st site, cells []cell, cn func(string) string, bare bool) string {
	var sb strings.Builder
	sb.WriteString(prelude)
	ms := members()
	// per-class extra methods
	extra := map[string]*strings.Builder{}
	for _, c := range sh.classes {
		extra[c.role] = &strings.Builder{}
	}
	var top strings.Builder
	var trait strings.Builder
	traitDone := map[int]bool{}
	for _, c := range cells {
		fn := fmt.Sprintf("c%d", c.ID)
		switch st.kind {
		case "trait":
			if !traitDone[c.Base] {
				traitDone[c.Base] = true
				fmt.Fprintf(&trait, "  public function c%d($o, $v) { $r = null; %s return $r; }\n", c.Base, c.Body)
			}
		case "func":
			fmt.Fprintf(&top, "function %s($o, $v) { $r = null; %s return $r; }\n", fn, c.Body)
		case "closure-out":
			fmt.Fprintf(&top, "$%s = function($o, $v) { $r = null; %s return $r; };\n", fn, c.Body)
		case "method":
			fmt.Fprintf(extra[st.lex], "  public function %s($o, $v) { $r = null; %s return $r; }\n", fn, c.Body)
		case "smethod":
			fmt.Fprintf(extra[st.lex], "  public static function %s($o, $v) { $r = null; %s return $r; }\n", fn, c.Body)
		case "closure-in":
			fmt.Fprintf(extra[st.lex], "  public function %s() { return function($o, $v) { $r = null; %s return $r; }; }\n", fn, c.Body)
		}
	}
	isUser := map[string]bool{}
	if st.kind == "trait" {
		users, _ := traitUsers(sh)
		for _, u := range users {
			isUser[u] = true
		}
		sb.WriteString("trait " + cn("T") + " {\n" + trait.String() + "}\n")
	}
	for _, c := range sh.classes {
		sb.WriteString("class " + cn(c.role))
		if c.parent != "" {
			sb.WriteString(" extends " + cn(c.parent))
		}
		sb.WriteString(" {\n")
		if isUser[c.role] {
			sb.WriteString("  use " + cn("T") + ";\n")
		}
		if c.role == sh.decl {
			for _, m := range ms {
				st := ""
				if m.static {
					st = "static "
				}
				switch m.kind {
				case "prop":
					fmt.Fprintf(&sb, "  %s %s$%s = \"%s\";\n", m.mod, st, m.name, initOf(m))
				case "const":
					fmt.Fprintf(&sb, "  %s const %s = \"%s\";\n", m.mod, m.name, initOf(m))
				case "method":
					fmt.Fprintf(&sb, "  %s %sfunction %s() { echo \"<run:%s>\"; return \"%s\"; }\n", m.mod, st, m.name, m.name, initOf(m))
				}
			}
			// peek / reset: own-class accessors
			var pk, rs []string
			for _, m := range ms {
				if m.kind != "prop" {
					continue
				}
				if m.static {
					pk = append(pk, "self::$"+m.name)
					rs = append(rs, fmt.Sprintf("self::$%s = \"%s\";", m.name, initOf(m)))
				} else {
					pk = append(pk, "$this->"+m.name)
					rs = append(rs, fmt.Sprintf("$this->%s = \"%s\";", m.name, initOf(m)))
				}
			}
			fmt.Fprintf(&sb, "  public function peek() { return %s; }\n", strings.Join(pk, " . \",\" . "))
			fmt.Fprintf(&sb, "  public function reset() { %s }\n", strings.Join(rs, " "))
		}
		sb.WriteString(extra[c.role].String())
		sb.WriteString("}\n")
	}
	sb.WriteString(top.String())
	for _, c := range sh.classes {
		fmt.Fprintf(&sb, "$obj%s = new %s();\n", c.role, cn(c.role))
	}
	dn, sn := "$obj"+sh.decl, "$objS"
	for ci, c := range cells {
		fn := fmt.Sprintf("c%d", c.ID)
		arg := dn
		if c.Recv == "o:S" {
			arg = sn
		}
		var call string
		switch st.kind {
		case "top":
			call = fmt.Sprintf("$o = %s; $v = \"%s\"; $r = null; %s", arg, newVal, c.Body)
		case "func":
			call = fmt.Sprintf("$r = %s(%s, \"%s\");", fn, arg, newVal)
		case "closure-out":
			call = fmt.Sprintf("$r = $%s(%s, \"%s\");", fn, arg, newVal)
		case "method":
			call = fmt.Sprintf("$r = $obj%s->%s(%s, \"%s\");", st.thisR, fn, arg, newVal)
		case "smethod":
			call = fmt.Sprintf("$r = %s::%s(%s, \"%s\");", cn(st.thisR), fn, arg, newVal)
		case "closure-in":
			call = fmt.Sprintf("$cl = $obj%s->%s(); $r = $cl(%s, \"%s\");", st.thisR, fn, arg, newVal)
		case "trait":
			call = fmt.Sprintf("$r = $obj%s->c%d(%s, \"%s\");", c.Exec, c.Base, arg, newVal)
		}
		if bare && ci == len(cells)-1 {
			fmt.Fprintf(&sb, "echo \"@@%d@@\"; %s echo \"~R~ok|\", sh($r);\n", c.ID, call)
			continue
		}
		fmt.Fprintf(&sb, "echo \"@@%d@@\"; try { %s echo \"~R~ok|\", sh($r); } catch (Throwable $e) { echo \"~R~denied|\", get_class($e), \"|\", $e->getMessage(); }", c.ID, call)
		sb.WriteString(" echo \"~A~\"")
		for _, hc := range sh.classes {
			if sh.has(hc.role) {
				fmt.Fprintf(&sb, ", $obj%s->peek(), \"/\"", hc.role)
			}
		}
		sb.WriteString(";")
		for _, hc := range sh.classes {
			if sh.has(hc.role) {
				fmt.Fprintf(&sb, " $obj%s->reset();", hc.role)
			}
		}
		sb.WriteString("\n")
	}
	sb.WriteString("echo \"@@END@@\";\n")
	return sb.String()
}

// ---- output parsing ----------------------------------------------------------------------

type obsCell struct {
	Present bool   `json:"present"`
	Status  string `json:"status"` // ok | denied | none
	Val     string `json:"val,omitempty"`
	Class   string `json:"class,omitempty"`
	Msg     string `json:"msg,omitempty"`
	Pre     string `json:"pre,omitempty"` // output produced while the operation ran
	After   string `json:"after,omitempty"`
	Panic   bool   `json:"panic,omitempty"`
}

var reCell = regexp.MustCompile(`@@(\d+|END)@@`)

func isPanicMsg(s string) bool {
	return strings.Contains(s, "panic(") || strings.Contains(s, "go作用域异常退出")
}

func parseCells(out string) (map[int]obsCell, bool) {
	res := map[int]obsCell{}
	idx := reCell.FindAllStringSubmatchIndex(out, -1)
	ended := false
	for i, m := range idx {
		tag := out[m[2]:m[3]]
		if tag == "END" {
			ended = true
			continue
		}
		end := len(out)
		if i+1 < len(idx) {
			end = idx[i+1][0]
		}
		body := out[m[1]:end]
		id, _ := strconv.Atoi(tag)
		var o obsCell
		o.Present = true
		if a := strings.LastIndex(body, "~A~"); a >= 0 {
			o.After = body[a+3:]
			body = body[:a]
		}
		if r := strings.Index(body, "~R~"); r >= 0 {
			o.Pre = body[:r]
			rest := body[r+3:]
			if strings.HasPrefix(rest, "ok|") {
				o.Status = "ok"
				o.Val = rest[3:]
			} else if strings.HasPrefix(rest, "denied|") {
				o.Status = "denied"
				p := strings.SplitN(rest[7:], "|", 2)
				o.Class = p[0]
				if len(p) > 1 {
					o.Msg = p[1]
				}
				o.Panic = isPanicMsg(o.Msg)
				if len(o.Msg) > 160 {
					o.Msg = o.Msg[:160]
				}
			}
		} else {
			o.Status = "none"
			o.Pre = body
		}
		res[id] = o
	}
	return res, ended
}

// ---- judgement ------------------------------------------------------------------------------

// propIndex: position of a property in peek() output.
func propIndex(name string) int {
	i := 0
	for _, m := range members() {
		if m.kind != "prop" {
			continue
		}
		if m.name == name {
			return i
		}
		i++
	}
	return -1
}

func initialAfter(sh *shapeDef) string {
	var p []string
	for _, m := range members() {
		if m.kind == "prop" {
			p = append(p, initOf(m))
		}
	}
	one := strings.Join(p, ",") + "/"
	out := ""
	for _, hc := range sh.classes {
		if sh.has(hc.role) {
			out += one
		}
	}
	return out
}

// effect reports whether the observed cell shows the operation's effect on the member.
func effect(c *cell, o obsCell) bool {
	switch c.Op {
	case "read":
		return o.Status == "ok" && o.Val == "string:"+initOf(c.M)
	case "call":
		return strings.Contains(o.Pre, "<run:"+c.M.name+">")
	case "write":
		return strings.Contains(o.After, newVal)
	}
	return false
}

// judge returns the violated clause ("" = conforms) for one cell.
//
//	wrong-allow   expected deny, the operation took effect
//	no-error      expected deny, no effect but also no error raised
//	effect-after-deny  an error was raised but the member changed / the body ran
//	wrong-deny    expected allow, an error was raised
//	no-effect     expected allow, no error but the operation did not do what it says
//	crash         Go panic (converted by try) instead of a catchable error
func judge(sh *shapeDef, st site, c *cell, o obsCell) string {
	if !o.Present || o.Status == "none" {
		return "no-marker"
	}
	if o.Panic {
		return "crash"
	}
	exp := allowed(sh, c.M.mod, lexOf(st, c))
	if c.Op == "isset" {
		// isset is not a read, write or call: only the no-crash clause and "no effect" apply
		if o.After != initialAfter(sh) {
			return "effect-after-deny"
		}
		return ""
	}
	eff := effect(c, o)
	unchanged := o.After == initialAfter(sh)
	switch exp {
	case "open":
		return ""
	case "allow":
		if c.Path == "[]" {
			// `[]` on a plain object is an origami extension (PHP: "Cannot use object as array");
			// refusing non-public members there altogether is stricter than needed, not a leak
			return ""
		}
		if o.Status == "denied" {
			return "wrong-deny"
		}
		if !eff {
			return "no-effect"
		}
		if c.Op != "write" && !unchanged {
			return "no-effect"
		}
		return ""
	default: // deny
		if o.Status == "denied" {
			if eff || !unchanged {
				return "effect-after-deny"
			}
			return ""
		}
		if eff {
			return "wrong-allow"
		}
		// no error, no visible effect on the member. On an object of a *descendant* class PHP
		// treats an inaccessible private property of the ancestor as a different, undeclared
		// property (read: null + warning, write: creates a dynamic property) – accepted as long
		// as the private member itself is untouched.
		if c.M.mod == "private" && c.M.kind == "prop" && !c.M.static && recvClass(st, c) != sh.decl {
			return ""
		}
		return "no-error"
	}
}

// recvClass is the runtime class (role) of the receiver object of a cell.
func recvClass(st site, c *cell) string {
	if c.Recv == "this" {
		return st.thisR
	}
	return strings.TrimPrefix(c.Recv, "o:")
}

func visKey(sh *shapeDef, st site, c *cell, clause string) string {
	return fmt.Sprintf("vis:%s:%s:%s:%s:%s@%s", c.M.tag(), c.M.mod, c.Path, c.Op, clause, relation(sh, lexOf(st, c)))
}

func sortedKeys[M ~map[string]V, V any](m M) []string {
	var k []string
	for x := range m {
		k = append(k, x)
	}
	sort.Strings(k)
	return k
}
