package main

// Declared-type matrix: declared type x runtime value kind x boundary.
//
// Fixture classes: A, A2 extends A, interface I, Im implements I, Im2 extends Im,
// AI extends A implements I, Un (unrelated). One script per (boundary, declared type) holds a
// cell for every value kind.

import (
	"fmt"
	"strings"
)

type typeAlt struct {
	base string // int | string | array | null | class:<role>
}

type declType struct {
	src  string // template with {A} {I} placeholders
	alts []string
}

var declTypes = []declType{
	{"int", []string{"int"}},
	{"string", []string{"string"}},
	{"array", []string{"array"}},
	{"{A}", []string{"class:A"}},
	{"{I}", []string{"class:I"}},
	{"?int", []string{"int", "null"}},
	{"?string", []string{"string", "null"}},
	{"?array", []string{"array", "null"}},
	{"?{A}", []string{"class:A", "null"}},
	{"?{I}", []string{"class:I", "null"}},
	{"int|string", []string{"int", "string"}},
	{"int|array", []string{"int", "array"}},
	{"string|array", []string{"string", "array"}},
	{"{A}|null", []string{"class:A", "null"}},
	{"int|null", []string{"int", "null"}},
	{"{A}|{I}", []string{"class:A", "class:I"}},
	{"{A}|int", []string{"class:A", "int"}},
	{"int|string|array", []string{"int", "string", "array"}},
	{"{I}|array|null", []string{"class:I", "array", "null"}},
}

type valKind struct {
	name string
	src  string   // expression template
	base string   // int|float|string|bool|null|array|object
	isA  []string // for objects: roles it is an instance of
	show string   // sh() rendering template
}

var valKinds = []valKind{
	{"int", "5", "int", nil, "int:5"},
	{"int0", "0", "int", nil, "int:0"},
	{"negint", "-3", "int", nil, "int:-3"},
	{"float", "1.5", "float", nil, "float:1.5"},
	{"intfloat", "2.0", "float", nil, "float:2"},
	{"numstr", `"12"`, "string", nil, "string:12"},
	{"str", `"abc"`, "string", nil, "string:abc"},
	{"emptystr", `""`, "string", nil, "string:"},
	{"true", "true", "bool", nil, "bool:true"},
	{"false", "false", "bool", nil, "bool:false"},
	{"null", "null", "null", nil, "null"},
	{"emptyarr", "[]", "array", nil, "array:0:[]"},
	{"list", "[1, 2]", "array", nil, "array:2:[1,2]"},
	{"assoc", `["k" => 1]`, "array", nil, `array:1:{"k":1}`},
	{"objA", "new {A}()", "object", []string{"A"}, "object:{A}"},
	{"objA2", "new {A2}()", "object", []string{"A", "A2"}, "object:{A2}"},
	{"objIm", "new {Im}()", "object", []string{"I", "Im"}, "object:{Im}"},
	{"objIm2", "new {Im2}()", "object", []string{"I", "Im", "Im2"}, "object:{Im2}"},
	{"objAI", "new {AI}()", "object", []string{"A", "I", "AI"}, "object:{AI}"},
	{"objUn", "new {Un}()", "object", []string{"Un"}, "object:{Un}"},
	{"closure", "function() { return 1; }", "object", []string{"Closure"}, ""},
}

// accepts is the reference rule: exact type membership, no coercion, null only where listed.
func accepts(t declType, v valKind) bool {
	for _, a := range t.alts {
		if strings.HasPrefix(a, "class:") {
			if v.base == "object" {
				for _, r := range v.isA {
					if r == a[6:] {
						return true
					}
				}
			}
			continue
		}
		if a == v.base {
			return true
		}
	}
	return false
}

// initial (valid, distinguishable) value of a typed property of type t
func initFor(t declType) (src, show string) {
	switch t.alts[0] {
	case "int":
		return "7", "int:7"
	case "string":
		return `"init"`, "string:init"
	case "array":
		return "[7, 7, 7]", "array:3:[7,7,7]"
	case "class:A":
		return "new {AInit}()", "object:{AInit}"
	case "class:I":
		return "new {IInit}()", "object:{IInit}"
	}
	return "null", "null"
}

type boundary struct {
	name  string
	group string // param | return | prop
	// decl returns class-H member declarations, top-level declarations; use returns the
	// statement sequence leaving the result in $r; $val holds the runtime value.
	hdecl string
	tdecl string
	use   string
	prop  string // expression reading the property back ("" for non-prop)
}

// {T} declared type, {INIT} initial value. The body of every callee echoes <ran>.
var boundaries = []boundary{
	{name: "function-param", group: "param", tdecl: `function fp({T} $x) { echo "<ran>"; return "done"; }`, use: `$r = fp($val);`},
	{name: "method-param", group: "param", hdecl: `public function mp({T} $x) { echo "<ran>"; return "done"; }`, use: `$r = $h->mp($val);`},
	{name: "static-method-param", group: "param", hdecl: `public static function sp({T} $x) { echo "<ran>"; return "done"; }`, use: `$r = {H}::sp($val);`},
	{name: "constructor-param", group: "param", tdecl: `class {K} { public function __construct({T} $x) { echo "<ran>"; } }`, use: `$k = new {K}($val); $r = "done";`},
	{name: "promoted-param", group: "param", tdecl: `class {K} { public function __construct(public {T} $x) { echo "<ran>"; } }`, use: `$k = new {K}($val); $r = "done";`},
	{name: "closure-param", group: "param", tdecl: `$cl = function({T} $x) { echo "<ran>"; return "done"; };`, use: `$r = $cl($val);`},
	{name: "arrow-param", group: "param", tdecl: `$cl = fn({T} $x) => "done";`, use: `$r = $cl($val);`},
	{name: "second-param", group: "param", tdecl: `function fp2($a, {T} $x) { echo "<ran>"; return "done"; }`, use: `$r = fp2(1, $val);`},
	{name: "this-method-param", group: "param", hdecl: `public function mp({T} $x) { echo "<ran>"; return "done"; }
  public function viaThis($v) { return $this->mp($v); }`, use: `$r = $h->viaThis($val);`},

	{name: "function-return", group: "return", tdecl: `function fr($v): {T} { return $v; }`, use: `$r = fr($val);`},
	{name: "method-return", group: "return", hdecl: `public function mr($v): {T} { return $v; }`, use: `$r = $h->mr($val);`},
	{name: "static-method-return", group: "return", hdecl: `public static function sr($v): {T} { return $v; }`, use: `$r = {H}::sr($val);`},
	{name: "closure-return", group: "return", tdecl: `$cl = function($v): {T} { return $v; };`, use: `$r = $cl($val);`},
	{name: "arrow-return", group: "return", tdecl: `$cl = fn($v): {T} => $v;`, use: `$r = $cl($val);`},

	{name: "prop-store-outside", group: "prop", hdecl: `public {T} $tp;`, use: `$h->tp = $val; $r = "stored";`, prop: `$h->tp`},
	{name: "prop-store-inside", group: "prop", hdecl: `public {T} $tp;
  public function set($v) { $this->tp = $v; }`, use: `$h->set($val); $r = "stored";`, prop: `$h->tp`},
	{name: "prop-store-dynamic", group: "prop", hdecl: `public {T} $tp;`, use: `$n = "tp"; $h->$n = $val; $r = "stored";`, prop: `$h->tp`},
	{name: "prop-store-index", group: "prop", hdecl: `public {T} $tp;`, use: `$h["tp"] = $val; $r = "stored";`, prop: `$h->tp`},
	{name: "static-prop-store", group: "prop", hdecl: `public static {T} $stp = {SINIT};`, use: `{H}::$stp = $val; $r = "stored";`, prop: `{H}::$stp`},
	{name: "static-prop-store-self", group: "prop", hdecl: `public static {T} $stp = {SINIT};
  public static function sset($v) { self::$stp = $v; }`, use: `{H}::sset($val); $r = "stored";`, prop: `{H}::$stp`},
}

type typeNames struct{ pfx string }

func (n typeNames) sub(s string) string {
	for _, r := range []string{"AInit", "IInit", "A2", "AI", "Im2", "Im", "Un", "A", "I", "H", "K"} {
		s = strings.ReplaceAll(s, "{"+r+"}", n.pfx+r)
	}
	return s
}

// typeScript renders one (boundary, declared type) script over the given value kinds.
func typeScript(b boundary, t declType, vals []int, n typeNames, bare bool) string {
	var sb strings.Builder
	sb.WriteString(prelude)
	sb.WriteString(n.sub("interface {I} {}\nclass {A} {}\nclass {A2} extends {A} {}\nclass {Im} implements {I} {}\nclass {Im2} extends {Im} {}\nclass {AI} extends {A} implements {I} {}\nclass {Un} {}\nclass {AInit} extends {A} {}\nclass {IInit} implements {I} {}\n"))
	isrc, _ := initFor(t)
	// static props: only constant initialisers – objects are stored by an (untyped-checked) first store
	sinit := isrc
	if strings.HasPrefix(isrc, "new ") {
		sinit = "null"
	}
	rep := func(s string) string {
		s = strings.ReplaceAll(s, "{T}", t.src)
		s = strings.ReplaceAll(s, "{SINIT}", sinit)
		return n.sub(s)
	}
	sb.WriteString(rep("class {H} {\n"))
	if b.hdecl != "" {
		sb.WriteString("  " + rep(b.hdecl) + "\n")
	}
	if b.group == "prop" && !strings.Contains(b.hdecl, "static") {
		sb.WriteString(rep("  public function __construct() { $this->tp = " + isrc + "; }\n"))
	}
	sb.WriteString("}\n")
	if b.tdecl != "" {
		sb.WriteString(rep(b.tdecl) + "\n")
	}
	sb.WriteString(rep("$h = new {H}();\n"))
	for _, vi := range vals {
		v := valKinds[vi]
		after := ""
		if b.prop != "" {
			after = fmt.Sprintf(" echo \"~A~\", sh(%s);", rep(b.prop))
		}
		reset := ""
		if b.group == "prop" {
			if strings.Contains(b.hdecl, "static") {
				reset = rep(" try { {H}::$stp = " + sinit + "; } catch (Throwable $e2) { echo \"<reset-failed>\"; }")
			} else {
				reset = rep(" $h = new {H}();")
			}
		}
		if bare {
			fmt.Fprintf(&sb, "$val = %s; echo \"@@%d@@\"; %s echo \"~R~ok|\", sh($r);\n", rep(v.src), vi, rep(b.use))
			continue
		}
		fmt.Fprintf(&sb, "$val = %s; $r = null; echo \"@@%d@@\"; try { %s echo \"~R~ok|\", sh($r); } catch (Throwable $e) { echo \"~R~denied|\", get_class($e), \"|\", $e->getMessage(); }%s%s\n",
			rep(v.src), vi, rep(b.use), after, reset)
	}
	sb.WriteString("echo \"@@END@@\";\n")
	return sb.String()
}

// judgeType returns the violated clause for one (boundary, type, value) cell.
func judgeType(b boundary, t declType, v valKind, o obsCell, n typeNames) string {
	if !o.Present || o.Status == "none" {
		return "no-marker"
	}
	if o.Panic {
		return "crash"
	}
	acc := accepts(t, v)
	ran := strings.Contains(o.Pre, "<ran>")
	_, ishow := initFor(t)
	ishow = n.sub(ishow)
	if strings.Contains(b.hdecl, "static") && strings.HasPrefix(ishow, "object:") {
		ishow = "null"
	}
	vshow := n.sub(v.show)
	if acc {
		if o.Status == "denied" {
			return "wrong-reject"
		}
		switch b.group {
		case "param":
			if o.Val != "string:done" {
				return "accepted-but-wrong-result"
			}
		case "return":
			if vshow != "" && o.Val != vshow {
				return "accepted-but-value-changed"
			}
		case "prop":
			if vshow != "" && o.After != vshow {
				return "accepted-but-not-stored"
			}
		}
		return ""
	}
	// must be rejected with a catchable error and without effect
	if o.Status == "denied" {
		if b.group == "param" && ran {
			return "effect-after-reject"
		}
		if b.group == "prop" && o.After != ishow {
			return "effect-after-reject"
		}
		return ""
	}
	return "wrong-accept"
}
