package main

// "gtype": typed-property stores whose declared type is a type PARAMETER of a generic class
// (`class G<T> { public T $tp; }`), instantiated with every scalar / class type argument, preceded
// by a short history of operations on ANOTHER object of the same generic class: a raw `new G()`
// or a differently instantiated `new G<U>()`, acting before or after the `new G<T>()` site of the
// judged object ran for the first time. (C19 owns the independence of instantiations in depth;
// here only the store boundary of C07 is crossed with the cheap history dimension.)
//
// Reference rule: exactly `accepts` of the type matrix with T := the type argument; a rejected
// store raises a catchable error and leaves the property at its previous (valid) value. The
// perturbing operations are never judged.

import (
	"encoding/json"
	"fmt"
	"sort"
	"strings"

	"verif/engine/ev"
	"verif/engine/pool"
	"verif/engine/runner"
)

// type arguments: the first five declared types (int, string, array, {A}, {I}); nullable and
// union type ARGUMENTS are no entry (origami does not treat `G<?int>` / `G<int|string>` as such).
const nGArgs = 5

type gBoundary struct{ name, use string }

var gBoundaries = []gBoundary{
	{"generic-prop-store-outside", `$h->tp = $val;`},
	{"generic-prop-store-inside", `$h->set($val);`},
	{"generic-prop-store-dynamic", `$n = "tp"; $h->$n = $val;`},
}

var gOps = []string{"store", "read", "call-set", "call-get", "isset"}

type gHist struct {
	Who  string   `json:"who"`  // "" (no perturber) | raw | other
	When string   `json:"when"` // before | after the first execution of the `new G<T>()` site
	Ops  []string `json:"ops"`  // 0..2 operations on the perturber (it is created in any case)
}

func (h gHist) String() string {
	if h.Who == "" {
		return "no-history"
	}
	s := h.Who + "-object-" + h.When + "-first-instantiation"
	if len(h.Ops) > 0 {
		s += ":" + strings.Join(h.Ops, ">")
	} else {
		s += ":new-only"
	}
	return s
}

// gGroups: the (who, when) groups; group 0 is the empty history.
var gGroups = [][2]string{{"", ""}, {"raw", "before"}, {"raw", "after"}, {"other", "before"}, {"other", "after"}}

func gHistsOf(group int) []gHist {
	g := gGroups[group]
	if g[0] == "" {
		return []gHist{{}}
	}
	out := []gHist{{Who: g[0], When: g[1]}}
	for _, a := range gOps {
		out = append(out, gHist{g[0], g[1], []string{a}})
	}
	for _, a := range gOps {
		for _, b := range gOps {
			out = append(out, gHist{g[0], g[1], []string{a, b}})
		}
	}
	return out
}

func gScript(b gBoundary, t declType, h gHist, vals []int, n typeNames, bare bool) string {
	var sb strings.Builder
	sb.WriteString(prelude)
	sb.WriteString(n.sub("interface {I} {}\nclass {A} {}\nclass {A2} extends {A} {}\nclass {Im} implements {I} {}\nclass {Im2} extends {Im} {}\nclass {AI} extends {A} implements {I} {}\nclass {Un} {}\nclass {AInit} extends {A} {}\nclass {IInit} implements {I} {}\n"))
	G := n.pfx + "G"
	isrc, _ := initFor(t)
	rep := func(s string) string {
		s = strings.ReplaceAll(s, "{T}", t.src)
		s = strings.ReplaceAll(s, "{G}", G)
		return n.sub(s)
	}
	sb.WriteString(rep("class {G}<T> {\n  public T $tp;\n  public function set($v) { $this->tp = $v; }\n  public function get() { return $this->tp; }\n}\n"))
	sb.WriteString(rep("function mk() { return new {G}<{T}>(); }\n"))
	if h.Who != "" {
		if h.When == "after" {
			sb.WriteString("$w = mk();\n")
		}
		pnew, pval := "new {G}()", `"anything"`
		if h.Who == "other" {
			if t.src == "int" {
				pnew, pval = "new {G}<string>()", `"other"`
			} else {
				pnew, pval = "new {G}<int>()", "41"
			}
		}
		sb.WriteString(rep("$p = " + pnew + ";\n"))
		for _, op := range h.Ops {
			var s string
			switch op {
			case "store":
				s = "$p->tp = " + pval + ";"
			case "read":
				s = "$x = $p->tp;"
			case "call-set":
				s = "$p->set(" + pval + ");"
			case "call-get":
				s = "$x = $p->get();"
			case "isset":
				s = "$x = isset($p->tp);"
			}
			sb.WriteString("try { " + s + " } catch (Throwable $e0) { echo \"<perturber-op-failed>\"; }\n")
		}
	}
	for _, vi := range vals {
		v := valKinds[vi]
		body := rep("$h = mk(); $h->tp = " + isrc + "; echo \"<init>\"; " + b.use + " $r = \"stored\";")
		if bare {
			fmt.Fprintf(&sb, "$val = %s; echo \"@@%d@@\"; %s echo \"~R~ok|\", sh($r);\n", rep(v.src), vi, body)
			continue
		}
		fmt.Fprintf(&sb, "$val = %s; $r = null; $h = null; echo \"@@%d@@\"; try { %s echo \"~R~ok|\", sh($r); } catch (Throwable $e) { echo \"~R~denied|\", get_class($e), \"|\", $e->getMessage(); } try { echo \"~A~\", sh($h->tp); } catch (Throwable $e3) { echo \"~A~unreadable\"; }\n",
			rep(v.src), vi, body)
	}
	sb.WriteString("echo \"@@END@@\";\n")
	return sb.String()
}

func judgeG(t declType, v valKind, o obsCell, n typeNames) string {
	if !o.Present || o.Status == "none" {
		return "no-marker"
	}
	if o.Panic {
		return "crash"
	}
	if !strings.Contains(o.Pre, "<init>") {
		if o.Status == "denied" {
			return "valid-initial-store-rejected"
		}
		return "no-marker"
	}
	_, ishow := initFor(t)
	ishow = n.sub(ishow)
	vshow := n.sub(v.show)
	if accepts(t, v) {
		if o.Status == "denied" {
			return "wrong-reject"
		}
		if vshow != "" && o.After != vshow {
			return "accepted-but-not-stored"
		}
		return ""
	}
	if o.Status == "denied" {
		if o.After != ishow {
			return "effect-after-reject"
		}
		return ""
	}
	return "wrong-accept"
}

// evalGCell runs one value cell alone under history h.
func evalGCell(st *stats, b gBoundary, t declType, h gHist, vi int, seed int64, withBare bool) (clause, detail, script string) {
	n := typeNames{pfxOf(seed)}
	script = gScript(b, t, h, []int{vi}, n, false)
	res := st.run(script)
	if res.Kind == "panic" {
		return "crash", res.PanicKey, script
	}
	obs, _ := parseCells(res.Out)
	o := obs[vi]
	clause = judgeG(t, valKinds[vi], o, n)
	if clause == "crash" {
		bres := st.run(gScript(b, t, h, []int{vi}, n, true))
		if bres.Kind == "panic" {
			return "crash", bres.PanicKey, script
		}
		return "crash", "caught-panic:" + runner.PanicClass(o.Msg), script
	}
	if clause == "" && o.Status == "denied" && withBare {
		bres := st.run(gScript(b, t, h, []int{vi}, n, true))
		if cl, k := bareVerdict(bres); cl != "" {
			return cl, k, script
		}
	}
	return clause, "observed " + obsString(o), script
}

// reduceGHist: the shortest history under which the cell still fails with the same clause.
func reduceGHist(st *stats, b gBoundary, t declType, h gHist, vi int, seed int64, clause string) gHist {
	fails := func(x gHist) bool {
		cl, _, _ := evalGCell(st, b, t, x, vi, seed, false)
		return cl == clause
	}
	if fails(gHist{}) {
		return gHist{}
	}
	for again := true; again; {
		again = false
		for i := range h.Ops {
			x := gHist{h.Who, h.When, append(append([]string{}, h.Ops[:i]...), h.Ops[i+1:]...)}
			if fails(x) {
				h, again = x, true
				break
			}
		}
	}
	return h
}

type gFail struct {
	Clause string `json:"clause"`
	Hist   gHist  `json:"hist"`
	B      int    `json:"b"`
	T      int    `json:"t"`
	V      int    `json:"v"`
	Script string `json:"script"`
}

func gtypeWorker(w *pool.W, arg json.RawMessage) {
	var a shardArg
	json.Unmarshal(arg, &a)
	bi, ti, group := a.A/nGArgs, a.A%nGArgs, a.B
	b, t := gBoundaries[bi], declTypes[ti]
	n := typeNames{pfxOf(a.Seed)}
	st := newStats()
	var vals []int
	for i := range valKinds {
		vals = append(vals, i)
	}
	emitted := map[string]bool{}
	for hi, h := range gHistsOf(group) {
		if !w.Item(fmt.Sprintf("gtype/%s/%s/%d/%d", b.name, t.src, group, hi)) {
			continue
		}
		res := st.run(gScript(b, t, h, vals, n, false))
		obs, ended := parseCells(res.Out)
		if res.Kind != "ok" || !ended {
			st.counters["batch_incomplete"]++
		}
		if strings.Contains(res.Out, "<perturber-op-failed>") {
			st.counters["gtype-perturber-op-failed"]++
		}
		done := map[string]bool{} // (clause, value base) confirmed alone for this history
		for _, vi := range vals {
			st.cells++
			v := valKinds[vi]
			cl := judgeG(t, v, obs[vi], n)
			st.outcomes[fmt.Sprintf("gtype/accept=%v/%s/%s", accepts(t, v), obs[vi].Status, cl)]++
			needBare := cl == "" && obs[vi].Status == "denied" && group == 0
			if cl == "" && !needBare {
				continue
			}
			if cl != "" && done[cl+"|"+v.base] {
				continue
			}
			icl, det, iscript := evalGCell(st, b, t, h, vi, a.Seed, true)
			if icl != cl {
				st.counters["batch-vs-isolated-differs"]++
			}
			if icl == "" {
				continue
			}
			done[icl+"|"+v.base] = true
			st.counters["failing-cells"]++
			if icl == "crash" {
				key := "crash:" + det
				if !emitted[key] {
					emitted[key] = true
					w.Emit(rec{Kind: "fail", Key: key, Clause: "crash", Size: len(iscript), Case: caseDesc{Family: "gtype", Seed: a.Seed, Bound: b.name, Type: t.src, Val: v.name, GHist: &h, Script: iscript}, Detail: det})
				}
				continue
			}
			r := reduceGHist(st, b, t, h, vi, a.Seed, icl)
			ek := fmt.Sprint(icl, "|", r, "|", v.base)
			if emitted[ek] {
				continue
			}
			emitted[ek] = true
			_, _, rscript := evalGCell(st, b, t, r, vi, a.Seed, false)
			w.Emit(rec{Kind: "gfail", Clause: icl, Case: gFail{icl, r, bi, ti, vi, rscript}, Detail: det})
		}
	}
	if a.A == 0 && group == 1 {
		h := gHistsOf(1)[7]
		w.Emit(rec{Kind: "sample", Case: map[string]any{"family": "gtype", "boundary": b.name, "type_argument": t.src, "history": h.String(), "script": gScript(b, t, h, []int{0, 6}, n, false)}})
	}
	w.Emit(rec{Kind: "count", N: st.cells, Runs: st.runs, Outcomes: st.outcomes, Counters: st.counters})
}

func gtypeShards(seeds []int64) []pool.Shard {
	var shards []pool.Shard
	for _, sd := range seeds {
		for x := 0; x < len(gBoundaries)*nGArgs; x++ {
			for g := range gGroups {
				shards = append(shards, pool.Shard{Kind: "gtype", Arg: shardArg{Family: "gtype", A: x, B: g, Seed: sd}})
			}
		}
	}
	return shards
}

// summariseG: one key per (clause, who/when of the reduced history): the minimal operation
// sequences, the boundaries and the (value base <- type argument) pairs are listed inside it.
func summariseG(fails []gFail, seeds map[int]int64, c *ev.Check) {
	type gk struct{ clause, who string }
	hists := map[gk]map[string]bool{}
	bnds := map[gk]map[string]bool{}
	pairs := map[gk]map[string]bool{}
	rep := map[gk]int{}
	for i, f := range fails {
		who := "no-history"
		ops := ""
		if f.Hist.Who != "" {
			who = f.Hist.Who + "-object-" + f.Hist.When + "-first-instantiation"
			ops = "new-only"
			if len(f.Hist.Ops) > 0 {
				ops = strings.Join(f.Hist.Ops, ">")
			}
		}
		k := gk{f.Clause, who}
		if hists[k] == nil {
			hists[k], bnds[k], pairs[k] = map[string]bool{}, map[string]bool{}, map[string]bool{}
			rep[k] = i
		}
		if ops != "" {
			hists[k][ops] = true
		}
		bnds[k][strings.TrimPrefix(gBoundaries[f.B].name, "generic-prop-store-")] = true
		pairs[k][valKinds[f.V].base+"-for-"+declTypes[f.T].src] = true
		if len(f.Script) < len(fails[rep[k]].Script) {
			rep[k] = i
		}
	}
	var keys []gk
	for k := range hists {
		keys = append(keys, k)
	}
	sort.Slice(keys, func(i, j int) bool { return fmt.Sprint(keys[i]) < fmt.Sprint(keys[j]) })
	for _, k := range keys {
		key := fmt.Sprintf("gtype:%s:%s", k.clause, k.who)
		if len(hists[k]) > 0 {
			key += "(" + strings.Join(sortedKeys(hists[k]), "|") + ")"
		}
		key += "[" + strings.Join(sortedKeys(bnds[k]), ",") + "]"
		f := fails[rep[k]]
		c.Fail(key, k.clause, len(f.Script), caseDesc{Family: "gtype", Seed: seeds[rep[k]], Bound: gBoundaries[f.B].name, Type: declTypes[f.T].src, Val: valKinds[f.V].name, GHist: &f.Hist, Script: f.Script},
			fmt.Sprintf("generic class G<T> { public T $tp; }, instantiated as G<%s>, store of %s (%s) through %s after history %s: reference rule says accept=%v\nfailing (value base <- type argument) pairs: %s",
				declTypes[f.T].src, valKinds[f.V].name, valKinds[f.V].src, gBoundaries[f.B].name, f.Hist, accepts(declTypes[f.T], valKinds[f.V]), strings.Join(sortedKeys(pairs[k]), " ")))
	}
}
