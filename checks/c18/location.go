package main

import (
	"encoding/json"
	"fmt"
	"strings"

	"verif/engine/ev"
	"verif/engine/pool"
	"verif/engine/runner"
)

// ---- location clause ---------------------------------------------------------------------------
//
// A program is   [shebang] [<?php] header ; fillers ; FAULT ; fillers   with the fault statement on
// one known line. The reference model is the generator itself: planted line = 1 + newlines before
// the fault statement in the generated text. The real side is runner.Run: the From of the parse
// control / uncaught throwable (what Parser.ShowControl prints as file:line:col).

type faultT struct {
	Name   string
	Header string // declarations the fault needs (before the fillers)
	Stmt   string // single-line statement that fails
	Parse  bool   // expected to fail while parsing
	// AltDecl: the line of the declaration in Header is an equally defensible location (PHP itself
	// reports a TypeError of a user function at the function's declaration line).
	AltDecl bool
}

var faults = []faultT{
	{"undefined-function", "", "c18_no_such_function(1);", false, false},
	{"undefined-method", "class C18K { public function m() { return 1; } }\n$c18o = new C18K();", "$c18o->nosuch();", false, false},
	{"modulo-by-zero", "$c18z = 0;", "$c18r = 7 % $c18z;", false, false},
	{"type-error", "function c18typed(int $p) { return $p; }", "c18typed(\"abc\");", false, true},
	{"uncaught-throw", "", "throw new Exception(\"boom\");", false, false},
	{"missing-paren", "", "$c18m = (1 + 2;", true, false},
	{"unknown-statement", "", "=> 1;", true, false},
	{"undefined-class", "", "$c18n = new C18NoSuchClass();", false, false},
	{"builtin-error", "", "file_get_contents();", false, false},
	{"builtin-type-error", "", "unserialize(1);", false, false},
	{"multi-line-throw", "", "throw new Exception(\n  \"boom\"\n);", false, false},
	{"undefined-function-in-function", "", "function c18inner() { c18_no_such_function(2); } c18inner();", false, false},
}

type fillerT struct {
	Name string
	Text string // complete lines (each ends in its own line terminator)
	Only string // "" | "template" | "first" (only meaningful as the very first line)
}

var fillers = []fillerT{
	{"plain", "$f1 = 1;\n$f2 = 2;\n", ""},
	{"blank-lines", "$f1 = 1;\n\n\n\n$f2 = 2;\n", ""},
	{"multibyte-comment", "// é中 комментарий\n$f1 = 'é中';\n", ""},
	{"CRLF-lines", "$f1 = 1;\r\n$f2 = 2;\r\n", ""},
	{"line-comment+CRLF", "// c\r\n$f1 = 1; // d\r\n", ""},
	{"line-comment", "// c\n$f1 = 1; // d\n", ""},
	{"block-comment-multiline", "/* a\n b\n c */\n$f1 = 1; /* x\n y */\n", ""},
	{"interpolated-string", "$b = 1;\n$f1 = \"a{$b}c\";\n", ""},
	{"multibyte-interpolation", "$b = 1;\n$f1 = \"é{$b}\";\n", ""},
	{"two-line-string", "$f1 = \"x\ny\";\n$f2 = 'p\nq\nr';\n", ""},
	{"heredoc", "$v = 1;\n$f1 = <<<EOT\nh $v é\nsecond\nEOT;\n", ""},
	{"nowdoc", "$f1 = <<<'EOT'\nn\nm\nEOT;\n", ""},
	{"full-width-space", "$f1 =　1;\n　$f2 = 2;\n", ""},
	{"inline-html", "?>x\n<b>é</b>\n<?php\n$f1 = 1;\n", "template"},
	{"shebang", "#!/usr/bin/env origami\n", "first"},
}

var positions = []string{"first", "middle", "last"}

type locCase struct {
	Kind   string `json:"kind"` // "loc"
	Fault  string `json:"fault"`
	Filler string `json:"filler"`
	Pos    string `json:"pos"`
	Mode   string `json:"mode"` // plain | template
	Src    string `json:"src,omitempty"`
	Want   int    `json:"want_line,omitempty"`
}

func faultBy(n string) *faultT {
	for i := range faults {
		if faults[i].Name == n {
			return &faults[i]
		}
	}
	return nil
}
func fillerBy(n string) *fillerT {
	for i := range fillers {
		if fillers[i].Name == n {
			return &fillers[i]
		}
	}
	return nil
}

// build returns the program text and the planted (1-based) line.
func (lc locCase) build() (src string, line int, ok bool) {
	src, line, _, ok = lc.build2()
	return
}

func (lc locCase) build2() (src string, line int, declLine int, ok bool) {
	f, fl := faultBy(lc.Fault), fillerBy(lc.Filler)
	if f == nil || fl == nil {
		return "", 0, 0, false
	}
	if fl.Only == "template" && lc.Mode != "template" {
		return "", 0, 0, false
	}
	plain := fillers[0].Text
	var sb strings.Builder
	if fl.Only == "first" {
		// the special first line precedes everything; the ordinary filler slots use plain lines
		sb.WriteString(fl.Text)
		fl = &fillers[0]
	}
	if lc.Mode == "template" {
		sb.WriteString("<?php\n")
	}
	if f.Header != "" {
		declLine = strings.Count(sb.String(), "\n") + 1
		sb.WriteString(f.Header + "\n")
	}
	pre, post := "", ""
	switch lc.Pos {
	case "first":
		post = fl.Text + plain
	case "middle":
		pre, post = fl.Text, plain
	case "last":
		pre = plain + fl.Text
	}
	sb.WriteString(pre)
	line = strings.Count(sb.String(), "\n") + 1
	sb.WriteString(f.Stmt + "\n")
	sb.WriteString(post)
	return sb.String(), line, declLine, true
}

type locObs struct {
	Kind    string
	Line    int
	HasFrom bool
	Class   string
	Msg     string
}

func runLoc(src, mode string) locObs {
	m := runner.Plain
	if mode == "template" {
		m = runner.Template
	}
	r := runner.Run(src, runner.Opts{Mode: m})
	return locObs{Kind: r.Kind, Line: r.Line, HasFrom: r.HasFrom, Class: r.Class, Msg: r.Msg + r.PanicKey}
}

// verdict: "" = located correctly; "not-raised" = the planted fault did not end the run with a
// located parse error / uncaught throwable (not this property's business); otherwise the clause.
func locVerdict(o locObs, want int, alt int) string {
	switch o.Kind {
	case "parse", "throw", "control":
	default:
		return "not-raised"
	}
	if !o.HasFrom {
		// Parser.ShowControl then falls back to the parser's cursor, which after parsing is the
		// synthetic EOF token: it prints <file>:1:1
		if want == 1 {
			return ""
		}
		return "no-location"
	}
	if o.Line != want && (alt == 0 || o.Line != alt) {
		return "wrong-line"
	}
	return ""
}

func evalLoc(lc locCase) (verdict string, o locObs, src string, want int, ok bool) {
	var decl int
	src, want, decl, ok = lc.build2()
	if !ok {
		return
	}
	if f := faultBy(lc.Fault); !f.AltDecl {
		decl = 0
	}
	o = runLoc(src, lc.Mode)
	return locVerdict(o, want, decl), o, src, want, true
}

// locKey: a wrong line that the same filler also causes for the reference fault (uncaught throw)
// is the filler's doing (position drift); one that plain filler lines cause too belongs to the
// fault. Probes quantify over the three positions so that a coincidentally right line (planted
// line 1, reported line 1) does not split one defect into several keys.
var locMemo = map[string]string{}

func failsAny(fault, filler, mode, verdict string) bool {
	for _, pos := range positions {
		lc := locCase{Kind: "loc", Fault: fault, Filler: filler, Pos: pos, Mode: mode}
		k := fmt.Sprint(lc)
		v, ok := locMemo[k]
		if !ok {
			var built bool
			v, _, _, _, built = evalLoc(lc)
			if !built {
				v = "unbuildable"
			}
			locMemo[k] = v
		}
		if v == verdict {
			return true
		}
	}
	return false
}

func locKey(lc locCase, verdict string) string {
	other := "template"
	if lc.Mode == "template" {
		other = "plain"
	}
	tag := func(fault, filler string) string {
		if failsAny(fault, filler, other, verdict) {
			return ""
		}
		return " [" + lc.Mode + " only]"
	}
	if failsAny(lc.Fault, "plain", lc.Mode, verdict) {
		// the fault is mislocated even among plain lines
		return fmt.Sprintf("location %s: %s%s", lc.Fault, verdict, tag(lc.Fault, "plain"))
	}
	if failsAny("uncaught-throw", lc.Filler, lc.Mode, verdict) {
		return fmt.Sprintf("location after %s: %s%s", lc.Filler, verdict, tag("uncaught-throw", lc.Filler))
	}
	return fmt.Sprintf("location %s after %s: %s%s", lc.Fault, lc.Filler, verdict, tag(lc.Fault, lc.Filler))
}

type locShard struct {
	Fault string `json:"fault"`
	Mode  string `json:"mode"`
}

func locShards() []locShard {
	var s []locShard
	for _, f := range faults {
		for _, m := range []string{"plain", "template"} {
			s = append(s, locShard{f.Name, m})
		}
	}
	return s
}

func locWorker(w *pool.W, raw json.RawMessage) {
	var sh locShard
	json.Unmarshal(raw, &sh)
	var n int64
	outcomes := map[string]int{}
	emitted := map[string]bool{}
	for _, fl := range fillers {
		for _, pos := range positions {
			lc := locCase{Kind: "loc", Fault: sh.Fault, Filler: fl.Name, Pos: pos, Mode: sh.Mode}
			if !w.Item(fmt.Sprint(lc)) {
				continue
			}
			v, o, src, want, ok := evalLoc(lc)
			if !ok {
				continue
			}
			n++
			oc := "loc:located"
			if v != "" {
				oc = "loc:" + v
			}
			outcomes[oc]++
			outcomes["loc:"+lc.Fault+":"+o.Kind]++
			if v == "" && fl.Name == "heredoc" && pos == "middle" {
				w.Emit(rec{Kind: "sample", Sample: map[string]any{"program": src, "mode": lc.Mode, "fault": lc.Fault, "planted_line": want, "reported": fmt.Sprintf("%s %s at line %d", o.Kind, o.Class, o.Line)}})
			}
			if v == "" || v == "not-raised" {
				continue
			}
			key := locKey(lc, v)
			if emitted[key] {
				continue
			}
			emitted[key] = true
			lc.Src, lc.Want = src, want
			size := len(src)
			w.Emit(rec{Kind: "fail", Key: key, Clause: "location", Size: size, Case: lc, Detail: fmt.Sprintf("fault %s planted on line %d (%s mode, %s filler, position %s)\nreported: %s %s line %d (has location: %v) %s\n--- program ---\n%s", lc.Fault, want, lc.Mode, lc.Filler, lc.Pos, o.Kind, o.Class, o.Line, o.HasFrom, clip(o.Msg), src)})
		}
	}
	w.Emit(rec{Kind: "count", Programs: n, Outcome: outcomes})
	runner.Cleanup() // workers are killed, not exited: drop the template scratch dir per shard
}

func replayLoc(c *ev.Check, key string, lc locCase) {
	v, o, src, want, ok := evalLoc(lc)
	fmt.Printf("--- program (%s mode) ---\n%s--- planted line %d; observed %s %s line %d hasFrom=%v %s; verdict %q\n", lc.Mode, src, want, o.Kind, o.Class, o.Line, o.HasFrom, clip(o.Msg), v)
	if ok && v != "" && v != "not-raised" {
		c.Fail(locKey(lc, v), "location", 0, lc, "replayed")
	}
	_ = key
}
