// C18: token spans and error locations point at the right place.
//
// Span clause (form P over inputs): every corpus file (tests/ and examples/, *.php and *.zy), every
// token-boundary prefix of those files, and every string of <= 3 (quick) / <= 4 (thorough) tokens
// over a 24-token position-stress alphabet, joined with "" and with " ", is lexed in both modes
// (lexer.Tokenize / lexer.TokenizeTemplate, the latter also behind a "<?php " opener) and each
// top-level token is compared with the source text itself (span.go).
//
// Multi-line lexeme family (multiline.go): every lexeme kind that can contain a newline, in the script,
// template and HTML lexers, with every body of <= 3 / <= 4 atoms, span oracle + planted call after it.
//
// Location clause: planted-fault programs = fault kind x fault line position x preceding filler
// kind x mode, run through runner.Run; the line of the captured parse / uncaught control must be
// the planted line (location.go).
package main

import (
	"encoding/json"
	"fmt"
	"os"
	"path/filepath"
	"sort"
	"strings"
	"time"

	"verif/engine/ev"
	"verif/engine/pool"
	"verif/engine/runner"
)

type alphaTok struct{ Name, Text string }

var alphabet = []alphaTok{
	{"é", "é"},
	{"中", "中"},
	{"CRLF", "\r\n"},
	{"LF", "\n"},
	{`"a{$b}c"`, `"a{$b}c"`},
	{`"é{$b}"`, `"é{$b}"`},
	{`"$x"`, `"$x"`},
	{"two-line-string", "\"x\ny\""},
	{"heredoc", "<<<EOT\nh $v é\nEOT\n"},
	{"nowdoc", "<<<'EOT'\nn\nEOT\n"},
	{"block-comment", "/* \n */"},
	{"line-comment", "// c"},
	{"<?php", "<?php"},
	{"?>x<?php", "?>x<?php"},
	{"html", "<b>h</b>\n"},
	{"$a", "$a"},
	{"1", "1"},
	{"->", "->"},
	{"(", "("},
	{")", ")"},
	{";", ";"},
	{"if", "if"},
	{`\A\B`, `\A\B`},
	{"full-width-space", "　"},
	// keyword-case stress (symbols 24..): keywords and keyword-like names in other spellings; whatever
	// the lexer classifies them as, their text must be the source text at their span
	{"IF", "IF"},
	{"Echo", "Echo"},
	{"NULL", "NULL"},
	{"TRUE", "TRUE"},
	{"Function", "Function"},
	{"DEFAULT", "DEFAULT"},
	{"List", "List"},
	{"Color::LIST", "Color::LIST"},
	{"->default", "->default"},
	// number spellings (separators, radix prefixes, degenerate forms): a number token's text must be
	// the source text at its span however the lexer normalises the value
	{"1_000", "1_000"},
	{"0x1_F", "0x1_F"},
	{"0b1_1", "0b1_1"},
	{"01_7", "01_7"},
	{"1_0.5_0", "1_0.5_0"},
	{"1e1_0", "1e1_0"},
	{".5", ".5"},
	{"1.", "1."},
	{"0x", "0x"},
	{"1__0", "1__0"},
	// qualified-name spellings (round 5): names whose segments lex as keywords are merged into one
	// IDENTIFIER by a separate preprocessor loop; the merged token's text must be the source text at
	// its span. The lone separator composes further spellings with the other symbols ("" joiner).
	{`\`, `\`},
	{`\match\Foo`, `\match\Foo`},
	{`\list\X\Y`, `\list\X\Y`},
	{`namespace\Foo`, `namespace\Foo`},
	{`A\function\B`, `A\function\B`},
}

const nStress = 24 // the position-stress alphabet proper

var joiners = []string{"", " "}

type lexMode struct{ Name, Mode, Prefix string }

var lexModes = []lexMode{
	{"plain", modePlain, ""},
	{"template", modeTemplate, ""},
	{"template-open", modeTemplate, "<?php "},
	{"plain-shebang", modePlain, "#!/usr/bin/env origami\n"},
}

type rec struct {
	Kind     string         `json:"kind"`
	Inputs   int64          `json:"inputs,omitempty"`
	Lexes    int64          `json:"lexes,omitempty"`
	Tokens   int64          `json:"tokens,omitempty"`
	Programs int64          `json:"programs,omitempty"`
	Outcome  map[string]int `json:"outcome,omitempty"`
	Key      string         `json:"key,omitempty"`
	Clause   string         `json:"clause,omitempty"`
	Size     int            `json:"size,omitempty"`
	Case     any            `json:"case,omitempty"`
	Detail   string         `json:"detail,omitempty"`
	Sample   any            `json:"sample,omitempty"`
}

type spanCase struct {
	Kind   string `json:"kind"` // "span"
	Mode   string `json:"mode"`
	Clause string `json:"clause"`
	Src    string `json:"src"`
	Origin string `json:"origin,omitempty"`
}

// spanExplorer is the per-worker state of the span clause.
type spanExplorer struct {
	w        *pool.W
	lexes    int64
	tokens   int64
	outcomes map[string]int
	memo     map[string]string // reduced-source signature -> key ("" = no key)
	emitted  map[string]int
}

func newSpanExplorer(w *pool.W) *spanExplorer {
	return &spanExplorer{w: w, outcomes: map[string]int{}, memo: map[string]string{}, emitted: map[string]int{}}
}

// check lexes src in one mode and returns the failing clauses.
func (x *spanExplorer) check(src, mode string) []spanFail {
	toks, p := tokenize(src, mode)
	x.lexes++
	if p != "" {
		x.outcomes["lexer-crash(C01)"]++
		return nil
	}
	x.tokens += int64(len(toks))
	fs := checkSpans(src, toks)
	if len(fs) == 0 {
		x.outcomes["ok"]++
	}
	for _, f := range fs {
		x.outcomes["fail:"+f.Clause]++
	}
	return fs
}

func (x *spanExplorer) report(src, mode, clause, origin string) {
	sig := mode + "\x00" + clause + "\x00" + src
	key, ok := x.memo[sig]
	red := src
	if !ok {
		red = reduceSpan(src, mode, clause)
		rsig := mode + "\x00" + clause + "\x00" + red
		if k, ok2 := x.memo[rsig]; ok2 {
			key = k
		} else {
			key, _ = spanKey(red, mode, clause)
			x.memo[rsig] = key
		}
		x.memo[sig] = key
		if key == "" {
			return
		}
		_, detail := spanKey(red, mode, clause)
		if sz, seen := x.emitted[key]; !seen || len(red) < sz {
			x.emitted[key] = len(red)
			x.w.Emit(rec{Kind: "fail", Key: key, Clause: "span-" + clause, Size: len(red), Case: spanCase{Kind: "span", Mode: mode, Clause: clause, Src: red, Origin: origin}, Detail: fmt.Sprintf("source %q (%s mode)\n%s", red, mode, detail)})
		}
	}
}

type alphaShard struct {
	Prefix []int `json:"prefix"`
	Len    int   `json:"len"`
	NSym   int   `json:"nsym"` // symbols 0..NSym-1 of the alphabet
}

func alphaWorker(w *pool.W, raw json.RawMessage) {
	var sh alphaShard
	json.Unmarshal(raw, &sh)
	x := newSpanExplorer(w)
	var inputs int64
	seq := make([]int, sh.Len)
	copy(seq, sh.Prefix)
	// token-level reduction first: drop alphabet tokens while the clause keeps failing
	var gen func(pos int)
	gen = func(pos int) {
		if pos == sh.Len {
			if !w.Item(fmt.Sprint(seq)) {
				return
			}
			for _, j := range joiners {
				if sh.Len < 2 && j != "" {
					continue
				}
				for _, m := range lexModes {
					inputs++
					src := m.Prefix + joinSeq(seq, j)
					for _, f := range x.check(src, m.Mode) {
						cur := append([]int{}, seq...)
						for changed := true; changed && len(cur) > 1; {
							changed = false
							for i := range cur {
								cand := append(append([]int{}, cur[:i]...), cur[i+1:]...)
								x.lexes++
								if _, _, ok := failsClause(m.Prefix+joinSeq(cand, j), m.Mode, f.Clause); ok {
									cur, changed = cand, true
									break
								}
							}
						}
						x.report(m.Prefix+joinSeq(cur, j), m.Mode, f.Clause, "alphabet "+names(seq))
					}
				}
			}
			return
		}
		for a := 0; a < sh.NSym; a++ {
			seq[pos] = a
			gen(pos + 1)
		}
	}
	gen(len(sh.Prefix))
	w.Emit(rec{Kind: "count", Inputs: inputs, Lexes: x.lexes, Tokens: x.tokens, Outcome: x.outcomes})
	if len(sh.Prefix) > 0 && sh.Prefix[0] == 15 && (len(sh.Prefix) < 2 || sh.Prefix[1] == 2) {
		src := joinSeq(seq, " ")
		toks, _ := tokenize(src, modePlain)
		var ts []string
		for _, t := range toks {
			ts = append(ts, fmt.Sprintf("%s %q [%d,%d) line %d", tokClass(t), clip(t.Literal()), t.Start(), t.End(), t.Line()))
		}
		w.Emit(rec{Kind: "sample", Sample: map[string]any{"source": src, "mode": "plain", "tokens": ts, "failing_clauses": len(checkSpans(src, toks))}})
	}
}

func joinSeq(seq []int, j string) string {
	var p []string
	for _, a := range seq {
		p = append(p, alphabet[a].Text)
	}
	return strings.Join(p, j)
}

func names(seq []int) string {
	var p []string
	for _, a := range seq {
		p = append(p, alphabet[a].Name)
	}
	return strings.Join(p, " ")
}

type corpusShard struct {
	Files    []string `json:"files"`
	Prefixes bool     `json:"prefixes"`
}

func corpusWorker(w *pool.W, raw json.RawMessage) {
	var sh corpusShard
	json.Unmarshal(raw, &sh)
	x := newSpanExplorer(w)
	var inputs int64
	for _, fn := range sh.Files {
		if !w.Item(fn) {
			continue
		}
		b, err := os.ReadFile(fn)
		if err != nil {
			continue
		}
		src := string(b)
		natural := modePlain
		if strings.HasSuffix(fn, ".php") {
			natural = modeTemplate
		}
		short := fn[strings.Index(fn, "/tests/")+1:]
		if i := strings.Index(fn, "/examples/"); i >= 0 {
			short = fn[i+1:]
		}
		handled := map[string]bool{}
		run := func(s, mode, origin string) {
			inputs++
			for _, f := range x.check(s, mode) {
				h := fmt.Sprintf("%s/%s/%d", mode, f.Clause, f.Start)
				if handled[h] {
					continue
				}
				handled[h] = true
				x.report(s, mode, f.Clause, origin)
			}
		}
		for _, mode := range []string{modePlain, modeTemplate} {
			run(src, mode, short)
		}
		if sh.Prefixes {
			toks, p := tokenize(src, natural)
			if p == "" {
				last := -1
				for _, t := range toks {
					e := t.End()
					if e <= last || e <= 0 || e >= len(src) {
						continue
					}
					last = e
					run(src[:e], natural, fmt.Sprintf("%s[:%d]", short, e))
				}
			}
		}
	}
	w.Emit(rec{Kind: "count", Inputs: inputs, Lexes: x.lexes, Tokens: x.tokens, Outcome: x.outcomes})
}

func corpusFiles() []string {
	repo := os.Getenv("VERIF_REPO")
	if repo == "" {
		repo = "/repo"
	}
	var files []string
	for _, d := range []string{"tests", "examples"} {
		filepath.Walk(filepath.Join(repo, d), func(p string, info os.FileInfo, err error) error {
			if err == nil && !info.IsDir() && (strings.HasSuffix(p, ".php") || strings.HasSuffix(p, ".zy")) {
				files = append(files, p)
			}
			return nil
		})
	}
	sort.Strings(files)
	return files
}

func main() {
	if pool.IsWorker() {
		pool.Serve(map[string]pool.Handler{"alpha": alphaWorker, "corpus": corpusWorker, "loc": locWorker, "ml": mlWorker})
	}
	c := ev.New("C18")
	defer runner.Cleanup()
	if c.Replay != "" {
		replay(c)
		return
	}
	c.SetBudget(4*time.Minute, 25*time.Minute)
	maxLen := 3
	if !c.Quick() {
		maxLen = 4
	}
	var shards []pool.Shard
	files := corpusFiles()
	// big files first
	sort.SliceStable(files, func(a, b int) bool {
		sa, _ := os.Stat(files[a])
		sb, _ := os.Stat(files[b])
		return sa.Size() > sb.Size()
	})
	prefixLimit := int64(8192) // quick: token-boundary prefixes of files up to this size
	if !c.Quick() {
		prefixLimit = 1 << 30
	}
	var small []string
	nPrefixFiles := 0
	for _, f := range files {
		st, _ := os.Stat(f)
		if st.Size() <= prefixLimit {
			nPrefixFiles++
		}
		if st.Size() > 4096 {
			shards = append(shards, pool.Shard{Kind: "corpus", Arg: corpusShard{Files: []string{f}, Prefixes: st.Size() <= prefixLimit}})
		} else {
			small = append(small, f)
		}
	}
	for i := 0; i < len(small); i += 8 {
		j := min(i+8, len(small))
		shards = append(shards, pool.Shard{Kind: "corpus", Arg: corpusShard{Files: small[i:j], Prefixes: true}})
	}
	c.Set("corpus_files_with_all_prefixes", nPrefixFiles)
	// all symbols (position stress + keyword case) up to length 3; the 24 position-stress symbols
	// alone up to maxLen
	for l := maxLen; l >= 1; l-- {
		nsym := len(alphabet)
		if l > 3 {
			nsym = nStress
		}
		if l < 3 {
			shards = append(shards, pool.Shard{Kind: "alpha", Arg: alphaShard{Prefix: []int{}, Len: l, NSym: nsym}})
			continue
		}
		for a := 0; a < nsym; a++ {
			for b := 0; b < nsym; b++ {
				shards = append(shards, pool.Shard{Kind: "alpha", Arg: alphaShard{Prefix: []int{a, b}, Len: l, NSym: nsym}})
			}
		}
	}
	for _, ls := range locShards() {
		shards = append(shards, pool.Shard{Kind: "loc", Arg: ls})
	}
	// multi-line lexeme family (multiline.go): bodies of <= mlSpanLen atoms lexed, of <= mlLocLen atoms run
	mlSpanLen, mlLocLen := 3, 2
	if !c.Quick() {
		mlSpanLen, mlLocLen = 4, 3
	}
	for _, ms := range mlShards(mlSpanLen, mlLocLen) {
		shards = append(shards, pool.Shard{Kind: "ml", Arg: ms})
	}
	c.Set("multiline_body_atoms_span", mlSpanLen)
	c.Set("multiline_body_atoms_location", mlLocLen)
	var inputs, lexes, tokens, programs int64
	outcomes := map[string]int{}
	pool.Run(shards, pool.Options{}, func(si int, rb json.RawMessage) {
		var r rec
		json.Unmarshal(rb, &r)
		switch r.Kind {
		case "count":
			inputs += r.Inputs
			lexes += r.Lexes
			tokens += r.Tokens
			programs += r.Programs
			for k, v := range r.Outcome {
				outcomes[k] += v
			}
		case "fail":
			c.Fail(r.Key, r.Clause, r.Size, r.Case, r.Detail)
		case "sample":
			c.Sample(r.Sample)
		}
	}, func(d pool.Death) {
		c.Fail("worker-death:"+runner.FatalFrame(d.Stderr), "no-crash", 0, map[string]any{"item": d.Item, "reason": d.Reason}, d.Stderr)
	})
	for k := range outcomes {
		c.Outcome(k)
	}
	c.Set("outcome_counts_all", outcomes)
	c.Set("span_inputs", inputs)
	c.Set("lexer_runs", lexes)
	c.Set("tokens_checked", tokens)
	c.Set("corpus_files", len(files))
	c.Set("location_programs", programs)
	c.Set("alphabet", func() []string {
		var a []string
		for _, t := range alphabet {
			a = append(a, t.Name)
		}
		return a
	}())
	c.Set("max_token_string_length", maxLen)
	c.Assume("a lexer panic on an input is C01's finding, not C18's: such inputs are counted (lexer-crash) and skipped")
	c.Assume("the literal clause is applied to IDENTIFIER, keyword, operator, INT/FLOAT/NUMBER tokens and STRING tokens whose source text has no backslash; VARIABLE, heredoc, HTML and interpolation tokens are held to the span and line clauses only")
	c.Assume("columns (Pos) are not part of the property statement and are not checked")
	if len(outcomes) < 3 || tokens < 1000 || programs < 100 {
		c.HarnessError("vacuous: outcomes=%d tokens=%d programs=%d", len(outcomes), tokens, programs)
	}
	c.Finish(inputs+programs, lexes+programs, inputs+programs, fmt.Sprintf("span clause: %d corpus files + their token-boundary prefixes + all strings of <= 3 tokens over the whole alphabet (24 position-stress + 9 keyword-case + 10 number-spelling + 5 qualified-name symbols) and of <= %d tokens over its 24 position-stress symbols (x2 joiners x4 lexing set-ups), every top-level token compared with the source text; multi-line lexeme family: every lexeme kind that can contain a newline (plain, template and HtmlLexer) x every body of <= %d atoms x pres x followers, same span oracle, and an undefined-function call planted after each lexeme with a body of <= %d atoms; location clause: fault kind x position x filler kind x mode", len(files), maxLen, mlSpanLen, mlLocLen))
}

func replay(c *ev.Check) {
	var raw map[string]any
	key, err := ev.LoadReplay(c.Replay, &raw)
	if err != nil {
		c.HarnessError("replay: %v", err)
		runner.Cleanup()
		c.Finish(1, 1, 1, "replay")
		return
	}
	if raw["kind"] == "probe" {
		src, _ := raw["src"].(string)
		mode, _ := raw["mode"].(string)
		o := runLoc(src, mode)
		fmt.Printf("%s\n--- %s %s line %d hasFrom=%v %s\n", src, o.Kind, o.Class, o.Line, o.HasFrom, o.Msg)
		runner.Cleanup()
		c.Finish(1, 1, 1, "probe")
		return
	}
	if raw["kind"] == "mlloc" {
		var lc mlLocCase
		ev.LoadReplay(c.Replay, &lc)
		replayMlLoc(c, key, lc)
		runner.Cleanup()
		c.Finish(1, 1, 1, "replay")
		return
	}
	if raw["kind"] == "loc" {
		var lc locCase
		ev.LoadReplay(c.Replay, &lc)
		replayLoc(c, key, lc)
		runner.Cleanup()
		c.Finish(1, 1, 1, "replay")
		return
	}
	var sc spanCase
	ev.LoadReplay(c.Replay, &sc)
	toks, p := tokenize(sc.Src, sc.Mode)
	fmt.Printf("source %q mode=%s lexer=%s\n", sc.Src, sc.Mode, p)
	for i, t := range toks {
		fmt.Printf("  #%d %-13s %-24q [%d,%d) line %d (newlines before: %d)\n", i, tokClass(t), clip(t.Literal()), t.Start(), t.End(), t.Line(), strings.Count(sc.Src[:min(max(t.Start(), 0), len(sc.Src))], "\n"))
	}
	for _, f := range checkSpans(sc.Src, toks) {
		k, d := spanKey(sc.Src, sc.Mode, f.Clause)
		fmt.Printf("clause %s fails: %s\n  key=%s\n", f.Clause, f.Detail, k)
		if f.Clause == sc.Clause {
			if k == "" {
				k = key
			}
			c.Fail(k, "span-"+f.Clause, 0, sc, d)
		}
	}
	runner.Cleanup()
	c.Finish(1, 1, 1, "replay")
}
