package main

import (
	"fmt"
	"sort"
	"strings"
	"unicode/utf8"

	"github.com/php-any/origami/lexer"
	"github.com/php-any/origami/token"

	"verif/engine/runner"
)

// ---- span clause -----------------------------------------------------------------------------
//
// Reference model: nothing but the source text. For every top-level token t returned by the lexer
//   bounds    0 <= t.Start <= t.End <= len(src)
//   order     t.Start >= previous.End                       (ordered, non-overlapping)
//   line      t.Line == number of '\n' in src[:t.Start]
//   literal   t.Literal == src[t.Start:t.End]                for identifiers, keywords, operators,
//                                                            numbers and escape-free strings
//   child     interpolation children lie inside their parent's span and line range

const (
	modePlain    = "plain"    // lexer.Tokenize
	modeTemplate = "template" // lexer.TokenizeTemplate
)

var lx *lexer.Lexer

func tokenize(src, mode string) (toks []lexer.Token, panicked string) {
	if lx == nil {
		lx = lexer.NewLexer()
	}
	g := runner.Guard(func() {
		if mode == modeTemplate {
			toks = lx.TokenizeTemplate(src)
		} else {
			toks = lx.Tokenize(src)
		}
	})
	if g.Kind != "ok" {
		return nil, g.Kind + " " + g.PanicKey
	}
	return toks, ""
}

func tokClass(t lexer.Token) string {
	tt := t.Type()
	switch {
	case tt == token.NULL || tt == token.TRUE || tt == token.FALSE || tt == token.BOOL:
		return "keyword"
	case tt > token.KEYWORD_START && tt < token.KEYWORD_END:
		return "keyword"
	case tt > token.KEYWORD_END && tt < token.INTERPOLATION_TOKEN, tt == token.START_TAG, tt == token.END_TAG:
		return "operator"
	case tt == token.NUMBER || tt == token.INT || tt == token.FLOAT:
		return "number"
	case tt == token.STRING:
		return "string"
	case tt == token.HEREDOC || tt == token.NOWDOC:
		return "heredoc"
	case tt == token.IDENTIFIER:
		return "identifier"
	case tt == token.VARIABLE:
		return "variable"
	case tt == token.INTERPOLATION_TOKEN || tt == token.INTERPOLATION_VALUE:
		return "interpolation"
	case tt == token.HTML_TAG:
		return "html"
	case tt == token.NEWLINE:
		return "newline"
	case tt == token.BYTE:
		return "byte"
	}
	return "other"
}

// literalChecked: the statement lists identifiers, keywords, operators, numbers, unescaped strings.
func literalChecked(class, text string) bool {
	switch class {
	case "identifier", "keyword", "operator", "number":
		return true
	case "string":
		return !strings.Contains(text, "\\")
	case "variable":
		return true // compared modulo blanks between '$' and the name ("$ x" lexes as the variable $x)
	}
	return false
}

func stripBlanks(s string) string {
	return strings.Map(func(r rune) rune {
		if r == ' ' || r == '\t' || r == '\r' {
			return -1
		}
		return r
	}, s)
}

type spanFail struct {
	Clause string // bounds | order | line | literal | child
	Idx    int    // index of the failing top-level token
	Class  string // token class of the failing token
	Start  int
	Detail string
}

func lineAt(src string, off int) int { return strings.Count(src[:off], "\n") }

// lineIndex answers "newlines before offset" in O(log n) for long sources.
type lineIndex []int

func newLineIndex(src string) lineIndex {
	var li lineIndex
	for i := 0; i < len(src); i++ {
		if src[i] == '\n' {
			li = append(li, i)
		}
	}
	return li
}

func (li lineIndex) at(off int) int { return sort.SearchInts(li, off) }

type childTok interface{ Children() []lexer.Token }

// checkSpans returns the first failure of every clause (at most one per clause).
func checkSpans(src string, toks []lexer.Token) []spanFail {
	var out []spanFail
	seen := map[string]bool{}
	add := func(f spanFail) {
		if !seen[f.Clause] {
			seen[f.Clause] = true
			out = append(out, f)
		}
	}
	prevEnd := 0
	li := newLineIndex(src)
	for i, t := range toks {
		if t == nil {
			continue
		}
		cl := tokClass(t)
		s, e := t.Start(), t.End()
		if s < 0 || e < s || e > len(src) {
			add(spanFail{"bounds", i, cl, s, fmt.Sprintf("token #%d %s %q span [%d,%d) outside source of %d bytes", i, cl, clip(t.Literal()), s, e, len(src))})
			continue
		}
		if s < prevEnd {
			add(spanFail{"order", i, cl, s, fmt.Sprintf("token #%d %s %q starts at %d before the previous token's end %d", i, cl, clip(t.Literal()), s, prevEnd)})
		}
		if e > prevEnd {
			prevEnd = e
		}
		if want := li.at(s); t.Line() != want {
			add(spanFail{"line", i, cl, s, fmt.Sprintf("token #%d %s %q at byte %d: line %d recorded, %d newlines precede it", i, cl, clip(t.Literal()), s, t.Line(), want)})
		}
		text := src[s:e]
		if cl == "variable" {
			text = stripBlanks(text)
		}
		if cl == "identifier" && strings.HasPrefix(text, "\\") {
			// "\ Foo" lexes as the qualified name \Foo exactly as "$ x" lexes as $x: the blanks the lexer
			// skips between the leading separator and the name are not part of the token text
			text = strings.ReplaceAll(stripBlanks(text), "　", "")
		}
		if literalChecked(cl, text) && t.Literal() != text {
			lcl := cl
			if cl == "identifier" && strings.HasPrefix(text, "\\") && strings.Contains(text, "?>") {
				// the name after a leading separator is looked for beyond a close tag ("<?php\\?>a<?php" gives
				// the identifier \a spanning "\\?>a"): its own key, so that the listed finding masks nothing else
				lcl = "qualified-name-across-close-tag"
			}
			add(spanFail{"literal", i, lcl, s, fmt.Sprintf("token #%d %s literal %q but source[%d:%d] = %q", i, cl, clip(t.Literal()), s, e, clip(text))})
		}
		if ct, ok := t.(childTok); ok {
			lo, hi := t.Line(), t.Line()+strings.Count(text, "\n")
			var walk func(ts []lexer.Token)
			walk = func(ts []lexer.Token) {
				for _, c := range ts {
					if c == nil {
						continue
					}
					if c.Start() < s || c.End() > e || c.End() < c.Start() {
						add(spanFail{"child", i, cl, s, fmt.Sprintf("child %s %q span [%d,%d) outside its parent %q [%d,%d)", tokClass(c), clip(c.Literal()), c.Start(), c.End(), clip(text), s, e)})
					} else if c.Line() < lo || c.Line() > hi {
						add(spanFail{"child", i, cl, s, fmt.Sprintf("child %s %q line %d outside its parent's lines %d..%d", tokClass(c), clip(c.Literal()), c.Line(), lo, hi)})
					}
					if cc, ok := c.(childTok); ok {
						walk(cc.Children())
					}
				}
			}
			walk(ct.Children())
		}
	}
	return out
}

func clip(s string) string {
	if len(s) > 40 {
		i := 40
		for i > 0 && !utf8.RuneStart(s[i]) {
			i--
		}
		return s[:i] + "…"
	}
	return s
}

// failsClause re-lexes src and reports the failure of the given clause, if any.
func failsClause(src, mode, clause string) (spanFail, []lexer.Token, bool) {
	toks, p := tokenize(src, mode)
	if p != "" {
		return spanFail{}, nil, false
	}
	for _, f := range checkSpans(src, toks) {
		if f.Clause == clause {
			return f, toks, true
		}
	}
	return spanFail{}, toks, false
}

// ---- reduction and finding keys ----------------------------------------------------------------

// reduceSpan shrinks src (first by lines, then by runes) while the clause keeps failing in mode.
func reduceSpan(src, mode, clause string) string {
	test := func(s string) bool { _, _, ok := failsClause(s, mode, clause); return ok }
	// by lines (keeping the line terminators with their line)
	cur := ddmin(strings.SplitAfter(src, "\n"), test)
	// by runes
	var rs []string
	for _, r := range strings.Join(cur, "") {
		rs = append(rs, string(r))
	}
	if len(rs) > 400 {
		return strings.Join(cur, "")
	}
	return strings.Join(ddmin(rs, test), "")
}

// ddmin: classic delta debugging to a 1-minimal list of parts.
func ddmin(parts []string, test func(string) bool) []string {
	n := 2
	for len(parts) >= 2 {
		chunk := (len(parts) + n - 1) / n
		reduced := false
		for i := 0; i < len(parts); i += chunk {
			j := i + chunk
			if j > len(parts) {
				j = len(parts)
			}
			cand := append(append([]string{}, parts[:i]...), parts[j:]...)
			if len(cand) > 0 && test(strings.Join(cand, "")) {
				parts = cand
				if n > 2 {
					n--
				}
				reduced = true
				break
			}
		}
		if !reduced {
			if n >= len(parts) {
				break
			}
			n *= 2
			if n > len(parts) {
				n = len(parts)
			}
		}
	}
	return parts
}

// gapClass names the kind of content between the last token that is still right and the victim.
func gapClass(gap string, atFileStart bool) string {
	hasNonASCII := false
	for i := 0; i < len(gap); i++ {
		if gap[i] >= 0x80 {
			hasNonASCII = true
		}
	}
	switch {
	case atFileStart && strings.HasPrefix(gap, "#!"):
		return "shebang-line"
	case strings.Contains(gap, "<<<"):
		return "heredoc"
	case strings.Contains(gap, "//") && strings.Contains(gap, "\r"):
		return "line-comment+CR"
	case strings.Contains(gap, "//"):
		return "line-comment"
	case strings.Contains(gap, "/*"):
		return "block-comment"
	case strings.Contains(gap, "?>") || strings.Contains(gap, "<?php"):
		return "php-tag/html"
	case strings.ContainsAny(gap, "\"'`") && (strings.Contains(gap, "\\\n") || strings.Contains(gap, "\\\r\n")):
		return "string with backslash-newline"
	case strings.HasPrefix(gap, "b'") || strings.Contains(gap, " b'") || strings.Contains(gap, "\nb'"):
		return "byte-literal"
	case strings.ContainsAny(gap, "\"'`") && strings.Contains(gap, "{$"):
		return "interpolated-string"
	case strings.ContainsAny(gap, "\"'`") && strings.Contains(gap, "\n"):
		return "multi-line-string"
	case strings.ContainsAny(gap, "\"'`"):
		return "string"
	case strings.Contains(gap, "　"):
		return "full-width-space"
	case strings.Contains(gap, "\r"):
		return "CR"
	case hasNonASCII:
		return "multibyte"
	case strings.Contains(gap, "\n"):
		return "newline"
	case strings.TrimSpace(gap) != gap || gap == "":
		return "whitespace"
	}
	return "plain"
}

// htmlGapClass: the same for documents lexed by the HtmlLexer (<!DOCTYPE ... documents).
func htmlGapClass(gap string) string {
	switch {
	case strings.Contains(gap, "<!--"):
		return "html-comment"
	case strings.Contains(gap, "<![CDATA["):
		return "cdata"
	case strings.Contains(gap, "<?"):
		return "processing-instruction"
	case strings.ContainsAny(gap, "\"'`") && strings.Contains(gap, "\n"):
		return "multi-line-quoted-string"
	case strings.ContainsAny(gap, "\"'`"):
		return "quoted-string"
	case strings.Contains(gap, "{$") || strings.Contains(gap, "@{"):
		return "text-interpolation"
	case strings.Contains(gap, "\r"):
		return "CR"
	case strings.Contains(gap, "\n"):
		return "newline"
	}
	return "plain"
}

// spanKey derives the finding key from the reduced source.
func spanKey(red, mode, clause string) (key string, detail string) {
	f, toks, ok := failsClause(red, mode, clause)
	if !ok {
		return "", ""
	}
	// last token before the victim that passes line+bounds: the gap starts at its start
	gapStart := 0
	for i := f.Idx - 1; i >= 0; i-- {
		t := toks[i]
		if t.Start() >= 0 && t.Start() <= len(red) && t.Start() <= f.Start && t.Line() == lineAt(red, t.Start()) {
			gapStart = t.Start()
			break
		}
	}
	end := f.Start
	if end < gapStart || end > len(red) {
		end = len(red)
	}
	gap := red[gapStart:end]
	victim := ""
	if f.Start >= 0 && f.Start <= len(red) {
		e := toks[f.Idx].End()
		if e >= f.Start && e <= len(red) {
			victim = red[f.Start:e]
		}
	}
	// a mode-independent defect is keyed once (as plain)
	m := mode
	if mode == modeTemplate {
		if _, _, also := failsClause(red, modePlain, clause); also {
			m = modePlain
		}
	}
	if strings.HasPrefix(red, "#!") {
		if nl := strings.Index(red, "\n"); nl >= 0 {
			// Tokenize(#!line + rest) lexes rest in template mode: the shebang handling is to blame
			// only if rest alone is fine both in this mode and in template mode
			_, _, still := failsClause(red[nl+1:], mode, clause)
			if _, _, t := failsClause(red[nl+1:], modeTemplate, clause); t {
				still = true
			}
			if !still {
				return fmt.Sprintf("shebang: token positions refer to the text after the stripped first line [%s]", m), f.Detail
			}
		}
	}
	if strings.HasPrefix(red, "<!DOCTYPE") && mode == modePlain {
		// Tokenize hands such a document to the HtmlLexer
		gc := htmlGapClass(gap)
		switch clause {
		case "line":
			return fmt.Sprintf("line: drift after %s [html]", gc), f.Detail
		case "literal":
			return fmt.Sprintf("literal: %s text differs from its span [html]", f.Class), f.Detail
		case "child":
			return fmt.Sprintf("child: interpolation child outside parent, %s [html]", htmlGapClass(victim)), f.Detail
		}
		return fmt.Sprintf("%s: %s after %s [html]", clause, f.Class, gc), f.Detail
	}
	switch clause {
	case "line":
		key = fmt.Sprintf("line: drift after %s [%s]", gapClass(gap, gapStart == 0), m)
	case "literal":
		key = fmt.Sprintf("literal: %s text differs from its span [%s]", f.Class, m)
	case "child":
		key = fmt.Sprintf("child: interpolation child outside parent, %s [%s]", gapClass(victim, false), m)
		_ = victim
	default:
		key = fmt.Sprintf("%s: %s after %s [%s]", clause, f.Class, gapClass(gap, gapStart == 0), m)
	}
	return key, f.Detail
}
