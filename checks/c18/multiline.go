package main

import (
	"encoding/json"
	"fmt"
	"strings"

	"verif/engine/ev"
	"verif/engine/pool"
	"verif/engine/runner"
)

// ---- multi-line lexeme family ------------------------------------------------------------------
//
// Every lexeme kind that can contain a newline, in each of the three lexers (script lexer behind
// Tokenize, template lexer behind TokenizeTemplate, HtmlLexer behind Tokenize of a <!DOCTYPE
// document), is generated as   PRE  OPEN body CLOSE  FOLLOW   where body is EVERY sequence of <= L
// atoms over a body alphabet (LF, CRLF, bare CR, backslash, the kind's own closer pieces, the
// interpolation forms, a multi-byte rune ...). The oracle is the one of the span clause: the line of
// every top-level token (in particular of the FOLLOW tokens) is the number of '\n' in the source
// before its start. The location half plants an undefined-function call after the lexeme and
// demands the line of the uncaught error to be 1 + the newline count before the call.

type mlSetup struct {
	Name    string
	Mode    string // lexing entry
	Pres    []string
	Follows []string
	HTML    bool
}

var mlSetups = []mlSetup{
	{"plain", modePlain, []string{"", "$p;\n"}, []string{";$z;\n$y;\n", "\n$z;\n"}, false},
	{"template", modeTemplate, []string{"<?php ", "<?php\n$p;\n", "h\n<?php "}, []string{";$z;\n$y;\n", "\n$z;\n"}, false},
	{"html", modePlain, []string{"<!DOCTYPE html>", "<!DOCTYPE html>\n<html>\n", "<!DOCTYPE html\n PUBLIC \"x\ny\">\n"}, []string{"<i>t</i>\n<b>u</b>\n", "\nx<i c=\"d\">\n"}, true},
}

type mlKind struct {
	Name  string
	Open  string
	Close string
	Extra []string // kind-specific body atoms: the pieces of its own terminator
	HTML  bool     // a lexeme of the HtmlLexer (else of the script / template lexer)
	// location half: how the lexeme is made a complete statement / node ("" = not used there)
	StmtPre, StmtPost string
	TemplateOnly      bool // location half: meaningful only in template mode
}

var mlKinds = []mlKind{
	{Name: "dq-string", Open: `"`, Close: `"`, Extra: []string{`"`}, StmtPre: "$f1 = ", StmtPost: ";"},
	{Name: "sq-string", Open: `'`, Close: `'`, Extra: []string{`'`}, StmtPre: "$f1 = ", StmtPost: ";"},
	{Name: "backtick-string", Open: "`", Close: "`", Extra: []string{"`"}, StmtPre: "$f1 = ", StmtPost: ";"},
	{Name: "heredoc", Open: "<<<EOT\n", Close: "\nEOT", Extra: []string{"EOT"}, StmtPre: "$f1 = ", StmtPost: ";"},
	{Name: "heredoc-indented-close", Open: "<<<EOT\n", Close: "\n  EOT", Extra: []string{"EOT"}, StmtPre: "$f1 = ", StmtPost: ";"},
	{Name: "heredoc-crlf", Open: "<<<EOT\r\n", Close: "\r\nEOT", Extra: []string{"EOT"}, StmtPre: "$f1 = ", StmtPost: ";"},
	{Name: "nowdoc", Open: "<<<'EOT'\n", Close: "\nEOT", Extra: []string{"EOT"}, StmtPre: "$f1 = ", StmtPost: ";"},
	{Name: "block-comment", Open: "/*", Close: "*/", Extra: []string{"*", "/"}, StmtPre: "$f1 = 1; ", StmtPost: ""},
	{Name: "doc-comment", Open: "/**", Close: "*/", Extra: []string{"*", "/"}, StmtPre: "", StmtPost: ""},
	{Name: "line-comment", Open: "//", Close: "\n", Extra: []string{"/"}, StmtPre: "$f1 = 1; ", StmtPost: ""},
	{Name: "byte-literal", Open: "b'", Close: "'", Extra: []string{"'"}, StmtPre: "$f1 = ", StmtPost: ";"},
	{Name: "inline-html", Open: "?>", Close: "<?php ", Extra: []string{"<?php", "<?"}, StmtPre: "", StmtPost: "", TemplateOnly: true},
	{Name: "inline-html-nl-open", Open: "?>\n", Close: "<?php\n", Extra: []string{"<?php", "?>"}, StmtPre: "", StmtPost: "", TemplateOnly: true},

	{Name: "html-comment", Open: "<!--", Close: "-->", Extra: []string{"--", ">"}, HTML: true, StmtPre: "", StmtPost: ""},
	{Name: "cdata", Open: "<![CDATA[", Close: "]]>", Extra: []string{"]]", ">"}, HTML: true, StmtPre: "", StmtPost: ""},
	{Name: "pi", Open: "<?", Close: "?>", Extra: []string{"?", ">"}, HTML: true, StmtPre: "", StmtPost: ""},
	{Name: "pi-php", Open: "<?php", Close: "?>", Extra: []string{"?", ">"}, HTML: true, StmtPre: "", StmtPost: ""},
	{Name: "pi-echo", Open: "<?=", Close: "?>", Extra: []string{"?", ">"}, HTML: true, StmtPre: "", StmtPost: ""},
	{Name: "pi-xml", Open: "<?xml", Close: "?>", Extra: []string{"?", ">"}, HTML: true, StmtPre: "", StmtPost: ""},
	{Name: "attr-dq", Open: `<a b="`, Close: `">`, Extra: []string{`"`, ">"}, HTML: true, StmtPre: "", StmtPost: "x</a>"},
	{Name: "attr-sq", Open: `<a b='`, Close: `'>`, Extra: []string{`'`, ">"}, HTML: true, StmtPre: "", StmtPost: "x</a>"},
	{Name: "attr-backtick", Open: "<a b=`", Close: "`>", Extra: []string{"`", ">"}, HTML: true, StmtPre: "", StmtPost: "x</a>"},
	{Name: "text-node", Open: "<p>", Close: "</p>", Extra: []string{"<", ">"}, HTML: true, StmtPre: "", StmtPost: ""},
	{Name: "text-dq", Open: `<p>"`, Close: `"</p>`, Extra: []string{`"`, "<"}, HTML: true, StmtPre: "", StmtPost: ""},
	{Name: "tag-whitespace", Open: "<a ", Close: " b>", Extra: []string{"=", ">"}, HTML: true, StmtPre: "", StmtPost: "x</a>"},
	{Name: "script-element", Open: "<script>", Close: "</script>", Extra: []string{"<", "//"}, HTML: true, StmtPre: "", StmtPost: ""},
}

// the body alphabet common to all kinds (the kind's Extra atoms are appended)
var mlAtoms = []alphaTok{
	{"a", "a"},
	{"LF", "\n"},
	{"CRLF", "\r\n"},
	{"CR", "\r"},
	{`\`, `\`},
	{"{$b}", "{$b}"},
	{"$b", "$b"},
	{"é", "é"},
	{"{$b(", "{$b("},
	{"@{f(", "@{f("},
	{")}", ")}"},
	{"SP", " "},
}

// family: the spellings of one lexeme kind share a finding key
func (k mlKind) family() string {
	switch {
	case strings.HasPrefix(k.Name, "pi"):
		return "processing-instruction"
	case strings.HasPrefix(k.Name, "heredoc"):
		return "heredoc"
	case strings.HasPrefix(k.Name, "inline-html"):
		return "inline-html"
	case k.Name == "doc-comment":
		return "block-comment"
	}
	return k.Name
}

func (k mlKind) atoms() []alphaTok {
	a := append([]alphaTok{}, mlAtoms...)
	for _, e := range k.Extra {
		a = append(a, alphaTok{e, e})
	}
	return a
}

func mlBody(atoms []alphaTok, seq []int) string {
	var sb strings.Builder
	for _, a := range seq {
		sb.WriteString(atoms[a].Text)
	}
	return sb.String()
}

func mlNames(atoms []alphaTok, seq []int) string {
	var p []string
	for _, a := range seq {
		p = append(p, atoms[a].Name)
	}
	return strings.Join(p, " ")
}

func mlKindBy(n string) *mlKind {
	for i := range mlKinds {
		if mlKinds[i].Name == n {
			return &mlKinds[i]
		}
	}
	return nil
}

func mlSetupBy(n string) *mlSetup {
	for i := range mlSetups {
		if mlSetups[i].Name == n {
			return &mlSetups[i]
		}
	}
	return nil
}

type mlShard struct {
	Setup string `json:"setup"`
	Kind  string `json:"kind"`
	First int    `json:"first"` // first body atom; -1 = the empty body
	Len   int    `json:"len"`   // bodies of 1..Len atoms starting with First
	Loc   bool   `json:"loc"`   // location half instead of span half
}

func mlShards(spanLen, locLen int) []mlShard {
	var out []mlShard
	for _, s := range mlSetups {
		for _, k := range mlKinds {
			if k.HTML != s.HTML {
				continue
			}
			n := len(k.atoms())
			out = append(out, mlShard{s.Name, k.Name, -1, 0, false})
			for a := 0; a < n; a++ {
				out = append(out, mlShard{s.Name, k.Name, a, spanLen, false})
			}
			if k.TemplateOnly && s.Name != "template" {
				continue
			}
			out = append(out, mlShard{s.Name, k.Name, -1, 0, true})
			for a := 0; a < n; a++ {
				out = append(out, mlShard{s.Name, k.Name, a, locLen, true})
			}
		}
	}
	return out
}

// eachBody enumerates every atom sequence of the shard.
func (sh mlShard) eachBody(n int, fn func(seq []int)) {
	if sh.First < 0 {
		fn(nil)
		return
	}
	for l := 1; l <= sh.Len; l++ {
		seq := make([]int, l)
		seq[0] = sh.First
		var gen func(pos int)
		gen = func(pos int) {
			if pos == l {
				fn(seq)
				return
			}
			for a := 0; a < n; a++ {
				seq[pos] = a
				gen(pos + 1)
			}
		}
		gen(1)
	}
}

func mlWorker(w *pool.W, raw json.RawMessage) {
	var sh mlShard
	json.Unmarshal(raw, &sh)
	s, k := mlSetupBy(sh.Setup), mlKindBy(sh.Kind)
	if s == nil || k == nil {
		return
	}
	if sh.Loc {
		mlLocWorker(w, sh, s, k)
		return
	}
	atoms := k.atoms()
	x := newSpanExplorer(w)
	var inputs int64
	build := func(pre, follow string, seq []int) string {
		return pre + k.Open + mlBody(atoms, seq) + k.Close + follow
	}
	sh.eachBody(len(atoms), func(seq []int) {
		if !w.Item(fmt.Sprint(seq)) {
			return
		}
		for _, pre := range s.Pres {
			for _, fo := range s.Follows {
				inputs++
				src := build(pre, fo, seq)
				for _, f := range x.check(src, s.Mode) {
					// atom-level reduction first
					cur := append([]int{}, seq...)
					for changed := true; changed && len(cur) > 0; {
						changed = false
						for i := range cur {
							cand := append(append([]int{}, cur[:i]...), cur[i+1:]...)
							x.lexes++
							if _, _, ok := failsClause(build(pre, fo, cand), s.Mode, f.Clause); ok {
								cur, changed = cand, true
								break
							}
						}
					}
					x.report(build(pre, fo, cur), s.Mode, f.Clause, fmt.Sprintf("multi-line %s/%s body [%s]", s.Name, k.Name, mlNames(atoms, seq)))
				}
			}
		}
	})
	x.outcomes["ml-span:"+s.Name] += int(inputs)
	w.Emit(rec{Kind: "count", Inputs: inputs, Lexes: x.lexes, Tokens: x.tokens, Outcome: x.outcomes})
}

// ---- location half ---------------------------------------------------------------------------

const mlFaultName = "c18_no_such_function"

type mlLocCase struct {
	Kind   string `json:"kind"` // "mlloc"
	Setup  string `json:"setup"`
	Lexeme string `json:"lexeme"`
	Body   []int  `json:"body"`
	Sep    string `json:"sep"` // between the lexeme's statement and the fault: "\n" or " "
	Src    string `json:"src,omitempty"`
	Want   int    `json:"want_line,omitempty"`
}

var mlSeps = []string{"\n", " "}

// build returns the program and the planted 1-based line = 1 + number of '\n' before the call.
func (c mlLocCase) build() (src string, want int, ok bool) {
	s, k := mlSetupBy(c.Setup), mlKindBy(c.Lexeme)
	if s == nil || k == nil {
		return "", 0, false
	}
	atoms := k.atoms()
	for _, a := range c.Body {
		if a < 0 || a >= len(atoms) {
			return "", 0, false
		}
	}
	lex := k.StmtPre + k.Open + mlBody(atoms, c.Body) + k.Close + k.StmtPost
	switch {
	case s.HTML:
		src = "<!DOCTYPE html>\n<html>\n" + lex + c.Sep + "<p>@{" + mlFaultName + "(1)}</p>\n</html>\n"
	case s.Name == "template":
		src = "<?php\n$b = 1;\n" + lex + c.Sep + mlFaultName + "(1);\n$g = 1;\n"
	default:
		src = "$b = 1;\n" + lex + c.Sep + mlFaultName + "(1);\n$g = 1;\n"
	}
	at := strings.Index(src, mlFaultName)
	return src, 1 + strings.Count(src[:at], "\n"), true
}

// eval: "" = right line; "not-judged" = the run did not end in the planted call's own error (an
// ill-formed body swallowed or broke the program: then there is no planted fault to locate).
func (c mlLocCase) eval() (verdict string, o locObs, src string, want int) {
	src, want, ok := c.build()
	if !ok {
		return "not-judged", o, src, want
	}
	mode := "plain"
	if c.Setup == "template" {
		mode = "template"
	}
	// a small fuel budget: ill-formed bodies that send the parser into a loop are not judged anyway
	m := runner.Plain
	if mode == "template" {
		m = runner.Template
	}
	r := runner.Run(src, runner.Opts{Mode: m, Fuel: 300_000})
	o = locObs{Kind: r.Kind, Line: r.Line, HasFrom: r.HasFrom, Class: r.Class, Msg: r.Msg + r.PanicKey}
	if o.Kind != "throw" || !strings.Contains(o.Msg, mlFaultName) {
		return "not-judged", o, src, want
	}
	if !o.HasFrom {
		if want == 1 {
			return "", o, src, want
		}
		return "no-location", o, src, want
	}
	if o.Line != want {
		return "wrong-line", o, src, want
	}
	return "", o, src, want
}

// mlLocKey: the body is reduced atom-wise while the same verdict holds; the key names the lexeme
// kind and the minimal body. The set-up is named only if the other script set-up is fine.
func mlLocKey(c mlLocCase, verdict string) (string, mlLocCase) {
	cur := c
	for changed := true; changed && len(cur.Body) > 0; {
		changed = false
		for i := range cur.Body {
			cand := cur
			cand.Body = append(append([]int{}, cur.Body[:i]...), cur.Body[i+1:]...)
			if v, _, _, _ := cand.eval(); v == verdict {
				cur, changed = cand, true
				break
			}
		}
	}
	// a CRLF that fails like a plain LF is the same defect: name it LF
	for i, a := range cur.Body {
		if a == 2 {
			cand := cur
			cand.Body = append([]int{}, cur.Body...)
			cand.Body[i] = 1
			if v, _, _, _ := cand.eval(); v == verdict {
				cur = cand
			}
		}
	}
	k := mlKindBy(cur.Lexeme)
	tag := ""
	if cur.Setup == "html" {
		tag = " [html]"
	} else {
		other := cur
		other.Setup = map[string]string{"plain": "template", "template": "plain"}[cur.Setup]
		if v, _, _, _ := other.eval(); v != verdict && !k.TemplateOnly {
			tag = " [" + cur.Setup + " only]"
		}
	}
	return fmt.Sprintf("location after %s with body [%s]: %s%s", k.family(), mlNames(k.atoms(), cur.Body), verdict, tag), cur
}

func mlLocWorker(w *pool.W, sh mlShard, s *mlSetup, k *mlKind) {
	atoms := k.atoms()
	var n int64
	outcomes := map[string]int{}
	emitted := map[string]bool{}
	sh.eachBody(len(atoms), func(seq []int) {
		if !w.Item(fmt.Sprint(seq)) {
			return
		}
		for _, sep := range mlSeps {
			c := mlLocCase{Kind: "mlloc", Setup: s.Name, Lexeme: k.Name, Body: append([]int{}, seq...), Sep: sep}
			v, o, src, want := c.eval()
			n++
			switch v {
			case "":
				outcomes["ml-loc:located"]++
				outcomes["ml-loc:located:"+s.Name]++
				if len(seq) == 2 && seq[0] == 1 && seq[1] == 0 && sep == "\n" && (k.Name == "heredoc" || k.Name == "pi-php") {
					w.Emit(rec{Kind: "sample", Sample: map[string]any{"program": src, "setup": s.Name, "lexeme": k.Name, "planted_line": want, "reported": fmt.Sprintf("%s %s at line %d", o.Kind, o.Class, o.Line)}})
				}
				continue
			case "not-judged":
				outcomes["ml-loc:not-judged"]++
				outcomes["ml-loc:not-judged:"+o.Kind]++
				continue
			}
			outcomes["ml-loc:"+v]++
			key, red := mlLocKey(c, v)
			if emitted[key] {
				continue
			}
			emitted[key] = true
			_, ro, rsrc, rwant := red.eval()
			red.Src, red.Want = rsrc, rwant
			w.Emit(rec{Kind: "fail", Key: key, Clause: "location", Size: len(rsrc), Case: red, Detail: fmt.Sprintf("undefined-function call planted on line %d after a %s lexeme with body [%s] (%s set-up)\nreported: %s %s line %d (has location: %v) %s\n--- program ---\n%s", rwant, red.Lexeme, mlNames(atoms, red.Body), red.Setup, ro.Kind, ro.Class, ro.Line, ro.HasFrom, clip(ro.Msg), rsrc)})
		}
	})
	w.Emit(rec{Kind: "count", Programs: n, Outcome: outcomes})
	runner.Cleanup()
}

func replayMlLoc(c *ev.Check, key string, lc mlLocCase) {
	v, o, src, want := lc.eval()
	fmt.Printf("--- program (%s set-up) ---\n%s--- planted line %d; observed %s %s line %d hasFrom=%v %s; verdict %q\n", lc.Setup, src, want, o.Kind, o.Class, o.Line, o.HasFrom, clip(o.Msg), v)
	if v != "" && v != "not-judged" {
		k, _ := mlLocKey(lc, v)
		c.Fail(k, "location", 0, lc, "replayed")
	}
	_ = key
}
