package main

import (
	"fmt"
	"math"
	"reflect"
	"strconv"
	"strings"
	"time"

	"github.com/php-any/origami/data"
)

// ---- kinds ------------------------------------------------------------------------------

type kindT struct {
	Name   string
	T      reflect.Type
	Fam    string // "string" | "bool" | "int" | "float"
	Bits   int
	Signed bool
	Core   bool // documented parameter/result kind (string, bool, int, int64, float64)
	Named  bool // named Go type with a basic underlying type (time.Duration, type NStr string, ...)
	GoName string

	// kinds outside the supported set (Fam "x": pointers, interfaces, slices, maps, structs, funcs,
	// channels, complex, several results ...), see exotic.go
	Outs     []reflect.Type // more than one result: the result types
	Variadic bool           // as the last parameter the slice type T makes the function variadic
	XRes     []rval         // result pool of the kind
}

// named types: same Kind as a basic type, different reflect.Type
type (
	NStr  string
	NF64  float64
	NBool bool
	NU8   uint8
)

func bk(name string, t reflect.Type, fam string, bits int, signed, core, named bool, goName string) kindT {
	return kindT{Name: name, T: t, Fam: fam, Bits: bits, Signed: signed, Core: core, Named: named, GoName: goName}
}

var kinds = []kindT{
	bk("string", reflect.TypeOf(""), "string", 0, false, true, false, ""),
	bk("bool", reflect.TypeOf(true), "bool", 0, false, true, false, ""),
	bk("int", reflect.TypeOf(int(0)), "int", 64, true, true, false, ""),
	bk("int64", reflect.TypeOf(int64(0)), "int", 64, true, true, false, ""),
	bk("float64", reflect.TypeOf(float64(0)), "float", 64, false, true, false, ""),
	bk("int8", reflect.TypeOf(int8(0)), "int", 8, true, false, false, ""),
	bk("int16", reflect.TypeOf(int16(0)), "int", 16, true, false, false, ""),
	bk("int32", reflect.TypeOf(int32(0)), "int", 32, true, false, false, ""),
	bk("uint", reflect.TypeOf(uint(0)), "int", 64, false, false, false, ""),
	bk("uint8", reflect.TypeOf(uint8(0)), "int", 8, false, false, false, ""),
	bk("uint16", reflect.TypeOf(uint16(0)), "int", 16, false, false, false, ""),
	bk("uint32", reflect.TypeOf(uint32(0)), "int", 32, false, false, false, ""),
	bk("uint64", reflect.TypeOf(uint64(0)), "int", 64, false, false, false, ""),
	bk("float32", reflect.TypeOf(float32(0)), "float", 32, false, false, false, ""),
	bk("duration", reflect.TypeOf(time.Duration(0)), "int", 64, true, false, true, "time.Duration"),
	bk("nstr", reflect.TypeOf(NStr("")), "string", 0, false, false, true, "NStr"),
	bk("nf64", reflect.TypeOf(NF64(0)), "float", 64, false, false, true, "NF64"),
	bk("nbool", reflect.TypeOf(NBool(false)), "bool", 0, false, false, true, "NBool"),
	bk("nu8", reflect.TypeOf(NU8(0)), "int", 8, false, false, true, "NU8"),
}

const nBasic = 14 // kinds[:nBasic] are the unnamed basic types

// basicOf returns the unnamed kind with the same reflect.Kind as a named kind.
func basicOf(k *kindT) *kindT {
	for i := 0; i < nBasic; i++ {
		if kinds[i].T.Kind() == k.T.Kind() {
			return &kinds[i]
		}
	}
	return nil
}

const nCore = 5

func kindByName(n string) *kindT {
	for i := range kinds {
		if kinds[i].Name == n {
			return &kinds[i]
		}
	}
	for i := range xkinds {
		if xkinds[i].Name == n {
			return &xkinds[i]
		}
	}
	return nil
}

// kindGroup is the coarse name used in finding keys for failures that do not depend on the value.
func (k *kindT) group() string {
	if k.Fam == "x" {
		return "unsupported kind " + k.Name
	}
	if k.Core {
		return k.Name
	}
	if k.Named {
		return "named"
	}
	return "sized"
}

func (k *kindT) minmax() (min int64, max uint64) {
	if k.Signed {
		return -(1 << (k.Bits - 1)), uint64(1)<<(k.Bits-1) - 1
	}
	if k.Bits == 64 {
		return 0, math.MaxUint64
	}
	return 0, uint64(1)<<k.Bits - 1
}

// ---- script-side values -----------------------------------------------------------------

// sval is a script value in a replayable form.
type sval struct {
	T string `json:"t"`           // int | float | string | bool | null | array
	I int64  `json:"i,omitempty"` // int payload
	F uint64 `json:"f,omitempty"` // float64 bits
	S string `json:"s,omitempty"` // name in the string pool
	B bool   `json:"b,omitempty"`
	C string `json:"c"` // value class label (relative to the parameter kind)
}

var stringPool = map[string]string{
	"empty":   "",
	"ascii":   "a",
	"utf8":    "é中\U0001F600",
	"nonutf8": "\xff\xfe\x80a",
	"nul":     "a\x00b",
	"numeric": "123",
	"word":    "x",
	"padded":  " a\t\n",
	"64k":     strings.Repeat("0123456789abcdef", 4096),
}
var stringNames = []string{"empty", "ascii", "utf8", "nonutf8", "nul", "numeric", "padded", "64k"}

func (v sval) toData() data.Value {
	switch v.T {
	case "int":
		return data.NewIntValue(int(v.I))
	case "float":
		return data.NewFloatValue(math.Float64frombits(v.F))
	case "string":
		return data.NewStringValue(stringPool[v.S])
	case "bool":
		return data.NewBoolValue(v.B)
	case "array":
		return data.NewArrayValue([]data.Value{data.NewIntValue(1)})
	}
	return data.NewNullValue()
}

func (v sval) String() string {
	switch v.T {
	case "int":
		return fmt.Sprintf("int(%d)", v.I)
	case "float":
		return fmt.Sprintf("float(%v /0x%016x)", math.Float64frombits(v.F), v.F)
	case "string":
		s := stringPool[v.S]
		if len(s) > 16 {
			return fmt.Sprintf("string<%s len=%d>", v.S, len(s))
		}
		return fmt.Sprintf("string(%q)", s)
	case "bool":
		return fmt.Sprintf("bool(%v)", v.B)
	}
	return v.T
}

func fv(f float64, c string) sval { return sval{T: "float", F: math.Float64bits(f), C: c} }

var floatParamPool = []sval{
	fv(0, "+0"), fv(math.Copysign(0, -1), "-0"), fv(1.5, "1.5"), fv(-1.5, "-1.5"),
	fv(math.MaxFloat64, "max64"), fv(math.SmallestNonzeroFloat64, "subnormal64"),
	fv(math.NaN(), "nan"), fv(math.Inf(1), "+inf"), fv(math.Inf(-1), "-inf"),
	fv(math.MaxFloat32, "max32"), fv(math.SmallestNonzeroFloat32, "subnormal32"),
	fv(0x1p-126, "minnormal32"), fv(16777217, "2^24+1"), fv(0.1, "0.1"),
	// around the float32 range: the largest float32 negated, the next float64 above it (rounds back to
	// max32), the first values that have no float32 at all (2^128 = max32 + 1 ulp32, 1e39), -max64
	fv(-math.MaxFloat32, "-max32"), fv(math.Nextafter(math.MaxFloat32, math.Inf(1)), "max32-next64"),
	fv(0x1p128, "2^128"), fv(-0x1p128, "-2^128"), fv(1e39, "1e39"), fv(-math.MaxFloat64, "-max64"),
}

// nativePool: values of the parameter kind's own script type, boundary-heavy.
func nativePool(k *kindT) []sval {
	switch k.Fam {
	case "string":
		var r []sval
		for _, n := range stringNames {
			r = append(r, sval{T: "string", S: n, C: n})
		}
		return r
	case "bool":
		return []sval{{T: "bool", B: true, C: "true"}, {T: "bool", B: false, C: "false"}}
	case "float":
		return floatParamPool
	case "x":
		return nil
	}
	min, max := k.minmax()
	var r []sval
	seen := map[int64]bool{}
	add := func(i int64, c string) {
		if !seen[i] {
			seen[i] = true
			r = append(r, sval{T: "int", I: i, C: c})
		}
	}
	add(0, "0")
	add(1, "1")
	add(-1, "-1")
	add(min, "min")
	if max <= math.MaxInt64 {
		add(int64(max), "max")
		if max < math.MaxInt64 {
			add(int64(max)+1, "max+1")
		}
	}
	if min > math.MinInt64 {
		add(min-1, "min-1")
	}
	add(math.MaxInt64, "int64max")
	add(math.MinInt64, "int64min")
	return r
}

// foreignPool: values of other script types; only the no-crash clause is evaluated on them.
func foreignPool(k *kindT) []sval {
	all := []sval{
		{T: "null", C: "foreign:null"},
		{T: "array", C: "foreign:array"},
		{T: "int", I: 7, C: "foreign:int"},
		fv(2.5, "foreign:float"),
		fv(3, "foreign:integral-float"),
		{T: "string", S: "word", C: "foreign:string"},
		{T: "string", S: "numeric", C: "foreign:numeric-string"},
		{T: "bool", B: true, C: "foreign:bool"},
	}
	var r []sval
	for _, v := range all {
		if v.T != k.Fam {
			r = append(r, v)
		}
	}
	if k.Fam == "int" {
		// floats without an image in (some or all of) the integer kinds: beyond int8 / below zero /
		// the first float beyond int64 and the last one inside / beyond uint64 / no number at all
		r = append(r, fv(300, "foreign:float-300"), fv(-1, "foreign:float--1"), fv(0x1p63, "foreign:float-2^63"),
			fv(-0x1p63, "foreign:float--2^63"), fv(0x1p64, "foreign:float-2^64"), fv(1e30, "foreign:float-1e30"),
			fv(-1e30, "foreign:float--1e30"), fv(math.NaN(), "foreign:float-nan"), fv(math.Inf(1), "foreign:float-inf"))
	}
	return r
}

func neutral(k *kindT) sval {
	switch k.Fam {
	case "string":
		return sval{T: "string", S: "ascii", C: "ascii"}
	case "bool":
		return sval{T: "bool", B: true, C: "true"}
	case "float":
		return fv(1.5, "1.5")
	}
	return sval{T: "int", I: 1, C: "1"}
}

// ---- oracle for a parameter ---------------------------------------------------------------

type expClass int

const (
	expExact      expClass = iota // call must succeed and Go must see exactly want
	expError                      // value not representable: the call must end in a catchable error
	expRoundOrEr                  // inexact in the target float: IEEE rounding or an error are both accepted
	expOpen                       // other script type: only "no crash"
	expIfAccepted                 // other script type with one numerically unambiguous image: error, or exactly want
)

type paramExp struct {
	Class expClass
	Want  reflect.Value
}

func expectParam(k *kindT, v sval) paramExp {
	if v.T != k.Fam {
		return crossExpect(k, v)
	}
	switch k.Fam {
	case "string":
		return paramExp{expExact, reflect.ValueOf(stringPool[v.S])}
	case "bool":
		return paramExp{expExact, reflect.ValueOf(v.B)}
	case "float":
		f := math.Float64frombits(v.F)
		if k.Bits == 64 {
			return paramExp{expExact, reflect.ValueOf(f)}
		}
		g := float32(f)
		if float64(g) == f || f != f {
			return paramExp{expExact, reflect.ValueOf(g).Convert(k.T)}
		}
		if math.IsInf(float64(g), 0) {
			// a finite value beyond the float32 range is not representable: rounding is no excuse
			// for handing Go an infinity the script never passed
			return paramExp{Class: expError}
		}
		return paramExp{expRoundOrEr, reflect.ValueOf(g).Convert(k.T)}
	}
	min, max := k.minmax()
	if v.I < min || (v.I > 0 && uint64(v.I) > max) {
		return paramExp{Class: expError}
	}
	w := reflect.New(k.T).Elem()
	if k.Signed {
		w.SetInt(v.I)
	} else {
		w.SetUint(uint64(v.I))
	}
	return paramExp{expExact, w}
}

// crossExpect: a value of another script type may be refused; where it has exactly one
// numerically faithful image in the target kind (int 7 -> 7.0, float 3.0 -> 3, true -> 1,
// "123" -> 123) an accepted call must deliver that image. Everything else is left open.
func crossExpect(k *kindT, v sval) paramExp {
	var num float64
	switch {
	case v.T == "float" && (math.IsNaN(math.Float64frombits(v.F)) || math.IsInf(math.Float64frombits(v.F), 0)):
		return paramExp{Class: expOpen}
	case v.T == "int":
		num = float64(v.I)
	case v.T == "float" && math.Float64frombits(v.F) == math.Trunc(math.Float64frombits(v.F)):
		num = math.Float64frombits(v.F)
	case v.T == "bool" && v.B:
		num = 1
	case v.T == "string" && v.S == "numeric":
		num = 123
	default:
		return paramExp{Class: expOpen}
	}
	if k.Fam == "int" {
		// an integral number outside the kind's range has no image: it cannot be converted
		lo, hi := 0.0, math.Ldexp(1, k.Bits)
		if k.Signed {
			lo, hi = -math.Ldexp(1, k.Bits-1), math.Ldexp(1, k.Bits-1)
		}
		if num < lo || num >= hi {
			return paramExp{Class: expError}
		}
	}
	w := reflect.New(k.T).Elem()
	switch {
	case k.Fam == "float":
		w.SetFloat(num)
	case k.Fam == "int" && k.Signed:
		w.SetInt(int64(num))
	case k.Fam == "int":
		w.SetUint(uint64(num))
	default:
		return paramExp{Class: expOpen}
	}
	return paramExp{expIfAccepted, w}
}

// sameGo reports bitwise identity of two Go values of the same kind (any NaN equals any NaN).
func sameGo(a, b reflect.Value) bool {
	if !a.IsValid() || !b.IsValid() || a.Kind() != b.Kind() {
		return false
	}
	switch a.Kind() {
	case reflect.String:
		return a.String() == b.String()
	case reflect.Bool:
		return a.Bool() == b.Bool()
	case reflect.Float32, reflect.Float64:
		x, y := a.Float(), b.Float()
		if x != x || y != y {
			return x != x && y != y
		}
		return math.Float64bits(x) == math.Float64bits(y)
	case reflect.Int, reflect.Int8, reflect.Int16, reflect.Int32, reflect.Int64:
		return a.Int() == b.Int()
	default:
		return a.Uint() == b.Uint()
	}
}

func goStr(v reflect.Value) string {
	if !v.IsValid() {
		return "<none>"
	}
	switch v.Kind() {
	case reflect.String:
		s := v.String()
		if len(s) > 16 {
			return fmt.Sprintf("%s(len=%d %q…)", v.Type(), len(s), s[:8])
		}
		return fmt.Sprintf("%s(%q)", v.Type(), s)
	case reflect.Float32, reflect.Float64:
		return fmt.Sprintf("%s(%v /0x%x)", v.Type(), v.Float(), math.Float64bits(v.Float()))
	}
	return fmt.Sprintf("%s(%v)", v.Type(), v.Interface())
}

// ---- results -----------------------------------------------------------------------------

type rval struct {
	C     string
	V     reflect.Value
	Multi []reflect.Value // all results of a several-results kind (V = the first)
}

func resultPool(k *kindT) []rval {
	if k.Fam == "x" {
		return k.XRes
	}
	mk := func(c string, x any) rval { return rval{C: c, V: reflect.ValueOf(x).Convert(k.T)} }
	switch k.Fam {
	case "string":
		var r []rval
		for _, n := range stringNames {
			r = append(r, rval{C: n, V: reflect.ValueOf(stringPool[n]).Convert(k.T)})
		}
		return r
	case "bool":
		return []rval{mk("true", true), mk("false", false)}
	case "float":
		if k.Bits == 64 {
			return []rval{mk("1.5", 1.5), mk("+0", 0.0), mk("-0", math.Copysign(0, -1)), mk("max64", math.MaxFloat64),
				mk("subnormal64", math.SmallestNonzeroFloat64), mk("nan", math.NaN()), mk("+inf", math.Inf(1)), mk("-inf", math.Inf(-1)), mk("0.1", 0.1)}
		}
		return []rval{mk("1.5", float32(1.5)), mk("+0", float32(0)), mk("-0", float32(math.Copysign(0, -1))), mk("max32", float32(math.MaxFloat32)),
			mk("subnormal32", float32(math.SmallestNonzeroFloat32)), mk("nan", float32(math.NaN())), mk("+inf", float32(math.Inf(1))), mk("-inf", float32(math.Inf(-1))), mk("0.1", float32(0.1))}
	}
	min, max := k.minmax()
	r := []rval{}
	set := func(c string, i int64, u uint64) {
		w := reflect.New(k.T).Elem()
		if k.Signed {
			w.SetInt(i)
		} else {
			w.SetUint(u)
		}
		r = append(r, rval{C: c, V: w})
	}
	set("1", 1, 1)
	set("0", 0, 0)
	if k.Signed {
		set("-1", -1, 0)
	}
	set("min", min, 0)
	set("max", int64(max), max)
	return r
}

func resultByLabel(k *kindT, c string) (rval, bool) {
	for _, r := range resultPool(k) {
		if r.C == c {
			return r, true
		}
	}
	return rval{}, false
}

func scriptStr(v data.Value) string {
	switch x := v.(type) {
	case nil:
		return "<unset>"
	case *data.IntValue:
		return fmt.Sprintf("int(%d)", x.Value)
	case *data.FloatValue:
		return fmt.Sprintf("float(%v /0x%x)", x.Value, math.Float64bits(x.Value))
	case *data.StringValue:
		if len(x.Value) > 24 {
			return fmt.Sprintf("string(len=%d %q…)", len(x.Value), x.Value[:8])
		}
		return fmt.Sprintf("string(%q)", x.Value)
	case *data.BoolValue:
		return fmt.Sprintf("bool(%v)", x.Value)
	case *data.NullValue:
		return "null"
	}
	return fmt.Sprintf("%T", v)
}

// resultOK decides whether the script value got is "exactly the value Go returned".
// Documented kinds (string, bool, int, int64, float64) must arrive as the same script type with
// the same payload. For the sized kinds runtime/README_reflect*.md documents "other types ->
// string via fmt.Sprintf", so besides the numerically identical int/float the lossless decimal
// text of the value is accepted too.
func resultOK(k *kindT, want reflect.Value, got data.Value) bool {
	switch k.Fam {
	case "x":
		// not a supported result kind: the statement only demands that the call does not crash
		return true
	case "string":
		s, ok := got.(*data.StringValue)
		return ok && s.Value == want.String()
	case "bool":
		b, ok := got.(*data.BoolValue)
		return ok && b.Value == want.Bool()
	case "float":
		w := want.Float()
		if f, ok := got.(*data.FloatValue); ok {
			if w != w {
				return f.Value != f.Value
			}
			return math.Float64bits(f.Value) == math.Float64bits(w)
		}
		if s, ok := got.(*data.StringValue); ok && !k.Core {
			p, err := strconv.ParseFloat(s.Value, 32)
			if err != nil {
				return false
			}
			if w != w {
				return p != p
			}
			return math.Float32bits(float32(p)) == math.Float32bits(float32(w))
		}
		return false
	}
	if i, ok := got.(*data.IntValue); ok {
		if k.Signed {
			return int64(i.Value) == want.Int()
		}
		return i.Value >= 0 && uint64(i.Value) == want.Uint()
	}
	if s, ok := got.(*data.StringValue); ok && !k.Core {
		if k.Signed {
			return s.Value == strconv.FormatInt(want.Int(), 10)
		}
		return s.Value == strconv.FormatUint(want.Uint(), 10)
	}
	return false
}
