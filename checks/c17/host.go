package main

import (
	"fmt"
	"reflect"
	"strings"

	"github.com/php-any/origami/data"
	"github.com/php-any/origami/node"
	"github.com/php-any/origami/parser"
	"github.com/php-any/origami/runtime"
	"github.com/php-any/origami/std"
	"github.com/php-any/origami/std/php"

	"verif/engine/runner"
)

// caseT is one call: a registration path, a signature, the script arguments, the Go result.
type caseT struct {
	Path  string   `json:"path"` // func | method | convert | convertIndex
	In    []string `json:"in"`
	Out   string   `json:"out"` // kind name or "void"
	Args  []sval   `json:"args"`
	Res   string   `json:"res,omitempty"`   // label in resultPool(Out)
	Seq   *seqDef  `json:"seq,omitempty"`   // set when the case only fails as a step of this sequence
	Style string   `json:"style,omitempty"` // call style ("" = positional call)
}

func (c caseT) sigString() string {
	s := fmt.Sprintf("%s(%s) %s", c.Path, strings.Join(c.In, ","), c.Out)
	if c.Style != "" {
		s += " called via " + c.Style
	}
	return s
}

// prog is a parsed script kept for re-execution with different variable values.
type prog struct {
	p    *node.Program
	vars []data.Variable
}

func (pg *prog) variable(name string) data.Variable {
	for _, v := range pg.vars {
		if v != nil && v.GetName() == name {
			return v
		}
	}
	return nil
}

// host owns one VM with one registered signature.
type host struct {
	path    string
	in      []*kindT
	out     *kindT // nil = void
	ps      *parser.Parser
	vm      data.VM
	progs   map[string]*prog
	callee  string // script expression prefix, e.g. `gofn` or `$o->PInt8RString`
	prelude string
	regErr  string

	// function path: filled by the synthesised Go function
	called int
	got    []reflect.Value
	ret    reflect.Value
}

// the method path records through package-level state (the fixture's methods are plain Go code)
var mCalled int
var mGot []reflect.Value
var mRet reflect.Value

func capture(a ...any) {
	mCalled++
	mGot = mGot[:0]
	for _, x := range a {
		mGot = append(mGot, reflect.ValueOf(x))
	}
}

func title(s string) string { return strings.ToUpper(s[:1]) + s[1:] }

// methodName maps a signature to the fixture method implementing it ("" if the fixture has none).
func methodName(in []string, out string) string {
	o := "V"
	if out != "void" {
		o = "R" + title(out)
	}
	if isX(append([]string{out}, in...)...) {
		n := "A0"
		if len(in) == 1 {
			n = "P" + title(in[0])
		} else if len(in) > 1 {
			n = "M"
			for _, k := range in {
				n += title(k)
			}
		}
		if _, ok := reflect.TypeOf(&FixX{}).MethodByName(n + o); ok {
			return n + o
		}
		return ""
	}
	switch len(in) {
	case 0:
		return "A0" + o
	case 1:
		return "P" + title(in[0]) + o
	}
	n := "M"
	for _, k := range in {
		n += title(k)
	}
	n += o
	if _, ok := reflect.TypeOf(&Fix{}).MethodByName(n); ok {
		return n
	}
	return ""
}

func newHost(c caseT) *host {
	h := &host{path: c.Path, progs: map[string]*prog{}}
	for _, n := range c.In {
		h.in = append(h.in, kindByName(n))
	}
	if c.Out != "void" {
		h.out = kindByName(c.Out)
	}
	g := runner.Guard(func() {
		h.ps = parser.NewParser()
		h.vm = runtime.NewVM(h.ps)
		std.Load(h.vm)
		php.Load(h.vm)
		switch c.Path {
		case "func":
			var ins, outs []reflect.Type
			for _, k := range h.in {
				ins = append(ins, k.T)
			}
			if h.out != nil {
				outs = append(outs, h.out.T)
				if h.out.Outs != nil {
					outs = h.out.Outs
				}
			}
			variadic := len(h.in) > 0 && h.in[len(h.in)-1].Variadic
			fn := reflect.MakeFunc(reflect.FuncOf(ins, outs, variadic), func(a []reflect.Value) []reflect.Value {
				h.called++
				h.got = append(h.got[:0], a...)
				if h.out == nil {
					return nil
				}
				if h.out.Outs != nil {
					return curMulti
				}
				return []reflect.Value{h.ret}
			})
			if ctl := h.vm.(*runtime.VM).RegisterFunction("gofn", fn.Interface()); ctl != nil {
				h.regErr = "RegisterFunction: " + ctl.AsString()
			}
			h.callee = "gofn"
		case "method":
			cls, inst := "Fix", any(&Fix{})
			if isX(append([]string{c.Out}, c.In...)...) {
				cls, inst = "FixX", &FixX{}
			}
			if ctl := h.vm.(*runtime.VM).RegisterReflectClass(cls, inst); ctl != nil {
				h.regErr = "RegisterReflectClass: " + ctl.AsString()
			}
			h.prelude = "$o = new " + cls + "(); "
			h.callee = "$o->" + methodName(c.In, c.Out)
		}
	})
	if g.Kind != "ok" {
		h.regErr = "registration " + g.Kind + " " + g.PanicKey + g.Msg
	}
	return h
}

// callStyles: how the script reaches the registered function. "" is the plain positional call.
var callStyles = []string{"spread-all", "spread-tail", "named", "named-tail", "call_user_func", "array_map", "closure", "varfunc"}

// callExpr returns statements to run before the call and the call expression itself.
func (h *host) callExpr(style string) (pre string, call string, ok bool) {
	n := len(h.in)
	var args, xs []string
	for i := 0; i < n; i++ {
		args = append(args, fmt.Sprintf("$a%d", i))
		xs = append(xs, fmt.Sprintf("$x%d", i))
	}
	meth := strings.TrimPrefix(h.callee, "$o->")
	isM := h.path == "method"
	direct := func(a string) string { return h.callee + "(" + a + ")" }
	switch style {
	case "":
		return "", direct(strings.Join(args, ", ")), true
	case "spread-all":
		return "$l = [" + strings.Join(args, ", ") + "]; ", direct("...$l"), n >= 1
	case "spread-tail":
		if n < 2 {
			return "", "", false
		}
		return "$l = [" + strings.Join(args[1:], ", ") + "]; ", direct("$a0, ...$l"), true
	case "named", "named-tail":
		var p []string
		for i := range args {
			if style == "named-tail" && i < n-1 {
				continue
			}
			p = append(p, fmt.Sprintf("param%d: $a%d", i, i))
		}
		return "", direct(strings.Join(p, ", ")), n >= 1 && (style == "named" || n >= 2)
	case "call_user_func":
		cb := `"gofn"`
		if isM {
			cb = `[$o, "` + meth + `"]`
		}
		return "", "call_user_func(" + strings.Join(append([]string{cb}, args...), ", ") + ")", true
	case "array_map":
		if n < 1 {
			return "", "", false
		}
		cb := `"gofn"`
		if isM {
			cb = `[$o, "` + meth + `"]`
		}
		var ls []string
		for _, a := range args {
			ls = append(ls, "["+a+"]")
		}
		return "$m = array_map(" + cb + ", " + strings.Join(ls, ", ") + "); ", "$m[0]", true
	case "closure":
		use := ""
		if isM {
			use = " use ($o)"
		}
		return "$w = function(" + strings.Join(xs, ", ") + ")" + use + " { return " + h.callee + "(" + strings.Join(xs, ", ") + "); }; ", "$w(" + strings.Join(args, ", ") + ")", true
	case "varfunc":
		if isM {
			return `$f = "` + meth + `"; `, "$o->$f(" + strings.Join(args, ", ") + ")", true
		}
		return `$f = "gofn"; `, "$f(" + strings.Join(args, ", ") + ")", true
	}
	return "", "", false
}

func (h *host) script(form string) string {
	style := ""
	if i := strings.Index(form, "/"); i >= 0 {
		form, style = form[:i], form[i+1:]
	}
	pre, call, _ := h.callExpr(style)
	switch form {
	case "bare":
		return h.prelude + pre + "$r = " + call + ";"
	case "stmt":
		return h.prelude + pre + call + ";"
	}
	return "$c = null; try { " + h.prelude + pre + "$r = " + call + "; } catch (Throwable $e) { $c = $e->getMessage(); }"
}

type outcome struct {
	Kind     string // ok | throw | panic | control | parse | fuel | exit
	PanicKey string
	Msg      string
	Called   int
	Got      []reflect.Value
	R        data.Value
	Caught   data.Value // $c of the try form
}

// run executes one form of the call with the given arguments.
func (h *host) run(form string, args []sval, ret reflect.Value) (o outcome) {
	h.called, h.got, h.ret = 0, nil, ret
	mCalled, mGot, mRet = 0, nil, ret
	var ctx data.Context
	var pg *prog
	g := runner.Guard(func() {
		pg = h.progs[form]
		if pg == nil {
			p, acl := h.ps.ParseString(h.script(form), "t.zy")
			if acl != nil {
				o.Kind = "parse"
				o.Msg = acl.AsString()
				return
			}
			pg = &prog{p: p, vars: h.ps.GetVariables()}
			h.progs[form] = pg
		}
		ctx = h.vm.CreateContext(pg.vars)
		for i, a := range args {
			if v := pg.variable(fmt.Sprintf("a%d", i)); v != nil {
				ctx.SetVariableValue(v, a.toData())
			}
		}
		var uncaught data.Control
		h.vm.SetThrowControl(func(acl data.Control) {
			if uncaught == nil {
				uncaught = acl
			}
		})
		_, acl := pg.p.GetValue(ctx)
		if acl == nil {
			acl = uncaught
		}
		if acl != nil {
			panic(acl)
		}
	})
	if o.Kind == "" {
		o.Kind = g.Kind
		if g.Kind == "control" || g.Kind == "throw" {
			o.Msg = g.Class + ": " + g.Msg
		}
		o.PanicKey = g.PanicKey
		if g.Kind == "panic" {
			o.Msg = g.PanicMsg
		}
	}
	if h.path == "method" {
		o.Called, o.Got = mCalled, append([]reflect.Value{}, mGot...)
	} else {
		o.Called, o.Got = h.called, append([]reflect.Value{}, h.got...)
	}
	if pg != nil && ctx != nil {
		func() {
			defer func() { recover() }()
			if v := pg.variable("r"); v != nil {
				o.R, _ = ctx.GetIndexValue(v.GetIndex())
			}
			if v := pg.variable("c"); v != nil {
				o.Caught, _ = ctx.GetIndexValue(v.GetIndex())
			}
		}()
	}
	return
}
