package main

import "reflect"

// rendering methods of the fixture for the concurrent part: the result carries every argument the
// method received, so "result == result of the solo call" covers both directions.
func rv(a ...any) string {
	var vs []reflect.Value
	for _, x := range a {
		vs = append(vs, reflect.ValueOf(x))
	}
	return render(vs)
}

func (f *Fix) CatString(a string) string                             { return rv(a) }
func (f *Fix) CatInt(a int) string                                   { return rv(a) }
func (f *Fix) CatStringInt(a string, b int) string                   { return rv(a, b) }
func (f *Fix) CatInt64Float64Bool(a int64, b float64, c bool) string { return rv(a, b, c) }
func (f *Fix) CatFloat64StringInt(a float64, b string, c int) string { return rv(a, b, c) }
