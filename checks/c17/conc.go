package main

import (
	"encoding/json"
	"fmt"
	"reflect"
	"sort"
	"strings"
	"sync"
	"time"

	"github.com/php-any/origami/data"
	"github.com/php-any/origami/node"
	"github.com/php-any/origami/parser"
	"github.com/php-any/origami/runtime"
	"github.com/php-any/origami/std"
	"github.com/php-any/origami/std/php"
	"github.com/php-any/origami/utils/vshim"

	"verif/engine/ev"
	"verif/engine/pool"
	"verif/engine/runner"
	"verif/engine/sched"
)

// Schedule exploration (form S): two threads each make ONE call of the SAME registered function /
// fixture method with different arguments on one shared VM (spawn coroutines do exactly that).
// Every interleaving at the scheduling points is explored, unbounded. Scheduling points are the
// instrumented package variables / map fields / mutexes of origami plus one explicit yield inside
// the conversion of every argument: the argument values are script values whose AsString / AsInt /
// AsFloat / AsBool yield before answering (as an object with __toString may run script code there).
// Oracle: each call returns what the same call returns alone (the Go function renders all the
// arguments it received into its result), no panic, no deadlock.
// Auxiliary, not deciding: the same two bodies 2000 times on free-running goroutines.

type yStr struct{ *data.StringValue }
type yInt struct{ *data.IntValue }
type yFloat struct{ *data.FloatValue }
type yBool struct{ *data.BoolValue }

const convSite = "c17:argument-conversion"

func (v yStr) GetValue(data.Context) (data.GetValue, data.Control)   { return v, nil }
func (v yInt) GetValue(data.Context) (data.GetValue, data.Control)   { return v, nil }
func (v yFloat) GetValue(data.Context) (data.GetValue, data.Control) { return v, nil }
func (v yBool) GetValue(data.Context) (data.GetValue, data.Control)  { return v, nil }
func (v yStr) AsString() string                                      { vshim.Yield(convSite); return v.StringValue.AsString() }
func (v yInt) AsInt() (int, error)                                   { vshim.Yield(convSite); return v.IntValue.AsInt() }
func (v yFloat) AsFloat() (float64, error)                           { vshim.Yield(convSite); return v.FloatValue.AsFloat() }
func (v yBool) AsBool() (bool, error)                                { vshim.Yield(convSite); return v.BoolValue.AsBool() }

func yielding(v sval) data.Value {
	switch x := v.toData().(type) {
	case *data.StringValue:
		return yStr{x}
	case *data.IntValue:
		return yInt{x}
	case *data.FloatValue:
		return yFloat{x}
	case *data.BoolValue:
		return yBool{x}
	}
	return v.toData()
}

type concScenario struct {
	Kind    string    `json:"kind"` // "conc"
	Path    string    `json:"path"` // func | method
	In      []string  `json:"in"`
	Args    [2][]sval `json:"args"`
	Choices []int     `json:"choices,omitempty"`
	Sites   []string  `json:"sites,omitempty"`
}

func (s concScenario) label() string {
	return fmt.Sprintf("%s cat(%s) string", s.Path, strings.Join(s.In, ","))
}

// the fixture's rendering methods for the method path (hand-written, see fixture_conc.go)
var concSigs = [][]string{{"string"}, {"int"}, {"string", "int"}, {"int64", "float64", "bool"}, {"float64", "string", "int"}}

func concScenarios() []concScenario {
	var out []concScenario
	for _, path := range []string{"func", "method"} {
		for _, in := range concSigs {
			var a, b []sval
			for _, kn := range in {
				k := kindByName(kn)
				np := nativePool(k)
				a = append(a, neutral(k))
				// a value different from thread A's
				for _, v := range np {
					if v != neutral(k) && expectParam(k, v).Class == expExact && v.C != "64k" {
						b = append(b, v)
						break
					}
				}
			}
			out = append(out, concScenario{Kind: "conc", Path: path, In: in, Args: [2][]sval{a, b}})
		}
	}
	return out
}

func render(args []reflect.Value) string {
	var p []string
	for _, a := range args {
		p = append(p, goStr(a))
	}
	return strings.Join(p, " | ")
}

type concEnv struct {
	vm     data.VM
	top    data.Context
	params []data.GetValue
	vars   []data.Variable
	mkCtx  func() data.Context
	call   func(data.Context) (data.GetValue, data.Control)
}

func newConcEnv(sc concScenario) (*concEnv, error) {
	p := parser.NewParser()
	vm := runtime.NewVM(p)
	std.Load(vm)
	php.Load(vm)
	vm.SetThrowControl(func(acl data.Control) {})
	e := &concEnv{vm: vm, top: vm.CreateContext(nil)}
	if sc.Path == "func" {
		var ins []reflect.Type
		for _, n := range sc.In {
			ins = append(ins, kindByName(n).T)
		}
		fn := reflect.MakeFunc(reflect.FuncOf(ins, []reflect.Type{reflect.TypeOf("")}, false), func(a []reflect.Value) []reflect.Value {
			return []reflect.Value{reflect.ValueOf(render(a))}
		})
		if ctl := vm.(*runtime.VM).RegisterFunction("gocat", fn.Interface()); ctl != nil {
			return nil, fmt.Errorf("RegisterFunction: %s", ctl.AsString())
		}
		f, ok := vm.GetFunc("gocat")
		if !ok {
			return nil, fmt.Errorf("registered function not found")
		}
		e.params, e.vars, e.call = f.GetParams(), f.GetVariables(), f.Call
		e.mkCtx = func() data.Context { return e.top.CreateContext(e.vars) }
		return e, nil
	}
	if ctl := vm.(*runtime.VM).RegisterReflectClass("Fix", &Fix{}); ctl != nil {
		return nil, fmt.Errorf("RegisterReflectClass: %s", ctl.AsString())
	}
	cs, ok := vm.GetClass("Fix")
	if !ok {
		return nil, fmt.Errorf("class Fix not found")
	}
	ov, ctl := cs.(data.GetValue).GetValue(e.top)
	if ctl != nil {
		return nil, fmt.Errorf("new Fix: %s", ctl.AsString())
	}
	obj, _ := ov.(*data.ClassValue)
	if obj == nil {
		return nil, fmt.Errorf("new Fix gave %T", ov)
	}
	name := "Cat"
	for _, n := range sc.In {
		name += title(n)
	}
	m, ok := obj.GetMethod(name)
	if !ok {
		return nil, fmt.Errorf("fixture method %s not found", name)
	}
	e.params, e.vars, e.call = m.GetParams(), m.GetVariables(), m.Call
	e.mkCtx = func() data.Context { return obj.CreateContext(e.vars) }
	return e, nil
}

// one call, the way node.CallExpression binds positional arguments; a panic unwinds to the caller
func (e *concEnv) rawCall(args []data.Value) string {
	ctx := e.mkCtx()
	for i, prm := range e.params {
		if i >= len(args) {
			break
		}
		if p, ok := prm.(*node.Parameter); ok {
			if acl := p.SetValue(ctx, args[i]); acl != nil {
				return "throw(bind):" + trunc(acl.AsString(), 120)
			}
		} else {
			ctx.SetVariableValue(e.vars[i], args[i])
		}
	}
	v, acl := e.call(ctx)
	if acl != nil {
		return "throw:" + trunc(acl.AsString(), 120)
	}
	val, _ := v.(data.Value)
	return scriptStr(val)
}

type concResult struct {
	Execs    int64
	Complete bool
	Stop     string
	Fails    map[string][2]string
	Choices  map[string][]int
	Sites    []string
	FreeBad  int
}

func toArgs(vs []sval, yield bool) []data.Value {
	out := make([]data.Value, len(vs))
	for i, v := range vs {
		if yield {
			out[i] = yielding(v)
		} else {
			out[i] = v.toData()
		}
	}
	return out
}

func concExplore(sc concScenario, deadline time.Time, free bool) (res concResult, err error) {
	e, err := newConcEnv(sc)
	if err != nil {
		return res, err
	}
	var want [2]string
	res = concResult{Fails: map[string][2]string{}, Choices: map[string][]int{}}
	for round := 0; round < 2; round++ {
		for i := 0; i < 2; i++ {
			g := runner.Guard(func() { want[i] = e.rawCall(toArgs(sc.Args[i], false)) })
			if g.Kind != "ok" {
				// the solo call itself crashes: that is the sequential part's finding; nothing to compare
				res.Fails[sc.Path+" "+coarsePanic(g.PanicKey)+g.Kind] = [2]string{"no-crash", "solo call of " + sc.label() + " crashed: " + g.PanicMsg}
				return res, nil
			}
		}
	}
	var got [2]string
	cfg := &sched.Config{Name: sc.label(), Bound: -1, MaxExecs: 200000, Deadline: deadline}
	cfg.Setup = func() []sched.Body {
		got = [2]string{"<not run>", "<not run>"}
		var bodies []sched.Body
		for i := 0; i < 2; i++ {
			i := i
			args := toArgs(sc.Args[i], true)
			bodies = append(bodies, func(t *sched.Thread) { got[i] = e.rawCall(args) })
		}
		return bodies
	}
	emit := func(x *sched.Exec, key, clause, detail string) {
		if _, ok := res.Fails[key]; ok {
			return
		}
		res.Fails[key] = [2]string{clause, detail + "\nscenario: two threads, one call each of " + sc.label() + fmt.Sprintf(" with %v / %v", sc.Args[0], sc.Args[1]) + "\nschedule: " + strings.Join(x.Schedule(), " ")}
		res.Choices[key] = x.Choices()
	}
	cfg.Check = func(x *sched.Exec) {
		if x.Stuck != "" {
			emit(x, "concurrent "+sc.Path+": stuck", "stuck", x.Stuck)
			return
		}
		crashed := false
		for _, t := range x.Threads {
			if t.Panic != "" {
				crashed = true
				emit(x, "concurrent "+sc.Path+": "+t.PanicKey, "no-crash", "thread "+t.Name+" panicked: "+trunc(t.Panic, 200))
			}
		}
		for _, r := range x.Races {
			a, b := sched.SiteStable(r.SiteA), sched.SiteStable(r.SiteB)
			if a > b {
				a, b = b, a
			}
			emit(x, fmt.Sprintf("concurrent %s: %s race %s ~ %s", sc.Path, r.Kind, a, b), "data-race", "accesses not ordered by any lock")
		}
		if x.Deadlock {
			emit(x, "concurrent "+sc.Path+": deadlock", "deadlock", "threads left parked")
		}
		if crashed || x.Deadlock || x.Horizon {
			return
		}
		for i := 0; i < 2; i++ {
			if got[i] != want[i] {
				emit(x, "concurrent "+sc.Path+": a call sees or returns another call's values", "param-identity", fmt.Sprintf("thread %d called with %v: result %s; the same call made alone returns %s", i, sc.Args[i], got[i], want[i]))
			}
		}
	}
	st := sched.Explore(cfg)
	res.Execs, res.Complete, res.Stop = st.Execs, st.Complete, st.StopReason
	res.Sites = sched.RelevantSites()
	if free {
		// auxiliary free-running pass on real goroutines (hooks are off outside Explore)
		for round := 0; round < 2000; round++ {
			var g [2]string
			var wg sync.WaitGroup
			for i := 0; i < 2; i++ {
				i := i
				args := toArgs(sc.Args[i], false)
				wg.Add(1)
				go func() {
					defer wg.Done()
					defer func() {
						if r := recover(); r != nil {
							g[i] = fmt.Sprint("panic: ", r)
						}
					}()
					g[i] = e.rawCall(args)
				}()
			}
			wg.Wait()
			if g[0] != want[0] || g[1] != want[1] {
				res.FreeBad++
			}
		}
	}
	return res, nil
}

func concWorker(w *pool.W, raw json.RawMessage) {
	var idx int
	json.Unmarshal(raw, &idx)
	sc := concScenarios()[idx]
	if !w.Item("concurrent " + sc.label()) {
		return
	}
	outcomes := map[string]int{}
	r, err := concExplore(sc, time.Now().Add(3*time.Minute), true)
	if err != nil {
		w.Emit(rec{Kind: "fail", F: &finding{Key: "concurrent " + sc.Path + ": set-up failed", Clause: "no-crash", Detail: err.Error(), Case: caseT{Path: sc.Path, In: sc.In}}})
		return
	}
	if !r.Complete {
		outcomes["concurrent: exploration incomplete ("+r.Stop+")"]++
	}
	if len(r.Fails) == 0 {
		outcomes["concurrent: every interleaving agrees with the solo calls"]++
	}
	if r.FreeBad > 0 {
		outcomes["concurrent: free-running rounds that differ from solo"] += r.FreeBad
		if len(r.Fails) == 0 {
			r.Fails["concurrent "+sc.Path+": a call sees or returns another call's values"] = [2]string{"param-identity", fmt.Sprintf("only in the free-running auxiliary pass: %d of 2000 rounds of two goroutines calling %s differ from the solo results", r.FreeBad, sc.label())}
		}
	}
	keys := make([]string, 0, len(r.Fails))
	for k := range r.Fails {
		keys = append(keys, k)
	}
	sort.Strings(keys)
	for _, k := range keys {
		f := r.Fails[k]
		outcomes["concurrent: "+f[0]]++
		cs := sc
		cs.Choices, cs.Sites = r.Choices[k], r.Sites
		w.Emit(rec{Kind: "failc", Key: k, Clause: f[0], Size: len(sc.In)*100 + len(cs.Choices), CaseC: &cs, Detail: f[1]})
	}
	if idx == 2 {
		w.Emit(rec{Kind: "sample", Sample: map[string]any{"family": "concurrent", "scenario": sc.label(), "args": fmt.Sprint(sc.Args), "interleavings": r.Execs, "choice_sites": r.Sites, "free_running_rounds_differing": r.FreeBad}})
	}
	w.Emit(rec{Kind: "count", Sigs: 1, Calls: r.Execs*2 + 4000, Outcome: outcomes, Execs: r.Execs})
}

func replayConc(c *ev.Check, key string) {
	var sc concScenario
	ev.LoadReplay(c.Replay, &sc)
	r, err := concExplore(sc, time.Now().Add(3*time.Minute), true)
	fmt.Printf("%s: %d interleavings explored, complete=%v, free-running rounds differing=%d %v\n", sc.label(), r.Execs, r.Complete, r.FreeBad, err)
	for k, f := range r.Fails {
		fmt.Printf("%s: %s\n", k, f[1])
		c.Fail(k, f[0], 0, sc, f[1])
	}
	_ = key
	_ = runner.PanicClass
}
