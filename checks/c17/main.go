// C17: values cross the Go boundary unchanged in both directions.
//
// Form P over signatures: every Go function signature of arity 0..3 over 14 parameter kinds and
// 14 result kinds (+ void) is synthesised with reflect.MakeFunc(reflect.FuncOf(...)), registered
// through vm.RegisterFunction and called from a script with argument tuples drawn from per-kind
// boundary pools (one boundary per position, and all boundaries at once); the same for the methods
// of a fixture struct registered through vm.RegisterReflectClass, and for utils.Convert[T] /
// utils.ConvertFromIndex[T] instantiated for the 14 kinds.
//
// Oracle (independent of origami's converters, see kinds.go): a value of the parameter's own
// script type that is representable in the Go kind must arrive bit-identical; one that is not
// representable must end in a catchable script error (Go function not entered); the script must
// receive exactly the value Go returned; nothing may end in a Go panic.
package main

import (
	"encoding/json"
	"fmt"
	"math"
	"os"
	"os/exec"
	"reflect"
	"regexp"
	"sort"
	"strings"
	"time"

	"github.com/php-any/origami/data"
	"github.com/php-any/origami/utils"

	"verif/engine/ev"
	"verif/engine/pool"
	"verif/engine/runner"
)

// ---- evaluation of one case ---------------------------------------------------------------

type failure struct {
	Mode   string // panic | stray | refused | no-error | wrong-value | arg-order | not-called | uncatchable | result-wrong
	Pos    int    // parameter index, len(In) = result, -1 = not attributable from this call alone
	Panic  string
	Detail string
}

const panicMarker1, panicMarker2 = "panic(", "go作用域异常退出"

func evalCase(h *host, c caseT) (fails []failure, oc string) {
	if c.Path == "convert" {
		return evalConvert(c)
	}
	if h.regErr != "" {
		return []failure{{Mode: "stray", Pos: -1, Detail: h.regErr}}, "regerr"
	}
	n := len(c.In)
	exps := make([]paramExp, n)
	anyErr, anyOpen := false, false
	for i := range c.In {
		exps[i] = expectParam(h.in[i], c.Args[i])
		switch exps[i].Class {
		case expError:
			anyErr = true
		case expOpen, expRoundOrEr, expIfAccepted:
			anyOpen = true
		}
	}
	var ret rval
	if h.out != nil {
		ret, _ = resultByLabel(h.out, c.Res)
	}
	curMulti = ret.Multi
	form := "bare"
	if h.out == nil && c.Res == "stmt" {
		form = "stmt"
	}
	if c.Style != "" {
		form += "/" + c.Style
	}
	o := h.run(form, c.Args, ret.V)
	oc = o.Kind + "/" + strings.TrimPrefix(fmt.Sprintf("%T", o.R), "*data.")
	describe := func() string {
		var a []string
		for _, v := range c.Args {
			a = append(a, v.String())
		}
		var g []string
		for _, v := range o.Got {
			g = append(g, goStr(v))
		}
		s := fmt.Sprintf("%s  script args [%s]", c.sigString(), strings.Join(a, ", "))
		if h.out != nil {
			s += "  Go returns " + goStr(ret.V)
		}
		s += fmt.Sprintf("\nobserved: outcome=%s %s; Go function entered %d time(s) with [%s]; script $r = %s", o.Kind, trunc(o.Msg, 160), o.Called, strings.Join(g, ", "), scriptStr(o.R))
		return s
	}
	switch o.Kind {
	case "panic":
		return []failure{{Mode: "panic", Pos: -1, Panic: o.PanicKey, Detail: "expected a value or a catchable error, got a Go panic\n" + describe()}}, oc
	case "ok", "throw":
	default:
		return []failure{{Mode: "stray", Pos: -1, Panic: o.Kind, Detail: "unexpected outcome kind\n" + describe()}}, oc
	}
	if o.Kind == "throw" {
		// catchable?
		tryForm := "try"
		if c.Style != "" {
			tryForm += "/" + c.Style
		}
		t := h.run(tryForm, c.Args, ret.V)
		msg, _ := t.Caught.(*data.StringValue)
		switch {
		case t.Kind == "panic":
			fails = append(fails, failure{Mode: "panic", Pos: -1, Panic: t.PanicKey, Detail: "Go panic inside try/catch\n" + describe()})
		case t.Kind != "ok" || msg == nil:
			fails = append(fails, failure{Mode: "uncatchable", Pos: -1, Detail: fmt.Sprintf("the error is not caught by catch (Throwable): try-form outcome=%s %s $c=%s\n%s", t.Kind, trunc(t.Msg, 100), scriptStr(t.Caught), describe())})
		case strings.Contains(msg.Value, panicMarker1) || strings.Contains(msg.Value, panicMarker2):
			fails = append(fails, failure{Mode: "panic", Pos: -1, Panic: "panic-converted:" + runner.PanicClass(msg.Value), Detail: "caught value is a converted Go panic\n" + describe()})
		}
		if anyErr || anyOpen {
			return fails, oc + "/rejected"
		}
		if c.Style != "" {
			// another call style may be unsupported for registered functions: only "if the Go
			// function is entered, it sees the script's values" is demanded of it
			return fails, "style:" + c.Style + ":refused"
		}
		// every argument was representable. A result that has no script representation may be refused.
		if h.out != nil && h.out.Fam == "int" && !h.out.Signed && ret.V.Uint() > math.MaxInt64 {
			return fails, oc + "/result-unrepresentable"
		}
		if h.out != nil && h.out.Fam == "x" {
			// a result kind outside the supported set may be refused with a catchable error
			return fails, oc + "/result-unsupported-refused"
		}
		fails = append(fails, failure{Mode: "refused", Pos: -1, Detail: "every argument is representable in its Go parameter kind, yet the call was refused\n" + describe()})
		return fails, oc
	}
	// o.Kind == "ok"
	if anyErr {
		for i, e := range exps {
			if e.Class == expError {
				fails = append(fails, failure{Mode: "no-error", Pos: i, Detail: fmt.Sprintf("argument %d %s is not representable as %s: expected a catchable error, the call succeeded\n%s", i, c.Args[i], c.In[i], describe())})
			}
		}
		return fails, oc + "/accepted-unrepresentable"
	}
	if c.Style != "" && o.Called == 0 {
		return nil, "style:" + c.Style + ":not-entered"
	}
	if c.Style != "" {
		oc = "style:" + c.Style + ":delivered"
	}
	if o.Called != 1 || len(o.Got) != n {
		return []failure{{Mode: "not-called", Pos: -1, Detail: "call reported success but the Go function was not entered exactly once with all arguments\n" + describe()}}, oc
	}
	var bad []int
	for i, e := range exps {
		if e.Class == expExact || e.Class == expRoundOrEr || e.Class == expIfAccepted {
			if !sameGo(o.Got[i], e.Want) {
				bad = append(bad, i)
			}
		}
	}
	if len(bad) > 0 {
		// a permutation of the expected values?
		perm := !anyOpen && n > 1
		if perm {
			used := make([]bool, n)
			for i := range o.Got {
				found := false
				for j, e := range exps {
					if !used[j] && sameGo(o.Got[i], e.Want) {
						used[j], found = true, true
						break
					}
				}
				if !found {
					perm = false
					break
				}
			}
		}
		if perm {
			fails = append(fails, failure{Mode: "arg-order", Pos: -1, Detail: "arguments arrived in a different order\n" + describe()})
		} else {
			for _, i := range bad {
				fails = append(fails, failure{Mode: "wrong-value", Pos: i, Detail: fmt.Sprintf("argument %d: Go should see %s, saw %s\n%s", i, goStr(exps[i].Want), goStr(o.Got[i]), describe())})
			}
		}
	}
	if h.out != nil && !resultOK(h.out, ret.V, o.R) {
		fails = append(fails, failure{Mode: "result-wrong", Pos: n, Detail: fmt.Sprintf("Go returned %s, script received %s\n%s", goStr(ret.V), scriptStr(o.R), describe())})
	}
	return fails, oc
}

// ---- utils.Convert[T] / utils.ConvertFromIndex[T] ---------------------------------------------

type convFns struct {
	direct func(v data.Value) (any, error)
	index  func(ctx data.Context, i int) (any, error)
}

func mkConv[T any]() convFns {
	return convFns{
		direct: func(v data.Value) (any, error) { r, e := utils.Convert[T](v); return r, e },
		index:  func(ctx data.Context, i int) (any, error) { r, e := utils.ConvertFromIndex[T](ctx, i); return r, e },
	}
}

var convTable = map[string]convFns{
	"string": mkConv[string](), "bool": mkConv[bool](), "int": mkConv[int](), "int64": mkConv[int64](), "float64": mkConv[float64](),
	"int8": mkConv[int8](), "int16": mkConv[int16](), "int32": mkConv[int32](), "uint": mkConv[uint](), "uint8": mkConv[uint8](),
	"uint16": mkConv[uint16](), "uint32": mkConv[uint32](), "uint64": mkConv[uint64](), "float32": mkConv[float32](),
}

var convSess *runner.Session

func evalConvert(c caseT) (fails []failure, oc string) {
	k := kindByName(c.In[0])
	exp := expectParam(k, c.Args[0])
	fns := convTable[k.Name]
	if convSess == nil {
		var res runner.Result
		res, convSess = runner.RunKeep("$a0 = 0;", runner.Opts{})
		convSess.Close()
		if res.Kind != "ok" {
			return []failure{{Mode: "stray", Pos: -1, Detail: "convert session: " + res.Kind + res.Msg}}, "sess"
		}
	}
	var idx int
	for _, v := range convSess.P.GetVariables() {
		if v.GetName() == "a0" {
			idx = v.GetIndex()
			convSess.Ctx.SetVariableValue(v, c.Args[0].toData())
		}
	}
	type res struct {
		api string
		v   any
		err error
		g   runner.Result
	}
	var rs []res
	for _, api := range []string{"Convert", "ConvertFromIndex"} {
		r := res{api: api}
		r.g = runner.Guard(func() {
			if api == "Convert" {
				r.v, r.err = fns.direct(c.Args[0].toData())
			} else {
				r.v, r.err = fns.index(convSess.Ctx, idx)
			}
		})
		rs = append(rs, r)
	}
	for _, r := range rs {
		obs := fmt.Sprintf("utils.%s[%s](%s) = ", r.api, k.Name, c.Args[0])
		if r.g.Kind != "ok" {
			fails = append(fails, failure{Mode: "panic", Pos: -1, Panic: r.g.PanicKey + r.g.Kind, Detail: obs + "Go panic " + r.g.PanicMsg})
			oc = "panic"
			continue
		}
		if r.err != nil {
			obs += "error " + trunc(r.err.Error(), 80)
			oc = "error"
		} else {
			obs += goStr(reflect.ValueOf(r.v))
			oc = "value"
		}
		switch exp.Class {
		case expExact:
			if r.err != nil {
				fails = append(fails, failure{Mode: "refused", Pos: 0, Detail: "representable value refused: expected " + goStr(exp.Want) + "\n" + obs})
			} else if !sameGo(reflect.ValueOf(r.v), exp.Want) {
				fails = append(fails, failure{Mode: "wrong-value", Pos: 0, Detail: "expected " + goStr(exp.Want) + "\n" + obs})
			}
		case expError:
			if r.err == nil {
				fails = append(fails, failure{Mode: "no-error", Pos: 0, Detail: "value not representable in " + k.Name + ": expected an error\n" + obs})
			}
		case expRoundOrEr, expIfAccepted:
			if r.err == nil && !sameGo(reflect.ValueOf(r.v), exp.Want) {
				fails = append(fails, failure{Mode: "wrong-value", Pos: 0, Detail: "expected an error or " + goStr(exp.Want) + "\n" + obs})
			}
		}
	}
	// the two APIs share one implementation: report one failure per mode
	seen := map[string]bool{}
	var out []failure
	for _, f := range fails {
		if !seen[f.Mode] {
			seen[f.Mode] = true
			out = append(out, f)
		}
	}
	return out, oc + "/" + fmt.Sprint(exp.Class)
}

// ---- finding keys -----------------------------------------------------------------------

// A failure seen in a multi-parameter call is attributed to the parameter (or the result) that
// reproduces it alone in the minimal signature f(K) int / f() K; those probes are memoised per
// worker. Only a failure that needs the whole signature keeps the signature in its key.
type memoKey struct {
	path, role, kind, val, mode string
}

type memoVal struct {
	ok     bool
	detail string
}

var memo = map[memoKey]memoVal{}

type culprit struct {
	role string // "param" | "result"
	pos  int
}

func singleCase(path string, role string, k *kindT, v sval, res string) caseT {
	if role == "param" {
		return caseT{Path: path, In: []string{k.Name}, Out: "int", Args: []sval{v}, Res: "1"}
	}
	return caseT{Path: path, In: nil, Out: k.Name, Args: nil, Res: res}
}

func isSingle(c caseT) bool {
	return len(c.In) == 0 || (len(c.In) == 1 && c.Out == "int" && c.Res == "1")
}

// probe reports whether the minimal case sc fails in the given mode because of the given role.
func probe(sc caseT, role, mode string) (bool, string) {
	mk := memoKey{sc.Path, role, strings.Join(sc.In, ",") + ">" + sc.Out, fmt.Sprint(sc.Args) + sc.Res, mode}
	if r, ok := memo[mk]; ok {
		return r.ok, r.detail
	}
	memo[mk] = memoVal{} // guards the (impossible) recursion
	fs, _ := evalCase(newHost(sc), sc)
	var r memoVal
	for _, f := range fs {
		if f.Mode != mode {
			continue
		}
		for _, cu := range culprits(sc, f) {
			if cu.role == role {
				r = memoVal{true, f.Detail}
			}
		}
	}
	memo[mk] = r
	return r.ok, r.detail
}

func culprits(c caseT, f failure) []culprit {
	n := len(c.In)
	if isSingle(c) {
		if n == 0 {
			return []culprit{{"result", 0}}
		}
		switch f.Mode {
		case "result-wrong":
			return []culprit{{"result", 1}}
		case "refused":
			if ok, _ := probe(singleCase(c.Path, "result", kindByName("int"), sval{}, "1"), "result", "refused"); ok {
				return []culprit{{"result", 1}}
			}
		}
		return []culprit{{"param", 0}}
	}
	var cands []culprit
	switch {
	case f.Pos >= 0 && f.Pos < n:
		cands = []culprit{{"param", f.Pos}}
	case f.Pos == n:
		cands = []culprit{{"result", n}}
	default:
		for i := range c.In {
			cands = append(cands, culprit{"param", i})
		}
		if c.Out != "void" {
			cands = append(cands, culprit{"result", n})
		}
	}
	var out []culprit
	for _, cd := range cands {
		var sc caseT
		if cd.role == "param" {
			sc = singleCase(c.Path, "param", kindByName(c.In[cd.pos]), c.Args[cd.pos], "")
		} else {
			sc = singleCase(c.Path, "result", kindByName(c.Out), sval{}, c.Res)
		}
		if ok, _ := probe(sc, cd.role, f.Mode); ok {
			out = append(out, cd)
		}
	}
	return out
}

type finding struct {
	Key, Clause, Detail string
	Case                caseT
	Size                int
}

func caseSize(c caseT) int {
	size := len(c.In)*1000 + len(c.Out)
	for _, n := range c.In { // deterministic representative among equally small cases
		for i := range kinds {
			if kinds[i].Name == n {
				size += i
			}
		}
	}
	for i, a := range c.Args {
		if a != neutral(kindByName(c.In[i])) {
			size += 10
		}
	}
	return size
}

func findingsFor(c caseT, fails []failure) []finding {
	var out []finding
	size := caseSize(c)
	add := func(key, clause string, f failure, cs caseT) {
		out = append(out, finding{Key: key, Clause: clause, Detail: f.Detail, Case: cs, Size: caseSize(cs)})
	}
	_ = size
	for _, f := range fails {
		if c.Style != "" {
			// the positional call of the same signature and values is enumerated too; a failure that
			// shows only through another call style is keyed by the style
			pc := c
			pc.Style = ""
			pc.Args = append([]sval{}, c.Args...)
			same := false
			if !hasNull(c.Args) {
				pfs, _ := evalCase(newHost(pc), pc)
				for _, pf := range pfs {
					if pf.Mode == f.Mode {
						same = true
					}
				}
			} else if f.Pos >= 0 && f.Pos < len(c.In) {
				// omitted arguments: compare with the positional one-parameter call of the blamed value
				same, _ = probe(singleCase(c.Path, "param", kindByName(c.In[f.Pos]), c.Args[f.Pos], ""), "param", f.Mode)
			}
			if !same {
				if f.Mode == "panic" {
					add(fmt.Sprintf("%s via %s: %s", c.Path, c.Style, coarsePanic(f.Panic)), "no-crash", f, c)
				} else {
					// one key per path: the style and the way it differs are in the case / detail
					add(c.Path+" non-positional call (spread / named / callback): Go does not see the values a positional call delivers", "param-identity", f, c)
				}
			}
			continue
		}
		switch f.Mode {
		case "panic":
			add(c.Path+" "+coarsePanic(f.Panic), "no-crash", f, c)
			continue
		case "stray":
			add(c.Path+": unexpected outcome "+f.Panic, "no-crash", f, c)
			continue
		case "uncatchable":
			add(c.Path+": error not catchable", "catchable-error", f, c)
			continue
		case "arg-order":
			add(c.Path+" params: delivered in a different order", "param-identity", f, c)
			continue
		case "not-called":
			add(c.Path+": success reported without entering the Go function once", "param-identity", f, c)
			continue
		}
		if c.Path == "convert" {
			k := kindByName(c.In[0])
			switch f.Mode {
			case "refused":
				add("convert "+c.Args[0].T+"->"+k.group()+": representable value refused", "param-identity", f, c)
			case "no-error":
				if c.Args[0].T != k.Fam {
					add("convert "+k.Fam+"<-"+c.Args[0].T+": value without an image in the kind accepted", "unconvertible-error", f, c)
				} else {
					add("convert "+c.Args[0].T+"->"+rangeGroup(k)+": unrepresentable value accepted", "unconvertible-error", f, c)
				}
			default:
				add("convert "+c.Args[0].T+"->"+k.Name+" "+c.Args[0].C+": wrong value", "param-identity", f, c)
			}
			continue
		}
		cus := culprits(c, f)
		for _, cu := range cus {
			var k *kindT
			var v sval
			res := ""
			var sc caseT
			if cu.role == "param" {
				k, v = kindByName(c.In[cu.pos]), c.Args[cu.pos]
				sc = singleCase(c.Path, "param", k, v, "")
			} else {
				k, res = kindByName(c.Out), c.Res
				sc = singleCase(c.Path, "result", k, sval{}, res)
			}
			if !isSingle(c) {
				if ok, d := probe(sc, cu.role, f.Mode); ok {
					f.Detail = d
				}
			}
			switch f.Mode {
			case "refused":
				add(fmt.Sprintf("%s %s %s: representable value refused", c.Path, cu.role, k.group()), "param-identity", f, sc)
			case "no-error":
				if v.T != k.Fam {
					add(fmt.Sprintf("%s param %s<-%s: value without an image in the kind accepted", c.Path, k.Fam, v.T), "unconvertible-error", f, sc)
				} else {
					add(fmt.Sprintf("%s param %s: unrepresentable value accepted", c.Path, rangeGroup(k)), "unconvertible-error", f, sc)
				}
			case "wrong-value":
				add(fmt.Sprintf("%s param %s %s: wrong value", c.Path, k.Name, v.C), "param-identity", f, sc)
			case "result-wrong":
				add(fmt.Sprintf("%s result %s %s: wrong value", c.Path, k.Name, res), "result-identity", f, sc)
			}
		}
		if len(cus) == 0 {
			add(fmt.Sprintf("%s %s: %s only in this signature", c.Path, sigOnly(c), f.Mode), "param-identity", f, c)
		}
	}
	return out
}

var reCallUsing = regexp.MustCompile(`reflect:-Call-using-([^-@]+)-as-type-([^-@]+)`)

// coarsePanic folds "Call using int64 as type time.Duration", "... main.NStr as type string", ...
// (a value of another type of the same Kind handed to reflect.Call) into one class.
func coarsePanic(p string) string {
	m := reCallUsing.FindStringSubmatch(p)
	if m == nil {
		return p
	}
	var a, b *kindT
	for i := range kinds {
		if kinds[i].T.String() == m[1] {
			a = &kinds[i]
		}
		if kinds[i].T.String() == m[2] {
			b = &kinds[i]
		}
	}
	if a != nil && b != nil && a != b && a.T.Kind() == b.T.Kind() {
		return strings.Replace(p, m[0], "reflect:-Call-using-a-different-type-of-the-same-Kind(named/basic)", 1)
	}
	return p
}

// rangeGroup names the kind in "unrepresentable value accepted" keys: the integer kinds share one
// range check (one key "sized"), float32 has its own.
func rangeGroup(k *kindT) string {
	if k.Fam == "float" && !k.Core && !k.Named {
		return k.Name
	}
	return k.group()
}

func hasNull(a []sval) bool {
	for _, v := range a {
		if v.T == "null" {
			return true
		}
	}
	return false
}

func sigOnly(c caseT) string { return "(" + strings.Join(c.In, ",") + ")" + c.Out }

func btoi(b bool) int {
	if b {
		return 1
	}
	return 0
}

func trunc(s string, n int) string {
	if len(s) > n {
		return s[:n] + "…"
	}
	return s
}

// ---- enumeration --------------------------------------------------------------------------

// tuples calls fn for every argument tuple of the signature: all-neutral, one boundary per
// position (including the result position) and all boundaries at once (rotating through the pools).
func tuples(in []*kindT, out *kindT, fn func(args []sval, res string)) {
	n := len(in)
	base := make([]sval, n)
	for i, k := range in {
		base[i] = neutral(k)
	}
	var rp []rval
	nres := "bare"
	if out != nil {
		rp = resultPool(out)
		nres = rp[0].C
	}
	cp := func() []sval { return append([]sval{}, base...) }
	fn(cp(), nres)
	if out == nil {
		fn(cp(), "stmt")
	}
	maxLen := len(rp)
	for p, k := range in {
		pl := append(append([]sval{}, nativePool(k)...), foreignPool(k)...)
		if len(nativePool(k)) > maxLen {
			maxLen = len(nativePool(k))
		}
		for _, v := range pl {
			if v == base[p] {
				continue
			}
			a := cp()
			a[p] = v
			fn(a, nres)
		}
	}
	for i := 1; i < len(rp); i++ {
		fn(cp(), rp[i].C)
	}
	if n >= 1 {
		for t := 0; t < maxLen; t++ {
			a := cp()
			for p, k := range in {
				if np := nativePool(k); len(np) > 0 {
					a[p] = np[(t+p)%len(np)]
				}
			}
			r := nres
			if out != nil {
				r = rp[t%len(rp)].C
			}
			fn(a, r)
		}
	}
}

type shardArg struct {
	Path   string   `json:"path"`
	Prefix []string `json:"prefix"` // fixed leading parameter kinds
	Arity  int      `json:"arity"`
	NKinds int      `json:"nkinds"` // kinds allowed at the free positions (first n of `kinds`)
	Style  string   `json:"style,omitempty"`
}

type rec struct {
	Kind    string         `json:"kind"`
	Sigs    int64          `json:"sigs,omitempty"`
	Calls   int64          `json:"calls,omitempty"`
	Outcome map[string]int `json:"outcome,omitempty"`
	F       *finding       `json:"f,omitempty"`
	Sample  any            `json:"sample,omitempty"`
	// concurrent part
	Key    string        `json:"key,omitempty"`
	Clause string        `json:"clause,omitempty"`
	Size   int           `json:"size,omitempty"`
	Detail string        `json:"detail,omitempty"`
	CaseC  *concScenario `json:"casec,omitempty"`
	Execs  int64         `json:"execs,omitempty"`
}

func outNames() []string {
	r := []string{}
	for _, k := range kinds {
		r = append(r, k.Name)
	}
	return append(r, "void")
}

func worker(w *pool.W, raw json.RawMessage) {
	var sh shardArg
	json.Unmarshal(raw, &sh)
	var sigs, calls int64
	outcomes := map[string]int{}
	emitted := map[string]int{}
	style := sh.Style
	runSig := func(path string, in []string, out string) {
		c0 := caseT{Path: path, In: in, Out: out, Style: style}
		if !w.Item(c0.sigString()) {
			return
		}
		if path == "method" && methodName(in, out) == "" {
			return
		}
		sigs++
		var h *host
		if path != "convert" {
			h = newHost(c0)
		}
		var ik []*kindT
		for _, n := range in {
			ik = append(ik, kindByName(n))
		}
		var ok *kindT
		if out != "void" {
			ok = kindByName(out)
		}
		first := true
		xsig := isX(append([]string{out}, in...)...)
		if style != "" {
			if _, _, ok := h.callExpr(style); !ok {
				sigs--
				return
			}
		}
		tuples(ik, ok, func(args []sval, res string) {
			if style == "named-tail" {
				for i := 0; i < len(args)-1; i++ {
					args[i] = sval{T: "null", C: "omitted"}
				}
			}
			c := caseT{Path: path, In: in, Out: out, Args: args, Res: res, Style: style}
			fs, oc := evalCase(h, c)
			calls++
			if xsig {
				oc = "unsupported-kind:" + oc
			}
			outcomes[oc]++
			if first && sigs%97 == 1 && len(fs) == 0 {
				first = false
				w.Emit(rec{Kind: "sample", Sample: map[string]any{"signature": c.sigString(), "args": fmt.Sprint(args), "go_returns": res, "verdict": "identical in both directions", "outcome": oc}})
			}
			if len(fs) == 0 {
				return
			}
			for _, f := range findingsFor(c, fs) {
				if sz, seen := emitted[f.Key]; !seen || f.Size < sz {
					emitted[f.Key] = f.Size
					ff := f
					w.Emit(rec{Kind: "fail", F: &ff})
				}
			}
		})
	}
	switch sh.Path {
	case "convert":
		for _, k := range kinds[:nBasic] {
			c0 := caseT{Path: "convert", In: []string{k.Name}}
			if !w.Item(c0.sigString()) {
				continue
			}
			sigs++
			vals := append(append([]sval{}, nativePool(&k)...), foreignPool(&k)...)
			for _, v := range vals {
				c := caseT{Path: "convert", In: []string{k.Name}, Args: []sval{v}}
				fs, oc := evalCase(nil, c)
				calls += 2
				outcomes["convert:"+oc]++
				for _, f := range findingsFor(c, fs) {
					if _, seen := emitted[f.Key]; !seen {
						emitted[f.Key] = f.Size
						ff := f
						w.Emit(rec{Kind: "fail", F: &ff})
					}
				}
			}
		}
	case "x":
		// kinds outside the supported set, both paths
		for i, sg := range xSignatures() {
			if i%sh.NKinds != sh.Arity {
				continue
			}
			in, out := sg[:len(sg)-1], sg[len(sg)-1]
			runSig("func", in, out)
			runSig("method", in, out)
		}
	case "method-styles":
		for _, st := range callStyles {
			style = st
			for i := 0; i < nCore; i++ {
				for j := 0; j < nCore; j++ {
					runSig("method", []string{kinds[i].Name}, kinds[j].Name)
				}
			}
			for _, ms := range multiSigs {
				runSig("method", ms[:len(ms)-1], ms[len(ms)-1])
			}
		}
	case "func-styles":
		in := make([]string, sh.Arity)
		copy(in, sh.Prefix)
		var rec_ func(i int)
		rec_ = func(i int) {
			if i == sh.Arity {
				for _, st := range callStyles {
					style = st
					for j := 0; j < nCore; j++ {
						runSig("func", append([]string{}, in...), kinds[j].Name)
					}
				}
				return
			}
			for k := 0; k < nCore; k++ {
				in[i] = kinds[k].Name
				rec_(i + 1)
			}
		}
		rec_(len(sh.Prefix))
	case "method":
		for _, o := range outNames() {
			runSig("method", nil, o)
			for _, k := range kinds {
				runSig("method", []string{k.Name}, o)
			}
		}
		for _, m := range multiSigs {
			runSig("method", m[:len(m)-1], m[len(m)-1])
		}
	default:
		free := sh.Arity - len(sh.Prefix)
		in := make([]string, sh.Arity)
		copy(in, sh.Prefix)
		var rec_ func(i int)
		rec_ = func(i int) {
			if i == sh.Arity {
				for _, o := range outNames() {
					runSig("func", append([]string{}, in...), o)
				}
				return
			}
			for k := 0; k < sh.NKinds; k++ {
				in[i] = kinds[k].Name
				rec_(i + 1)
			}
		}
		_ = free
		rec_(len(sh.Prefix))
	}
	w.Emit(rec{Kind: "count", Sigs: sigs, Calls: calls, Outcome: outcomes})
}

// ---- order-dependent behaviour: basic and named types of one Kind, both orders, fresh process ----
//
// A converter may keep process-wide state (a cache keyed by reflect.Kind, say). Whether a call of
// f(time.Duration) works must not depend on f(int64) having been called before, or vice versa.
// Each sequence below is executed in a freshly started child process (so the order is exactly the
// listed one, whatever the worker did before) and every step is judged by the ordinary oracle.

type seqStep struct {
	Path string `json:"path"`
	Kind string `json:"kind"`
}

type seqDef struct {
	Name  string    `json:"name"`
	Steps []seqStep `json:"steps"`
}

func sequences() []seqDef {
	var basics, nameds []string
	for i := nBasic; i < len(kinds); i++ {
		nameds = append(nameds, kinds[i].Name)
		basics = append(basics, basicOf(&kinds[i]).Name)
	}
	mk := func(name string, groups ...[2]any) seqDef {
		d := seqDef{Name: name}
		for _, g := range groups {
			for _, k := range g[1].([]string) {
				d.Steps = append(d.Steps, seqStep{g[0].(string), k})
			}
		}
		return d
	}
	var out []seqDef
	for _, p := range []string{"func", "method"} {
		out = append(out, mk(p+": basic, named, basic", [2]any{p, basics}, [2]any{p, nameds}, [2]any{p, basics}))
		out = append(out, mk(p+": named, basic, named", [2]any{p, nameds}, [2]any{p, basics}, [2]any{p, nameds}))
	}
	out = append(out, mk("func basic, method named, func basic", [2]any{"func", basics}, [2]any{"method", nameds}, [2]any{"func", basics}))
	out = append(out, mk("method named, func basic, method named", [2]any{"method", nameds}, [2]any{"func", basics}, [2]any{"method", nameds}))
	out = append(out, mk("method basic, func named, method basic", [2]any{"method", basics}, [2]any{"func", nameds}, [2]any{"method", basics}))
	out = append(out, mk("func named, method basic, func named", [2]any{"func", nameds}, [2]any{"method", basics}, [2]any{"func", nameds}))
	return out
}

func stepCases(st seqStep) []caseT {
	k := kindByName(st.Kind)
	var cs []caseT
	for _, a := range nativePool(k) {
		if expectParam(k, a).Class != expExact {
			continue
		}
		cs = append(cs, caseT{Path: st.Path, In: []string{k.Name}, Out: k.Name, Args: []sval{a}, Res: resultPool(k)[0].C})
		if len(cs) == 3 {
			break
		}
	}
	return cs
}

type seqOut struct {
	Calls int       `json:"calls"`
	F     []finding `json:"f"`
}

// seqChild runs in the fresh child process.
func seqChild(spec string) {
	var d seqDef
	json.Unmarshal([]byte(spec), &d)
	var out seqOut
	seen := map[string]bool{}
	for i, st := range d.Steps {
		for _, c := range stepCases(st) {
			fs, _ := evalCase(newHost(c), c)
			out.Calls++
			for _, f := range findingsFor(c, fs) {
				if seen[f.Key] {
					continue
				}
				seen[f.Key] = true
				f.Detail = fmt.Sprintf("in a fresh process, sequence %q, step %d = %s(%s):\n%s", d.Name, i+1, st.Path, st.Kind, f.Detail)
				f.Case.Seq = &d
				f.Size = 1 + i // the sequence is the replayable form of an order-dependent failure
				for si, sd := range sequences() {
					if sd.Name == d.Name {
						f.Size += 100 * si
					}
				}
				out.F = append(out.F, f)
			}
		}
	}
	b, _ := json.Marshal(out)
	fmt.Println("C17SEQ " + string(b))
}

func runSeqChild(d seqDef) (seqOut, error) {
	exe, err := os.Executable()
	if err != nil {
		return seqOut{}, err
	}
	spec, _ := json.Marshal(d)
	cmd := exec.Command(exe)
	for _, e := range os.Environ() {
		if !strings.HasPrefix(e, "VERIF_WORKER") {
			cmd.Env = append(cmd.Env, e)
		}
	}
	cmd.Env = append(cmd.Env, "C17_SEQ="+string(spec))
	ob, err := cmd.Output()
	var out seqOut
	for _, l := range strings.Split(string(ob), "\n") {
		if strings.HasPrefix(l, "C17SEQ ") {
			if e := json.Unmarshal([]byte(l[7:]), &out); e != nil {
				return out, e
			}
			return out, nil
		}
	}
	stderr := ""
	if ee, ok := err.(*exec.ExitError); ok {
		stderr = string(ee.Stderr)
	}
	return out, fmt.Errorf("sequence child gave no result: %v %s", err, trunc(stderr, 600))
}

func seqWorker(w *pool.W, raw json.RawMessage) {
	var d seqDef
	json.Unmarshal(raw, &d)
	if !w.Item("seq " + d.Name) {
		return
	}
	out, err := runSeqChild(d)
	if err != nil {
		c := caseT{Path: "func", Seq: &d}
		w.Emit(rec{Kind: "fail", F: &finding{Key: "sequence child died: " + runner.FatalFrame(err.Error()), Clause: "no-crash", Detail: err.Error(), Case: c}})
	}
	for i := range out.F {
		w.Emit(rec{Kind: "fail", F: &out.F[i]})
	}
	w.Emit(rec{Kind: "count", Sigs: int64(len(d.Steps)), Calls: int64(out.Calls), Outcome: map[string]int{"sequence-step": out.Calls}})
}

func main() {
	if s := os.Getenv("C17_SEQ"); s != "" {
		seqChild(s)
		return
	}
	if pool.IsWorker() {
		pool.Serve(map[string]pool.Handler{"c17": worker, "seq": seqWorker, "conc": concWorker})
	}
	c := ev.New("C17")
	defer runner.Cleanup()
	if c.Replay != "" {
		replay(c)
		return
	}
	c.SetBudget(5*time.Minute, 30*time.Minute)
	var shards []pool.Shard
	add := func(a shardArg) { shards = append(shards, pool.Shard{Kind: "c17", Arg: a}) }
	all := len(kinds)
	// arity 3 first (largest shards)
	n3 := all
	if c.Quick() {
		n3 = nCore
	}
	for a := 0; a < n3; a++ {
		for b := 0; b < n3; b++ {
			add(shardArg{Path: "func", Prefix: []string{kinds[a].Name, kinds[b].Name}, Arity: 3, NKinds: n3})
		}
	}
	for a := 0; a < all; a++ {
		add(shardArg{Path: "func", Prefix: []string{kinds[a].Name}, Arity: 2, NKinds: all})
	}
	add(shardArg{Path: "func", Arity: 1, NKinds: all})
	add(shardArg{Path: "func", Arity: 0, NKinds: all})
	add(shardArg{Path: "method"})
	add(shardArg{Path: "convert"})
	// other call styles (spread, named, call_user_func, array_map, closure, variable function):
	// arity 1..3 over the documented kinds
	for ar := 1; ar <= 3; ar++ {
		for a := 0; a < nCore; a++ {
			add(shardArg{Path: "func-styles", Prefix: []string{kinds[a].Name}, Arity: ar, NKinds: nCore})
		}
	}
	add(shardArg{Path: "method-styles"})
	// parameter / result kinds outside the supported set (pointer, interface, slice, map, struct, func,
	// chan, complex, several results, variadic): NKinds = number of slices, Arity = this slice
	const xSlices = 8
	for i := 0; i < xSlices; i++ {
		add(shardArg{Path: "x", Arity: i, NKinds: xSlices})
	}
	var xn []string
	for i := range xkinds {
		xn = append(xn, xkinds[i].Name+" "+xkinds[i].T.String())
	}
	c.Set("unsupported_kinds", xn)
	c.Set("unsupported_kind_signatures", len(xSignatures()))
	c.Set("call_styles", callStyles)
	for _, d := range sequences() {
		shards = append(shards, pool.Shard{Kind: "seq", Arg: d})
	}
	c.Set("order_sequences", len(sequences()))
	for i := range concScenarios() {
		shards = append(shards, pool.Shard{Kind: "conc", Arg: i})
	}
	c.Set("concurrent_scenarios", len(concScenarios()))

	var sigs, calls, interleavings int64
	outcomes := map[string]int{}
	pool.Run(shards, pool.Options{}, func(si int, rb json.RawMessage) {
		var r rec
		json.Unmarshal(rb, &r)
		switch r.Kind {
		case "count":
			sigs += r.Sigs
			calls += r.Calls
			interleavings += r.Execs
			for k, v := range r.Outcome {
				outcomes[k] += v
			}
		case "failc":
			c.Fail(r.Key, r.Clause, r.Size, r.CaseC, r.Detail)
		case "fail":
			c.Fail(r.F.Key, r.F.Clause, r.F.Size, r.F.Case, r.F.Detail)
		case "sample":
			c.Sample(r.Sample)
		}
	}, func(d pool.Death) {
		c.Fail("worker-death:"+runner.FatalFrame(d.Stderr), "no-crash", 0, map[string]any{"item": d.Item, "reason": d.Reason}, d.Stderr)
	})
	var ocs []string
	for k := range outcomes {
		ocs = append(ocs, k)
	}
	sort.Strings(ocs)
	for _, k := range ocs {
		for i := 0; i < 1; i++ {
			c.Outcome(k)
		}
	}
	c.Set("outcome_call_counts", outcomes)
	c.Set("signatures", sigs)
	c.Set("concurrent_interleavings", interleavings)
	c.Set("calls", calls)
	c.Set("kinds", outNames()[:all])
	c.Set("arity3_kinds", n3)
	pools := map[string]any{}
	for i := range kinds {
		var l []string
		for _, v := range nativePool(&kinds[i]) {
			l = append(l, v.C)
		}
		for _, v := range foreignPool(&kinds[i]) {
			l = append(l, v.C)
		}
		pools[kinds[i].Name] = l
	}
	c.Set("param_pools", pools)
	c.Assume("a sized-kind result delivered as the lossless decimal text of the value is accepted (runtime/README_reflect*.md documents 'other types -> string')")
	c.Assume("arguments of another script type than the parameter kind (null, array, int->string, ...) are only held to 'value or catchable error, never a panic'")
	c.Assume("arguments are passed through script variables preset from Go, not through source literals (literal lexing/parsing belongs to C01/C03)")
	xok, xrej := 0, 0
	for k, v := range outcomes {
		if strings.HasPrefix(k, "unsupported-kind:ok") {
			xok += v
		}
		if strings.HasPrefix(k, "unsupported-kind:throw") {
			xrej += v
		}
	}
	if xok == 0 || xrej == 0 {
		c.HarnessError("vacuous: calls with unsupported kinds never %s (ok=%d, refused=%d)", map[bool]string{true: "succeeded", false: "were refused"}[xok == 0], xok, xrej)
	}
	c.Assume("a parameter or result kind outside the supported set (pointer, interface, slice, array, map, struct, func, chan, complex, uintptr, several results, variadic) may be refused with a catchable error or delivered in any form; only no-crash, single entry and the identity of the supported parameters next to it are held")
	c.Assume("a float argument for an integer parameter may be refused or truncated; if the call is accepted although the (integral) number lies outside the kind's range, that is an unconvertible value accepted (NaN / Inf are left open)")
	c.Assume("a finite float64 whose float32 conversion overflows to an infinity is not representable in float32 (error demanded); one that merely rounds may round or be refused")
	if len(outcomes) < 4 || calls < 1000 {
		c.HarnessError("vacuous: %d outcome classes over %d calls", len(outcomes), calls)
	}
	rule := fmt.Sprintf("every func signature of arity 0..2 over %d kinds and arity 3 over the first %d kinds x %d result kinds (incl. void), registered with RegisterFunction via reflect.MakeFunc; %d fixture methods via RegisterReflectClass; Convert/ConvertFromIndex[T] for %d kinds; %d signatures with one of %d unsupported kinds as parameter or result on both paths; each x (all-neutral + one boundary per position + all boundaries at once)", all, n3, all+1, len(kinds)*(len(kinds)+1)+len(kinds)+1+len(multiSigs), nBasic, len(xSignatures()), len(xkinds))
	c.Finish(sigs, calls, calls, rule)
}

func replay(c *ev.Check) {
	var kind struct {
		Kind string `json:"kind"`
	}
	if k, err := ev.LoadReplay(c.Replay, &kind); err == nil && kind.Kind == "conc" {
		replayConc(c, k)
		c.Finish(1, 1, 1, "replay")
		return
	}
	var cs caseT
	key, err := ev.LoadReplay(c.Replay, &cs)
	if err != nil {
		fmt.Println("replay:", err)
		c.HarnessError("replay: %v", err)
		c.Finish(1, 1, 1, "replay")
		return
	}
	if cs.Seq != nil {
		out, err := runSeqChild(*cs.Seq)
		fmt.Printf("sequence %q: %d calls, %d finding(s) %v\n", cs.Seq.Name, out.Calls, len(out.F), err)
		for _, f := range out.F {
			fmt.Printf("key=%s\n%s\n", f.Key, f.Detail)
			c.Fail(f.Key, f.Clause, 0, cs, f.Detail)
		}
		c.Finish(1, 1, 1, "replay")
		return
	}
	var h *host
	if cs.Path != "convert" {
		h = newHost(cs)
	}
	fs, oc := evalCase(h, cs)
	fmt.Printf("case %s args=%v res=%s -> %s, %d failure(s)\n", cs.sigString(), cs.Args, cs.Res, oc, len(fs))
	for _, f := range findingsFor(cs, fs) {
		fmt.Printf("key=%s\n%s\n", f.Key, f.Detail)
		if f.Key == key {
			c.Fail(key, f.Clause, 0, cs, f.Detail)
		} else {
			c.Fail(f.Key, f.Clause, 0, cs, f.Detail)
		}
	}
	c.Finish(1, 1, 1, "replay")
}
