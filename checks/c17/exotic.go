package main

// Kinds outside the supported set. The property's last clause quantifies over every registered
// signature ("no registered signature makes the call crash the interpreter"), and
// runtime/README_reflect*.md documents "other result types -> string via fmt.Sprintf" and "any number
// of parameters and results". So parameter and result types built with every Go type constructor
// (pointer, pointer to pointer, empty / non-empty interface, slice, array, map, struct, func, chan,
// complex, uintptr, unsafe.Pointer, several results, variadic) are registered on both paths and called
// with nil and non-nil results / with every script value class as argument.
//
// Oracle for these kinds (Fam "x"): the call ends as a value or as a catchable error - never a Go
// panic, bare or converted inside try; if it reports success the Go function was entered exactly once
// and every parameter of a supported kind next to it carries exactly the script's value. What the
// script receives for such a result, and whether such a parameter is accepted, is left open.

import (
	"errors"
	"fmt"
	"reflect"
	"unsafe"
)

type XStruct struct {
	A int
	B string
}

// xErr is an error / Stringer with pointer receivers that tolerate a nil receiver (a typed nil
// inside a non-nil interface is a legal Go result).
type xErr struct{ msg string }

func (e *xErr) Error() string {
	if e == nil {
		return "nil-xErr"
	}
	return e.msg
}
func (e *xErr) String() string { return e.Error() }

// curMulti: the values a several-results function returns in the running case.
var curMulti []reflect.Value

func retX[T any]() T {
	var z T
	if mRet.IsValid() {
		reflect.ValueOf(&z).Elem().Set(mRet)
	}
	return z
}

func retM[T any](i int) T {
	var z T
	if i < len(curMulti) && curMulti[i].IsValid() {
		reflect.ValueOf(&z).Elem().Set(curMulti[i])
	}
	return z
}

func typeOf[T any]() reflect.Type { return reflect.TypeOf((*T)(nil)).Elem() }

// as converts x to a reflect.Value of exactly type t (an interface-typed Value for interface types);
// x == nil gives t's zero value.
func as(t reflect.Type, x any) reflect.Value {
	if x == nil {
		return reflect.Zero(t)
	}
	v := reflect.New(t).Elem()
	v.Set(reflect.ValueOf(x))
	return v
}

var xkinds = buildXKinds()

func buildXKinds() []kindT {
	i42, i0, s, f, b := 42, 0, "a", 1.5, true
	p42 := &i42
	var pnil *int
	var nilMap map[string]int
	errBoom := errors.New("boom")
	var out []kindT
	add := func(name string, t reflect.Type, vals ...any) {
		k := kindT{Name: name, T: t, Fam: "x"}
		for i := 0; i < len(vals); i += 2 {
			k.XRes = append(k.XRes, rval{C: vals[i].(string), V: as(t, vals[i+1])})
		}
		out = append(out, k)
	}
	// the first value of each pool is the one used while a parameter position is varied
	add("ptrInt", typeOf[*int](), "non-nil", p42, "nil", nil, "to-zero", &i0)
	add("ptrString", typeOf[*string](), "non-nil", &s, "nil", nil)
	add("ptrFloat64", typeOf[*float64](), "non-nil", &f, "nil", nil)
	add("ptrBool", typeOf[*bool](), "non-nil", &b, "nil", nil)
	add("ptrPtrInt", typeOf[**int](), "non-nil", &p42, "nil", nil, "to-nil", &pnil)
	add("ptrStruct", typeOf[*XStruct](), "non-nil", &XStruct{1, "a"}, "nil", nil)
	add("any", typeOf[any](), "int", 42, "nil", nil, "string", "a", "float", 1.5, "bool", true, "int8", int8(-1),
		"typed-nil-ptr", pnil, "ptr", p42, "ptr-to-nil-ptr", &pnil, "slice", []int{1, 2}, "nil-map", nilMap, "error", errBoom,
		"struct", XStruct{1, "a"}, "typed-nil-error", (*xErr)(nil), "func", func() {})
	add("error", typeOf[error](), "non-nil", errBoom, "nil", nil, "typed-nil", (*xErr)(nil), "wrapped", fmt.Errorf("w: %w", errBoom))
	add("stringer", typeOf[fmt.Stringer](), "non-nil", &xErr{"s"}, "nil", nil, "typed-nil", (*xErr)(nil))
	add("sliceInt", typeOf[[]int](), "non-nil", []int{1, 2}, "nil", nil, "empty", []int{})
	add("sliceByte", typeOf[[]byte](), "non-nil", []byte("ab"), "nil", nil, "non-utf8", []byte{0xff, 0})
	add("sliceString", typeOf[[]string](), "non-nil", []string{"a", ""}, "nil", nil)
	add("sliceAny", typeOf[[]any](), "non-nil", []any{1, "a"}, "nil", nil, "of-nils", []any{nil, pnil})
	add("arrayInt", typeOf[[2]int](), "value", [2]int{1, 2}, "zero", [2]int{})
	add("mapStringInt", typeOf[map[string]int](), "non-nil", map[string]int{"a": 1}, "nil", nil, "empty", map[string]int{})
	add("mapStringAny", typeOf[map[string]any](), "non-nil", map[string]any{"a": 1}, "nil", nil, "of-nil", map[string]any{"a": nil})
	add("struct", typeOf[XStruct](), "value", XStruct{1, "a"}, "zero", XStruct{})
	add("fn", typeOf[func()](), "non-nil", func() {}, "nil", nil)
	add("fnIntInt", typeOf[func(int) int](), "non-nil", func(i int) int { return i }, "nil", nil)
	add("chanInt", typeOf[chan int](), "non-nil", make(chan int), "nil", nil)
	add("complex128", typeOf[complex128](), "value", complex(1, 2), "zero", complex(0, 0))
	add("uintptr", typeOf[uintptr](), "value", uintptr(7), "zero", uintptr(0))
	add("unsafePtr", typeOf[unsafe.Pointer](), "non-nil", unsafe.Pointer(p42), "nil", nil)
	nParamX = len(out)

	multi := func(name string, ts []reflect.Type, rows ...[]any) {
		k := kindT{Name: name, T: ts[0], Fam: "x", Outs: ts}
		for _, r := range rows {
			rv := rval{C: r[0].(string)}
			for i, t := range ts {
				rv.Multi = append(rv.Multi, as(t, r[i+1]))
			}
			rv.V = rv.Multi[0]
			k.XRes = append(k.XRes, rv)
		}
		out = append(out, k)
	}
	tInt, tStr, tErr, tAny, tPI := typeOf[int](), typeOf[string](), typeOf[error](), typeOf[any](), typeOf[*int]()
	multi("intErr", []reflect.Type{tInt, tErr}, []any{"v,nil", 1, nil}, []any{"v,err", 1, errBoom}, []any{"zero,err", 0, errBoom}, []any{"v,typed-nil", 1, (*xErr)(nil)})
	multi("stringErr", []reflect.Type{tStr, tErr}, []any{"v,nil", "a", nil}, []any{"v,err", "a", errBoom}, []any{"zero,err", "", errBoom})
	multi("ptrIntErr", []reflect.Type{tPI, tErr}, []any{"v,nil", p42, nil}, []any{"nil,nil", nil, nil}, []any{"nil,err", nil, errBoom}, []any{"v,err", p42, errBoom})
	multi("anyErr", []reflect.Type{tAny, tErr}, []any{"v,nil", 42, nil}, []any{"nil,nil", nil, nil}, []any{"nil,err", nil, errBoom}, []any{"typed-nil,nil", pnil, nil})
	multi("errErr", []reflect.Type{tErr, tErr}, []any{"err,nil", errBoom, nil}, []any{"nil,nil", nil, nil}, []any{"nil,err", nil, errBoom})
	multi("intInt", []reflect.Type{tInt, tInt}, []any{"1,2", 1, 2}, []any{"0,0", 0, 0})
	multi("stringIntErr", []reflect.Type{tStr, tInt, tErr}, []any{"v,v,nil", "a", 1, nil}, []any{"v,v,err", "a", 1, errBoom})
	nResultX = len(out)

	for _, v := range []struct {
		n string
		t reflect.Type
	}{{"varInt", typeOf[[]int]()}, {"varString", typeOf[[]string]()}, {"varAny", typeOf[[]any]()}} {
		out = append(out, kindT{Name: v.n, T: v.t, Fam: "x", Variadic: true})
	}
	return out
}

// xkinds[:nParamX] can be parameter and result; xkinds[nParamX:nResultX] are several-results kinds
// (result only); xkinds[nResultX:] are variadic last parameters (parameter only).
var nParamX, nResultX int

func isX(names ...string) bool {
	for _, n := range names {
		if k := kindByName(n); k != nil && k.Fam == "x" {
			return true
		}
	}
	return false
}

// xSignatures lists the signatures with kinds outside the supported set; the same list for both
// paths (the method path keeps those the fixture FixX implements).
func xSignatures() [][]string { // parameter kinds..., result kind
	var sigs [][]string
	coreNames := []string{}
	for i := 0; i < nCore; i++ {
		coreNames = append(coreNames, kinds[i].Name)
	}
	for i := 0; i < nResultX; i++ { // as result
		x := xkinds[i].Name
		sigs = append(sigs, []string{x})
		for _, k := range coreNames {
			sigs = append(sigs, []string{k, x})
		}
	}
	for i := range xkinds { // as parameter
		if i >= nParamX && i < nResultX {
			continue
		}
		x := xkinds[i].Name
		sigs = append(sigs, []string{x, "void"}, []string{x, "int"}, []string{x, "string"}, []string{"string", x, "string"})
		if i < nParamX {
			sigs = append(sigs, []string{x, x})
			for _, k := range coreNames {
				sigs = append(sigs, []string{x, k, "int"})
			}
		}
	}
	return sigs
}
