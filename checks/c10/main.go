// C10: VM registries stay consistent under concurrent definition and lookup.
//
// Form S: one real runtime.VM is driven by 2–3 controlled goroutines issuing registry calls.
// Every interleaving at the points govis plants in package runtime (vm.mu operations and every
// access to the registry maps) is enumerated. Oracles on every execution: no panic, no logical
// data race (vector clocks; happens-before from the modelled mutex only), and linearizability:
// the observed return values must equal those of some sequential order of the same calls,
// consistent with real-time precedence, when that order is run on a fresh real VM (the
// sequential specification is the code itself, additionally bound to a small map model on all
// sequences of length <= 3).
package main

import (
	"encoding/json"
	"fmt"
	"os"
	"sort"
	"strings"
	"sync"
	"time"

	"github.com/php-any/origami/data"
	"github.com/php-any/origami/node"
	"github.com/php-any/origami/parser"
	ort "github.com/php-any/origami/runtime"

	"verif/engine/ev"
	"verif/engine/pool"
	"verif/engine/sched"
)

// ---- stubs -----------------------------------------------------------------------

type cls struct {
	node.Node
	name, label string
}

func (c *cls) GetValue(ctx data.Context) (data.GetValue, data.Control) { return nil, nil }
func (c *cls) GetName() string                                         { return c.name }
func (c *cls) GetExtend() *string                                      { return nil }
func (c *cls) GetImplements() []string                                 { return nil }
func (c *cls) GetProperty(string) (data.Property, bool)                { return nil, false }
func (c *cls) GetPropertyList() []data.Property                        { return nil }
func (c *cls) GetMethod(string) (data.Method, bool)                    { return nil, false }
func (c *cls) GetMethods() []data.Method                               { return nil }
func (c *cls) GetConstruct() data.Method                               { return nil }
func (c *cls) GetFrom() data.From                                      { return nil }

type ifc struct {
	node.Node
	name, label string
}

func (c *ifc) GetValue(ctx data.Context) (data.GetValue, data.Control) { return nil, nil }
func (c *ifc) GetName() string                                         { return c.name }
func (c *ifc) GetExtends() []string                                    { return nil }
func (c *ifc) GetMethod(string) (data.Method, bool)                    { return nil, false }
func (c *ifc) GetMethods() []data.Method                               { return nil }
func (c *ifc) GetFrom() data.From                                      { return nil }

type fn struct{ name, label string }

func (f *fn) Call(ctx data.Context) (data.GetValue, data.Control) { return nil, nil }
func (f *fn) GetName() string                                     { return f.name }
func (f *fn) GetParams() []data.GetValue                          { return nil }
func (f *fn) GetVariables() []data.Variable                       { return nil }

// ---- operations ------------------------------------------------------------------

type op struct {
	Kind string `json:"k"`
	Name string `json:"n"`
}

func (o op) String() string { return o.Kind + "(" + o.Name + ")" }

type scenario struct {
	Threads [][]op   `json:"threads"`
	Bound   int      `json:"bound"`
	Temp    bool     `json:"temp,omitempty"` // threads 1.. work through their own TempVM over the shared base
	Choices []int    `json:"choices,omitempty"`
	Sites   []string `json:"sites,omitempty"`
}

func (s scenario) String() string {
	var ts []string
	for _, t := range s.Threads {
		var os []string
		for _, o := range t {
			os = append(os, o.String())
		}
		ts = append(ts, strings.Join(os, ";"))
	}
	x := strings.Join(ts, " || ")
	if s.Temp {
		x += " [temp]"
	}
	return fmt.Sprintf("%s pb=%d", x, s.Bound)
}

func labelOf(v any) string {
	switch x := v.(type) {
	case *cls:
		return "class:" + x.label
	case *ifc:
		return "iface:" + x.label
	case *fn:
		return "func:" + x.label
	case nil:
		return "nil"
	}
	return fmt.Sprintf("%T", v)
}

// apply runs one op on vm and renders its observable result. label identifies the object a
// registration op would add.
func apply(vm data.VM, o op, label string, zvals map[*data.ZVal]int) string {
	switch o.Kind {
	case "AddClass":
		if acl := vm.AddClass(&cls{name: o.Name, label: label}); acl != nil {
			return "err"
		}
		return "ok"
	case "AddInterface":
		if acl := vm.AddInterface(&ifc{name: o.Name, label: label}); acl != nil {
			return "err"
		}
		return "ok"
	case "AddFunc":
		if acl := vm.AddFunc(&fn{name: o.Name, label: label}); acl != nil {
			return "err"
		}
		return "ok"
	case "GetClass":
		c, ok := vm.GetClass(o.Name)
		if !ok {
			return "none"
		}
		return labelOf(c)
	case "GetInterface":
		c, ok := vm.GetInterface(o.Name)
		if !ok {
			return "none"
		}
		return labelOf(c)
	case "GetFunc":
		c, ok := vm.GetFunc(o.Name)
		if !ok {
			return "none"
		}
		return labelOf(c)
	case "LoadPkg":
		c, acl := vm.LoadPkg(o.Name)
		if acl != nil {
			return "err"
		}
		if c == nil {
			return "none"
		}
		return labelOf(c)
	case "GetOrLoadClass":
		c, acl := vm.GetOrLoadClass(o.Name)
		if acl != nil {
			return "err"
		}
		if c == nil {
			return "none"
		}
		return labelOf(c)
	case "GetOrLoadInterface":
		c, acl := vm.GetOrLoadInterface(o.Name)
		if acl != nil {
			return "err"
		}
		if c == nil {
			return "none"
		}
		return labelOf(c)
	case "SetConstant":
		if acl := vm.SetConstant(o.Name, data.NewStringValue(label)); acl != nil {
			return "err"
		}
		return "ok"
	case "GetConstant":
		v, ok := vm.GetConstant(o.Name)
		if !ok {
			return "none"
		}
		return "const:" + v.AsString()
	case "EnsureGlobal":
		zv := vm.EnsureGlobalZVal(o.Name)
		if zv == nil {
			return "nil"
		}
		id, ok := zvals[zv]
		if !ok {
			id = len(zvals)
			zvals[zv] = id
		}
		return fmt.Sprintf("zval#%d", id)
	case "RegisterGlobals":
		// what LoadAndRun does for a file's top-level variables: publish the context's slot as
		// the global of that name unless one exists already
		vars := []data.Variable{node.NewVariable(nil, o.Name, 0, nil)}
		ctx := vm.CreateContext(vars)
		switch b := vm.(type) {
		case *ort.VM:
			b.RegisterGlobalContext(vars, ctx)
		default:
			return "n/a"
		}
		zv := ctx.GetIndexZVal(0)
		id, ok := zvals[zv]
		if !ok {
			id = len(zvals)
			zvals[zv] = id
		}
		return fmt.Sprintf("reg-zval#%d", id)
	case "ListClasses":
		// round 5: a listing is a value - the caller keeps it, and a later definition must not change it
		lv, ok := vm.(interface{ AllClasses() []data.ClassStmt })
		if !ok {
			return "unsupported"
		}
		l := lv.AllClasses()
		heldMu.Lock()
		held[strings.SplitN(label, ".", 2)[0]] = l
		heldMu.Unlock()
		return classNames(l)
	case "RereadClasses":
		heldMu.Lock()
		l, ok := held[strings.SplitN(label, ".", 2)[0]]
		heldMu.Unlock()
		if !ok {
			return "none"
		}
		return classNames(l)
	case "SetFile":
		vm.SetPhpFileCache("/x/" + o.Name + ".php")
		return "ok"
	case "GetFile":
		return fmt.Sprint(vm.GetPhpFileCache("/x/" + o.Name + ".php"))
	}
	panic("unknown op " + o.Kind)
}

type call struct {
	thread, idx int
	op          op
	begin, end  int
	res         string
}

type state struct {
	calls []*call
	vm    data.VM
}

// listings kept by ListClasses, per thread ("T0"); cleared before every sequential run / execution
var (
	heldMu sync.Mutex
	held   = map[string][]data.ClassStmt{}
)

func heldReset() {
	heldMu.Lock()
	held = map[string][]data.ClassStmt{}
	heldMu.Unlock()
}

func classNames(l []data.ClassStmt) string {
	ns := make([]string, len(l))
	for i, c := range l {
		if c == nil {
			ns[i] = "<nil>"
		} else {
			ns[i] = c.GetName()
		}
	}
	return strings.Join(ns, ",")
}

// listOps is the alphabet of the listing family: four definitions (a slice that grows by doubling has spare
// capacity only from the third element on), take a listing, read the kept listing again.
func listOps() []op {
	return []op{{"AddClass", "A"}, {"AddClass", "X"}, {"AddClass", "Y"}, {"AddClass", "x"}, {"ListClasses", ""}, {"RereadClasses", ""}}
}

func newVM() data.VM { return ort.NewVM(parser.NewParser()) }

func build(sc scenario) (func() []sched.Body, func() *state) {
	var st *state
	setup := func() []sched.Body {
		heldReset()
		st = &state{vm: newVM()}
		zv := map[*data.ZVal]int{}
		var bodies []sched.Body
		for ti, ops := range sc.Threads {
			ti, ops := ti, ops
			vm := st.vm
			if sc.Temp && ti > 0 {
				vm = ort.NewTempVM(st.vm)
			}
			bodies = append(bodies, func(t *sched.Thread) {
				for j, o := range ops {
					c := &call{thread: ti, idx: j, op: o, begin: t.Stamp()}
					st.calls = append(st.calls, c) // appended at invocation
					c.res = apply(vm, o, fmt.Sprintf("T%d.%d", ti, j), zv)
					c.end = t.Stamp()
				}
			})
		}
		return bodies
	}
	return setup, func() *state { return st }
}

// seqRun runs the calls in the given order on a fresh VM, uncontrolled.
func seqRun(sc scenario, order [][2]int) []string {
	heldReset()
	vm := newVM()
	temps := map[int]data.VM{}
	zv := map[*data.ZVal]int{}
	out := make([]string, len(order))
	for i, c := range order {
		v := vm
		if sc.Temp && c[0] > 0 {
			if temps[c[0]] == nil {
				temps[c[0]] = ort.NewTempVM(vm)
			}
			v = temps[c[0]]
		}
		out[i] = apply(v, sc.Threads[c[0]][c[1]], fmt.Sprintf("T%d.%d", c[0], c[1]), zv)
	}
	return out
}

// linearizable searches a sequential witness. zval ids are first-seen numbered in both runs, so
// they are compared as equivalence classes (same id <=> same pointer) after renumbering by
// call position.
func linearizable(sc scenario, st *state, cache map[string][]string) (bool, string) {
	n := len(st.calls)
	idx := make([]int, n)
	for i := range idx {
		idx[i] = i
	}
	obs := map[[2]int]string{}
	for _, c := range st.calls {
		obs[[2]int{c.thread, c.idx}] = c.res
	}
	var perm []int
	used := make([]bool, n)
	var try func() bool
	var witness string
	try = func() bool {
		if len(perm) == n {
			order := make([][2]int, n)
			for i, p := range perm {
				order[i] = [2]int{st.calls[p].thread, st.calls[p].idx}
			}
			key := fmt.Sprint(order)
			res, ok := cache[key]
			if !ok {
				res = seqRun(sc, order)
				cache[key] = res
			}
			// compare, with zval ids canonicalised per run
			canon := func(get func(i int) string) []string {
				m := map[string]int{}
				out := make([]string, n)
				for i := 0; i < n; i++ {
					r := get(i)
					if strings.HasPrefix(r, "reg-zval#") {
						r = "reg-" + r[len("reg-"):]
					}
					if i := strings.Index(r, "zval#"); i >= 0 {
						r = r[i:]
					}
					if strings.HasPrefix(r, "zval#") {
						id, ok := m[r]
						if !ok {
							id = len(m)
							m[r] = id
						}
						r = fmt.Sprintf("zval~%d", id)
					}
					out[i] = r
				}
				return out
			}
			a := canon(func(i int) string { return res[i] })
			b := canon(func(i int) string { return obs[order[i]] })
			for i := range a {
				if a[i] != b[i] {
					return false
				}
			}
			witness = key
			return true
		}
		for i := 0; i < n; i++ {
			if used[i] {
				continue
			}
			// i may come next only if no unused call j must precede it
			ok := true
			for j := 0; j < n; j++ {
				if j == i || used[j] {
					continue
				}
				cj, ci := st.calls[j], st.calls[i]
				// program order, or real-time precedence (strict: equal stamps may overlap)
				if (cj.thread == ci.thread && cj.idx < ci.idx) || (cj.thread != ci.thread && cj.end < ci.begin) {
					ok = false
					break
				}
			}
			if !ok {
				continue
			}
			used[i] = true
			perm = append(perm, i)
			if try() {
				return true
			}
			perm = perm[:len(perm)-1]
			used[i] = false
		}
		return false
	}
	ok := try()
	return ok, witness
}

type rec struct {
	Kind     string   `json:"kind"`
	Scenario scenario `json:"scenario"`
	Execs    int64    `json:"execs,omitempty"`
	Complete bool     `json:"complete,omitempty"`
	Stop     string   `json:"stop,omitempty"`
	Outcomes int      `json:"outcomes,omitempty"`
	Overlap  int64    `json:"overlap,omitempty"`
	Key      string   `json:"key,omitempty"`
	Clause   string   `json:"clause,omitempty"`
	Detail   string   `json:"detail,omitempty"`
	Size     int      `json:"size,omitempty"`
	Case     any      `json:"case,omitempty"`
	Sample   any      `json:"sample,omitempty"`
	SeqN     int64    `json:"seqn,omitempty"`
}

func opKinds(sc scenario) string {
	var ks []string
	seen := map[string]bool{}
	for _, t := range sc.Threads {
		for _, o := range t {
			if !seen[o.Kind] {
				seen[o.Kind] = true
				ks = append(ks, o.Kind)
			}
		}
	}
	sort.Strings(ks)
	return strings.Join(ks, "+")
}

func exploreOne(w *pool.W, sc scenario, deadline time.Time) {
	setup, get := build(sc)
	outcomes := map[string]bool{}
	seen := map[string]bool{}
	cache := map[string][]string{}
	var overlap int64
	cfg := &sched.Config{Name: sc.String(), Bound: sc.Bound, Setup: setup, Deadline: deadline}
	emit := func(x *sched.Exec, key, clause, detail string) {
		if seen[key] {
			return
		}
		seen[key] = true
		cs := sc
		cs.Choices = x.Choices()
		cs.Sites = sched.RelevantSites()
		nops := 0
		for _, t := range sc.Threads {
			nops += len(t)
		}
		w.Emit(rec{Kind: "fail", Scenario: sc, Key: key, Clause: clause, Size: nops*10000 + len(x.Events), Case: cs,
			Detail: detail + "\nscenario: " + sc.String() + "\nschedule: " + strings.Join(x.Schedule(), " ")})
	}
	cfg.Check = func(x *sched.Exec) {
		st := get()
		var rs []string
		for _, c := range st.calls {
			rs = append(rs, fmt.Sprintf("T%d.%d=%s", c.thread, c.idx, c.res))
		}
		sort.Strings(rs)
		o := strings.Join(rs, ",")
		for _, t := range x.Threads {
			if t.Panic != "" {
				o += " !" + t.PanicKey
			}
		}
		outcomes[o] = true
		if x.Stuck != "" {
			emit(x, "stuck", "harness", x.Stuck)
			return
		}
		// vacuity: were two calls ever in flight at the same time?
		for i, a := range st.calls {
			for _, b := range st.calls[i+1:] {
				if a.thread != b.thread && a.begin < b.end && b.begin < a.end {
					overlap++
				}
			}
		}
		crashed := false
		for _, t := range x.Threads {
			if t.Panic != "" {
				crashed = true
				emit(x, t.PanicKey, "no-crash", "thread panicked: "+t.Panic)
			}
		}
		for _, r := range x.Races {
			a, b := sched.SiteStable(r.SiteA), sched.SiteStable(r.SiteB)
			if b < a {
				a, b = b, a
			}
			emit(x, "race:"+a+"/"+b, "no-data-race", fmt.Sprintf("%s race: %s then %s (not ordered by any lock)", r.Kind, r.SiteA, r.SiteB))
		}
		if x.Deadlock {
			emit(x, "deadlock:"+opKinds(sc), "no-deadlock", "threads left parked")
		}
		if crashed || x.Deadlock || x.Horizon {
			return
		}
		if ok, _ := linearizable(sc, st, cache); !ok {
			emit(x, "nonlinearizable:"+opKinds(sc), "sequential-witness", "no sequential order of the calls (respecting real-time order) yields the observed results: "+o)
		}
	}
	st := sched.Explore(cfg)
	w.Emit(rec{Kind: "done", Scenario: sc, Execs: st.Execs, Complete: st.Complete, Stop: st.StopReason, Outcomes: len(outcomes), Overlap: overlap})
}

type batch struct {
	Scenarios []scenario `json:"scenarios"`
	BudgetSec int        `json:"budget"`
}

func exploreBatch(w *pool.W, arg json.RawMessage) {
	var b batch
	json.Unmarshal(arg, &b)
	deadline := time.Now().Add(time.Duration(b.BudgetSec) * time.Second)
	for _, sc := range b.Scenarios {
		if !w.Item(sc.String()) {
			continue
		}
		exploreOne(w, sc, deadline)
	}
}

// ---- sequential model binding --------------------------------------------------------

type mstate struct {
	classes, ifaces, funcs, consts map[string]string
	globals                        map[string]int
	files                          map[string]bool
	nextZ                          int
	held                           string
	hasHeld                        bool
}

func newM() *mstate {
	return &mstate{map[string]string{}, map[string]string{}, map[string]string{}, map[string]string{}, map[string]int{}, map[string]bool{}, 0, "", false}
}

func (m *mstate) apply(o op, label string) string {
	switch o.Kind {
	case "AddClass":
		if _, ok := m.classes[o.Name]; ok {
			return "err"
		}
		if _, ok := m.ifaces[o.Name]; ok {
			return "err"
		}
		m.classes[o.Name] = label
		return "ok"
	case "AddInterface":
		if _, ok := m.classes[o.Name]; ok {
			return "err"
		}
		if _, ok := m.ifaces[o.Name]; ok {
			return "err"
		}
		m.ifaces[o.Name] = label
		return "ok"
	case "AddFunc":
		if _, ok := m.funcs[o.Name]; ok {
			return "err"
		}
		m.funcs[o.Name] = label
		return "ok"
	case "GetClass":
		if l, ok := m.classes[o.Name]; ok {
			return "class:" + l
		}
		// case-insensitive fallback; ambiguous only with >= 2 fold matches, which the
		// alphabet (X, x, Y) cannot produce for a missing exact name
		for k, l := range m.classes {
			if strings.EqualFold(k, o.Name) {
				return "class:" + l
			}
		}
		return "none"
	case "GetInterface":
		if l, ok := m.ifaces[o.Name]; ok {
			return "iface:" + l
		}
		return "none"
	case "GetFunc":
		if l, ok := m.funcs[o.Name]; ok {
			return "func:" + l
		}
		// a fully-qualified spelling (\name) falls back to the bare name
		if strings.HasPrefix(o.Name, "\\") {
			if l, ok := m.funcs[o.Name[1:]]; ok {
				return "func:" + l
			}
		}
		return "none"
	case "LoadPkg":
		for _, n := range []string{strings.TrimPrefix(o.Name, "\\"), o.Name} {
			if l, ok := m.classes[n]; ok {
				return "class:" + l
			}
			if l, ok := m.ifaces[n]; ok {
				return "iface:" + l
			}
		}
		return "err" // unknown name: the class-path manager reports "cannot be loaded"
	case "GetOrLoadClass":
		n := strings.TrimPrefix(o.Name, "\\")
		if l, ok := m.classes[n]; ok {
			return "class:" + l
		}
		for k, l := range m.classes {
			if strings.EqualFold(k, n) {
				return "class:" + l
			}
		}
		return "err" // nothing on the class path in this harness: unknown names fail to load
	case "GetOrLoadInterface":
		n := strings.TrimPrefix(o.Name, "\\")
		if l, ok := m.ifaces[n]; ok {
			return "iface:" + l
		}
		return "err"
	case "SetConstant":
		if _, ok := m.consts[o.Name]; ok {
			return "err"
		}
		m.consts[o.Name] = label
		return "ok"
	case "GetConstant":
		if l, ok := m.consts[o.Name]; ok {
			return "const:" + l
		}
		return "none"
	case "EnsureGlobal":
		id, ok := m.globals[o.Name]
		if !ok {
			id = m.nextZ
			m.nextZ++
			m.globals[o.Name] = id
		}
		return fmt.Sprintf("zval#%d", id)
	case "RegisterGlobals":
		// the context's own slot gets a fresh identity; it becomes the global only if none exists
		id := m.nextZ
		m.nextZ++
		if _, ok := m.globals[o.Name]; !ok {
			m.globals[o.Name] = id
		}
		return fmt.Sprintf("reg-zval#%d", id)
	case "ListClasses":
		var ns []string
		for n := range m.classes {
			ns = append(ns, n)
		}
		sort.Strings(ns)
		m.held, m.hasHeld = strings.Join(ns, ","), true
		return m.held
	case "RereadClasses":
		if !m.hasHeld {
			return "none"
		}
		return m.held
	case "SetFile":
		m.files[o.Name] = true
		return "ok"
	case "GetFile":
		return fmt.Sprint(m.files[o.Name])
	}
	panic("model: " + o.Kind)
}

var allKinds = []string{"AddClass", "AddInterface", "AddFunc", "GetClass", "GetInterface", "GetFunc", "LoadPkg", "GetOrLoadClass", "GetOrLoadInterface", "SetConstant", "GetConstant", "EnsureGlobal", "RegisterGlobals", "SetFile", "GetFile"}
var names = []string{"X", "x", "Y"}

// lookups that accept a fully-qualified spelling also get "\\X" (never registered under that spelling)
var fqKinds = map[string]bool{"GetFunc": true, "LoadPkg": true, "GetOrLoadClass": true, "GetOrLoadInterface": true}

func allOps() []op {
	var out []op
	for _, k := range allKinds {
		for _, n := range names {
			out = append(out, op{k, n})
		}
		if fqKinds[k] {
			out = append(out, op{k, "\\X"})
		}
	}
	return out
}

type seqShard struct {
	First int  `json:"first"`
	Len   int  `json:"len"`
	List  bool `json:"list,omitempty"` // listing family: alphabet listOps()
}

func seqBind(w *pool.W, arg json.RawMessage) {
	var sh seqShard
	json.Unmarshal(arg, &sh)
	ops := allOps()
	if sh.List {
		ops = listOps()
	}
	if !w.Item(fmt.Sprint("seq", sh)) {
		return
	}
	var n int64
	seq := make([]op, sh.Len)
	var rec_ func(pos int)
	failed := map[string]bool{}
	rec_ = func(pos int) {
		if pos == sh.Len {
			n++
			sc := scenario{Threads: [][]op{seq}}
			order := make([][2]int, sh.Len)
			for i := range order {
				order[i] = [2]int{0, i}
			}
			real := seqRun(sc, order)
			m := newM()
			for i, o := range seq {
				exp := m.apply(o, fmt.Sprintf("T0.%d", i))
				if exp != real[i] {
					key := "sequential-spec:" + o.Kind
					if !failed[key] {
						failed[key] = true
						w.Emit(rec{Kind: "fail", Key: key, Clause: "sequential-spec", Size: sh.Len, Case: scenario{Threads: [][]op{append([]op{}, seq...)}}, Detail: fmt.Sprintf("sequence %v: call %d expected %s observed %s", seq, i, exp, real[i])})
					}
					break
				}
			}
			return
		}
		for i, o := range ops {
			if pos == 0 && i != sh.First {
				continue
			}
			seq[pos] = o
			rec_(pos + 1)
		}
	}
	if sh.Len == 0 {
		return
	}
	rec_(0)
	w.Emit(rec{Kind: "seqdone", SeqN: n})
}

// ---- scenario generation ----------------------------------------------------------------

func scenarios(quick bool) []scenario {
	var out []scenario
	ops := allOps()
	// (1) all unordered pairs of single ops: 2 threads x 1 op, unbounded
	for i := range ops {
		for j := i; j < len(ops); j++ {
			out = append(out, scenario{Threads: [][]op{{ops[i]}, {ops[j]}}, Bound: -1})
		}
	}
	// (2) families of conflicting ops: 3 threads x 1 op and 2 threads x 2 ops, preemption bound 2 (3 thorough)
	pb := 2
	if !quick {
		pb = 3
	}
	fam := [][]op{
		{{"AddClass", "X"}, {"AddClass", "x"}, {"AddInterface", "X"}, {"GetClass", "X"}, {"GetClass", "x"}, {"LoadPkg", "X"}, {"GetInterface", "X"}, {"GetOrLoadClass", "\\X"}},
		{{"AddFunc", "X"}, {"AddFunc", "Y"}, {"GetFunc", "X"}, {"GetFunc", "\\X"}},
		{{"SetConstant", "X"}, {"SetConstant", "Y"}, {"GetConstant", "X"}},
		{{"EnsureGlobal", "X"}, {"EnsureGlobal", "Y"}, {"RegisterGlobals", "X"}},
		{{"SetFile", "X"}, {"GetFile", "X"}, {"SetFile", "Y"}},
		{{"AddClass", "X"}, {"AddFunc", "X"}, {"SetConstant", "X"}, {"EnsureGlobal", "X"}, {"GetClass", "X"}},
	}
	for _, f := range fam {
		// 3 x 1: multisets of size 3
		for a := 0; a < len(f); a++ {
			for b := a; b < len(f); b++ {
				for c := b; c < len(f); c++ {
					out = append(out, scenario{Threads: [][]op{{f[a]}, {f[b]}, {f[c]}}, Bound: pb})
				}
			}
		}
		// 2 x 2: ordered pairs per thread, unordered between threads
		var pairs [][]op
		for a := range f {
			for b := range f {
				pairs = append(pairs, []op{f[a], f[b]})
			}
		}
		for i := range pairs {
			for j := i; j < len(pairs); j++ {
				out = append(out, scenario{Threads: [][]op{pairs[i], pairs[j]}, Bound: pb})
			}
		}
	}
	// (3) request-style: TempVM threads over a shared base (HotHandler shape)
	tf := []op{{"AddClass", "X"}, {"GetClass", "X"}, {"LoadPkg", "X"}, {"GetFunc", "X"}, {"SetConstant", "X"}, {"GetConstant", "X"}, {"EnsureGlobal", "X"}, {"AddFunc", "X"}}
	for a := range tf {
		for b := range tf {
			out = append(out, scenario{Threads: [][]op{{tf[a]}, {tf[b]}}, Bound: -1, Temp: true})
			if !quick {
				for c := range tf {
					out = append(out, scenario{Threads: [][]op{{tf[a]}, {tf[b]}, {tf[c]}}, Bound: 2, Temp: true})
				}
			}
		}
	}
	return out
}

func main() {
	if pool.IsWorker() {
		pool.Serve(map[string]pool.Handler{"batch": exploreBatch, "seq": seqBind})
	}
	c := ev.New("C10")
	if c.Replay != "" {
		replay(c)
		return
	}
	budget := 240
	if !c.Quick() {
		budget = 1500
	}
	scs := scenarios(c.Quick())
	var shards []pool.Shard
	// sequential model binding: all sequences of length <= 2 (quick) / 3 (thorough)
	maxSeq := 2
	if !c.Quick() {
		maxSeq = 3
	}
	for l := 1; l <= maxSeq; l++ {
		for f := range allOps() {
			shards = append(shards, pool.Shard{Kind: "seq", Arg: seqShard{First: f, Len: l}})
		}
	}
	// listing family: every sequence of <= 6 operations over listOps() against the model (a kept listing never changes)
	for l := 1; l <= 6; l++ {
		for f := range listOps() {
			shards = append(shards, pool.Shard{Kind: "seq", Arg: seqShard{First: f, Len: l, List: true}})
		}
	}
	// spread scenarios round-robin over batches so that heavy families are distributed
	nb := 128
	batches := make([]batch, nb)
	for i, s := range scs {
		batches[i%nb].Scenarios = append(batches[i%nb].Scenarios, s)
	}
	for i := range batches {
		batches[i].BudgetSec = budget
		shards = append(shards, pool.Shard{Kind: "batch", Arg: batches[i]})
	}
	var execs, seqn, overlap int64
	complete, stopped, outcomes := 0, 0, 0
	pool.Run(shards, pool.Options{HangTimeout: time.Duration(budget+120) * time.Second}, func(si int, rb json.RawMessage) {
		var r rec
		json.Unmarshal(rb, &r)
		switch r.Kind {
		case "fail":
			c.Fail(r.Key, r.Clause, r.Size, r.Case, r.Detail)
		case "seqdone":
			seqn += r.SeqN
		case "done":
			execs += r.Execs
			overlap += r.Overlap
			outcomes += r.Outcomes
			if r.Complete {
				complete++
			} else {
				stopped++
				c.NotExhaustive(fmt.Sprintf("%d scenarios stopped by the deadline (e.g. %s after %d executions)", stopped, r.Scenario, r.Execs))
			}
			if r.Outcomes > 1 {
				c.Outcome(fmt.Sprintf("%d-outcomes", r.Outcomes))
				if len(r.Scenario.Threads) == 2 {
					c.Sample(map[string]any{"scenario": r.Scenario.String(), "executions": r.Execs, "distinct_outcomes": r.Outcomes})
				}
			}
		}
	}, func(d pool.Death) {
		c.Fail("worker-death:"+firstLine(d.Stderr), "no-crash", 0, map[string]any{"item": d.Item, "reason": d.Reason}, d.Stderr)
	})
	c.Set("scenarios", len(scs))
	c.Set("scenarios_complete", complete)
	c.Set("scenarios_stopped_by_deadline", stopped)
	c.Set("sequential_model_binding_sequences", seqn)
	c.Set("pairs_of_calls_simultaneously_in_flight", overlap)
	c.Assume("interleavings are explored at the instrumented points of package runtime (mutex operations and registry-map accesses); 4-16 threads and 10^2-10^4 calls are outside any exhaustive bound (small-scope hypothesis)")
	c.Assume("call-depth and exception-handler counters of the VM are not registry state and are not checked")
	if overlap == 0 {
		c.HarnessError("vacuous: no two calls were ever in flight together")
	}
	_ = os.Getenv
	c.Finish(int64(outcomes), execs+seqn, execs+seqn, "all 2x1 op pairs over 12 op kinds x 3 names unbounded; 3x1 and 2x2 over conflicting families preemption-bounded; TempVM-over-base pairs; every execution race-checked and matched against a sequential witness run on the real VM; states = sum over scenarios of distinct outcome vectors")
}

func firstLine(s string) string {
	for _, l := range strings.Split(s, "\n") {
		if strings.HasPrefix(l, "fatal error:") || strings.HasPrefix(l, "panic:") {
			return strings.ReplaceAll(l, " ", "-")
		}
	}
	return "unknown"
}

func replay(c *ev.Check) {
	var sc scenario
	_, err := ev.LoadReplay(c.Replay, &sc)
	if err != nil {
		fmt.Println("replay:", err)
		return
	}
	setup, get := build(sc)
	cfg := &sched.Config{Name: sc.String(), Bound: -1, Setup: setup}
	var first string
	for i := 0; i < 2; i++ {
		x, err := sched.Replay(cfg, sc.Choices, sc.Sites)
		if err != nil {
			c.HarnessError("%v", err)
			break
		}
		st := get()
		var rs []string
		for _, cl := range st.calls {
			rs = append(rs, fmt.Sprintf("T%d.%d %s=%s", cl.thread, cl.idx, cl.op, cl.res))
		}
		o := strings.Join(rs, ", ")
		if i == 0 {
			first = o
			fmt.Println("schedule:", strings.Join(x.Schedule(), " "))
			fmt.Println("results:", o)
			for _, t := range x.Threads {
				if t.Panic != "" {
					c.Fail(t.PanicKey, "no-crash", 0, sc, t.Panic)
				}
			}
			for _, r := range x.Races {
				a, b := sched.SiteStable(r.SiteA), sched.SiteStable(r.SiteB)
				if b < a {
					a, b = b, a
				}
				fmt.Printf("  %s race %s / %s\n", r.Kind, r.SiteA, r.SiteB)
				c.Fail("race:"+a+"/"+b, "no-data-race", 0, sc, r.Kind)
			}
			if ok, _ := linearizable(sc, st, map[string][]string{}); !ok {
				fmt.Println("  not linearizable")
				c.Fail("nonlinearizable:"+opKinds(sc), "sequential-witness", 0, sc, o)
			}
		} else if o != first {
			c.HarnessError("replay is not deterministic: %q vs %q", first, o)
		}
	}
	c.Finish(1, 2, 2, "replay")
}
