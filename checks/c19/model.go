package main

// Operation alphabet, script printer and the per-instance reference model of C19.
//
// A history is a list of ops over generic classes Box<T> and Pair<K,V>:
//   new  G<args…>                       creates instance #n (n = number of earlier `new`s)
//   write #i.member = value  (route)    typed write through a property store ("prop") or through a
//                                        method whose body stores its argument into the typed property ("meth")
// The model knows nothing about order: an instance accepts a value iff the value's kind equals the
// type argument bound to the written member's type parameter *in that instance*.

import (
	"fmt"
	"strings"
)

type Op struct {
	New  bool     `json:"new,omitempty"`
	G    string   `json:"g,omitempty"`    // "Box" | "Pair"
	Args []string `json:"args,omitempty"` // type-argument kinds
	// nested instantiation: Form "ctor" `new G<Args>(new G2<Args2>())`, "short" `G<Args>(G2<Args2>())`,
	// "chain" `new G<Args>()->take(new G2<Args2>())`. Such an op creates TWO instances: the outer one
	// (#n) and the inner one (#n+1, fetched back through $outer->inner).
	Form   string   `json:"form,omitempty"`
	G2     string   `json:"g2,omitempty"`
	Args2  []string `json:"args2,omitempty"`
	Raw    string   `json:"raw,omitempty"` // "raw": `new G()` without type arguments; "sub": `new AnyG()`, AnyG a plain subclass of the generic
	Inst   int      `json:"inst"`          // write: target instance (creation index)
	Member string   `json:"member,omitempty"`
	Route  string   `json:"route,omitempty"` // "prop" | "meth"
	Val    string   `json:"val,omitempty"`   // value kind
}

func (o Op) String() string {
	if o.New {
		switch o.Raw {
		case "raw":
			return "new " + o.G + "()"
		case "sub":
			return "new Any" + o.G + "()"
		}
		outer := o.G + "<" + strings.Join(o.Args, ",") + ">"
		inner := o.G2 + "<" + strings.Join(o.Args2, ",") + ">"
		switch o.Form {
		case "ctor":
			return "new " + outer + "(new " + inner + ")"
		case "short":
			return outer + "(" + inner + "())"
		case "chain":
			return "new " + outer + "->take(new " + inner + ")"
		}
		return "new " + outer
	}
	if o.Route == "meth" {
		return fmt.Sprintf("#%d.set_%s(%s)", o.Inst, o.Member, o.Val)
	}
	return fmt.Sprintf("#%d.%s=%s", o.Inst, o.Member, o.Val)
}

// creates is the number of instances an op adds (nested instantiations add the inner one too).
func (o Op) creates() int {
	if !o.New {
		return 0
	}
	if o.Form != "" {
		return 2
	}
	return 1
}

// instGenerics lists the generic class of every live instance, in creation order.
func instGenerics(seq []Op) []string {
	var gs []string
	for _, o := range seq {
		if o.New {
			gs = append(gs, o.G)
			if o.Form != "" {
				gs = append(gs, o.G2)
			}
		}
	}
	return gs
}

func seqString(s []Op) string {
	p := make([]string, len(s))
	for i, o := range s {
		p[i] = o.String()
	}
	return strings.Join(p, "; ")
}

// kinds, ordered by "simplicity" (used by the reducer: smaller index = simpler)
var allKinds = []string{"int", "string", "array", "U", "W"}

func kindRank(k string) int {
	for i, x := range allKinds {
		if x == k {
			return i
		}
	}
	return 99
}

// members of each generic class, in type-parameter order
var members = map[string][]string{"Box": {"v"}, "Pair": {"k", "v"}}

type alpha struct {
	Generics []string // generic classes that may be instantiated
	Types    []string // kinds usable as type arguments
	Vals     []string // kinds of written values
	Routes   []string
	Nested   bool // also nested instantiations (ctor / short / chain forms) with every inner G2<Args2>
	Raw      bool // also `new G()` without type arguments and `new AnyG()` (class AnyG extends G {})
}

// concretisation (seed-dependent): identifier names and literal pools; the shape space is unchanged.
type concr struct {
	box, pair, u, w string
	inst            string
	ints            []string
	strs            []string
	arrs            []string
}

func newConcr(seed int64) concr {
	sfx := ""
	if seed != 0 {
		sfx = fmt.Sprintf("%d", seed%97)
	}
	ints := []string{"7", "0", "-3", "41"}
	strs := []string{`"s"`, `"abc"`, `"x y"`, `""`}
	arrs := []string{"[1]", "[]", `["a"]`, "[1,2]"}
	r := int(seed % 4)
	if r < 0 {
		r = -r
	}
	return concr{box: "Box" + sfx, pair: "Pair" + sfx, u: "U" + sfx, w: "W" + sfx, inst: "i" + sfx + "_",
		ints: ints[r:], strs: strs[r:], arrs: arrs[r:]}
}

func (c concr) typeName(k string) string {
	switch k {
	case "U":
		return c.u
	case "W":
		return c.w
	}
	return k
}

// literal returns source text and the json_encode rendering of a value of kind k.
func (c concr) literal(k string) (src, js string) {
	switch k {
	case "int":
		return c.ints[0], c.ints[0]
	case "string":
		return c.strs[0], c.strs[0]
	case "array":
		return c.arrs[0], c.arrs[0]
	case "U":
		return "new " + c.u + "()", `{"n":1}`
	case "W":
		return "new " + c.w + "()", `{"n":2}`
	}
	panic("kind " + k)
}

func (c concr) prelude() string {
	var sb strings.Builder
	fmt.Fprintf(&sb, "class %s { public $n = 1; }\n", c.u)
	fmt.Fprintf(&sb, "class %s { public $n = 2; }\n", c.w)
	fmt.Fprintf(&sb, "class %s<T> {\n  public T $v;\n  public $inner = null;\n  public function __construct($inner = null) { $this->inner = $inner; }\n  public function take($x) { $this->inner = $x; return $this; }\n  public function set_v(T $x) { $this->v = $x; return 1; }\n}\n", c.box)
	fmt.Fprintf(&sb, "class %s<K, V> {\n  public K $k;\n  public V $v;\n  public $inner = null;\n  public function __construct($inner = null) { $this->inner = $inner; }\n  public function take($x) { $this->inner = $x; return $this; }\n  public function set_k(K $x) { $this->k = $x; return 1; }\n  public function set_v(V $x) { $this->v = $x; return 1; }\n}\n", c.pair)
	fmt.Fprintf(&sb, "class Any%s extends %s { }\nclass Any%s extends %s { }\n", c.box, c.box, c.pair, c.pair)
	return sb.String()
}

// script prints one line per op: "N" for a successful new ("X" if it threw), and for a write
// "A:<json of the member>" if the write was accepted, "R:<json of the member>" if it threw.
func (c concr) script(seq []Op) string {
	var sb strings.Builder
	sb.WriteString(c.prelude())
	n := 0
	for _, o := range seq {
		if o.New {
			g := c.box
			if o.G == "Pair" {
				g = c.pair
			}
			ta := make([]string, len(o.Args))
			for i, a := range o.Args {
				ta[i] = c.typeName(a)
			}
			cls := g + "<" + strings.Join(ta, ", ") + ">"
			switch o.Raw {
			case "raw":
				cls = g
			case "sub":
				cls = "Any" + g
			}
			if o.Form != "" {
				g2 := c.box
				if o.G2 == "Pair" {
					g2 = c.pair
				}
				tb := make([]string, len(o.Args2))
				for i, a := range o.Args2 {
					tb[i] = c.typeName(a)
				}
				in := g2 + "<" + strings.Join(tb, ", ") + ">"
				expr := ""
				switch o.Form {
				case "ctor":
					expr = "new " + cls + "(new " + in + "())"
				case "short":
					expr = cls + "(" + in + "())"
				case "chain":
					expr = "new " + cls + "()->take(new " + in + "())"
				}
				fmt.Fprintf(&sb, "try { $%s%d = %s; $%s%d = $%s%d->inner; echo \"N\\n\"; } catch (Throwable $e) { echo \"X\\n\"; }\n", c.inst, n, expr, c.inst, n+1, c.inst, n)
				n += 2
				continue
			}
			fmt.Fprintf(&sb, "try { $%s%d = new %s(); echo \"N\\n\"; } catch (Throwable $e) { echo \"X\\n\"; }\n", c.inst, n, cls)
			n++
			continue
		}
		lit, _ := c.literal(o.Val)
		v := fmt.Sprintf("$%s%d", c.inst, o.Inst)
		var stmt string
		if o.Route == "meth" {
			stmt = fmt.Sprintf("%s->set_%s(%s);", v, o.Member, lit)
		} else {
			stmt = fmt.Sprintf("%s->%s = %s;", v, o.Member, lit)
		}
		fmt.Fprintf(&sb, "try { %s echo \"A\"; } catch (Throwable $e) { echo \"R\"; } echo \":\", json_encode(%s->%s), \"\\n\";\n", stmt, v, o.Member)
	}
	return sb.String()
}

// ---- reference model ---------------------------------------------------------------------

type instance struct {
	g      string
	bind   map[string]string // member -> kind of its type argument
	stored map[string]string // member -> json of the stored value
}

// expect returns the expected output lines; ok=false if the sequence is ill-formed.
func (c concr) expect(seq []Op) (lines []string, ok bool) {
	var live []*instance
	for _, o := range seq {
		if o.New {
			ms := members[o.G]
			if o.Raw == "" && len(ms) != len(o.Args) || o.Raw != "" && len(o.Args) != 0 {
				return nil, false
			}
			in := &instance{g: o.G, bind: map[string]string{}, stored: map[string]string{}}
			for i, m := range ms {
				if o.Raw != "" {
					// no type argument was given: what such an object accepts is not part of the
					// statement; its writes are run (they touch the shared template) but not judged
					in.bind[m] = "*"
				} else {
					in.bind[m] = o.Args[i]
				}
				in.stored[m] = "null"
			}
			live = append(live, in)
			if o.Form != "" {
				ms2 := members[o.G2]
				if o.Raw != "" || len(ms2) == 0 || len(ms2) != len(o.Args2) {
					return nil, false
				}
				in2 := &instance{g: o.G2, bind: map[string]string{}, stored: map[string]string{}}
				for i, m := range ms2 {
					in2.bind[m] = o.Args2[i]
					in2.stored[m] = "null"
				}
				live = append(live, in2)
			}
			lines = append(lines, "N")
			continue
		}
		if o.Inst < 0 || o.Inst >= len(live) {
			return nil, false
		}
		in := live[o.Inst]
		own, has := in.bind[o.Member]
		if !has {
			return nil, false
		}
		if own == "*" {
			lines = append(lines, "*")
			continue
		}
		// the whole oracle: an instance accepts exactly the kind of its own type argument
		if own == o.Val {
			_, js := c.literal(o.Val)
			in.stored[o.Member] = js
			lines = append(lines, "A:"+js)
		} else {
			lines = append(lines, "R:"+in.stored[o.Member])
		}
	}
	return lines, true
}

func typedNews(a alpha) []Op {
	var out []Op
	for _, g := range a.Generics {
		if len(members[g]) == 1 {
			for _, t := range a.Types {
				out = append(out, Op{New: true, G: g, Args: []string{t}})
			}
		} else {
			for _, t1 := range a.Types {
				for _, t2 := range a.Types {
					out = append(out, Op{New: true, G: g, Args: []string{t1, t2}})
				}
			}
		}
	}
	return out
}

// successors appends every op that may follow seq under alphabet a.
func successors(seq []Op, a alpha, out []Op) []Op {
	out = out[:0]
	plain := typedNews(a)
	out = append(out, plain...)
	if a.Nested {
		for _, form := range []string{"ctor", "short", "chain"} {
			for _, o := range plain {
				for _, in := range plain {
					// the `new`-less short form is only parsed for one type argument (`Pair<int,int>()`
					// reads as comparisons — a syntax limit, not C19's subject)
					if form == "short" && (o.G != "Box" || in.G != "Box") {
						continue
					}
					out = append(out, Op{New: true, G: o.G, Args: o.Args, Form: form, G2: in.G, Args2: in.Args})
				}
			}
		}
	}
	if a.Raw {
		for _, g := range a.Generics {
			out = append(out, Op{New: true, G: g, Raw: "raw"}, Op{New: true, G: g, Raw: "sub"})
		}
	}
	for n, g := range instGenerics(seq) {
		for _, m := range members[g] {
			for _, r := range a.Routes {
				for _, v := range a.Vals {
					out = append(out, Op{Inst: n, Member: m, Route: r, Val: v})
				}
			}
		}
	}
	return out
}
