package main

// Operation alphabet, script printer and the per-instance reference model of C19.
//
// A history is a list of ops over generic classes Box<T> and Pair<K,V>:
//   new  G<args…>                       creates instance #n (n = number of earlier `new`s)
//   write #i.member = value  (route)    typed write through a property store ("prop") or through a
//                                        method whose body stores its argument into the typed property ("meth")
// The model knows nothing about order: an instance accepts a value iff the value's kind equals the
// type argument bound to the written member's type parameter *in that instance*.

import (
	"fmt"
	"strings"
)

type Op struct {
	New  bool     `json:"new,omitempty"`
	G    string   `json:"g,omitempty"`    // "Box" | "Pair"
	Args []string `json:"args,omitempty"` // type-argument kinds
	// nested instantiation: Form "ctor" `new G<Args>(new G2<Args2>())`, "short" `G<Args>(G2<Args2>())`,
	// "chain" `new G<Args>()->take(new G2<Args2>())`. Such an op creates TWO instances: the outer one
	// (#n) and the inner one (#n+1, fetched back through $outer->inner).
	Form  string   `json:"form,omitempty"`
	G2    string   `json:"g2,omitempty"`
	Args2 []string `json:"args2,omitempty"`
	Raw   string   `json:"raw,omitempty"` // "raw": `new G()` without type arguments; "sub": `new AnyG()`, AnyG a plain subclass of the generic
	// Vis: visibility of the members declared with the type parameter in the generic class this op instantiates:
	// "" public (class Box / Pair), "prot" protected (ProtBox / ProtPair), "priv" private (PrivBox / PrivPair).
	// One history uses one visibility (the class variants differ in nothing else).
	Vis    string `json:"vis,omitempty"`
	Inst   int    `json:"inst"` // write: target instance (creation index)
	Member string `json:"member,omitempty"`
	// Route = the code that executes the store `$target->member = value` (see routeRank for the list);
	// the agent routes run it inside a method of another live instance #Agent (any instantiation).
	Route string `json:"route,omitempty"`
	Store string `json:"store,omitempty"` // syntax of the store statement inside that code (formOrder): "" | "dyn" | "expr" | "each"
	Agent int    `json:"agent,omitempty"` // pour / relay / clos: the live instance whose method performs the write
	// Site (on `new` ops): the instantiation is written once, inside a function `mk_j()`, and every `new` op of the
	// history with the same text calls that function — ONE syntactic `new G<…>` site executed several times.
	Site bool `json:"site,omitempty"`
	// Att: an instantiation attempt that leaves no live instance, at a shared site (site histories only):
	//   "boom"  mk_j("boom"): the same site as `new G<Args>`, the constructor throws;
	//   "under" `new Pair<A>()`: one type argument too few — may be refused (origami: caught Go panic); if an object
	//           comes back, its member k is bound to A and is probed with every value kind;
	//   "over"  `new Box<A,B>()`: one too many — same, member v bound to A.
	Att string `json:"att,omitempty"`
	Val string `json:"val,omitempty"` // value kind
}

// Write routes, simplest first (the reducer prefers a smaller rank).
//
//	prop   top level:                      $t->m = x                       (public members only)
//	meth   the target's own method:        $t->set_m(x)   { $this->m = $x }
//	fn     a plain function:               put_m($t, x)   { $o->m = $x }   (public members only)
//	ext    a method of an unrelated class: $ext->put_m($t, x)              (public members only)
//	stat   a static method of the generic: G::sput_m($t, x) { $o->m = $x }
//	pour   a method of live instance #a:   $a->pour_m($t, x) { $o->m = $x }   — code of ANOTHER instantiation stores into $t
//	relay  a method of live instance #a:   $a->relay_m($t, x) { $o->set_m($x) } — $t's own method called from inside #a's
//	clos   a closure made in #a's method:  $a->cpour_m($t, x) { (function() use ($o,$x) { $o->m = $x; })() }
var routeOrder = []string{"prop", "meth", "fn", "ext", "stat", "pour", "relay", "clos"}

func routeRank(r string) int {
	for i, x := range routeOrder {
		if x == r {
			return i
		}
	}
	return 99
}

func agentRoute(r string) bool { return r == "pour" || r == "relay" || r == "clos" }

// publicOnly: the store is executed by code outside the generic class, which may only touch public members.
func publicOnly(r string) bool { return r == "prop" || r == "fn" || r == "ext" }

// sameClassAgent: for a non-public member the agent's code must belong to the target's own generic class
// (any instantiation of it); relay only calls the target's public method, so any live instance may do it.
func sameClassAgent(r, vis string) bool { return vis != "" && (r == "pour" || r == "clos") }

var visOrder = []string{"", "prot", "priv"}

func visRank(v string) int {
	for i, x := range visOrder {
		if x == v {
			return i
		}
	}
	return 99
}

func visPrefix(v string) string {
	switch v {
	case "prot":
		return "Prot"
	case "priv":
		return "Priv"
	}
	return ""
}

func visKeyword(v string) string {
	switch v {
	case "prot":
		return "protected"
	case "priv":
		return "private"
	}
	return "public"
}

// visOf is the visibility variant a history uses (that of its first `new`).
func visOf(seq []Op) string {
	for _, o := range seq {
		if o.New {
			return o.Vis
		}
	}
	return ""
}

// siteMode: the history's instantiations go through shared `new` sites.
func siteMode(seq []Op) bool {
	for _, o := range seq {
		if o.Site || o.Att != "" {
			return true
		}
	}
	return false
}

// attKinds: the value kinds an under-/over-applied object is probed with.
var attKinds = []string{"int", "string", "array", "U"}

// siteText identifies a site: ops with equal text share one function.
func siteText(o Op) string {
	if o.Att == "under" || o.Att == "over" {
		return "att " + o.G + "<" + strings.Join(o.Args, ",") + ">"
	}
	return "new " + o.Raw + o.G + "<" + strings.Join(o.Args, ",") + ">"
}

// extended: the history uses a route beyond prop/meth or a non-public variant, so the class declarations need
// the extra methods (histories of the older plans keep exactly their old script).
func extended(seq []Op) bool {
	for _, o := range seq {
		if o.Site || o.Att != "" {
			return true
		}
		if o.New && o.Vis != "" {
			return true
		}
		if !o.New && (o.Route != "prop" && o.Route != "meth" || o.Store != "") {
			return true
		}
	}
	return false
}

func (o Op) String() string {
	if o.New {
		vp := visPrefix(o.Vis)
		if o.Site {
			vp = "site " + vp // reads "new site Box<int>"
		}
		switch o.Raw {
		case "raw":
			return "new " + vp + o.G + "()"
		case "sub":
			return "new Any" + vp + o.G + "()"
		}
		outer := vp + o.G + "<" + strings.Join(o.Args, ",") + ">"
		inner := vp + o.G2 + "<" + strings.Join(o.Args2, ",") + ">"
		switch o.Form {
		case "ctor":
			return "new " + outer + "(new " + inner + ")"
		case "short":
			return outer + "(" + inner + "())"
		case "chain":
			return "new " + outer + "->take(new " + inner + ")"
		}
		return "new " + outer
	}
	switch o.Att {
	case "boom":
		return "failed site new " + visPrefix(o.Vis) + o.G + "<" + strings.Join(o.Args, ",") + ">(boom)"
	case "under", "over":
		return "attempt site new " + visPrefix(o.Vis) + o.G + "<" + strings.Join(o.Args, ",") + ">"
	}
	name := methName(o.Route, o.Store, o.Member)
	switch o.Route {
	case "meth":
		return fmt.Sprintf("#%d.%s(%s)", o.Inst, name, o.Val)
	case "fn":
		return fmt.Sprintf("%s(#%d,%s)", name, o.Inst, o.Val)
	case "ext":
		return fmt.Sprintf("ext.%s(#%d,%s)", name, o.Inst, o.Val)
	case "stat":
		return fmt.Sprintf("static::%s(#%d,%s)", name, o.Inst, o.Val)
	case "pour", "relay", "clos":
		return fmt.Sprintf("#%d.%s(#%d,%s)", o.Agent, name, o.Inst, o.Val)
	}
	if o.Store != "" {
		return fmt.Sprintf("#%d.%s=%s [%s]", o.Inst, o.Member, o.Val, o.Store)
	}
	return fmt.Sprintf("#%d.%s=%s", o.Inst, o.Member, o.Val)
}

// creates is the number of instances an op adds (nested instantiations add the inner one too).
func (o Op) creates() int {
	if !o.New {
		return 0
	}
	if o.Form != "" {
		return 2
	}
	return 1
}

// instGenerics lists the generic class of every live instance, in creation order.
func instGenerics(seq []Op) []string {
	var gs []string
	for _, o := range seq {
		if o.New {
			gs = append(gs, o.G)
			if o.Form != "" {
				gs = append(gs, o.G2)
			}
		}
	}
	return gs
}

func seqString(s []Op) string {
	p := make([]string, len(s))
	for i, o := range s {
		p[i] = o.String()
	}
	return strings.Join(p, "; ")
}

// kinds, ordered by "simplicity" (used by the reducer: smaller index = simpler)
var allKinds = []string{"int", "string", "array", "U", "W"}

func kindRank(k string) int {
	for i, x := range allKinds {
		if x == k {
			return i
		}
	}
	return 99
}

// members of each generic class, in type-parameter order
var members = map[string][]string{"Box": {"v"}, "Pair": {"k", "v"}}

type alpha struct {
	Generics []string // generic classes that may be instantiated
	Types    []string // kinds usable as type arguments
	Vals     []string // kinds of written values
	Routes   []string
	Nested   bool     // also nested instantiations (ctor / short / chain forms) with every inner G2<Args2>
	Raw      bool     // also `new G()` without type arguments and `new AnyG()` (class AnyG extends G {})
	Vis      string   `json:",omitempty"` // visibility variant of the generic classes ("" public | "prot" | "priv")
	Sites    bool     `json:",omitempty"` // every `new` text is one shared site (function) + failing attempts at shared sites
	Stores   []string `json:",omitempty"` // store forms (formOrder); empty = the plain form only
}

func (a alpha) stores() []string {
	if len(a.Stores) == 0 {
		return []string{""}
	}
	return a.Stores
}

// routes of the alphabet that are valid for its visibility variant
func (a alpha) routes() []string {
	var out []string
	for _, r := range a.Routes {
		if a.Vis != "" && publicOnly(r) {
			continue
		}
		out = append(out, r)
	}
	return out
}

// concretisation (seed-dependent): identifier names and literal pools; the shape space is unchanged.
type concr struct {
	box, pair, u, w string
	inst            string
	ints            []string
	strs            []string
	arrs            []string
}

func newConcr(seed int64) concr {
	sfx := ""
	if seed != 0 {
		sfx = fmt.Sprintf("%d", seed%97)
	}
	ints := []string{"7", "0", "-3", "41"}
	strs := []string{`"s"`, `"abc"`, `"x y"`, `""`}
	arrs := []string{"[1]", "[]", `["a"]`, "[1,2]"}
	r := int(seed % 4)
	if r < 0 {
		r = -r
	}
	return concr{box: "Box" + sfx, pair: "Pair" + sfx, u: "U" + sfx, w: "W" + sfx, inst: "i" + sfx + "_",
		ints: ints[r:], strs: strs[r:], arrs: arrs[r:]}
}

func (c concr) typeName(k string) string {
	switch k {
	case "U":
		return c.u
	case "W":
		return c.w
	}
	return k
}

// literal returns source text and the json_encode rendering of a value of kind k.
func (c concr) literal(k string) (src, js string) {
	switch k {
	case "int":
		return c.ints[0], c.ints[0]
	case "string":
		return c.strs[0], c.strs[0]
	case "array":
		return c.arrs[0], c.arrs[0]
	case "U":
		return "new " + c.u + "()", `{"n":1}`
	case "W":
		return "new " + c.w + "()", `{"n":2}`
	}
	panic("kind " + k)
}

func (c concr) prelude() string { return c.preludeFor("", false, nil) }

// className of generic g ("Box" | "Pair") in visibility variant vis.
func (c concr) className(g, vis string) string {
	if g == "Pair" {
		return visPrefix(vis) + c.pair
	}
	return visPrefix(vis) + c.box
}

// Store forms (the syntax of the store statement inside whichever code executes it), simplest first.
//
//	""     $o->m = $x;
//	dyn    $o->{"m"} = $x;              dynamic member name (node/call_object_dynamic_property.go)
//	expr   $r = ($o->m = $x);           the assignment used as an expression (node/binary_assign.go)
//	each   foreach ([$x] as $o->m) { }  the member as a foreach target
//
// (`[$o->m] = [$x]` is not an entry: origami does not store anything through it, typed member or not.)
var formOrder = []string{"", "dyn", "expr", "each"}

func formRank(f string) int {
	for i, x := range formOrder {
		if x == f {
			return i
		}
	}
	return 99
}

func storeStmt(obj, member, form, val string) string {
	switch form {
	case "dyn":
		return fmt.Sprintf("%s->{\"%s\"} = %s;", obj, member, val)
	case "expr":
		return fmt.Sprintf("$r = (%s->%s = %s);", obj, member, val)
	case "each":
		return fmt.Sprintf("foreach ([%s] as %s->%s) { }", val, obj, member)
	}
	return fmt.Sprintf("%s->%s = %s;", obj, member, val)
}

// methName: set_v, set_dyn_v, pour_v, pour_each_k, …
func methName(route, form, member string) string {
	base := map[string]string{"meth": "set", "fn": "put", "ext": "put", "stat": "sput", "pour": "pour", "relay": "relay", "clos": "cpour"}[route]
	if form != "" {
		base += "_" + form
	}
	return base + "_" + member
}

type need struct{ route, form, member string }

// needs lists the (route, form, member) bodies a history calls, in first-use order; relay also needs the
// target's own set method of that form.
func needs(seq []Op) []need {
	var out []need
	seen := map[need]bool{{"meth", "", "k"}: true, {"meth", "", "v"}: true} // always declared
	add := func(n need) {
		if !seen[n] {
			seen[n] = true
			out = append(out, n)
		}
	}
	for _, o := range seq {
		if o.New || o.Route == "prop" {
			continue
		}
		if o.Route == "relay" {
			add(need{"meth", o.Store, o.Member})
		}
		add(need{o.Route, o.Store, o.Member})
	}
	return out
}

// methodDecls: the class-body methods for the needed bodies. tparam maps a member of THIS class to the name
// of its type parameter (set methods exist only for the class's own members; the other bodies exist for
// every member name so that an instance of one generic class can act on the other one's member).
func methodDecls(ns []need, tparam map[string]string) string {
	var sb strings.Builder
	for _, n := range ns {
		name := methName(n.route, n.form, n.member)
		switch n.route {
		case "meth":
			if tp, ok := tparam[n.member]; ok {
				fmt.Fprintf(&sb, "  public function %s(%s $x) { %s return 1; }\n", name, tp, storeStmt("$this", n.member, n.form, "$x"))
			}
		case "stat":
			fmt.Fprintf(&sb, "  public static function %s($o, $x) { %s return 1; }\n", name, storeStmt("$o", n.member, n.form, "$x"))
		case "pour":
			fmt.Fprintf(&sb, "  public function %s($o, $x) { %s return 1; }\n", name, storeStmt("$o", n.member, n.form, "$x"))
		case "relay":
			fmt.Fprintf(&sb, "  public function %s($o, $x) { $o->%s($x); return 1; }\n", name, methName("meth", n.form, n.member))
		case "clos":
			fmt.Fprintf(&sb, "  public function %s($o, $x) { $f = function() use ($o, $x) { %s return 1; }; $f(); return 1; }\n", name, storeStmt("$o", n.member, n.form, "$x"))
		}
	}
	return sb.String()
}

// preludeFor declares the classes of one visibility variant. ext=false is the original text (public members,
// plain set_ methods only); ext=true adds getters and exactly the method bodies the history calls.
func (c concr) preludeFor(vis string, ext bool, ns []need, site ...bool) string {
	var sb strings.Builder
	ctor := "public function __construct($inner = null) { $this->inner = $inner; }"
	if len(site) > 0 && site[0] {
		ctor = "public function __construct($inner = null) { if ($inner === \"boom\") { throw new Exception(\"boom\"); } $this->inner = $inner; }"
	}
	fmt.Fprintf(&sb, "class %s { public $n = 1; }\n", c.u)
	fmt.Fprintf(&sb, "class %s { public $n = 2; }\n", c.w)
	box, pair, kw := c.className("Box", vis), c.className("Pair", vis), visKeyword(vis)
	fmt.Fprintf(&sb, "class %s<T> {\n  %s T $v;\n  public $inner = null;\n  "+ctor+"\n  public function take($x) { $this->inner = $x; return $this; }\n  public function set_v(T $x) { $this->v = $x; return 1; }\n", box, kw)
	if ext {
		sb.WriteString("  public function get_v() { return $this->v; }\n" + methodDecls(ns, map[string]string{"v": "T"}))
	}
	sb.WriteString("}\n")
	fmt.Fprintf(&sb, "class %s<K, V> {\n  %s K $k;\n  %s V $v;\n  public $inner = null;\n  "+ctor+"\n  public function take($x) { $this->inner = $x; return $this; }\n  public function set_k(K $x) { $this->k = $x; return 1; }\n  public function set_v(V $x) { $this->v = $x; return 1; }\n", pair, kw, kw)
	if ext {
		sb.WriteString("  public function get_k() { return $this->k; }\n  public function get_v() { return $this->v; }\n" + methodDecls(ns, map[string]string{"k": "K", "v": "V"}))
	}
	sb.WriteString("}\n")
	fmt.Fprintf(&sb, "class Any%s extends %s { }\nclass Any%s extends %s { }\n", box, box, pair, pair)
	// code outside the generic classes: plain functions and methods of an unrelated class
	var extBody strings.Builder
	for _, n := range ns {
		switch n.route {
		case "fn":
			fmt.Fprintf(&sb, "function %s%s($o, $x) { %s return 1; }\n", c.inst, methName("fn", n.form, n.member), storeStmt("$o", n.member, n.form, "$x"))
		case "ext":
			fmt.Fprintf(&extBody, "  public function %s($o, $x) { %s return 1; }\n", methName("ext", n.form, n.member), storeStmt("$o", n.member, n.form, "$x"))
		}
	}
	if extBody.Len() > 0 {
		fmt.Fprintf(&sb, "class Ext%s {\n%s}\n$%sext = new Ext%s();\n", c.box, extBody.String(), c.inst, c.box)
	}
	return sb.String()
}

// script prints one line per op: "N" for a successful new ("X" if it threw), and for a write
// "A:<json of the member>" if the write was accepted, "R:<json of the member>" if it threw.
func (c concr) script(seq []Op) string {
	var sb strings.Builder
	vis, ext := visOf(seq), extended(seq)
	sites := siteMode(seq)
	sb.WriteString(c.preludeFor(vis, ext, needs(seq), sites))
	gens := instGenerics(seq)
	clsOf := func(o Op) string {
		g := c.className(o.G, vis)
		ta := make([]string, len(o.Args))
		for i, a := range o.Args {
			ta[i] = c.typeName(a)
		}
		switch o.Raw {
		case "raw":
			return g
		case "sub":
			return "Any" + g
		}
		return g + "<" + strings.Join(ta, ", ") + ">"
	}
	// one function per distinct `new` text: the body is the only syntactic occurrence of that instantiation
	siteFn := map[string]string{}
	if sites {
		for _, o := range seq {
			if !o.New && o.Att == "" {
				continue
			}
			t := siteText(o)
			if _, ok := siteFn[t]; ok {
				continue
			}
			fn := fmt.Sprintf("%smk%d", c.inst, len(siteFn))
			siteFn[t] = fn
			if o.Att == "under" || o.Att == "over" {
				fmt.Fprintf(&sb, "function %s() { return new %s(); }\n", fn, clsOf(o))
			} else {
				fmt.Fprintf(&sb, "function %s($a = null) { return new %s($a); }\n", fn, clsOf(o))
			}
		}
	}
	n := 0
	for _, o := range seq {
		switch o.Att {
		case "boom":
			fmt.Fprintf(&sb, "try { $t = %s(\"boom\"); echo \"N\\n\"; } catch (Throwable $e) { echo \"X\\n\"; }\n", siteFn[siteText(o)])
			continue
		case "under", "over":
			m := "k"
			if o.Att == "over" {
				m = "v"
			}
			fmt.Fprintf(&sb, "try { $t = %s(); $r = \"N:\";\n", siteFn[siteText(o)])
			for _, k := range attKinds {
				lit, _ := c.literal(k)
				fmt.Fprintf(&sb, "  try { $t->%s = %s; $r = $r . \"A\"; } catch (Throwable $e) { $r = $r . \"R\"; }\n", m, lit)
			}
			sb.WriteString("  echo $r, \"\\n\"; } catch (Throwable $e) { echo \"X\\n\"; }\n")
			continue
		}
		if o.New {
			cls := clsOf(o)
			if o.Site {
				fmt.Fprintf(&sb, "try { $%s%d = %s(); echo \"N\\n\"; } catch (Throwable $e) { echo \"X\\n\"; }\n", c.inst, n, siteFn[siteText(o)])
				n++
				continue
			}
			if o.Form != "" {
				g2 := c.className(o.G2, vis)
				tb := make([]string, len(o.Args2))
				for i, a := range o.Args2 {
					tb[i] = c.typeName(a)
				}
				in := g2 + "<" + strings.Join(tb, ", ") + ">"
				expr := ""
				switch o.Form {
				case "ctor":
					expr = "new " + cls + "(new " + in + "())"
				case "short":
					expr = cls + "(" + in + "())"
				case "chain":
					expr = "new " + cls + "()->take(new " + in + "())"
				}
				fmt.Fprintf(&sb, "try { $%s%d = %s; $%s%d = $%s%d->inner; echo \"N\\n\"; } catch (Throwable $e) { echo \"X\\n\"; }\n", c.inst, n, expr, c.inst, n+1, c.inst, n)
				n += 2
				continue
			}
			fmt.Fprintf(&sb, "try { $%s%d = new %s(); echo \"N\\n\"; } catch (Throwable $e) { echo \"X\\n\"; }\n", c.inst, n, cls)
			n++
			continue
		}
		lit, _ := c.literal(o.Val)
		v := fmt.Sprintf("$%s%d", c.inst, o.Inst)
		var stmt string
		ag := fmt.Sprintf("$%s%d", c.inst, o.Agent)
		name := methName(o.Route, o.Store, o.Member)
		switch o.Route {
		case "meth":
			stmt = fmt.Sprintf("%s->%s(%s);", v, name, lit)
		case "fn":
			stmt = fmt.Sprintf("%s%s(%s, %s);", c.inst, name, v, lit)
		case "ext":
			stmt = fmt.Sprintf("$%sext->%s(%s, %s);", c.inst, name, v, lit)
		case "stat":
			g := "Box"
			if o.Inst >= 0 && o.Inst < len(gens) {
				g = gens[o.Inst]
			}
			stmt = fmt.Sprintf("%s::%s(%s, %s);", c.className(g, vis), name, v, lit)
		case "pour", "relay", "clos":
			stmt = fmt.Sprintf("%s->%s(%s, %s);", ag, name, v, lit)
		default:
			stmt = storeStmt(v, o.Member, o.Store, lit)
		}
		read := fmt.Sprintf("%s->%s", v, o.Member)
		if vis != "" {
			read = fmt.Sprintf("%s->get_%s()", v, o.Member) // a non-public member is read back through its getter
		}
		fmt.Fprintf(&sb, "try { %s echo \"A\"; } catch (Throwable $e) { echo \"R\"; } echo \":\", json_encode(%s), \"\\n\";\n", stmt, read)
	}
	return sb.String()
}

// ---- reference model ---------------------------------------------------------------------

type instance struct {
	g      string
	bind   map[string]string // member -> kind of its type argument
	stored map[string]string // member -> json of the stored value
}

// expect returns the expected output lines; ok=false if the sequence is ill-formed.
func (c concr) expect(seq []Op) (lines []string, ok bool) {
	var live []*instance
	vis := visOf(seq)
	sites := siteMode(seq)
	for _, o := range seq {
		if o.Att != "" {
			// an attempt leaves no live instance. boom: not judged. under / over: the language may refuse the
			// instantiation; if it hands out an object, the member whose parameter DID get an argument enforces it.
			if o.New || vis != "" {
				return nil, false
			}
			bound := ""
			switch {
			case o.Att == "boom" && len(o.Args) == len(members[o.G]) && len(o.Args) > 0:
				lines = append(lines, "*")
				continue
			case o.Att == "under" && o.G == "Pair" && len(o.Args) == 1, o.Att == "over" && o.G == "Box" && len(o.Args) == 2:
				bound = o.Args[0]
			default:
				return nil, false
			}
			vec := "N:"
			for _, k := range attKinds {
				if k == bound {
					vec += "A"
				} else {
					vec += "R"
				}
			}
			lines = append(lines, "X|"+vec)
			continue
		}
		if o.New {
			if o.Vis != vis || visRank(vis) > 2 {
				return nil, false // one visibility variant per history
			}
			if o.Site != sites || o.Site && o.Form != "" {
				return nil, false // all instantiations of a site history go through sites; nested forms do not
			}
			ms := members[o.G]
			if o.Raw == "" && len(ms) != len(o.Args) || o.Raw != "" && len(o.Args) != 0 {
				return nil, false
			}
			in := &instance{g: o.G, bind: map[string]string{}, stored: map[string]string{}}
			for i, m := range ms {
				if o.Raw != "" {
					// no type argument was given: what such an object accepts is not part of the
					// statement; its writes are run (they touch the shared template) but not judged
					in.bind[m] = "*"
				} else {
					in.bind[m] = o.Args[i]
				}
				in.stored[m] = "null"
			}
			live = append(live, in)
			if o.Form != "" {
				ms2 := members[o.G2]
				if o.Raw != "" || len(ms2) == 0 || len(ms2) != len(o.Args2) {
					return nil, false
				}
				in2 := &instance{g: o.G2, bind: map[string]string{}, stored: map[string]string{}}
				for i, m := range ms2 {
					in2.bind[m] = o.Args2[i]
					in2.stored[m] = "null"
				}
				live = append(live, in2)
			}
			lines = append(lines, "N")
			continue
		}
		if o.Inst < 0 || o.Inst >= len(live) {
			return nil, false
		}
		in := live[o.Inst]
		own, has := in.bind[o.Member]
		if !has {
			return nil, false
		}
		// who may execute the store is a matter of visibility, not of C19: only routes whose code is allowed
		// to touch the member are in the space. The agent's own type arguments never enter the expectation.
		if routeRank(o.Route) >= len(routeOrder) || formRank(o.Store) >= len(formOrder) || vis != "" && publicOnly(o.Route) {
			return nil, false
		}
		if agentRoute(o.Route) {
			if o.Agent < 0 || o.Agent >= len(live) || sameClassAgent(o.Route, vis) && live[o.Agent].g != in.g {
				return nil, false
			}
		} else if o.Agent != 0 {
			return nil, false
		}
		if own == "*" {
			lines = append(lines, "*")
			continue
		}
		// the whole oracle: an instance accepts exactly the kind of its own type argument
		if own == o.Val {
			_, js := c.literal(o.Val)
			in.stored[o.Member] = js
			lines = append(lines, "A:"+js)
		} else {
			lines = append(lines, "R:"+in.stored[o.Member])
		}
	}
	return lines, true
}

func typedNews(a alpha) []Op {
	var out []Op
	for _, g := range a.Generics {
		if len(members[g]) == 1 {
			for _, t := range a.Types {
				out = append(out, Op{New: true, G: g, Args: []string{t}})
			}
		} else {
			for _, t1 := range a.Types {
				for _, t2 := range a.Types {
					out = append(out, Op{New: true, G: g, Args: []string{t1, t2}})
				}
			}
		}
	}
	return out
}

// successors appends every op that may follow seq under alphabet a.
func successors(seq []Op, a alpha, out []Op) []Op {
	out = out[:0]
	plain := typedNews(a)
	out = append(out, plain...)
	if a.Nested {
		for _, form := range []string{"ctor", "short", "chain"} {
			for _, o := range plain {
				for _, in := range plain {
					// the `new`-less short form is only parsed for one type argument (`Pair<int,int>()`
					// reads as comparisons — a syntax limit, not C19's subject)
					if form == "short" && (o.G != "Box" || in.G != "Box") {
						continue
					}
					out = append(out, Op{New: true, G: o.G, Args: o.Args, Form: form, G2: in.G, Args2: in.Args})
				}
			}
		}
	}
	if a.Raw {
		for _, g := range a.Generics {
			out = append(out, Op{New: true, G: g, Raw: "raw"}, Op{New: true, G: g, Raw: "sub"})
		}
	}
	if a.Vis != "" {
		for i := range out {
			out[i].Vis = a.Vis
		}
	}
	if a.Sites {
		for i := range out {
			out[i].Site = true
		}
		for _, o := range plain {
			out = append(out, Op{Att: "boom", G: o.G, Args: o.Args})
		}
		for _, g := range a.Generics {
			for _, t := range a.Types {
				if g == "Pair" {
					out = append(out, Op{Att: "under", G: "Pair", Args: []string{t}})
					continue
				}
				for _, t2 := range a.Types {
					out = append(out, Op{Att: "over", G: "Box", Args: []string{t, t2}})
				}
			}
		}
	}
	gens := instGenerics(seq)
	for n, g := range gens {
		for _, m := range members[g] {
			for _, r := range a.routes() {
				for _, f := range a.stores() {
					for _, v := range a.Vals {
						if !agentRoute(r) {
							out = append(out, Op{Inst: n, Member: m, Route: r, Store: f, Val: v})
							continue
						}
						for ag, gg := range gens {
							if sameClassAgent(r, a.Vis) && gg != g {
								continue
							}
							out = append(out, Op{Inst: n, Member: m, Route: r, Store: f, Val: v, Agent: ag})
						}
					}
				}
			}
		}
	}
	return out
}
